"""Canonical wire rendering of real bibtexparser blocks (mirror of encBlock/decBlock in Sx.lean)."""
from bibtexparser import model as M
from bibtexparser.middlewares.names import NameParts

from .wire import Sym


def enc_val(v):
    if isinstance(v, bool):
        return [Sym("opaque"), 1]
    if isinstance(v, (str, int)):
        return v
    if isinstance(v, NameParts):
        return [Sym("part"), [Sym("np"), list(v.first), list(v.von), list(v.last), list(v.jr)]]
    if isinstance(v, list) and all(isinstance(x, str) for x in v):
        return [Sym("names")] + list(v)
    if isinstance(v, list) and all(isinstance(x, NameParts) for x in v):
        return [Sym("parts")] + [[Sym("np"), list(p.first), list(p.von), list(p.last), list(p.jr)] for p in v]
    return [Sym("opaque"), 0]


def enc_meta(v):
    if isinstance(v, bool):
        return v
    if isinstance(v, str):
        return v
    if isinstance(v, dict):
        return [Sym("dict")] + [[k, str(x)] for k, x in v.items()]
    if isinstance(v, (list, tuple)):
        return [Sym("strs")] + [str(x) for x in v]
    return str(v)


def enc_md(d, keys=None):
    return [Sym("md")] + [[k, enc_meta(v)] for k, v in d.items() if keys is None or k in keys]


def enc_field(f):
    return [Sym("f"), f.key, enc_val(f.value), -999 if f.start_line is None else f.start_line]


def _line(b):
    return -999 if b.start_line is None else b.start_line


def _raw(b):
    return "" if b.raw is None else b.raw


def enc_entry(e, md=True):
    return [Sym("entry"), e.entry_type, e.key, [enc_field(f) for f in e.fields], _line(e), _raw(e),
            enc_md(e.parser_metadata) if md else [Sym("md")]]


def enc_live(b, md=True):
    m = enc_md(b.parser_metadata) if md else [Sym("md")]
    if isinstance(b, M.Entry):
        return enc_entry(b, md)
    if isinstance(b, M.String):
        return [Sym("string"), b.key, enc_val(b.value), _line(b), _raw(b), m]
    if isinstance(b, M.Preamble):
        return [Sym("preamble"), b.value, _line(b), _raw(b), m]
    if isinstance(b, M.ExplicitComment):
        return [Sym("expl"), b.comment, _line(b), _raw(b), m]
    if isinstance(b, M.ImplicitComment):
        return [Sym("impl"), b.comment, _line(b), _raw(b), m]
    raise TypeError("not a live block: %r" % type(b))


_ABORT = [
    ("Unexpectedly reached end of file", "eof"),
    ("Was still looking for closing bracket", "atInBracket"),
    ("Was still looking for field-value closing", "atInValue"),
    ("Expected a `=` after entry key", "expectedEq"),
    ("Expected comma after entry key", "expectedComma"),
    ("Expected equals sign after field key", "expectedEqString"),
]


def fail_class(err):
    reason = getattr(err, "abort_reason", None)
    if reason is not None:
        for needle, name in _ABORT:
            if needle in reason:
                return Sym(name)
    return Sym("other:" + type(err).__name__)


def mw_class(err):
    n = type(err).__name__
    return Sym({"InvalidNameError": "invalidName", "PartialMiddlewareException": "partialMw"}.get(n, "other:" + n))


def enc_block(b, md=True, prev=True):
    """prev=False: a duplicate-key block shows previous_block only as (class, key) - see encBlockShallow"""
    if isinstance(b, M.DuplicateBlockKeyBlock) and not prev:
        p = b.previous_block
        kind = "entry" if isinstance(p, M.Entry) else "string" if isinstance(p, M.String) else "other"
        return [Sym("dupkey"), b.key, [Sym("prev"), Sym(kind), getattr(p, "key", "")], enc_live(b.ignore_error_block, md)]
    if isinstance(b, M.DuplicateFieldKeyBlock):
        return [Sym("dupfield"), sorted(b.duplicate_keys), enc_entry(b.ignore_error_block, md)]
    if isinstance(b, M.DuplicateBlockKeyBlock):
        return [Sym("dupkey"), b.key, enc_live(b.previous_block, md), enc_live(b.ignore_error_block, md)]
    if isinstance(b, M.MiddlewareErrorBlock):
        return [Sym("mwerror"), mw_class(b.error), enc_live(b.ignore_error_block, md)]
    if isinstance(b, M.ParsingFailedBlock):
        return [Sym("failed"), fail_class(b.error), _line(b), _raw(b)]
    return enc_live(b, md)


def enc_blocks(bs, md=True, prev=True):
    return [enc_block(b, md, prev) for b in bs]


# --- building real blocks from a decoded wire description ---------------------------------------

def dec_val(x):
    if isinstance(x, (str, int)) and not isinstance(x, Sym):
        return x
    if isinstance(x, list) and x and x[0] == "names":
        return list(x[1:])
    if isinstance(x, list) and x and x[0] == "parts":
        return [NameParts(first=list(p[1]), von=list(p[2]), last=list(p[3]), jr=list(p[4])) for p in x[1:]]
    if isinstance(x, list) and x and x[0] == "part":
        p = x[1]
        return NameParts(first=list(p[1]), von=list(p[2]), last=list(p[3]), jr=list(p[4]))
    if isinstance(x, list) and x and x[0] == "opaque":
        return object()
    raise ValueError("bad value %r" % (x,))


def dec_meta(x):
    if x == "T" and isinstance(x, Sym):
        return True
    if x == "F" and isinstance(x, Sym):
        return False
    if isinstance(x, list) and x and x[0] == "dict":
        return {k: v for k, v in x[1:]}
    if isinstance(x, list) and x and x[0] == "strs":
        return list(x[1:])
    return x


def _set_md(b, md):
    for k, v in md[1:]:
        b.parser_metadata[k] = dec_meta(v)
    return b


def dec_live(x):
    t = x[0]
    if t == "entry":
        fields = [M.Field(key=f[1], value=dec_val(f[2]), start_line=f[3]) for f in x[3]]
        return _set_md(M.Entry(entry_type=x[1], key=x[2], fields=fields, start_line=x[4], raw=x[5]), x[6])
    if t == "string":
        return _set_md(M.String(key=x[1], value=dec_val(x[2]), start_line=x[3], raw=x[4]), x[5])
    if t == "preamble":
        return _set_md(M.Preamble(value=x[1], start_line=x[2], raw=x[3]), x[4])
    if t == "expl":
        return _set_md(M.ExplicitComment(comment=x[1], start_line=x[2], raw=x[3]), x[4])
    if t == "impl":
        return _set_md(M.ImplicitComment(comment=x[1], start_line=x[2], raw=x[3]), x[4])
    raise ValueError("bad live block %r" % (t,))


def dec_block(x):
    from bibtexparser.exceptions import BlockAbortedException, PartialMiddlewareException
    from bibtexparser.middlewares.names import InvalidNameError
    t = x[0]
    if t == "failed":
        reason = {v: k for k, v in _ABORT}.get(str(x[1]), str(x[1]))
        return M.ParsingFailedBlock(error=BlockAbortedException(abort_reason=reason), start_line=x[2], raw=x[3])
    if t == "dupfield":
        return M.DuplicateFieldKeyBlock(duplicate_keys=set(x[1]), entry=dec_live(x[2]))
    if t == "dupkey":
        d = dec_live(x[3])
        return M.DuplicateBlockKeyBlock(key=x[1], previous_block=dec_live(x[2]), duplicate_block=d,
                                        start_line=d.start_line, raw=d.raw)
    if t == "mwerror":
        err = InvalidNameError("?", "?") if x[1] == "invalidName" else PartialMiddlewareException(["?"])
        return M.MiddlewareErrorBlock(block=dec_live(x[2]), error=err)
    return dec_live(x)
