"""Helpers shared by the name properties C12, C13, C14 (not part of the framework core).

* building real `Entry` blocks / running the real name middlewares for `namestack` cases,
* the independent reference functions used by the oracles (ported from the design-round
  statement checks s12/s13/s14): a word-level co-author splitter, a sectioniser for single
  names, the First/von/Last/Jr partition rule,
* loading the repository's own BibTeX-derived name corpus from tests/.
"""
import ast
import os
import re
import sys

from .wire import Sym, enc

CO_WS = " \r\n\t"          # whitespace of split_multiple_persons_names
NAME_WS = " ~\r\n\t"       # whitespace of parse_single_name_into_parts

OPS = ("separate", "mergeCo", "splitParts", "mergePartsLast", "mergePartsFirst")


def repo_dir():
    return os.environ.get("VERIF_REPO", "/repo")


# ------------------------------------------------------------------------------------------------
# real middlewares on one block

def make_mw(op, inplace=True):
    from bibtexparser.middlewares import names as N
    if op == "separate":
        return N.SeparateCoAuthors(allow_inplace_modification=inplace)
    if op == "mergeCo":
        return N.MergeCoAuthors(allow_inplace_modification=inplace)
    if op == "splitParts":
        return N.SplitNameParts(allow_inplace_modification=inplace)
    if op == "mergePartsLast":
        return N.MergeNameParts(style="last", allow_inplace_modification=inplace)
    if op == "mergePartsFirst":
        return N.MergeNameParts(style="first", allow_inplace_modification=inplace)
    raise ValueError(op)


def dec_value(v):
    """JSON description of a field value -> Python value"""
    from bibtexparser.middlewares.names import NameParts
    if "s" in v:
        return v["s"]
    if "i" in v:
        return v["i"]
    if "names" in v:
        return list(v["names"])
    if "parts" in v:
        return [NameParts(first=list(p[0]), von=list(p[1]), last=list(p[2]), jr=list(p[3])) for p in v["parts"]]
    raise ValueError(v)


def value_text(v):
    """all text in a JSON value description (for the Unicode table of a request)"""
    if "s" in v:
        return v["s"]
    if "names" in v:
        return "".join(v["names"])
    if "parts" in v:
        return "".join("".join("".join(ws) for ws in p) for p in v["parts"])
    return ""


def make_entry(fields, key="k", ty="article"):
    from bibtexparser import model as M
    fs = [M.Field(key=k, value=dec_value(v), start_line=i + 1) for i, (k, v) in enumerate(fields)]
    return M.Entry(entry_type=ty, key=key, fields=fs, start_line=0, raw="@%s{%s}" % (ty, key))


def run_groups(block, groups, inplace=True):
    """apply each group of middlewares through the public `transform(library)`; one answer per
    group, stopping at the first exception: [(ok block) ... (raise X)]"""
    from bibtexparser.library import Library
    from . import blocks as B
    out = []
    for g in groups:
        try:
            for op in g:
                lib = make_mw(op, inplace).transform(Library([block]))
                (block,) = lib.blocks
        except Exception as e:  # noqa
            out.append([Sym("raise"), Sym(type(e).__name__)])
            break
        out.append([Sym("ok"), B.enc_block(block)])
    return out


def groups_sx(groups):
    return [[Sym(op) for op in g] for g in groups]


# ------------------------------------------------------------------------------------------------
# C12 reference: word-level splitter (independent of the state machine)

def top_words(s, ws=CO_WS):
    """spans of the top-level words: maximal runs without unescaped depth-0 whitespace"""
    words = []
    i, n, depth, start = 0, len(s), 0, None
    while i < n:
        c = s[i]
        if c == "\\":
            if start is None:
                start = i
            i += 2
            continue
        if c == "{":
            if start is None:
                start = i
            depth += 1
            i += 1
            continue
        if c == "}":
            if start is None:
                start = i
            if depth:
                depth -= 1
            i += 1
            continue
        if depth == 0 and c in ws:
            if start is not None:
                words.append((start, i))
                start = None
            i += 1
            continue
        if start is None:
            start = i
        i += 1
    if start is not None:
        words.append((start, min(i, n)))
    return words


def ref_split(s):
    """an `and` word separates iff the current piece is non-empty and a word follows"""
    s = s.strip(CO_WS)
    if not s:
        return []
    ws = top_words(s)
    pieces, cur = [], []
    for k, (a, b) in enumerate(ws):
        if s[a:b].lower() == "and" and cur and k + 1 < len(ws):
            pieces.append((cur[0][0], cur[-1][1]))
            cur = []
        else:
            cur.append((a, b))
    if cur:
        pieces.append((cur[0][0], cur[-1][1]))
    return [s[a:b] for a, b in pieces]


def balanced(s):
    d, i = 0, 0
    while i < len(s):
        c = s[i]
        if c == "\\":
            i += 2
            continue
        if c == "{":
            d += 1
        elif c == "}":
            d -= 1
            if d < 0:
                return False
        i += 1
    return d == 0


def no_unmatched_close(s):
    """no unescaped `}` at brace depth 0 (the hypothesis of the Lean theorem exact_rule_noClose)"""
    d, i = 0, 0
    while i < len(s):
        c = s[i]
        if c == "\\":
            i += 2
            continue
        if c == "{":
            d += 1
        elif c == "}":
            if d == 0:
                return False
            d -= 1
        i += 1
    return True


_SEP = re.compile(r"[ \r\n\t]+[aA][nN][dD][ \r\n\t]+")


def conservation(s, pieces):
    """stripped input = p0 s1 p1 ... with every separator matching ws+ and ws+ (by position)"""
    t = s.strip(CO_WS)
    if not pieces:
        return None if t == "" else "no pieces for non-blank input %r" % t
    if not t.startswith(pieces[0]):
        return "first piece %r is not a prefix of the stripped input" % pieces[0]
    pos = len(pieces[0])
    for p in pieces[1:]:
        ok = False
        for e in range(pos + 5, len(t) + 1):
            if _SEP.fullmatch(t, pos, e) and t.startswith(p, e):
                pos = e + len(p)
                ok = True
                break
        if not ok:
            return "after position %d no separator `ws+ and ws+` followed by the piece %r (text there: %r)" % (
                pos, p, t[pos:pos + 30])
    if pos != len(t):
        return "characters after the last piece are lost: %r" % t[pos:]
    return None


def has_bare_and(name):
    """does the name contain a bare top-level word and/AND/And... (co-author whitespace)?"""
    return any(name[a:b].lower() == "and" for a, b in top_words(name))


# ------------------------------------------------------------------------------------------------
# C13 reference: sectioniser + partition rule (independent of the one-pass scanner)

def sections_spec(s):
    """comma sections of top-level words; None if the name is invalid"""
    secs = [[]]
    cur = None
    depth, i, n = 0, 0, len(s)
    while i < n:
        c = s[i]
        if c == "\\":
            if i + 1 < n and s[i + 1] not in NAME_WS:
                cur = (cur or "") + s[i:i + 2]
                i += 2
                continue
            cur = (cur or "") + c        # lone backslash (before whitespace or at the end)
            i += 1
            continue
        if c == "{":
            depth += 1
            cur = (cur or "") + c
            i += 1
            continue
        if c == "}":
            if depth == 0:
                return None
            depth -= 1
            cur = (cur or "") + c
            i += 1
            continue
        if depth == 0 and (c in NAME_WS or c == ","):
            if cur is not None:
                secs[-1].append(cur)
                cur = None
            if c == ",":
                if len(secs) == 3:
                    return None
                secs.append([])
            i += 1
            continue
        cur = (cur or "") + c
        i += 1
    if depth:
        return None
    if cur is not None:
        secs[-1].append(cur)
    if not secs[-1]:
        if len(secs) > 1:
            return None
        secs.pop()
    return secs


def word_case(w):
    """BibTeX's case of one word (1 upper, 0 lower, -1 caseless): the first letter that counts
    decides.  Letters count at brace depth 0, as the character of an escape that does not open a
    special character, and inside a special character `{\\cs ...}` (a brace group whose first
    character is a backslash) after its control sequence (the letters following the backslash and
    the one non-letter that ends them do not count); ordinary brace groups are skipped."""
    case, level, i, n = -1, 0, 0, len(w)
    bracestart = controlseq = special = False
    while i < n:
        c = w[i]
        if c == "\\":
            if i + 1 < n and w[i + 1] not in NAME_WS:
                e = w[i + 1]
                if bracestart:
                    bracestart, controlseq, special = False, e.isalpha(), True
                elif case == -1 and e.isalpha():
                    case = 1 if e.isupper() else 0
                i += 2
            else:
                i += 1
            continue
        if c == "{":
            level += 1
            bracestart, controlseq, special = True, False, False
            i += 1
            continue
        bracestart = False
        if c == "}":
            level -= 1
            controlseq = special = False
        elif level > 0:
            if controlseq:
                controlseq = c.isalpha()
            elif special and case == -1 and c.isalpha():
                case = 1 if c.isupper() else 0
        elif case == -1 and c.isalpha():
            case = 1 if c.isupper() else 0
        i += 1
    return case


def rule(secs, case=word_case):
    """the partition rule exactly as the property states it"""
    first, von, last, jr = [], [], [], []
    if not secs or not any(secs):
        return first, von, last, jr
    if len(secs) == 1:
        p = secs[0]
        if len(p) == 1:
            last = p
        elif len(p) == 2:
            first, last = p[:1], p[1:]
        else:
            lows = [i for i, w in enumerate(p[:-1]) if case(w) == 0]
            if lows:
                first, von, last = p[:lows[0]], p[lows[0]:lows[-1] + 1], p[lows[-1] + 1:]
            else:
                first, last = p[:-1], p[-1:]
    else:
        first = secs[-1]
        if len(secs) == 3:
            jr = secs[1]
        p = secs[0]
        lows = [i for i, w in enumerate(p[:-1]) if case(w) == 0]
        k = lows[-1] + 1 if lows else 0
        von, last = p[:k], p[k:]
    return first, von, last, jr


# ------------------------------------------------------------------------------------------------
# the repository's own corpus (inputs only)

def repo_name_corpus():
    """every string literal that tests/middleware_tests/test_names.py passes as a *name* or a
    *co-author field value* in its parametrised cases. Only the inputs are taken (first element of
    each parameter tuple, and the keys of the big REGULAR_NAME_PARTS_PARSING_TEST_CASES table)."""
    path = os.path.join(repo_dir(), "tests", "middleware_tests", "test_names.py")
    try:
        tree = ast.parse(open(path, encoding="utf-8").read())
    except OSError:
        return [], []
    names, fields = [], []

    def first_strings(node):
        out = []
        if isinstance(node, (ast.List, ast.Tuple)):
            for el in node.elts:
                if isinstance(el, ast.Constant) and isinstance(el.value, str):
                    out.append(el.value)
                elif isinstance(el, (ast.Tuple, ast.List)) and el.elts:
                    h = el.elts[0]
                    if isinstance(h, ast.Constant) and isinstance(h.value, str):
                        out.append(h.value)
                elif isinstance(el, ast.Call) and el.args:     # pytest.param("...", ...)
                    h = el.args[0]
                    if isinstance(h, ast.Constant) and isinstance(h.value, str):
                        out.append(h.value)
        return out

    for node in ast.walk(tree):
        if isinstance(node, ast.Assign) and any(isinstance(t, ast.Name) and "NAME_PARTS" in t.id for t in node.targets):
            names.extend(first_strings(node.value))
        if isinstance(node, ast.Call) and getattr(node.func, "attr", "") == "parametrize" and len(node.args) >= 2:
            spec = node.args[0]
            label = spec.value if isinstance(spec, ast.Constant) else ""
            vals = first_strings(node.args[1])
            if isinstance(label, str) and label.startswith("field_value"):
                fields.extend(vals)
            elif isinstance(label, str) and label.startswith("name"):
                names.extend(vals)
    return names, fields
