"""Wire format shared with lean/BibVerif/Wire/Sx.lean: one S-expression per line.

    atom ::= 's' hex ('.' hex)*   a str as code points ('s' alone = empty str)
           | 'i' ['-'] digits      an int
           | symbol                T, F, N, constructor and command names
    sx   ::= atom | '(' sx* ')'

Python values map as: str -> s.., bool -> T/F, None -> N, int -> i.., list/tuple -> (...),
Sym('x') -> x.
"""
import sys


class Sym(str):
    """A bare symbol."""
    __slots__ = ()

    def __repr__(self):
        return "Sym(%s)" % str.__repr__(self)


T, F, N = Sym("T"), Sym("F"), Sym("N")


def enc_str(s):
    return "s" + ".".join("%x" % ord(c) for c in s)


def enc(x):
    if isinstance(x, Sym):
        return str(x)
    if isinstance(x, str):
        return enc_str(x)
    if x is True:
        return "T"
    if x is False:
        return "F"
    if x is None:
        return "N"
    if isinstance(x, int):
        return "i%d" % x
    if isinstance(x, (list, tuple)):
        return "(" + " ".join(enc(y) for y in x) + ")"
    raise TypeError("cannot encode %r" % (x,))


_HEX = set("0123456789abcdef.")


def _atom(w):
    if w[0] == "s" and all(c in _HEX for c in w[1:]):
        body = w[1:]
        return "".join(chr(int(h, 16)) for h in body.split(".")) if body else ""
    if w[0] == "i" and (w[1:].isdigit() or (w[1:2] == "-" and w[2:].isdigit())):
        return int(w[1:])
    return Sym(w)


def dec(line):
    """Parse one line into nested Python lists / str / int / Sym."""
    toks = line.replace("(", " ( ").replace(")", " ) ").split()
    stack, cur = [], []
    for t in toks:
        if t == "(":
            stack.append(cur)
            cur = []
        elif t == ")":
            done = cur
            cur = stack.pop()
            cur.append(done)
        else:
            cur.append(_atom(t))
    if stack or len(cur) != 1:
        raise ValueError("malformed wire line: %r" % line[:200])
    return cur[0]


# ---------------------------------------------------------------------------------------------
# Unicode table sent with a request (see `charsWith` in Sx.lean)

def char_table(text):
    """Classification of the non-ASCII characters of `text` by the running CPython."""
    import re
    rows = []
    for c in sorted(set(text)):
        if ord(c) < 128:
            continue
        flags = (
            (1 if c.isspace() else 0)
            | (2 if re.match(r"\w", c) else 0)
            | (4 if c.isalpha() else 0)
            | (8 if c.isupper() else 0)
            | (16 if c.isdigit() else 0)
            | (32 if len(("a" + c + "b").splitlines()) == 2 else 0)
        )
        try:
            d = int(c)
        except ValueError:
            d = None
        rows.append([ord(c), flags, d, c.lower()])
    return rows


def lean_representable(text):
    """Lean `Char` excludes surrogates; the per-character `lower` must also be exact."""
    if any(0xD800 <= ord(c) <= 0xDFFF for c in text):
        return False
    return text.lower() == "".join(c.lower() for c in text)


def request(cmd, *args, chars_of=None):
    """Build a request line; `chars_of` = all text whose characters the model may classify."""
    body = enc([Sym(cmd)] + list(args))
    if chars_of is not None:
        tbl = char_table(chars_of)
        if tbl:
            return "(withchars %s %s)" % (enc(tbl), body)
    return body
