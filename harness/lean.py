"""Lean side of a check: build, axiom audit, source hygiene, model driver."""
import fcntl
import os
import re
import subprocess
import threading
import time

ROOT = os.path.dirname(os.path.dirname(os.path.abspath(__file__)))
LEAN = os.path.join(ROOT, "lean")
DRIVER = os.path.join(LEAN, ".lake", "build", "bin", "driver")
ALLOWED_AXIOMS = {"propext", "Classical.choice", "Quot.sound"}
FORBIDDEN = re.compile(
    r"\bsorry\b|\badmit\b|^\s*axiom\s|native_decide|bv_decide|implemented_by|\bunsafe\s|maxHeartbeats\s+0\b",
    re.M,
)


class _Lock:
    """Serialise lake invocations on this project (checks may run concurrently)."""

    def __enter__(self):
        os.makedirs(os.path.join(LEAN, ".lake"), exist_ok=True)
        self.f = open(os.path.join(LEAN, ".lake", "verif.lock"), "w")
        fcntl.flock(self.f, fcntl.LOCK_EX)
        return self

    def __exit__(self, *a):
        fcntl.flock(self.f, fcntl.LOCK_UN)
        self.f.close()


def _run(cmd, timeout=3000):
    p = subprocess.run(cmd, cwd=LEAN, capture_output=True, text=True, timeout=timeout)
    return p.returncode, p.stdout + p.stderr


def build(targets):
    """`lake build <targets>`; returns (ok, log)."""
    with _Lock():
        rc, out = _run(["lake", "build"] + list(targets))
    return rc == 0, out


def strip_comments(src):
    """Remove `--` line comments and (nested) `/- -/` block comments."""
    out, i, depth, n = [], 0, 0, len(src)
    while i < n:
        if src.startswith("/-", i):
            depth += 1
            i += 2
        elif depth and src.startswith("-/", i):
            depth -= 1
            i += 2
        elif depth:
            if src[i] == "\n":
                out.append("\n")
            i += 1
        elif src.startswith("--", i):
            while i < n and src[i] != "\n":
                i += 1
        else:
            out.append(src[i])
            i += 1
    return "".join(out)


def hygiene():
    """Forbidden constructs outside comments in any Lean source of the project."""
    hits = []
    for base, _dirs, files in os.walk(LEAN):
        if ".lake" in base.split(os.sep) or ".audit" in base.split(os.sep):
            continue
        for fn in files:
            if not fn.endswith(".lean"):
                continue
            path = os.path.join(base, fn)
            code = strip_comments(open(path, encoding="utf-8").read())
            for m in FORBIDDEN.finditer(code):
                line = code.count("\n", 0, m.start()) + 1
                hits.append("%s:%d: %s" % (os.path.relpath(path, ROOT), line, m.group(0).strip()))
    return hits


_DECL = re.compile(r"^\s*(?:@\[[^\]]*\]\s*)?(?:private\s+|protected\s+)?(theorem|example)\b\s*([^\s:({\[]*)", re.M)
_NS = re.compile(r"^\s*(namespace|end)\s+(\S+)\s*$", re.M)


def obligations_of(module):
    """(theorem full names, number of examples) declared in a Props module."""
    path = os.path.join(LEAN, module.replace(".", os.sep) + ".lean")
    code = strip_comments(open(path, encoding="utf-8").read())
    events = []
    for m in _NS.finditer(code):
        events.append((m.start(), m.group(1), m.group(2)))
    for m in _DECL.finditer(code):
        events.append((m.start(), m.group(1), m.group(2)))
    events.sort()
    ns, names, examples = [], [], 0
    for _pos, kind, name in events:
        if kind == "namespace":
            ns.append(name)
        elif kind == "end":
            if ns and ns[-1] == name:
                ns.pop()
        elif kind == "example":
            examples += 1
        elif name:
            names.append(".".join(ns + [name]))
    return names, examples


def audit(module, names):
    """`#print axioms` for each theorem; returns {name: [axioms]} (None if it failed to resolve)."""
    os.makedirs(os.path.join(LEAN, ".audit"), exist_ok=True)
    path = os.path.join(LEAN, ".audit", "Audit_%s_%d.lean" % (module.replace(".", "_"), os.getpid()))
    with open(path, "w") as f:
        f.write("import %s\n" % module)
        for n in names:
            f.write("#print axioms %s\n" % n)
    try:
        rc, out = _run(["lake", "env", "lean", path])
    finally:
        os.unlink(path)
    res = {n: None for n in names}
    # messages may wrap over several lines
    flat = re.sub(r"\s+", " ", out)
    for n in names:
        m = re.search(r"'%s' depends on axioms: \[([^\]]*)\]" % re.escape(n), flat)
        if m:
            res[n] = [a.strip() for a in m.group(1).split(",") if a.strip()]
        elif re.search(r"'%s' does not depend on any axioms" % re.escape(n), flat):
            res[n] = []
    return res, out


def leanchecker(modules):
    with _Lock():
        rc, out = _run(["lake", "env", "leanchecker"] + list(modules), timeout=3000)
    return rc == 0, out


def check_proofs(module, thorough=False):
    """Build the property module + driver, audit axioms, grep hygiene.

    Returns dict(obligations, discharged, failures=[...], log, theorems=[...]).
    A failure names the theorem (or the build step) that no longer checks.
    """
    t0 = time.time()
    ok, log = build([module, "driver"])
    failures = []
    try:
        names, examples = obligations_of(module)
    except OSError as e:
        return dict(obligations=1, discharged=0, failures=["module %s missing: %s" % (module, e)], log=str(e),
                    theorems=[], axioms={}, build_s=time.time() - t0)
    total = len(names) + examples
    discharged = 0
    axioms = {}
    if not ok:
        # name the theorems the errors fall in, if we can
        bad = sorted(set(re.findall(r"error: (\S+\.lean:\d+:\d+)", log)))
        failures.append("lake build %s failed: %s" % (module, ", ".join(bad[:8]) or log[-400:]))
    else:
        axioms, alog = audit(module, names)
        for n in names:
            ax = axioms.get(n)
            if ax is None:
                failures.append("theorem %s: #print axioms gave no answer" % n)
            elif not set(ax) <= ALLOWED_AXIOMS:
                failures.append("theorem %s depends on axioms %s" % (n, sorted(set(ax) - ALLOWED_AXIOMS)))
            else:
                discharged += 1
        discharged += examples  # examples are checked by the build itself
        hy = hygiene()
        if hy:
            failures.append("forbidden constructs: " + "; ".join(hy[:6]))
            discharged = 0
        if thorough and not failures:
            okc, clog = leanchecker([module])
            if not okc:
                failures.append("leanchecker rejected %s: %s" % (module, clog[-300:]))
                discharged = 0
    return dict(obligations=total, discharged=discharged, failures=failures, log=log[-4000:], theorems=names,
                axioms=axioms, build_s=round(time.time() - t0, 2))


def run_driver(lines, shards=8):
    """Feed request lines to the native model driver; returns the list of answer lines."""
    if not lines:
        return []
    if not os.path.exists(DRIVER):
        raise RuntimeError("model driver not built: " + DRIVER)
    shards = max(1, min(shards, (len(lines) + 1999) // 2000))
    chunks = [lines[i::shards] for i in range(shards)]
    outs = [None] * shards
    errs = []

    def work(i):
        try:
            p = subprocess.run([DRIVER], input="\n".join(chunks[i]) + "\n", capture_output=True, text=True,
                               timeout=3000)
            res = p.stdout.split("\n")
            if res and res[-1] == "":
                res.pop()
            if len(res) != len(chunks[i]):
                errs.append("driver shard %d: %d answers for %d requests; rc=%s stderr=%s"
                            % (i, len(res), len(chunks[i]), p.returncode, p.stderr[-300:]))
                res = res + ["driver-died"] * (len(chunks[i]) - len(res))
            outs[i] = res
        except Exception as e:  # noqa
            errs.append("driver shard %d: %r" % (i, e))
            outs[i] = ["driver-error"] * len(chunks[i])

    ths = [threading.Thread(target=work, args=(i,)) for i in range(shards)]
    for t in ths:
        t.start()
    for t in ths:
        t.join()
    if errs:
        raise RuntimeError("; ".join(errs))
    res = [None] * len(lines)
    for i in range(shards):
        res[i::shards] = outs[i]
    return res
