"""Helpers of the middleware property modules C15 / C16 / C17 (not part of the shared framework).

A *library spec* is a JSON-able list of block specs from which real bibtexparser blocks are built:

    ["entry", type, key, [[field_key, VAL, line], ...], line, raw]
    ["string", key, VAL, line, raw]      ["preamble", text, line, raw]
    ["expl", text, line, raw]            ["impl", text, line, raw]
    ["failed", abort_class, line, raw]   ["dupfield", [keys], ENTRY]     ["mwerror", "invalidName", LIVE]

    VAL ::= "text" | 12 | {"big": [k, d]}   (the int 10**k + d, never written in decimal in a case)
          | {"negbig": [k, d]}              (the int -(10**k + d))
          | {"rep": [text, n]}              (text * n)
          | {"names": [..]} | {"py": "None" | "float" | "True" | "False" | "bytes"}

`line` / `raw` may be None.  `Library(blocks)` itself is part of what is modelled (`libraryOf`), so
duplicate keys are written as two plain blocks with the same key.
"""
from . import blocks as B
from .wire import Sym, enc_str

_BIG = 10 ** 4000
_CHUNK = 10 ** 2000


def dec_digits(n):
    """decimal digits of a non-negative int of any size (never trips CPython's int->str limit)"""
    if n < _BIG:
        return str(n)
    parts = []
    while n:
        n, r = divmod(n, _CHUNK)
        parts.append(r)
    return str(parts[-1]) + "".join("%02000d" % p for p in reversed(parts[:-1]))


def enc(x):
    """wire.enc, safe for huge ints"""
    if isinstance(x, Sym):
        return str(x)
    if isinstance(x, str):
        return enc_str(x)
    if x is True:
        return "T"
    if x is False:
        return "F"
    if x is None:
        return "N"
    if isinstance(x, int):
        return "i-" + dec_digits(-x) if x < 0 else "i" + dec_digits(x)
    if isinstance(x, (list, tuple)):
        return "(" + " ".join(enc(y) for y in x) + ")"
    raise TypeError("cannot encode %r" % (type(x),))


def ok(x):
    return enc([Sym("ok"), x])


class _Other:
    """a value that is neither str nor int (rendered `(opaque 0)` like None / floats)"""
    def __repr__(self):
        return "<other>"


def val(spec):
    if isinstance(spec, dict):
        if "big" in spec:
            k, d = spec["big"]
            return 10 ** k + d
        if "negbig" in spec:
            k, d = spec["negbig"]
            return -(10 ** k + d)
        if "rep" in spec:
            s, n = spec["rep"]
            return s * n
        if "names" in spec:
            return list(spec["names"])
        if "py" in spec:
            return {"None": None, "float": 3.5, "True": True, "False": False, "bytes": b"jan"}[spec["py"]]
        raise ValueError("bad value spec %r" % (spec,))
    return spec


def val_text(spec):
    """the text whose characters the model may have to classify"""
    if isinstance(spec, str):
        return spec
    if isinstance(spec, dict):
        if "rep" in spec:
            return spec["rep"][0]
        if "names" in spec:
            return "".join(spec["names"])
    return ""


def val_python_only(spec):
    return isinstance(spec, dict) and spec.get("py") in ("True", "False")


def entry(spec):
    from bibtexparser import model as M
    _t, ty, key, fields, line, raw = spec[:6]
    return M.Entry(entry_type=ty, key=key, fields=[M.Field(key=k, value=val(v), start_line=ln) for k, v, ln in fields],
                   start_line=line, raw=raw)


def live(spec):
    from bibtexparser import model as M
    t = spec[0]
    if t == "entry":
        return entry(spec)
    if t == "string":
        return M.String(key=spec[1], value=val(spec[2]), start_line=spec[3], raw=spec[4])
    if t == "preamble":
        return M.Preamble(value=spec[1], start_line=spec[2], raw=spec[3])
    if t == "expl":
        return M.ExplicitComment(comment=spec[1], start_line=spec[2], raw=spec[3])
    if t == "impl":
        return M.ImplicitComment(comment=spec[1], start_line=spec[2], raw=spec[3])
    raise ValueError("bad live block spec %r" % (t,))


def block(spec):
    from bibtexparser import model as M
    t = spec[0]
    if t == "failed":
        return _failed(spec)
    if t == "dupfield":
        return M.DuplicateFieldKeyBlock(duplicate_keys=set(spec[1]), entry=entry(spec[2]))
    if t == "mwerror":
        from bibtexparser.middlewares.names import InvalidNameError
        return M.MiddlewareErrorBlock(block=live(spec[2]), error=InvalidNameError("?", "?"))
    return live(spec)


def _failed(spec):
    from bibtexparser import model as M
    from bibtexparser.exceptions import BlockAbortedException
    reason = {v: k for k, v in B._ABORT}.get(spec[1], spec[1])
    return M.ParsingFailedBlock(error=BlockAbortedException(abort_reason=reason), start_line=spec[2], raw=spec[3])


def blocks(lib_spec):
    return [block(s) for s in lib_spec]


_SUB = {}


def library(lib_spec, sub=False):
    """sub=True: every live Entry / String is an instance of a user-defined subclass of its class (an application's own
    `class Article(Entry)`): to the library and to every middleware it is an Entry / a String like any other"""
    from bibtexparser.library import Library
    bs = blocks(lib_spec)
    if sub:
        from bibtexparser import model as M
        for base in (M.Entry, M.String):
            if base not in _SUB:
                _SUB[base] = type("My" + base.__name__, (base,), {})
        for b in bs:
            if type(b) in _SUB:
                b.__class__ = _SUB[type(b)]
    return Library(bs)


def spec_text(lib_spec):
    """all text of a library spec (for the Unicode table of the request)"""
    out = []

    def walk(x):
        if isinstance(x, str):
            out.append(x)
        elif isinstance(x, dict):
            out.append(val_text(x))
        elif isinstance(x, (list, tuple)):
            for y in x:
                walk(y)
    walk(lib_spec)
    return "".join(out)


def spec_python_only(lib_spec):
    def walk(x):
        if isinstance(x, dict):
            return val_python_only(x)
        if isinstance(x, (list, tuple)):
            return any(walk(y) for y in x)
        return False
    return walk(lib_spec)


def wire_blocks(lib_spec):
    """the blocks of a spec (before `Library(...)`) in wire form"""
    return B.enc_blocks(blocks(lib_spec))


def enc_block(b):
    """like blocks.enc_block, but `previous_block` of a DuplicateBlockKeyBlock is rendered as a reference
    (class, key, line): it aliases another block of the library (see lean/BibVerif/Wire/Mw.lean)"""
    from bibtexparser import model as M
    if isinstance(b, M.DuplicateBlockKeyBlock):
        p = b.previous_block
        kind = ("entry" if isinstance(p, M.Entry) else "string" if isinstance(p, M.String) else
                "preamble" if isinstance(p, M.Preamble) else "expl" if isinstance(p, M.ExplicitComment) else "impl")
        return [Sym("dupkey"), b.key, [Sym("ref"), Sym(kind), getattr(p, "key", ""), B._line(p)], B.enc_live(b.ignore_error_block)]
    return B.enc_block(b)


def enc_blocks(bs):
    return [enc_block(b) for b in bs]


def field_snapshot(f):
    return (f.key, type(f.value).__name__, f.value if not isinstance(f.value, (int, float)) or isinstance(f.value, bool)
            else ("num", f.value), f.start_line)


def same_value(a, b):
    """equal and of the same type (1 == True and 1 == 1.0 do not count)"""
    return type(a) is type(b) and a == b
