"""./check <Cxx> <quick|thorough> [--replay file]

One run = proofs (lake build + axiom audit + hygiene) + regenerated constants + the
correspondence between the Lean model (native driver) and the real code in /repo on a stream
of cases; when either breaks, a search for an input on which the *property* fails on the real
code (the property module's oracle).  See DESIGN.md §2.3/§2.4.

Exit status: 0 = property held on everything explored (known findings are printed),
1 = VIOLATION (line on stdout, replay file written), 2 = harness error / timeout.
"""
import importlib
import json
import multiprocessing as mp
import os
import random
import signal
import sys
import time
import traceback

ROOT = os.path.dirname(os.path.dirname(os.path.abspath(__file__)))
REPO = os.environ.get("VERIF_REPO", "/repo")
if REPO not in sys.path:
    sys.path.insert(0, REPO)
os.environ.setdefault("BIBTEXPARSER_VERIF", "1")

import logging  # noqa: E402
import warnings  # noqa: E402

logging.disable(logging.CRITICAL)
warnings.simplefilter("ignore")

from . import lean  # noqa: E402

TRUSTED_BASE = [
    "Lean 4.33.0 kernel; axioms allowed in property theorems: propext, Classical.choice, Quot.sound "
    "(audited with #print axioms on every run; no sorry/native_decide/bv_decide/own axioms)",
    "the hand-written Lean model of the anchored Python code (lean/BibVerif/*.lean)",
    "the correspondence check of this run (differential execution of model driver vs /repo working tree) "
    "- as strong as the generated input stream described under coverage",
    "CPython semantics assumed, exercised but not verified: re leftmost/greedy matching, stable sorted(), "
    "insertion-ordered dict, copy.deepcopy, str slicing/join/f-strings",
]


class CaseTimeout(Exception):
    pass


def _alarm(_sig, _frm):
    raise CaseTimeout()


_MOD = None


def _init_worker(modname):
    global _MOD
    logging.disable(logging.CRITICAL)
    warnings.simplefilter("ignore")
    _MOD = importlib.import_module(modname)
    signal.signal(signal.SIGALRM, _alarm)


def _impl_one(case):
    """Run the real code on one case; every exception becomes a value."""
    limit = getattr(_MOD, "CASE_TIMEOUT_S", 20)
    signal.alarm(limit)
    try:
        return _MOD.impl(case)
    except CaseTimeout:
        return "(raise Timeout)"
    except RecursionError:
        return "(raise RecursionError)"
    except MemoryError:
        return "(raise MemoryError)"
    except BaseException as e:  # noqa
        return "(raise %s)" % type(e).__name__
    finally:
        signal.alarm(0)


def _oracle_one(case):
    limit = getattr(_MOD, "CASE_TIMEOUT_S", 20)
    signal.alarm(limit * 2)
    try:
        return _MOD.oracle(case)
    except CaseTimeout:
        return "oracle: the real code did not return within %d s" % (limit * 2)
    except BaseException as e:  # noqa
        return "oracle raised %s: %s" % (type(e).__name__, "".join(traceback.format_exception_only(type(e), e)).strip()[:300])
    finally:
        signal.alarm(0)


_ITEMS = None


def _worker_loop(wid, fn, modname, tasks, results, cur, since, rlo, rhi):
    """one worker: takes (start, end) ranges, reports what it is working on (for the watchdog), returns whole ranges"""
    _init_worker(modname)
    while True:
        t = tasks.get()
        if t is None:
            return
        start, end = t
        rlo[wid], rhi[wid] = start, end
        out = []
        for i in range(start, end):
            since[wid] = time.time()      # first the time, then the index: the watchdog never sees a new index with an old time
            cur[wid] = i
            out.append(fn(_ITEMS[i]))
        cur[wid] = -1
        results.put((start, end, out))    # SimpleQueue: sent synchronously, nothing is left behind in a feeder thread


def pmap(fn, modname, items, procs=16):
    """parallel map over worker processes that survives a case which never returns: the per-case alarm of the workers
    cannot interrupt code that does not come back to the interpreter (a backtracking regex, a C loop), so a watchdog
    kills a worker that sits on one case for too long, records a timeout for that case and carries on."""
    global _ITEMS
    if not items:
        return []
    mod = importlib.import_module(modname)
    soft = getattr(mod, "CASE_TIMEOUT_S", 20)
    hard = soft + 15
    killed_value = "(raise Timeout)" if fn is _impl_one else "the real code did not return within %d s (worker killed)" % hard
    ctx = mp.get_context("fork")
    _ITEMS = items
    n = len(items)
    procs = max(1, min(procs, n))
    chunk = max(1, min(2000, n // (procs * 4) or 1))
    # results come back over a SimpleQueue: a Queue hands the data to a feeder thread, and a worker whose main thread
    # then gets stuck in C code (holding the GIL) would freeze that thread in mid-send, holding the queue's write lock
    tasks, results = ctx.Queue(), ctx.SimpleQueue()
    pending = 0
    for start in range(0, n, chunk):
        tasks.put((start, min(n, start + chunk)))
        pending += 1
    cur = ctx.Array("l", [-1] * procs, lock=False)
    since = ctx.Array("d", [0.0] * procs, lock=False)
    rlo = ctx.Array("l", [0] * procs, lock=False)
    rhi = ctx.Array("l", [0] * procs, lock=False)
    out = [None] * n
    dead = set()

    def requeue(idx, near=None):
        """contiguous runs of the indices in `idx` as new tasks; the cases right after a stuck one (`near`) go out one
        by one - stuck cases come in families that sit next to each other, and single-case tasks let all workers share
        them instead of one worker paying one kill after the other; the rest in pieces of 25. Returns the number of tasks"""
        runs = []
        for x in idx:
            single = near is not None and near < x <= near + 200
            if runs and not single and not runs[-1][2] and runs[-1][1] == x and x - runs[-1][0] < 25:
                runs[-1][1] = x + 1
            else:
                runs.append([x, x + 1, single])
        for a, b, _single in runs:
            tasks.put((a, b))
        return len(runs)

    def spawn(wid):
        pr = ctx.Process(target=_worker_loop, args=(wid, fn, modname, tasks, results, cur, since, rlo, rhi), daemon=True)
        pr.start()
        return pr
    workers = [spawn(w) for w in range(procs)]
    try:
        while pending:
            if results._reader.poll(1.0):
                start, end, vals = results.get()
                out[start:end] = vals
                pending -= 1
                continue
            now = time.time()
            for w, pr in enumerate(workers):
                i = cur[w]
                if i >= 0 and now - since[w] > hard and pr.is_alive():
                    pr.kill()
                    pr.join()
                    out[i] = killed_value
                    dead.add(i)
                    # the range the worker was in is lost: redo what is still missing of it - never a case that was
                    # killed before - in small pieces, so that another stuck case costs one kill and little rework
                    lo, hi = rlo[w], rhi[w]
                    pending -= 1
                    pending += requeue([x for x in range(lo, hi) if x not in dead and (x > i or out[x] is None)], near=i)
                    cur[w] = -1
                    workers[w] = spawn(w)
                elif not pr.is_alive() and pending:
                    # a worker died on its own (e.g. the interpreter was killed by the OS): treat like a stuck case
                    if i >= 0:
                        out[i] = "(raise WorkerDied)" if fn is _impl_one else "the worker process died"
                        dead.add(i)
                        lo, hi = rlo[w], rhi[w]
                        pending -= 1
                        pending += requeue([x for x in range(lo, hi) if x not in dead and (x > i or out[x] is None)])
                        cur[w] = -1
                    workers[w] = spawn(w)
    finally:
        for _ in workers:
            tasks.put(None)
        for pr in workers:
            pr.join(timeout=2)
            if pr.is_alive():
                pr.kill()
        _ITEMS = None
    return out


def load_known(pid):
    path = os.path.join(ROOT, "known_findings.json")
    if not os.path.exists(path):
        return []
    data = json.load(open(path))
    return [k for k in data.get("findings", []) if k.get("property") == pid and k.get("status") == "known"]


def write_json(path, obj):
    os.makedirs(os.path.dirname(path), exist_ok=True)
    tmp = path + ".tmp%d" % os.getpid()
    with open(tmp, "w") as f:
        json.dump(obj, f, indent=1, ensure_ascii=True, default=str)
    os.replace(tmp, path)


def short(x, n=400):
    s = x if isinstance(x, str) else json.dumps(x, ensure_ascii=True, default=str)
    return s if len(s) <= n else s[:n] + "...(%d chars)" % len(s)


def run_check(pid, tier, seed, replay=None):
    t0 = time.time()
    modname = "harness.props.%s" % pid.lower()
    mod = importlib.import_module(modname)
    rng = random.Random(seed)
    notes = []          # things recorded in the evidence
    broken = []         # theorems / correspondences that no longer check
    level = getattr(mod, "LEVEL", "proof")

    # ---- regenerated constants ---------------------------------------------------------------
    gen_info = {}
    if hasattr(mod, "regenerate"):
        try:
            gen_info = mod.regenerate() or {}
        except Exception as e:  # failing to *locate* a constant only removes that tie
            gen_info = {"constants_tie": "not established this run: %r" % (e,)}
        notes.append({"regenerated_constants": gen_info})

    # ---- proofs ------------------------------------------------------------------------------
    proofs = lean.check_proofs(mod.LEAN_MODULE, thorough=(tier == "thorough" and os.environ.get("VERIF_LEANCHECKER", "1") == "1"))
    for f in proofs["failures"]:
        broken.append({"kind": "proof", "what": f})
    extra_obl = 0
    extra_dis = 0
    if hasattr(mod, "extra_obligations"):
        # e.g. Unicode hypotheses checked exhaustively over all code points
        for name, ok, detail in mod.extra_obligations(tier):
            extra_obl += 1
            if ok:
                extra_dis += 1
            else:
                broken.append({"kind": "hypothesis", "what": "%s: %s" % (name, detail)})
            notes.append({"obligation": name, "ok": ok, "detail": detail})

    # ---- the cases ---------------------------------------------------------------------------
    t_gen = time.time()
    if replay is not None:
        rp = json.load(open(replay))
        cases = [rp["case"]] if "case" in rp else []
        corpus_n = 0
    else:
        corpus = list(mod.corpus()) if hasattr(mod, "corpus") else []
        corpus_n = len(corpus)
        cases = corpus + list(mod.gen(tier, rng))
    gen_s = time.time() - t_gen

    # ---- correspondence ----------------------------------------------------------------------
    t_c = time.time()
    reqs = []
    for c in cases:
        try:
            reqs.append(mod.request(c))
        except RecursionError:
            reqs.append("(request-raised RecursionError)")
        except Exception as e:  # the request may call the real code (e.g. to tabulate a third-party converter)
            reqs.append("(request-raised %s)" % type(e).__name__)
    model_idx = [i for i, r in enumerate(reqs) if r is not None]
    impl_out = pmap(_impl_one, modname, cases)
    driver_ok = os.path.exists(lean.DRIVER)
    model_out = [None] * len(cases)
    if driver_ok:
        try:
            answers = lean.run_driver([reqs[i] for i in model_idx])
            for i, a in zip(model_idx, answers):
                model_out[i] = a
        except RuntimeError as e:
            driver_ok = False
            broken.append({"kind": "correspondence", "what": "model driver failed: %s" % e})
    else:
        broken.append({"kind": "correspondence", "what": "model driver could not be built"})
    disagreements = []
    if driver_ok:
        for i in model_idx:
            if impl_out[i] != model_out[i]:
                disagreements.append(i)
    # python-only stream (inputs the model cannot represent): the implementation must still not raise
    py_only_bad = [i for i, r in enumerate(reqs) if r is None and impl_out[i].startswith("(raise ")
                   and not getattr(mod, "PY_ONLY_MAY_RAISE", False)]
    corr_s = time.time() - t_c
    if disagreements:
        broken.append({"kind": "correspondence",
                       "what": "model and implementation disagree on %d of %d cases" % (len(disagreements), len(model_idx))})

    # ---- known findings: replay the listed witnesses on the real code --------------------------
    known = load_known(pid)
    known_lines = []
    _init_worker(modname)
    for k in known:
        fail = _oracle_one(k["witness"])
        if fail is not None:
            known_lines.append("KNOWN-FINDING: property=%s %s" % (pid, k["what"]))

    def is_known(case, failure):
        for k in known:
            try:
                if mod.known_match(k, case, failure):
                    return True
            except Exception:
                pass
        return False

    # ---- search for a failing input when something broke --------------------------------------
    violations = []       # (case, failure, pointer)
    searched = 0
    if broken or py_only_bad or os.environ.get("VERIF_ORACLE_ALL") == "1":
        cand = [cases[i] for i in disagreements] + [cases[i] for i in py_only_bad]
        if hasattr(mod, "shrink"):
            for i in disagreements[:20]:
                cand.extend(mod.shrink(cases[i]))
        seen = set()
        order = []
        for c in cand + cases:
            key = json.dumps(c, sort_keys=True, default=str)
            if key not in seen:
                seen.add(key)
                order.append(c)
        if not any(b["kind"] == "correspondence" for b in broken) and replay is None and tier == "quick" and hasattr(mod, "gen"):
            # a proof/hypothesis broke but the quick stream agrees: widen the search
            for c in mod.gen("thorough", random.Random(seed)):
                key = json.dumps(c, sort_keys=True, default=str)
                if key not in seen:
                    seen.add(key)
                    order.append(c)
                if len(order) > 400000:
                    break
        results = pmap(_oracle_one, modname, order)
        searched = len(order)
        for c, fail in zip(order, results):
            if fail is not None and not is_known(c, fail):
                violations.append((c, fail))
                if len(violations) >= 5:
                    break

    # ---- evidence ------------------------------------------------------------------------------
    distinct = {}
    nontrivial = getattr(mod, "nontrivial", lambda case, out: out not in ("(ok ())", "()", ""))
    for i, c in enumerate(cases):
        out = impl_out[i]
        if nontrivial(c, out):
            distinct[reqs[i] if reqs[i] is not None else json.dumps(c, default=str)] = 1
    stats = mod.describe(cases, impl_out) if hasattr(mod, "describe") else {}
    samples = []
    step = max(1, len(cases) // 6)
    for i in range(0, len(cases), step):
        samples.append({"case": short(cases[i]), "implementation": short(impl_out[i]),
                        "model": short(model_out[i]) if model_out[i] is not None else "(not sent to the model)"})
        if len(samples) >= 7:
            break
    obligations = proofs["obligations"] + extra_obl
    discharged = proofs["discharged"] + extra_dis
    coverage = {
        "obligations": obligations,
        "discharged": discharged,
        "checker_cmd": "cd lean && lake build %s driver && lake env lean <#print axioms of every theorem in %s>%s"
                       % (mod.LEAN_MODULE, mod.LEAN_MODULE, " && lake env leanchecker " + mod.LEAN_MODULE if tier == "thorough" else ""),
        "trusted_base": TRUSTED_BASE + list(getattr(mod, "TRUSTED_EXTRA", [])),
        "theorems": proofs["theorems"],
        "axioms_used": sorted({a for v in proofs.get("axioms", {}).values() if v for a in v}),
        "evaluations": len(cases),
        "distinct_nontrivial": len(distinct),
        "rule": getattr(mod, "RULE", "cases = corpus + generated stream; non-trivial = the implementation returned a non-empty result"),
        "samples": samples,
        "traces_validated_against_impl": len(model_idx),
        "disagreements": len(disagreements),
        "corpus_cases": corpus_n,
        "python_only_cases": len(cases) - len(model_idx),
        "searched_with_oracle": searched,
        "distribution": stats,
        "notes": notes,
        "known_findings_replayed": [k["id"] for k in known],
        "partial": list(getattr(mod, "PARTIAL", [])),
        "timing_s": {"proofs": proofs.get("build_s"), "generate": round(gen_s, 2), "correspondence": round(corr_s, 2)},
    }
    if getattr(mod, "EXHAUSTIVE", {}).get(tier):
        coverage["exhaustive"] = True
    ev = {
        "property_id": pid,
        "tier": tier,
        "seed": seed,
        "level": level,
        "coverage": coverage,
        "assumptions": list(getattr(mod, "ASSUMPTIONS", [])),
        "wall_s": round(time.time() - t0, 2),
        "violations": 0,
    }

    # ---- verdict -------------------------------------------------------------------------------
    for line in known_lines:
        print(line)
    rc = 0
    if violations:
        c, fail = violations[0]
        path = os.path.join(ROOT, "replays", "%s_%s_%d.json" % (pid, tier, seed))
        write_json(path, {"property": pid, "case": c, "failure": fail,
                          "pointed_to_by": broken or [{"kind": "python-only stream", "what": "implementation raised"}],
                          "more": [{"case": c2, "failure": f2} for c2, f2 in violations[1:]],
                          "replay_cmd": "./check %s --replay %s" % (pid, os.path.relpath(path, ROOT))})
        print("VIOLATION property=%s replay=%s" % (pid, path))
        ev["violations"] = len(violations)
        rc = 1
    elif broken:
        path = os.path.join(ROOT, "replays", "%s_%s_%d.json" % (pid, tier, seed))
        first_dis = None
        if disagreements:
            i = disagreements[0]
            first_dis = {"case": cases[i], "implementation": impl_out[i], "model": model_out[i]}
        write_json(path, {"property": pid, "no_longer_checks": broken, "first_disagreement": first_dis,
                          "case": first_dis["case"] if first_dis else None,
                          "disagreeing_cases": [cases[i] for i in disagreements[:20]],
                          "searched_inputs": searched,
                          "note": "no input was found on which the property itself fails on the real code"})
        print("VIOLATION property=%s replay=%s no-failing-input-found" % (pid, path))
        ev["violations"] = 1
        rc = 1
    ev["wall_s"] = round(time.time() - t0, 2)
    write_json(os.path.join(ROOT, "evidence", "%s.json" % pid), ev)
    summary = "%s %s seed=%d: %d/%d obligations, %d cases (%d to model, %d disagreements), %.1fs" % (
        pid, tier, seed, discharged, obligations, len(cases), len(model_idx), len(disagreements), time.time() - t0)
    print(summary)
    if rc and broken:
        for b in broken[:5]:
            print("  broken:", short(b["what"], 300))
        for i in disagreements[:3]:
            print("  disagree:", short(cases[i], 200))
            print("     impl :", short(impl_out[i], 300))
            print("     model:", short(model_out[i], 300))
    if rc and violations:
        print("  failing input:", short(violations[0][0], 300))
        print("  failure      :", short(violations[0][1], 400))
    return rc


def main(argv):
    if len(argv) < 2:
        print(__doc__)
        return 2
    pid = argv[0].upper()
    replay = None
    tier = os.environ.get("VERIF_TIER", "quick")
    rest = argv[1:]
    if "--replay" in rest:
        replay = rest[rest.index("--replay") + 1]
        rest = [a for a in rest if a not in ("--replay", replay)]
    if rest:
        tier = rest[0]
    if tier not in ("quick", "thorough"):
        print("tier must be quick or thorough")
        return 2
    seed = int(os.environ.get("VERIF_SEED", "0") or 0)
    try:
        return run_check(pid, tier, seed, replay)
    except SystemExit:
        raise
    except BaseException:  # harness error: never a violation
        traceback.print_exc()
        return 2


if __name__ == "__main__":
    sys.exit(main(sys.argv[1:]))
