"""C04 - malformed blocks never damage neighbours: parsing resyncs at the next @block."""
import collections

from .. import common as C
from .. import blocks as B
from .. import docgen
from ..wire import lean_representable, request as rq

ID = "C04"
LEAN_MODULE = "BibVerif.Props.C04"
LEVEL_TEXT = ("Lean theorems prefix_stable (blocks already emitted are never touched: the output only grows, so the blocks of a "
              "document ending in a complete block are a prefix of the result whatever follows), at_resets (an '@type{' mark "
              "flushes the automaton from EVERY mode, whatever the quote flag / brace counters), resync (arbitrary tokens "
              "followed by well-formed blocks yield what was open, closed at the mark, followed by exactly the blocks those "
              "yield on their own, lines offset) and concat_docs - for all token sequences and all derivations; tied to "
              "splitter.py by differential execution on (D1, X, D2) triples.")
LEVEL_NOTE = ("Trusted: Lean kernel + 3 standard axioms; hand-written model Lex/Split.lean + Grammar.lean; the correspondence "
              "run; CPython re semantics. Token level (resync) and text level (lexer_boundary, resync_text), on the blocks "
              "handed to Library.add; key collisions between the parts are C09's business (generator keeps keys distinct).")
TECHNIQUE = "Lean 4 proof: output monotonicity + reset-at-mark lemma + C02 scanner lemmas; differential correspondence on triples"
RULE = ("size-scaled malformed middles (nesting 1500..6000 deep, closed and unclosed, in comments, strings, preambles and values; thousands of stray delimiters); triples (D1 from G ending in a complete block, X, D2 from G starting with '@type{' at a line start): both clauses also on what parse_string returns (Library level with keys of failed / duplicate-field blocks reappearing in D2; default stack with @string names differing only in case); X = every proper prefix of well-formed blocks (also with repeated field / block keys), every token "
        "string of <= k tokens over { } \" , = NL \\ @a a SP (k=3 quick, 4 thorough) behind truncated-block prefixes, plus "
        "random truncations/corruptions of valid blocks. Compared: model vs real splitter on D1+X+D2 (complete blocks). "
        "Non-trivial = X non-empty and at least 2 blocks returned.")
EXHAUSTIVE = {"quick": False, "thorough": False}
ASSUMPTIONS = ["keys of D1 and D2 are disjoint (collisions: C09)"]
PARTIAL = []


def extra_obligations(tier):
    """regex \\w does not match '@' (hypothesis of the lexer boundary lemma)"""
    import re
    ok = re.match(r"\w", "@") is None
    return [("\\w does not match '@'", ok, "")]

D1S = ["", "@a{k1, f = {v}}", "@string{s1 = {x}}\n@comment{c}", "text\n@b{k2,\n t = \"q\",\n}"]
D2S = ["@c{k3, g = {w}}", "@comment{ok}\n@d{k4}", "@string{s2 = \"y\"}\ntrail", "@preamble{p}\n@e{k5, h = 1 # s2}\n"]
WF_X = ["@a{k, f = {v}, f = {w}, g = {u}}", '@a{k, f = "v", F = 1, f = s # {w},}', '@string{s = {x} # "y"}', '@preamble{"p" # {q}}',
        "@comment{c {d} e}", "@a{k, f = {v}}\n@a{k, f = {w}, f = 2}\n@string{s = 1}\n@string{s = 2}"]
XPRE = ["", "@a{", "@a{k,", "@a{k, f = {", '@a{k, f = "', "@string{", "@string{s = ", "@comment{", "@preamble{", "}", '"']


def corpus():
    out = []
    for d1 in D1S[1:2]:
        for x in ["@a{k, f = {v", '@a{k, f = "v {', "}}}", '"', "@a{k f = v}", "@string{s {v}}", "\\", "@a{k, f = v\\"]:
            out.append({"d1": d1, "x": x, "d2": D2S[0]})
    return out


def _corrupt(rng, text):
    r = rng.random()
    if not text:
        return text
    i = rng.randrange(len(text))
    if r < 0.4:
        return text[:i]                                  # truncation
    if r < 0.6:
        return text[:i] + text[i + 1:]                   # deletion
    if r < 0.8:
        return text[:i] + rng.choice('{}",=\\@ \n') + text[i:]   # insertion
    j = rng.randrange(len(text))
    return text[:min(i, j)] + text[max(i, j):]           # cut a span


def gen(tier, rng):
    k = 3 if tier == "quick" else 4
    for body in C.token_strings(C.SPLIT_ALPHABET, k):
        for pre in XPRE:
            x = pre + body
            yield {"d1": D1S[(len(x) + len(pre)) % len(D1S)], "x": x, "d2": D2S[len(body) % len(D2S)]}
    # the malformed part at the very END of the text (D2 empty), with and without line ends after it: the blocks of D1
    # are still returned unchanged (first clause of the property)
    for body in C.token_strings(C.SPLIT_ALPHABET, 2):
        for pre in XPRE:
            for tail in ("", "\n", "  \n", "\r\n", "\n\n\n"):
                yield {"d1": D1S[(len(body) + len(tail)) % len(D1S)], "x": pre + body + tail, "d2": ""}
    # every proper prefix of a well-formed block as the malformed middle (a block cut off at any point - also after a
    # repeated field key, inside a concatenation, after a repeated block key): whatever the scanner had collected for the
    # aborted block must not reach the blocks after it
    for w in WF_X:
        for i in range(1, len(w)):
            for j, d2 in enumerate(D2S):
                yield {"d1": D1S[(i + j) % len(D1S)], "x": w[:i], "d2": d2}
    # what parse_string returns (Library, default stack): keys of failed / duplicate-field blocks of the malformed part that
    # reappear in D2; @string names after D1 that differ only in case from names D1 uses
    eps = []
    for d1 in ("@string{s9 = {x}}\n@a{k1, f = s9, g = S9}", "@string{acm = \"A\"}\n@a{k1, f = acm, h = {acm}}", "@a{k1, f = 1}"):
        for x in ("@c{k3, g = 1, g = 2}", "@c{k3, g = {w", "@d{k4, a = 1, A = 2, a = 3}\n}}", "@string{s2 = 1 = 2}", "@e{k5 h = 1}", "}",
                  "@string{Acm = 3", "@string{ACM = {u}, }", ""):
            for d2 in D2S + ["@string{ACM = {other}}\n@c{k3, g = ACM}", "@string{S9 = 1}\n@c{k3, g = S9, h = s9}"]:
                eps.append({"d1": d1, "x": x, "d2": d2, "ep": 1})
    for c in eps:
        yield c
    # malformed middles of a SIZE that matters: very deep unclosed / closed nesting, very long truncated values,
    # thousands of stray delimiters (recursion limits, quadratic scans)
    for depth in ((1500, 6000) if tier == "quick" else (1500, 6000, 30000)):
        for x in ("@comment{" + "{" * depth, "@comment{" + "{" * depth + "}" * depth + "}", "@string{s = " + "{" * depth,
                  "@preamble{" + "{" * depth + "x" + "}" * (depth - 1), "@a{k, f = " + "{" * depth,
                  '@a{k, f = "' + "{" * depth, "@a{k, f = {" + "v\n" * depth, "}" * depth, ",=\"" * depth, "@a{k" * depth):
            for j in range(2):
                yield {"d1": D1S[j % len(D1S)], "x": x, "d2": D2S[(j + depth) % len(D2S)]}
    n = 3000 if tier == "quick" else 30000
    made = 0
    while made < n:
        a = docgen.gen_doc(rng, max_blocks=3, keypool=["p1", "p2", "p3", "p4"])
        b = docgen.gen_doc(rng, max_blocks=3, keypool=["q1", "q2", "q3", "q4"])
        v = docgen.gen_doc(rng, max_blocks=2, keypool=["r1", "r2"])
        if not (docgen.sane(a) and docgen.sane(b) and docgen.sane(v)) or not b.items:
            continue
        # D1 must end in a complete block, D2 must start with its block at a line start
        if a.items:
            a.items[-1] = (a.items[-1][0], "")
        b.head = ""
        x = _corrupt(rng, v.text())
        made += 1
        yield {"d1": a.text() if a.items else "", "x": x + "\n", "d2": b.text()}


def _text(case):
    d1, x, d2 = case["d1"], case["x"], case["d2"]
    sep = "" if (d1 + x).endswith("\n") or not (d1 + x) else "\n"
    return d1 + x + sep + d2


def request(case):
    t = _text(case)
    if not lean_representable(t):
        return None
    return rq("split", t, chars_of=t)


def impl(case):
    res = C.ok(B.enc_blocks(C.raw_split(_text(case))))
    if case.get("ep") and _entry_point_level(case) is not None:
        return res + " (entry-point-level-differs)"
    return res


def _sig(blocks, shift=0):
    from bibtexparser import model as M
    out = []
    for b in blocks:
        e = B.enc_block(b)
        out.append(repr(_shift_lines(e, shift)))
    return out


def _shift_lines(e, d):
    # lines are the ints directly following the structure described in blocks.py
    tag = str(e[0])
    if tag == "entry":
        return [e[0], e[1], e[2], [[f[0], f[1], f[2], f[3] + d] for f in e[3]], e[4] + d, e[5], e[6]]
    if tag == "string":
        return [e[0], e[1], e[2], e[3] + d, e[4], e[5]]
    if tag in ("preamble", "expl", "impl"):
        return [e[0], e[1], e[2] + d, e[3], e[4]]
    if tag == "failed":
        return [e[0], e[1], e[2] + d, e[3]]
    if tag == "dupfield":
        return [e[0], e[1], _shift_lines(e[2], d)]
    return e


def oracle(case):
    """parse(D1+X+D2) versus parse(D1) and parse(D2) on the real code"""
    d1, x, d2 = case["d1"], case["x"], case["d2"]
    whole = _text(case)
    allb = C.raw_split(whole)
    b1 = C.raw_split(d1)
    b2 = C.raw_split(d2)
    s_all = _sig(allb)
    s1 = _sig(b1)
    if s_all[:len(s1)] != s1:
        return "blocks of the well-formed prefix changed: %r vs %r" % (s_all[:len(s1)][:2], s1[:2])
    off = len(whole) - len(d2)
    shift = whole[:off].count("\n")
    s2 = _sig(b2, shift)
    if len(s2) and s_all[-len(s2):] != s2:
        return "blocks of the well-formed suffix differ from parsing it alone: %r vs %r" % (s_all[-len(s2):][:2], s2[:2])
    return _entry_point_level(case)


def _entry_point_level(case):
    """The same two clauses for what parse_string returns (the Library, and the default stack), as far as they hold there:
    (1) parse_string(D1+X+D2, parse_stack=[]): when no live entry / @string of D1+X has a key that D2 uses, the blocks of D2
        come out exactly as from parse_string(D2, parse_stack=[]) (keys of failed and duplicate-field blocks in X do not count:
        they are not registered);
    (2) parse_string(D1+X+D2) with the default stack: when no unenclosed field value of D1 names an @string defined after
        D1, the blocks of D1 come out exactly as from parse_string(D1)."""
    import bibtexparser
    from bibtexparser import model as M
    d1, x, d2 = case["d1"], case["x"], case["d2"]
    whole = _text(case)
    allb, b1, b2 = C.raw_split(whole), C.raw_split(d1), C.raw_split(d2)
    if len(allb) < len(b1) + len(b2):
        return None                                  # splitter level already differs: reported by the caller

    def lsig(blocks, shift):
        out = []
        for b in blocks:
            i = b.ignore_error_block if isinstance(b, M.ParsingFailedBlock) else None
            out.append((type(b).__name__, b.raw, b.start_line - shift, type(i).__name__))
        return out

    if b2:
        head = allb[:len(allb) - len(b2)]
        taken = {(type(b).__name__, b.key) for b in head if isinstance(b, (M.Entry, M.String))}
        used = {(type(b).__name__, b.key) for b in b2 if isinstance(b, (M.Entry, M.String))}
        if not (taken & used):
            shift = whole[:len(whole) - len(d2)].count("\n")
            got = lsig(bibtexparser.parse_string(whole, parse_stack=[]).blocks[-len(b2):], shift)
            want = lsig(bibtexparser.parse_string(d2, parse_stack=[]).blocks, 0)
            if got != want:
                return ("parse_string(text, parse_stack=[]): the blocks of the well-formed suffix are %r, on their own %r"
                        % ([g for g, w in zip(got, want) if g != w][:2], [w for g, w in zip(got, want) if g != w][:2]))
    if b1:
        later = {b.key for b in allb[len(b1):] if isinstance(b, M.String)}
        bare = {f.value for b in b1 if isinstance(b, M.Entry) for f in b.fields if isinstance(f.value, str)}
        if not (later & bare):
            got = [repr(B.enc_block(b)) for b in bibtexparser.parse_string(whole).blocks[:len(b1)]]
            want = [repr(B.enc_block(b)) for b in bibtexparser.parse_string(d1).blocks]
            if got != want:
                return ("parse_string(text) with the default stack: the blocks of the well-formed prefix are %r, without the "
                        "text after them %r" % ([g for g, w in zip(got, want) if g != w][:1], [w for g, w in zip(got, want) if g != w][:1]))
    return None


def known_match(finding, case, failure):
    return False


def describe(cases, outs):
    kinds = collections.Counter()
    xlen = collections.Counter()
    for c, o in zip(cases, outs):
        kinds.update(C.block_kinds(o))
        n = len(c["x"])
        xlen["0" if n == 0 else "<=4" if n <= 4 else "<=16" if n <= 16 else ">16"] += 1
    return {"block_kinds": dict(kinds), "middle_length": dict(xlen)}


def nontrivial(case, out):
    return case["x"] != "" and len(C.block_kinds(out)) >= 2
