"""C14 - splitting names and merging them back is an inverse pair through the whole stack."""
import collections

from .. import common as C
from .. import names_util as U
from .. import blocks as B
from ..wire import Sym, enc, request as rq, lean_representable

ID = "C14"
LEAN_MODULE = "BibVerif.Props.C14"
TECHNIQUE = ("Lean 4 proof about the models of parse/merge/split/join and of the four name middlewares; differential "
             "correspondence model vs names.py, also through parse_string(append_middleware)/write_string(prepend_middleware)")
RULE = ("corpus (D8/K3 witnesses, the repo's co-author test inputs); function pair: every string of <= k tokens over the C13 "
        "alphabet + ' and ' (k=4 quick, 5 thorough: exhaustive for that alphabet) and random lists of 1..5 persons "
        "(structured names with von parts, special characters, escapes, `and` words, non-ASCII) -> split, parse, "
        "merge_last_name_first, ' and '.join, split, parse; full stack: the same lists as the author/editor field of a "
        "document through parse_string(append_middleware=[SeparateCoAuthors(), SplitNameParts()]), "
        "write_string(prepend_middleware=[MergeNameParts(), MergeCoAuthors()]) and re-parsing. Compared: every "
        "intermediate result (pieces, parts, merged string, re-split pieces, re-parsed parts; for the stack the complete "
        "blocks). Non-trivial = at least one valid person.")
LEVEL_TEXT = ("Lean theorems about the models, for EVERY name / list / entry and every Unicode classification: merge_parse "
              "(parse (merge_last_name_first p) = p for the parts p that parse returns with non-empty last and no word "
              "ending in an odd number of backslashes), merged_ok, join_split (names that are non-empty, trimmed, "
              "brace-balanced, not ending in an unescaped backslash and free of a bare `and` word survive ' and '.join + "
              "split; the backslash condition is shown necessary), list_roundtrip, value_roundtrip and stack_roundtrip "
              "(SeparateCoAuthors+SplitNameParts, then MergeNameParts+MergeCoAuthors, then separate+split again gives the "
              "same entry), and the refutation and_word_cx (K3). The model is tied to names.py and to the parse/write "
              "entry points by differential execution on every run.")
LEVEL_NOTE = ("Trusted: Lean kernel + 3 standard axioms; the hand-written models Names/*.lean; the correspondence run. The "
              "writer/splitter part of the stack clause is exercised on the real code (oracle + comparison of the re-parsed "
              "fields with the model), not modelled here (C05/C10).")
EXHAUSTIVE = {"quick": True, "thorough": True}
ASSUMPTIONS = ["stack clause: the document written by write_string re-parses to the merged field value verbatim "
               "(C05/C10; fails when the merged value ends in a backslash - known finding K5)"]
PARTIAL = ["parse_string(append_middleware)/write_string(prepend_middleware) clause: proved for the four middlewares on an "
           "entry (stack_roundtrip); the splitter, the default stacks and the writer in between are not modelled in this "
           "module (C05/C06/C10) - that part is observed on the real code (oracle, and the re-parsed fields are compared with "
           "the model) and fails when the merged value ends in a backslash (known finding K5)"]

ALPHABET = ["Aa", "bb", "1", " ", ",", "~", "{", "}", "\\x", "\\X", "\\", "\\'", "b c", "\t", " and "]
GROUPS = [["separate", "splitParts"], ["mergePartsLast", "mergeCo"], ["separate", "splitParts"]]


def _np(p):
    return [Sym("np"), list(p.first), list(p.von), list(p.last), list(p.jr)]


def corpus():
    texts = [
        "X and and B and C",          # K3
        "AA bb CC dd",                # D8
        "A\\ and B",                  # D8: trailing backslash
        "A\\\\\\\\ B",                # K5: merged value 'B, A\\\\' ends in backslashes
        "Aa Bb and cc Dd, Ee and Ff, Jr, Gg", "aa Bb", "bb", "Aa bb Cc dd Ee", ", Aa", "Aa,, Bb", "Aa, , Bb",
        "{Aa and Bb} and Cc", "Aa AND Bb And Cc", "Aa and~Bb and Cc", "Aa and and", "and and and", "Aa and {and} Bb and Cc",
        "Aa\\ Bb and Cc", "Aa\\\\ Bb and Cc", "Aa \\x", "{\\'E}x {\\'e}x Zz and Émile de la Étoile", "A, B, C, D and E",
        "Aa,", "Aa and Bb,", "{Aa", "Aa} and Bb", "", "  ", "Aa  Bb\tand\nCc~Dd",
    ]
    _names, fields = U.repo_name_corpus()
    cases = [{"kind": "pair", "t": t} for t in texts + fields]
    cases += [{"kind": "stack", "t": t, "field": "author"} for t in texts + fields[:20]]
    cases += [{"kind": "cfg", "cfg": i, "t": t} for i in range(len(CFGS)) for t in ["Aa Bb and cc Dd, Ee", "van der Waals", "A B"]]
    cases.append({"kind": "mw", "fields": [["author", {"parts": [[["Aa"], ["von"], ["Bb"], ["Jr"]], [[], [], ["L\\"], []]]}],
                                          ["editor", {"parts": []}], ["title", {"s": "t"}]],
                  "groups": [["mergePartsLast"], ["mergeCo"], ["separate", "splitParts"]], "inplace": False})
    cases.append({"kind": "mw", "fields": [["author", {"parts": [[["Aa"], ["von"], ["Bb"], ["Jr"]]]}]],
                  "groups": [["mergePartsFirst", "mergeCo"], ["separate", "splitParts"]], "inplace": True})
    return cases


_W = ["Aa", "bb", "Cc", "dd", "1", "{\\'E}x", "{\\'e}x", "{\\relax Ab}", "{b c}", "{B c}", "\\x", "\\X", "x\\\\", "x\\",
      "de", "la", "van", "Émile", "émile", "中", "and", "AND", "{and}", "And", "andy", "Jr.", "{Aa and Bb}", "a\\nd", "\\'e"]
_S = [" ", " ", " ", "~", "\t", "  ", ", ", ",", " ,", "\n"]
_AND = [" and ", " and ", " AND ", "  and\t", "\nand ", " And "]


def _person(rng):
    out = []
    for _ in range(rng.randint(1, 5)):
        out.append(rng.choice(_W))
        out.append(rng.choice(_S))
    out.pop()
    return "".join(out)


def _persons(rng):
    n = rng.randint(1, 5)
    if rng.random() < 0.3:
        ps = ["".join(rng.choice(ALPHABET[:-1]) for _ in range(rng.randint(1, 4))) for _ in range(n)]
    else:
        ps = [_person(rng) for _ in range(n)]
    s = ps[0]
    for p in ps[1:]:
        s += rng.choice(_AND) + p
    return s


def gen(tier, rng):
    k = 4 if tier == "quick" else 5
    for t in C.token_strings(ALPHABET, k):
        yield {"kind": "pair", "t": t}
    for _ in range(60000 if tier == "quick" else 500000):
        yield {"kind": "pair", "t": _persons(rng)}
    for t in C.token_strings(ALPHABET, 3):
        yield {"kind": "stack", "t": t, "field": "author"}
    for _ in range(15000 if tier == "quick" else 120000):
        yield {"kind": "stack", "t": _persons(rng), "field": rng.choice(["author", "editor", "translator", "author"])}
        if rng.random() < 0.05:
            yield {"kind": "cfg", "cfg": rng.randrange(len(CFGS)), "t": _persons(rng)}


def _doc(case):
    return "@article{k,\n\t%s = {%s},\n\ttitle = {T and U}\n}\n" % (case.get("field", "author"), case["t"])


def _plain_entry(case):
    """the entry as the default parse stack delivers it (None if the document is not one entry)"""
    import bibtexparser
    from bibtexparser import model as M
    lib = bibtexparser.parse_string(_doc(case))
    if len(lib.blocks) != 1 or not isinstance(lib.blocks[0], M.Entry):
        return None
    return lib.blocks[0]


def request(case):
    kind = case["kind"]
    if kind == "cfg":
        return None
    if kind == "mw":
        text = "".join(U.value_text(v) for _k, v in case["fields"])
        if not lean_representable(text):
            return None
        return rq("namestack", B.enc_block(U.make_entry(case["fields"])), U.groups_sx(case["groups"]), chars_of=text)
    t = case["t"]
    if any(0xD800 <= ord(c) <= 0xDFFF for c in t):
        return None
    if kind == "pair":
        return rq("nameroundtrip", t, chars_of=t)
    if not lean_representable(t):
        return None
    e = _plain_entry(case)
    if e is None:
        return None
    return rq("namestack", B.enc_block(e), U.groups_sx(GROUPS), chars_of=t)


def _pair(t):
    from bibtexparser.middlewares.names import (split_multiple_persons_names as split,
                                                parse_single_name_into_parts as parse, InvalidNameError)
    ns = split(t)
    try:
        ps = [parse(n) for n in ns]
    except InvalidNameError:
        return [list(ns), Sym("invalid")]
    merged = " and ".join(p.merge_last_name_first for p in ps)
    ns2 = split(merged)
    try:
        r2 = [_np(p) for p in [parse(n) for n in ns2]]
    except InvalidNameError:
        r2 = Sym("invalid")
    return [list(ns), [_np(p) for p in ps], merged, list(ns2), r2]


def _stack(case):
    """(ok b1) (ok b2) (ok b3): after parse_string(append=[Separate, Split]); after the two merge middlewares
    (as write_string applies them); the re-parsed written document, rendered as b1 with the re-parsed field
    values (raw text and line numbers of the re-parsed document are the writer's business)."""
    import bibtexparser
    from bibtexparser import model as M
    from bibtexparser.library import Library
    from bibtexparser.middlewares.names import SeparateCoAuthors, SplitNameParts, MergeNameParts, MergeCoAuthors
    if _plain_entry(case) is None:
        return "(skip)"
    out = []
    lib1 = bibtexparser.parse_string(_doc(case), append_middleware=[SeparateCoAuthors(), SplitNameParts()])
    (b1,) = lib1.blocks
    out.append([Sym("ok"), B.enc_block(b1)])
    if isinstance(b1, M.MiddlewareErrorBlock):
        # model: the three groups leave an error block untouched
        out.append([Sym("ok"), B.enc_block(b1)])
        out.append([Sym("ok"), B.enc_block(b1)])
        try:
            bibtexparser.write_string(lib1, prepend_middleware=[MergeNameParts(), MergeCoAuthors()])
        except Exception as e:  # noqa
            return enc(out + [[Sym("write-raised"), Sym(type(e).__name__)]])
        return enc(out)
    skeleton = B.enc_block(b1)
    text = bibtexparser.write_string(lib1, prepend_middleware=[MergeNameParts(allow_inplace_modification=False),
                                                               MergeCoAuthors(allow_inplace_modification=False)])
    lib2 = MergeCoAuthors(allow_inplace_modification=False).transform(
        MergeNameParts(allow_inplace_modification=False).transform(lib1))
    (b2,) = lib2.blocks
    out.append([Sym("ok"), B.enc_block(b2)])
    lib3 = bibtexparser.parse_string(text, append_middleware=[SeparateCoAuthors(), SplitNameParts()])
    b3 = lib3.blocks[0] if len(lib3.blocks) == 1 else None
    inner = b3.ignore_error_block if isinstance(b3, M.MiddlewareErrorBlock) else b3
    if not isinstance(inner, M.Entry) or [f.key for f in inner.fields] != [f.key for f in b1.fields]:
        # the written document does not re-parse to the entry (writer/splitter round trip: C05/C10; the
        # oracle reports it).  Fall back to what the split middlewares make of the merged entry.
        lib3 = SplitNameParts(allow_inplace_modification=False).transform(
            SeparateCoAuthors(allow_inplace_modification=False).transform(lib2))
        out.append([Sym("ok"), B.enc_block(lib3.blocks[0])])
        return enc(out)
    view = list(skeleton)                      # (entry ty key fields line raw md)
    view[3] = [[Sym("f"), f0.key, B.enc_val(f.value), f0.start_line] for f0, f in zip(b1.fields, inner.fields)]
    if isinstance(b3, M.MiddlewareErrorBlock):
        view = [Sym("mwerror"), B.mw_class(b3.error), view]
    out.append([Sym("ok"), view])
    return enc(out)


CFGS = [
    # (name_fields per middleware group, fields of the document)
    {"groups": [("author", "bookauthor")], "fields": ["author", "bookauthor", "editor"]},
    {"groups": [("author",), ("editor",)], "fields": ["author", "editor", "translator"]},
    {"groups": [("editor", "translator"), ("author",)], "fields": ["author", "editor", "translator"]},
    {"groups": [("author", "editor", "translator")], "fields": ["author", "editor"]},
]


def _cfg_check(case):
    """the stack clause with non-default configurations (python-only: the model's middlewares use the default
    name fields): custom name_fields, and one middleware instance per group of fields, i.e. several instances
    of the same class in append_middleware / prepend_middleware"""
    import bibtexparser
    from bibtexparser import model as M
    from bibtexparser.middlewares.names import SeparateCoAuthors, SplitNameParts, MergeNameParts, MergeCoAuthors, NameParts
    from bibtexparser.middlewares.names import (split_multiple_persons_names as _split,
                                                parse_single_name_into_parts as _parse, InvalidNameError)
    cfg = CFGS[case["cfg"]]
    names = case["t"]
    # the property's hypotheses: valid names, non-empty last, no word ending in an odd number of backslashes;
    # and the inputs explained by the known findings K3 (bare `and` word) / K5 (merged value ends in a backslash)
    try:
        ps = [_parse(x) for x in _split(names)]
    except InvalidNameError:
        return None
    if not ps or not all(_ok_parts(p) for p in ps) or _has_and_word(names) or _merged_ends_in_backslash(names):
        return None
    doc = "@article{k,\n" + "".join("\t%s = {%s},\n" % (f, names) for f in cfg["fields"]) + "\ttitle = {T}\n}\n"
    plain = bibtexparser.parse_string(doc)
    if len(plain.blocks) != 1 or not isinstance(plain.blocks[0], M.Entry):
        return None
    configured = {f for g in cfg["groups"] for f in g}
    app = [SeparateCoAuthors(name_fields=g) for g in cfg["groups"]] + [SplitNameParts(name_fields=g) for g in cfg["groups"]]
    lib1 = bibtexparser.parse_string(doc, append_middleware=app)
    b1 = lib1.blocks[0]
    if isinstance(b1, M.MiddlewareErrorBlock):
        return None                                     # invalid name: C13's business
    for f in b1.fields:
        if f.key in configured and f.key in cfg["fields"]:
            if not (isinstance(f.value, list) and all(isinstance(p, NameParts) for p in f.value)):
                return "field %r is configured as a name field but was not split: %r" % (f.key, f.value)
        elif f.key != "title" and not isinstance(f.value, str):
            return "field %r is not configured as a name field but was transformed" % f.key
    import copy
    v1 = {f.key: copy.deepcopy(f.value) for f in b1.fields}
    pre = ([MergeNameParts(name_fields=g, allow_inplace_modification=False) for g in cfg["groups"]]
           + [MergeCoAuthors(name_fields=g, allow_inplace_modification=False) for g in cfg["groups"]])
    try:
        text = bibtexparser.write_string(lib1, prepend_middleware=pre)
    except Exception as e:  # noqa
        return "write_string with the inverse middlewares (name_fields %r) raised %s" % (cfg["groups"], type(e).__name__)
    lib2 = bibtexparser.parse_string(text, append_middleware=[SeparateCoAuthors(name_fields=g) for g in cfg["groups"]]
                                     + [SplitNameParts(name_fields=g) for g in cfg["groups"]])
    b2 = lib2.blocks[0] if len(lib2.blocks) == 1 else None
    if not isinstance(b2, M.Entry):
        return "the written document does not re-parse to one entry"
    if any(v1[f] != ps for f in configured if f in v1):
        return None     # the field value the parser extracted is not the text we reasoned about (stripped etc.)
    v2 = {f.key: f.value for f in b2.fields}
    if v1 != v2:
        bad = [k for k in v1 if v1[k] != v2.get(k)]
        return "name_fields %r: field %r re-parses to %r, was %r" % (cfg["groups"], bad[0], v2.get(bad[0]), v1[bad[0]])
    return None


def impl(case):
    kind = case["kind"]
    if kind == "cfg":
        r = _cfg_check(case)
        if r is not None:
            raise AssertionError(r)
        return "(ok cfg)"
    if kind == "mw":
        return enc(U.run_groups(U.make_entry(case["fields"]), case["groups"], case.get("inplace", True)))
    if kind == "pair":
        return enc(_pair(case["t"]))
    return _stack(case)


def _odd_bs(w):
    return (len(w) - len(w.rstrip("\\"))) % 2 == 1


def _ok_parts(p):
    return bool(p.last) and not any(_odd_bs(w) for w in p.first + p.von + p.last + p.jr)


def oracle(case):
    """The property on the real code, with exactly its hypotheses."""
    from bibtexparser.middlewares.names import (split_multiple_persons_names as split,
                                                parse_single_name_into_parts as parse, InvalidNameError)
    kind = case["kind"]
    if kind == "mw":
        return None
    if kind == "cfg":
        return _cfg_check(case)
    t = case["t"]
    names = split(t)
    try:
        ps = [parse(x) for x in names]
    except InvalidNameError:
        return None
    if not ps or not all(_ok_parts(p) for p in ps):
        return None
    if kind == "pair":
        merged = " and ".join(p.merge_last_name_first for p in ps)
        try:
            ps2 = [parse(x) for x in split(merged)]
        except InvalidNameError as e:
            return "merged value %r no longer splits into valid names (%s); persons were %r" % (merged, e.reason, ps)
        if ps2 != ps:
            return "persons %r merged to %r re-split into %r" % (ps, merged, ps2)
        # first-name-first merging keeps the words in order (no inverse claimed)
        return None
    # full stack
    import bibtexparser
    from bibtexparser import model as M
    from bibtexparser.middlewares.names import SeparateCoAuthors, SplitNameParts, MergeNameParts, MergeCoAuthors
    if _plain_entry(case) is None:
        return None
    field = case.get("field", "author")
    lib1 = bibtexparser.parse_string(_doc(case), append_middleware=[SeparateCoAuthors(), SplitNameParts()])
    (b1,) = lib1.blocks
    if not isinstance(b1, M.Entry):
        return None
    v1 = b1.fields_dict[field].value
    if v1 != ps:
        return None     # the field value the parser extracted is not the text we reasoned about (stripped etc.)
    import copy
    v1 = copy.deepcopy(v1)
    text = bibtexparser.write_string(lib1, prepend_middleware=[MergeNameParts(), MergeCoAuthors()])
    lib3 = bibtexparser.parse_string(text, append_middleware=[SeparateCoAuthors(), SplitNameParts()])
    if len(lib3.blocks) != 1 or not isinstance(lib3.blocks[0], M.Entry):
        return "the written document %r does not re-parse to one entry: %r" % (text, [type(b).__name__ for b in lib3.blocks])
    v3 = lib3.blocks[0].fields_dict[field].value
    if v3 != v1:
        return "structured names %r, written as %r, re-parse to %r" % (v1, text, v3)
    return None


def _has_and_word(t):
    from bibtexparser.middlewares.names import split_multiple_persons_names as split
    for piece in split(t):
        secs = U.sections_spec(piece)
        if secs is None:
            continue
        if any(w.lower() == "and" for sec in secs for w in sec):
            return True
    return False


def _merged_ends_in_backslash(t):
    from bibtexparser.middlewares.names import (split_multiple_persons_names as split,
                                                parse_single_name_into_parts as parse, InvalidNameError)
    try:
        ps = [parse(x) for x in split(t)]
    except InvalidNameError:
        return False
    return bool(ps) and " and ".join(p.merge_last_name_first for p in ps).endswith("\\")


def known_match(finding, case, failure):
    if case.get("kind") not in ("pair", "stack"):
        return False
    if finding.get("id") == "K3":
        # only failures whose input has a piece containing a bare top-level word and/AND/And...
        return _has_and_word(case["t"])
    if finding.get("id") == "K5":
        # only the stack clause, and only when the merged field value ends in a backslash
        return case.get("kind") == "stack" and _merged_ends_in_backslash(case["t"])
    return False


def nontrivial(case, out):
    return "(np " in out


def describe(cases, outs):
    kinds = collections.Counter()
    persons = collections.Counter()
    feats = collections.Counter()
    for c, o in zip(cases, outs):
        k = c["kind"]
        kinds[k] += 1
        if k == "mw":
            continue
        if k == "pair":
            if o.endswith(" invalid)") and o.count("(np") == 0:
                feats["pair: some name invalid"] += 1
            else:
                persons[min(o.split(") s")[0].count("(np "), 6)] += 1
        else:
            if o == "(skip)":
                feats["stack: document is not one entry"] += 1
            elif "(mwerror" in o:
                feats["stack: invalid name -> error block"] += 1
            else:
                feats["stack: round trip observed"] += 1
        t = c["t"]
        if "\\" in t:
            feats["has escape"] += 1
        if "{" in t:
            feats["has brace"] += 1
        if any(ord(ch) > 127 for ch in t):
            feats["non-ASCII"] += 1
    return {"kinds": dict(kinds), "persons_per_pair_case(capped 6)": dict(persons), "features": dict(feats)}
