"""C14 - splitting names and merging them back is an inverse pair through the whole stack."""
import collections

from .. import common as C
from .. import names_util as U
from .. import blocks as B
from ..wire import Sym, enc, request as rq, lean_representable

ID = "C14"
LEAN_MODULE = "BibVerif.Props.C14"
TECHNIQUE = ("Lean 4 proof about the models of parse/merge/split/join, of the four name middlewares and - with C05's "
             "print_parse - of parse_string(append_middleware)/write_string(prepend_middleware) over the model of the whole "
             "default pipeline; differential correspondence model vs names.py and vs the two entry points")
RULE = ("corpus (D8/K3/K5 witnesses, the repo's co-author test inputs, the Lean non-vacuity document); function pair: every "
        "string of <= k tokens over the C13 alphabet + ' and ' (k=4 quick, 5 thorough: exhaustive for that alphabet) and random "
        "lists of 1..5 persons (structured names with von parts, special characters, escapes, `and` words, non-ASCII) -> split, "
        "parse, merge_last_name_first, ' and '.join, split, parse; full stack (kind stack): the same lists as the author/editor "
        "field of a document through parse_string(append_middleware=[SeparateCoAuthors(), SplitNameParts()]), "
        "write_string(prepend_middleware=[MergeNameParts(), MergeCoAuthors()]) and re-parsing, compared block by block with "
        "the four middleware models; whole pipeline (kind pipe): every string of <= 3 tokens as a one-entry document and "
        "random documents of 1..3 entries with 1..3 name fields each (braced, quoted and @string-referenced values) between "
        "@string/@comment/@preamble/free-text blocks, occasionally with a duplicate key, x 3 BibtexFormat settings - the MODEL "
        "of the pipeline (parseDefault + applyMws, applyMws + writeDefault, re-parse) vs the real entry points: the complete "
        "library after parsing, after merging, the written text, the complete re-parsed library. Non-trivial = at least one "
        "valid person.")
LEVEL_TEXT = ("Lean theorems about the models, for EVERY name / list / entry / library and every Unicode classification: "
              "merge_parse (parse (merge_last_name_first p) = p for the parts p that parse returns with non-empty last and no "
              "word ending in an odd number of backslashes), merged_ok, join_split (names that are non-empty, trimmed, "
              "brace-balanced, not ending in an unescaped backslash and free of a bare `and` word survive ' and '.join + "
              "split; the backslash condition is shown necessary), list_roundtrip, value_roundtrip, stack_roundtrip "
              "(SeparateCoAuthors+SplitNameParts, then MergeNameParts+MergeCoAuthors, then separate+split again gives the "
              "same entry), lib_roundtrip (the same for every block of a library), and the refutation and_word_cx (K3). "
              "Second sentence, through the model of the whole pipeline: mws_blockwise (running the middlewares one after "
              "the other over the library with Library(blocks) in between, as the entry points do, equals the block-by-block "
              "application on every library - keys never change), content_only (what the name middlewares do depends only on "
              "a block's content), pipeline_roundtrip and entrypoint_roundtrip: if parse_string(s, append_middleware=[Separate, "
              "Split]) returns L1 with good persons and the library the two merge middlewares make of L1 is Writable (C05), then "
              "write_string(L1, prepend_middleware=[MergeNameParts, MergeCoAuthors], F) returns a text t and parse_string(t, "
              "append_middleware=[...]) returns a library with the same blocks, types, keys, field order and values - the same "
              "structured names; for every FormatOK format and every character table satisfying PrintOK. "
              "pipeline_roundtrip_full_cx (K5) and merged_blockstart_cx (K6): without Writable the clause is false of model "
              "and code alike. The models are "
              "tied to names.py and to the two entry points by differential execution on every run.")
LEVEL_NOTE = ("Trusted: Lean kernel + 3 standard axioms; the hand-written models Names/*.lean (incl. Names/Pipeline.lean: "
              "parseNames, writeNames) and the models of the default pipeline (Lex, Split, Interpolate, Enclosing, Writer, "
              "Pipeline - shared with C05); the correspondence run; the PrintOK facts about CPython's \\w / isspace / lower "
              "(checked over all code points on every run). The stack clause is proved under the hypothesis Writable of the "
              "MERGED library (C05's condition: no failed block - so every name valid -, distinct keys, \\w entry types, simple "
              "keys, every value CleanVal, ...); it is a hypothesis on the merged library, not derived from the source document. "
              "K5 (merged value ending in a backslash) is exactly a case where Writable fails: `B, A\\\\` is not CleanVal; so is "
              "K6 (author = {a@b~{c} D} merges to `a@b {c} D`, which contains the block start `@b {`; merged_blockstart_cx). The "
              "model's middlewares use the default name_fields and the last-name-first style; other configurations are "
              "exercised on the real code only (kind cfg).")
EXHAUSTIVE = {"quick": True, "thorough": True}
ASSUMPTIONS = ["PrintOK (per-character facts about \\w, str.isspace, str.lower; checked over all code points this run)",
               "FormatOK: indent consists of blanks/tabs, block_separator of blanks/tabs/newlines",
               "stack clause: Writable of the library MergeNameParts+MergeCoAuthors produce (C05; in particular every merged "
               "name value is CleanVal: brace-balanced tokens, no block start inside, not ending in a backslash - the known "
               "findings K5 (merged value ends in a backslash) and K6 (merging replaces a `~` between `@word` and `{` by a "
               "blank: the merged value contains a block start) are cases where Writable fails and so does the clause)",
               "persons: non-empty last name, no word ending in an odd number of backslashes, no bare word `and` in the "
               "merged form (K3)"]
PARTIAL = ["pipeline_roundtrip_full (Props/C14.lean, kept as a def; refuted as stated by pipeline_roundtrip_full_cx = K5 and merged_blockstart_cx = K6): the "
           "stack clause with no condition on the merged library. Proved is entrypoint_roundtrip / pipeline_roundtrip, which "
           "assume Writable of the merged library; not proved is a characterisation of that hypothesis from the source "
           "document (when is every merged name value CleanVal? TextOK of the source value is not enough: K6) - that gap is "
           "covered by the correspondence run and the oracle (kinds stack, pipe) only"]

ALPHABET = ["Aa", "bb", "1", " ", ",", "~", "{", "}", "\\x", "\\X", "\\", "\\'", "b c", "\t", " and "]
GROUPS = [["separate", "splitParts"], ["mergePartsLast", "mergeCo"], ["separate", "splitParts"]]


def _np(p):
    return [Sym("np"), list(p.first), list(p.von), list(p.last), list(p.jr)]


def corpus():
    texts = [
        "X and and B and C",          # K3
        "AA bb CC dd",                # D8
        "A\\ and B",                  # D8: trailing backslash
        "A\\\\\\\\ B",                # K5: merged value 'B, A\\\\' ends in backslashes
        "Aa Bb and cc Dd, Ee and Ff, Jr, Gg", "aa Bb", "bb", "Aa bb Cc dd Ee", ", Aa", "Aa,, Bb", "Aa, , Bb",
        "{Aa and Bb} and Cc", "Aa AND Bb And Cc", "Aa and~Bb and Cc", "Aa and and", "and and and", "Aa and {and} Bb and Cc",
        "Aa\\ Bb and Cc", "Aa\\\\ Bb and Cc", "Aa \\x", "{\\'E}x {\\'e}x Zz and Émile de la Étoile", "A, B, C, D and E",
        "Aa,", "Aa and Bb,", "{Aa", "Aa} and Bb", "", "  ", "Aa  Bb\tand\nCc~Dd",
    ]
    _names, fields = U.repo_name_corpus()
    cases = [{"kind": "pair", "t": t} for t in texts + fields]
    cases += [{"kind": "stack", "t": t, "field": "author"} for t in texts + fields[:20]]
    cases += [{"kind": "cfg", "cfg": i, "t": t} for i in range(len(CFGS)) for t in ["Aa Bb and cc Dd, Ee", "van der Waals", "A B"]]
    # the model of the whole pipeline vs the entry points
    cases += [_pipe_single(t, "author", i % len(FMTS)) for i, t in enumerate(texts + fields[:20])]
    ex = "@a{k, author = {Aa Bb and de {La Rue}, Ee}, t = {T and U}}\n@comment{c}"      # Props/C14.lean exDoc
    cases += [{"kind": "pipe", "doc": ex, "names": ["Aa Bb and de {La Rue}, Ee"], "fmt": i} for i in range(len(FMTS))]
    cases.append({"kind": "pipe", "doc": "@a{k, author = {A\\\\\\\\ B}}", "names": ["A\\\\\\\\ B"], "fmt": 0})   # Props/C14.lean k5Doc
    cases.append({"kind": "pipe", "doc": "@a{k, author = {a@b~{c} D}}", "names": ["a@b~{c} D"], "fmt": 0})         # Props/C14.lean k6Doc
    multi = ("@string{nm = {von Last, Jr, First}}\n@article{k1,\n  author = nm,\n  title = {T and U},\n  editor = \"Aa Bb and {Cc and Dd}\"\n}\n"
             "free text\n@book{k2, translator = {de la Fontaine, Jean and Knuth, D. E.}}\n@comment{a comment}\n@preamble{pre}\n"
             "@misc{k1, author = {Dup Key}}\n@misc{k3, author = {Aa,}, editor = {Bb Cc}}")
    cases += [{"kind": "pipe", "doc": multi, "names": [], "fmt": i} for i in range(len(FMTS))]
    cases.append({"kind": "mw", "fields": [["author", {"parts": [[["Aa"], ["von"], ["Bb"], ["Jr"]], [[], [], ["L\\"], []]]}],
                                          ["editor", {"parts": []}], ["title", {"s": "t"}]],
                  "groups": [["mergePartsLast"], ["mergeCo"], ["separate", "splitParts"]], "inplace": False})
    cases.append({"kind": "mw", "fields": [["author", {"parts": [[["Aa"], ["von"], ["Bb"], ["Jr"]]]}]],
                  "groups": [["mergePartsFirst", "mergeCo"], ["separate", "splitParts"]], "inplace": True})
    return cases


_W = ["Aa", "bb", "Cc", "dd", "1", "{\\'E}x", "{\\'e}x", "{\\relax Ab}", "{b c}", "{B c}", "\\x", "\\X", "x\\\\", "x\\",
      "de", "la", "van", "Émile", "émile", "中", "and", "AND", "{and}", "And", "andy", "Jr.", "{Aa and Bb}", "a\\nd", "\\'e"]
_S = [" ", " ", " ", "~", "\t", "  ", ", ", ",", " ,", "\n"]
_AND = [" and ", " and ", " AND ", "  and\t", "\nand ", " And "]


def _person(rng):
    out = []
    for _ in range(rng.randint(1, 5)):
        out.append(rng.choice(_W))
        out.append(rng.choice(_S))
    out.pop()
    return "".join(out)


def _persons(rng):
    n = rng.randint(1, 5)
    if rng.random() < 0.3:
        ps = ["".join(rng.choice(ALPHABET[:-1]) for _ in range(rng.randint(1, 4))) for _ in range(n)]
    else:
        ps = [_person(rng) for _ in range(n)]
    s = ps[0]
    for p in ps[1:]:
        s += rng.choice(_AND) + p
    return s


def gen(tier, rng):
    k = 4 if tier == "quick" else 5
    for t in C.token_strings(ALPHABET, k):
        yield {"kind": "pair", "t": t}
    # whitespace that is not BibTeX's (NBSP, thin space, VT, FF, LS): part of a word, never stripped or split at
    for t in C.token_strings(["Aa", "bb", " and ", " ", ",", "\u00a0", "\u2009", "\x0b", "\x0c", "\u2028"], 4 if tier == "quick" else 5):
        yield {"kind": "pair", "t": t}
    # line ends inside name lists as files with CR / CRLF line ends have them; a character whose lower() is two code points
    for t in C.token_strings(["Aa", "bb", "and", " ", ",", "\r", "\n", "\r\n", "\u0130"], 5 if tier == "quick" else 6):
        yield {"kind": "pair", "t": t}
    for _ in range(60000 if tier == "quick" else 500000):
        yield {"kind": "pair", "t": _persons(rng)}
    for t in C.token_strings(ALPHABET, 3):
        yield {"kind": "stack", "t": t, "field": "author"}
    for _ in range(15000 if tier == "quick" else 120000):
        yield {"kind": "stack", "t": _persons(rng), "field": rng.choice(["author", "editor", "translator", "author"])}
        if rng.random() < 0.05:
            yield {"kind": "cfg", "cfg": rng.randrange(len(CFGS)), "t": _persons(rng)}
    for i, t in enumerate(C.token_strings(ALPHABET, 3)):
        yield _pipe_single(t, "author", i % len(FMTS))
    for _ in range(5000 if tier == "quick" else 60000):
        doc, names = _pipe_doc(rng)
        yield {"kind": "pipe", "doc": doc, "names": names, "fmt": rng.randrange(len(FMTS))}


def _doc(case):
    return "@article{k,\n\t%s = {%s},\n\ttitle = {T and U}\n}\n" % (case.get("field", "author"), case["t"])


# BibtexFormat settings of the pipe cases (all FormatOK: indent of blanks/tabs, separator of blanks/tabs/newlines)
FMTS = [{"indent": "\t", "col": 0, "sep": "\n\n", "tc": False},
        {"indent": "  ", "col": "auto", "sep": "\n", "tc": True},
        {"indent": "", "col": 14, "sep": " \n\n", "tc": False}]
_TEMPLATE = "% WARNING Parsing failed for the following {n} lines."
NAME_FIELDS = ("author", "editor", "translator")


def _fmt_wire(i):
    f = FMTS[i]
    return [Sym("fmt"), f["indent"], Sym("auto") if f["col"] == "auto" else f["col"], f["sep"], f["tc"], _TEMPLATE]


def _fmt_of(i):
    from bibtexparser.writer import BibtexFormat
    f = BibtexFormat()
    f.indent, f.value_column, f.block_separator, f.trailing_comma = (FMTS[i][k] for k in ("indent", "col", "sep", "tc"))
    return f


def _pipe_single(t, field, fmt):
    return {"kind": "pipe", "doc": _doc({"t": t, "field": field}), "names": [t], "fmt": fmt}


def _pipe_doc(rng):
    """a document of 1..3 entries with 1..3 name fields each (braced, quoted or a reference to a @string) between
    other block kinds; `names` = the texts of the name fields in document order"""
    names, parts, strings = [], [], {}
    if rng.random() < 0.4:
        strings["nm"] = _person(rng) if rng.random() < 0.5 else _persons(rng)
        parts.append("@string{nm = {%s}}" % strings["nm"])
    for i in range(rng.randint(1, 3)):
        if rng.random() < 0.35:
            parts.append(rng.choice(["@comment{a comment}", "free text", "@preamble{pre}", "@string{s%d = {x y}}" % i]))
        key = "k%d" % (i if rng.random() < 0.95 else 0)
        fields = []
        for f in rng.sample(NAME_FIELDS, rng.randint(1, 3)):
            r = rng.random()
            if strings and r < 0.15:
                fields.append("%s = nm" % f)
                names.append(strings["nm"])
            else:
                t = _persons(rng)
                fields.append(('%s = "%s"' if r < 0.3 else "%s = {%s}") % (f, t))
                names.append(t)
        if rng.random() < 0.7:
            fields.insert(rng.randrange(len(fields) + 1), "title = {T and U}")
        parts.append("@%s{%s,\n  %s\n}" % (rng.choice(["article", "book", "Misc"]), key, ",\n  ".join(fields)))
    if rng.random() < 0.2:
        parts.append(rng.choice(["@comment{end}", "trailing text"]))
    return rng.choice(["\n", "\n\n", " "]).join(parts), names


def _plain_entry(case):
    """the entry as the default parse stack delivers it (None if the document is not one entry)"""
    import bibtexparser
    from bibtexparser import model as M
    lib = bibtexparser.parse_string(_doc(case))
    if len(lib.blocks) != 1 or not isinstance(lib.blocks[0], M.Entry):
        return None
    return lib.blocks[0]


def request(case):
    kind = case["kind"]
    if kind == "cfg":
        return None
    if kind == "pipe":
        doc = case["doc"]
        if not lean_representable(doc):
            return None
        return rq("namespipe", _fmt_wire(case.get("fmt", 0)), doc, chars_of=doc)
    if kind == "mw":
        text = "".join(U.value_text(v) for _k, v in case["fields"])
        if not lean_representable(text):
            return None
        return rq("namestack", B.enc_block(U.make_entry(case["fields"])), U.groups_sx(case["groups"]), chars_of=text)
    t = case["t"]
    if any(0xD800 <= ord(c) <= 0xDFFF for c in t):
        return None
    if kind == "pair":
        return rq("nameroundtrip", t, chars_of=t)
    if not lean_representable(t):
        return None
    e = _plain_entry(case)
    if e is None:
        return None
    return rq("namestack", B.enc_block(e), U.groups_sx(GROUPS), chars_of=t)


def _pair(t):
    from bibtexparser.middlewares.names import (split_multiple_persons_names as split,
                                                parse_single_name_into_parts as parse, InvalidNameError)
    ns = split(t)
    try:
        ps = [parse(n) for n in ns]
    except InvalidNameError:
        return [list(ns), Sym("invalid")]
    merged = " and ".join(p.merge_last_name_first for p in ps)
    ns2 = split(merged)
    try:
        r2 = [_np(p) for p in [parse(n) for n in ns2]]
    except InvalidNameError:
        r2 = Sym("invalid")
    return [list(ns), [_np(p) for p in ps], merged, list(ns2), r2]


def _stack(case):
    """(ok b1) (ok b2) (ok b3): after parse_string(append=[Separate, Split]); after the two merge middlewares
    (as write_string applies them); the re-parsed written document, rendered as b1 with the re-parsed field
    values (raw text and line numbers of the re-parsed document are the writer's business)."""
    import bibtexparser
    from bibtexparser import model as M
    from bibtexparser.library import Library
    from bibtexparser.middlewares.names import SeparateCoAuthors, SplitNameParts, MergeNameParts, MergeCoAuthors
    if _plain_entry(case) is None:
        return "(skip)"
    out = []
    lib1 = bibtexparser.parse_string(_doc(case), append_middleware=[SeparateCoAuthors(), SplitNameParts()])
    (b1,) = lib1.blocks
    out.append([Sym("ok"), B.enc_block(b1)])
    if isinstance(b1, M.MiddlewareErrorBlock):
        # model: the three groups leave an error block untouched
        out.append([Sym("ok"), B.enc_block(b1)])
        out.append([Sym("ok"), B.enc_block(b1)])
        try:
            bibtexparser.write_string(lib1, prepend_middleware=[MergeNameParts(), MergeCoAuthors()])
        except Exception as e:  # noqa
            return enc(out + [[Sym("write-raised"), Sym(type(e).__name__)]])
        return enc(out)
    skeleton = B.enc_block(b1)
    # the same list object is handed to write_string twice (a module-level constant in user code): the call must
    # neither change it nor behave differently the second time
    pre = [MergeNameParts(allow_inplace_modification=False), MergeCoAuthors(allow_inplace_modification=False)]
    bibtexparser.write_string(lib1, prepend_middleware=pre)
    if len(pre) != 2:
        return enc(out + [[Sym("prepend-list-mutated"), len(pre)]])
    text = bibtexparser.write_string(lib1, prepend_middleware=pre)
    lib2 = MergeCoAuthors(allow_inplace_modification=False).transform(
        MergeNameParts(allow_inplace_modification=False).transform(lib1))
    (b2,) = lib2.blocks
    out.append([Sym("ok"), B.enc_block(b2)])
    lib3 = bibtexparser.parse_string(text, append_middleware=[SeparateCoAuthors(), SplitNameParts()])
    b3 = lib3.blocks[0] if len(lib3.blocks) == 1 else None
    inner = b3.ignore_error_block if isinstance(b3, M.MiddlewareErrorBlock) else b3
    if not isinstance(inner, M.Entry) or [f.key for f in inner.fields] != [f.key for f in b1.fields]:
        # the written document does not re-parse to the entry (writer/splitter round trip: C05/C10; the
        # oracle reports it).  Fall back to what the split middlewares make of the merged entry.
        lib3 = SplitNameParts(allow_inplace_modification=False).transform(
            SeparateCoAuthors(allow_inplace_modification=False).transform(lib2))
        out.append([Sym("ok"), B.enc_block(lib3.blocks[0])])
        return enc(out)
    view = list(skeleton)                      # (entry ty key fields line raw md)
    view[3] = [[Sym("f"), f0.key, B.enc_val(f.value), f0.start_line] for f0, f in zip(b1.fields, inner.fields)]
    if isinstance(b3, M.MiddlewareErrorBlock):
        view = [Sym("mwerror"), B.mw_class(b3.error), view]
    out.append([Sym("ok"), view])
    return enc(out)


def _raise(e):
    return [Sym("raise"), Sym(type(e).__name__)]


def _pipe(case):
    """the four stages of `namespipe` on the real code: the library parse_string(append=[Separate, Split]) returns; the
    library the two merge middlewares make of it; the text write_string(prepend=[MergeNameParts, MergeCoAuthors],
    bibtex_format) returns for the parsed library; the library parse_string(append=...) returns for that text.
    Complete blocks (all attributes, metadata); cut short by (raise E) at the first stage that raises."""
    import bibtexparser
    from bibtexparser.middlewares.names import SeparateCoAuthors, SplitNameParts, MergeNameParts, MergeCoAuthors
    doc, fmt = case["doc"], _fmt_of(case.get("fmt", 0))
    out = []
    try:
        lib1 = bibtexparser.parse_string(doc, append_middleware=[SeparateCoAuthors(), SplitNameParts()])
    except Exception as e:  # noqa
        return enc(out + [_raise(e)])
    out.append([Sym("ok"), B.enc_blocks(lib1.blocks, prev=False)])      # rendered before anything else touches the objects
    try:
        lib2 = MergeCoAuthors(allow_inplace_modification=False).transform(
            MergeNameParts(allow_inplace_modification=False).transform(lib1))
    except Exception as e:  # noqa
        return enc(out + [_raise(e)])
    out.append([Sym("ok"), B.enc_blocks(lib2.blocks, prev=False)])
    try:
        pre = [MergeNameParts(), MergeCoAuthors()]
        text = bibtexparser.write_string(lib1, prepend_middleware=pre, bibtex_format=fmt)
        if len(pre) != 2:
            return enc(out + [[Sym("prepend-list-mutated"), len(pre)]])
    except Exception as e:  # noqa
        return enc(out + [_raise(e)])
    out.append([Sym("ok"), text])
    try:
        lib3 = bibtexparser.parse_string(text, append_middleware=[SeparateCoAuthors(), SplitNameParts()])
    except Exception as e:  # noqa
        return enc(out + [_raise(e)])
    out.append([Sym("ok"), B.enc_blocks(lib3.blocks, prev=False)])
    return enc(out)


def _content(blocks):
    """what `contentOf` keeps of a library without failed blocks"""
    from bibtexparser import model as M
    out = []
    for b in blocks:
        if isinstance(b, M.Entry):
            out.append(("entry", b.entry_type, b.key, [(f.key, f.value) for f in b.fields]))
        elif isinstance(b, M.String):
            out.append(("string", b.key, b.value))
        elif isinstance(b, M.Preamble):
            out.append(("preamble", b.value))
        elif isinstance(b, M.ExplicitComment):
            out.append(("expl", b.comment))
        else:
            out.append(("impl", b.comment))
    return out


def _pipe_oracle(case):
    """The second sentence on the real code, for a whole document: if the document parses (split middlewares appended)
    into a library without failed blocks whose name fields hold exactly the persons of `names` - every person with a
    non-empty last name and no word ending in an odd number of backslashes - then the document write_string (merge
    middlewares prepended) returns re-parses to a library with the same content: same blocks, types, keys, field
    order, and the same structured names."""
    import copy
    import bibtexparser
    from bibtexparser import model as M
    from bibtexparser.middlewares.names import (SeparateCoAuthors, SplitNameParts, MergeNameParts, MergeCoAuthors,
                                                split_multiple_persons_names as split,
                                                parse_single_name_into_parts as parse, InvalidNameError)
    names = case["names"]
    if not names:
        return None
    try:
        want = [[parse(x) for x in split(t)] for t in names]
    except InvalidNameError:
        return None
    if not all(_ok_parts(p) for ps in want for p in ps) or not any(want):
        return None
    lib1 = bibtexparser.parse_string(case["doc"], append_middleware=[SeparateCoAuthors(), SplitNameParts()])
    if any(isinstance(b, M.ParsingFailedBlock) for b in lib1.blocks):
        return None
    got = [f.value for b in lib1.blocks if isinstance(b, M.Entry) for f in b.fields if f.key in NAME_FIELDS]
    if got != want:
        return None     # the name fields the parser extracted are not the texts we reasoned about
    c1 = copy.deepcopy(_content(lib1.blocks))
    text = bibtexparser.write_string(lib1, prepend_middleware=[MergeNameParts(), MergeCoAuthors()],
                                     bibtex_format=_fmt_of(case.get("fmt", 0)))
    lib3 = bibtexparser.parse_string(text, append_middleware=[SeparateCoAuthors(), SplitNameParts()])
    if any(isinstance(b, M.ParsingFailedBlock) for b in lib3.blocks):
        return "the written document %r re-parses with failed blocks: %r" % (text, [type(b).__name__ for b in lib3.blocks])
    c3 = _content(lib3.blocks)
    if c3 != c1:
        for i, (a, b) in enumerate(zip(c1, c3)):
            if a != b:
                return "block %d: %r, written as %r, re-parses to %r" % (i, a, text, b)
        return "block count changed: %d -> %d (written %r)" % (len(c1), len(c3), text)
    return None


CFGS = [
    # (name_fields per middleware group, fields of the document)
    {"groups": [("author", "bookauthor")], "fields": ["author", "bookauthor", "editor"]},
    {"groups": [("author",), ("editor",)], "fields": ["author", "editor", "translator"]},
    {"groups": [("editor", "translator"), ("author",)], "fields": ["author", "editor", "translator"]},
    {"groups": [("author", "editor", "translator")], "fields": ["author", "editor"]},
]


def _cfg_check(case):
    """the stack clause with non-default configurations (python-only: the model's middlewares use the default
    name fields): custom name_fields, and one middleware instance per group of fields, i.e. several instances
    of the same class in append_middleware / prepend_middleware"""
    import bibtexparser
    from bibtexparser import model as M
    from bibtexparser.middlewares.names import SeparateCoAuthors, SplitNameParts, MergeNameParts, MergeCoAuthors, NameParts
    from bibtexparser.middlewares.names import (split_multiple_persons_names as _split,
                                                parse_single_name_into_parts as _parse, InvalidNameError)
    cfg = CFGS[case["cfg"]]
    names = case["t"]
    # the property's hypotheses: valid names, non-empty last, no word ending in an odd number of backslashes;
    # and the inputs explained by the known findings K3 (bare `and` word) / K5 (merged value ends in a backslash)
    try:
        ps = [_parse(x) for x in _split(names)]
    except InvalidNameError:
        return None
    if not ps or not all(_ok_parts(p) for p in ps) or _has_and_word(names) or _merged_ends_in_backslash(names):
        return None
    doc = "@article{k,\n" + "".join("\t%s = {%s},\n" % (f, names) for f in cfg["fields"]) + "\ttitle = {T}\n}\n"
    plain = bibtexparser.parse_string(doc)
    if len(plain.blocks) != 1 or not isinstance(plain.blocks[0], M.Entry):
        return None
    configured = {f for g in cfg["groups"] for f in g}
    app = [SeparateCoAuthors(name_fields=g) for g in cfg["groups"]] + [SplitNameParts(name_fields=g) for g in cfg["groups"]]
    lib1 = bibtexparser.parse_string(doc, append_middleware=app)
    b1 = lib1.blocks[0]
    if isinstance(b1, M.MiddlewareErrorBlock):
        return None                                     # invalid name: C13's business
    for f in b1.fields:
        if f.key in configured and f.key in cfg["fields"]:
            if not (isinstance(f.value, list) and all(isinstance(p, NameParts) for p in f.value)):
                return "field %r is configured as a name field but was not split: %r" % (f.key, f.value)
        elif f.key != "title" and not isinstance(f.value, str):
            return "field %r is not configured as a name field but was transformed" % f.key
    import copy
    v1 = {f.key: copy.deepcopy(f.value) for f in b1.fields}
    pre = ([MergeNameParts(name_fields=g, allow_inplace_modification=False) for g in cfg["groups"]]
           + [MergeCoAuthors(name_fields=g, allow_inplace_modification=False) for g in cfg["groups"]])
    try:
        text = bibtexparser.write_string(lib1, prepend_middleware=pre)
    except Exception as e:  # noqa
        return "write_string with the inverse middlewares (name_fields %r) raised %s" % (cfg["groups"], type(e).__name__)
    lib2 = bibtexparser.parse_string(text, append_middleware=[SeparateCoAuthors(name_fields=g) for g in cfg["groups"]]
                                     + [SplitNameParts(name_fields=g) for g in cfg["groups"]])
    b2 = lib2.blocks[0] if len(lib2.blocks) == 1 else None
    if not isinstance(b2, M.Entry):
        return "the written document does not re-parse to one entry"
    if any(v1[f] != ps for f in configured if f in v1):
        return None     # the field value the parser extracted is not the text we reasoned about (stripped etc.)
    v2 = {f.key: f.value for f in b2.fields}
    if v1 != v2:
        bad = [k for k in v1 if v1[k] != v2.get(k)]
        return "name_fields %r: field %r re-parses to %r, was %r" % (cfg["groups"], bad[0], v2.get(bad[0]), v1[bad[0]])
    return None


def impl(case):
    kind = case["kind"]
    if kind == "cfg":
        r = _cfg_check(case)
        if r is not None:
            raise AssertionError(r)
        return "(ok cfg)"
    if kind == "mw":
        return enc(U.run_groups(U.make_entry(case["fields"]), case["groups"], case.get("inplace", True)))
    if kind == "pair":
        return enc(_pair(case["t"]))
    if kind == "pipe":
        return _pipe(case)
    return _stack(case)


def _odd_bs(w):
    return (len(w) - len(w.rstrip("\\"))) % 2 == 1


def _ok_parts(p):
    return bool(p.last) and not any(_odd_bs(w) for w in p.first + p.von + p.last + p.jr)


def oracle(case):
    """The property on the real code, with exactly its hypotheses."""
    from bibtexparser.middlewares.names import (split_multiple_persons_names as split,
                                                parse_single_name_into_parts as parse, InvalidNameError)
    kind = case["kind"]
    if kind == "mw":
        return None
    if kind == "cfg":
        return _cfg_check(case)
    if kind == "pipe":
        return _pipe_oracle(case)
    t = case["t"]
    names = split(t)
    # "separating co-authors" is C12's exact rule; C14 builds on it, so a list that is separated wrongly in the first
    # place is reported here as well (independent word-level reference; defined when no closing brace is unmatched)
    if U.no_unmatched_close(t) and names != U.ref_split(t):
        return "co-authors of %r separated as %r, the separator rule gives %r" % (t, names, U.ref_split(t))
    try:
        ps = [parse(x) for x in names]
    except InvalidNameError:
        return None
    if not ps or not all(_ok_parts(p) for p in ps):
        return None
    if kind == "pair":
        merged = " and ".join(p.merge_last_name_first for p in ps)
        try:
            ps2 = [parse(x) for x in split(merged)]
        except InvalidNameError as e:
            return "merged value %r no longer splits into valid names (%s); persons were %r" % (merged, e.reason, ps)
        if ps2 != ps:
            return "persons %r merged to %r re-split into %r" % (ps, merged, ps2)
        # first-name-first merging keeps the words in order (no inverse claimed)
        return None
    # full stack
    import bibtexparser
    from bibtexparser import model as M
    from bibtexparser.middlewares.names import SeparateCoAuthors, SplitNameParts, MergeNameParts, MergeCoAuthors
    if _plain_entry(case) is None:
        return None
    field = case.get("field", "author")
    lib1 = bibtexparser.parse_string(_doc(case), append_middleware=[SeparateCoAuthors(), SplitNameParts()])
    (b1,) = lib1.blocks
    if not isinstance(b1, M.Entry):
        return None
    v1 = b1.fields_dict[field].value
    if v1 != ps:
        return None     # the field value the parser extracted is not the text we reasoned about (stripped etc.)
    import copy
    v1 = copy.deepcopy(v1)
    pre = [MergeNameParts(allow_inplace_modification=False), MergeCoAuthors(allow_inplace_modification=False)]
    text0 = bibtexparser.write_string(lib1, prepend_middleware=pre)
    text = bibtexparser.write_string(lib1, prepend_middleware=pre)        # the same list object again
    if len(pre) != 2 or text != text0:
        return "write_string called twice with the same prepend_middleware list: list now has %d items, texts %r / %r" % (
            len(pre), text0, text)
    lib3 = bibtexparser.parse_string(text, append_middleware=[SeparateCoAuthors(), SplitNameParts()])
    if len(lib3.blocks) != 1 or not isinstance(lib3.blocks[0], M.Entry):
        return "the written document %r does not re-parse to one entry: %r" % (text, [type(b).__name__ for b in lib3.blocks])
    v3 = lib3.blocks[0].fields_dict[field].value
    if v3 != v1:
        return "structured names %r, written as %r, re-parse to %r" % (v1, text, v3)
    return None


def _has_and_word(t):
    from bibtexparser.middlewares.names import split_multiple_persons_names as split
    for piece in split(t):
        secs = U.sections_spec(piece)
        if secs is None:
            continue
        if any(w.lower() == "and" for sec in secs for w in sec):
            return True
    return False


def _merged_ends_in_backslash(t):
    from bibtexparser.middlewares.names import (split_multiple_persons_names as split,
                                                parse_single_name_into_parts as parse, InvalidNameError)
    try:
        ps = [parse(x) for x in split(t)]
    except InvalidNameError:
        return False
    return bool(ps) and " and ".join(p.merge_last_name_first for p in ps).endswith("\\")


def _merged_has_block_start(t):
    import re
    from bibtexparser.middlewares.names import (split_multiple_persons_names as split,
                                                parse_single_name_into_parts as parse, InvalidNameError)
    try:
        ps = [parse(x) for x in split(t)]
    except InvalidNameError:
        return False
    return re.search(r"@\w*[ \t]*\{", " and ".join(p.merge_last_name_first for p in ps)) is not None


def known_match(finding, case, failure):
    kind = case.get("kind")
    if kind not in ("pair", "stack", "pipe"):
        return False
    texts = case["names"] if kind == "pipe" else [case["t"]]
    if finding.get("id") == "K3":
        # only failures whose input has a piece containing a bare top-level word and/AND/And...
        return any(_has_and_word(t) for t in texts)
    if finding.get("id") == "K5":
        # only the stack clause, and only when a merged field value ends in a backslash (Writable fails: not CleanVal)
        return kind in ("stack", "pipe") and any(_merged_ends_in_backslash(t) for t in texts)
    if finding.get("id") == "K6":
        # only the stack clause, and only when a merged field value contains a block start (Writable fails: not CleanVal)
        return kind in ("stack", "pipe") and any(_merged_has_block_start(t) for t in texts)
    return False


def extra_obligations(tier):
    """pipeline_roundtrip / entrypoint_roundtrip assume PrintOK (Lemmas/PrintParseDefs.lean): the same per-character
    facts as C05, evaluated on the running CPython over all code points"""
    from . import c05 as _c05
    return _c05.extra_obligations(tier)


def nontrivial(case, out):
    return "(np " in out


def describe(cases, outs):
    kinds = collections.Counter()
    persons = collections.Counter()
    feats = collections.Counter()
    for c, o in zip(cases, outs):
        k = c["kind"]
        kinds[k] += 1
        if k == "mw":
            continue
        if k == "pipe":
            if "(raise" in o:
                feats["pipe: a stage raised"] += 1
            elif "(mwerror" in o:
                feats["pipe: invalid name -> error block"] += 1
            elif "(failed" in o or "(dupkey" in o:
                feats["pipe: failed / duplicate-key block in a library"] += 1
            else:
                feats["pipe: all four stages, live blocks only"] += 1
            feats["pipe: format %d" % c.get("fmt", 0)] += 1
            continue
        if k == "pair":
            if o.endswith(" invalid)") and o.count("(np") == 0:
                feats["pair: some name invalid"] += 1
            else:
                persons[min(o.split(") s")[0].count("(np "), 6)] += 1
        else:
            if o == "(skip)":
                feats["stack: document is not one entry"] += 1
            elif "(mwerror" in o:
                feats["stack: invalid name -> error block"] += 1
            else:
                feats["stack: round trip observed"] += 1
        t = c["t"]
        if "\\" in t:
            feats["has escape"] += 1
        if "{" in t:
            feats["has brace"] += 1
        if any(ord(ch) > 127 for ch in t):
            feats["non-ASCII"] += 1
    return {"kinds": dict(kinds), "persons_per_pair_case(capped 6)": dict(persons), "features": dict(feats)}
