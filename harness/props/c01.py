"""C01 - parsing and re-writing never raise: bad input becomes failed blocks."""
import collections

from .. import common as C
from .. import blocks as B
from ..wire import lean_representable, request as rq

ID = "C01"
LEAN_MODULE = "BibVerif.Props.C01"
LEVEL_TEXT = ("Lean theorems parse_total and write_total over the model of the WHOLE default pipeline (splitter, Library.add, "
              "ResolveStringReferences, RemoveEnclosing, AddEnclosing in copy mode, writer): for EVERY text (any size, nesting "
              "depth, line count) parse_string returns a library and write_string of that library returns a text; the "
              "splitter's 'cannot happen' exception states are unreachable (regex look-ahead lemma atOK_lexFrom + automaton "
              "invariant), every value it produces is a str (split_strBlocks), so none of the middlewares' failure modes can "
              "occur; all model functions are total, so no hang. Interpreter limits (RecursionError/MemoryError) cannot be "
              "exhibited by the model and are covered by running size-scaled families on the real code each run.")
LEVEL_NOTE = ("Trusted: Lean kernel + 3 standard axioms; hand-written model (Lex/Split; the default stacks and writer are "
              "total model functions); correspondence run incl. size-scaled inputs; CPython re semantics. Not modelled: "
              "recursion limit and memory of the interpreter, logging.")
TECHNIQUE = "Lean 4 proof: unreachability of error states by an automaton invariant; differential correspondence incl. size-scaled inputs"
RULE = ("corpus (incl. @strings defined by themselves, by each other, in chains of 3000, keys differing in case, empty keys - what the default stack runs on); every sequence of <= 3 (thorough 4) whole blocks over a pool of 11 whose keys collide exactly or only "
        "up to letter case (@string / entry / duplicate-field / comment / preamble / free text, with references in both "
        "spellings); every string of <= k tokens over { } \" , = NL \\ @a a SP behind 6 block prefixes (k=4 quick, 5 thorough); "
        "arbitrary Unicode garbage incl. lone surrogates (python-only stream: must not raise); size-scaled families "
        "(1e3..1e5 lines of blank/comment/value text, brace nesting 1e4, 2e4 blocks, unterminated blocks at EOF). For every "
        "case the real parse_string AND write_string (default format and three other BibtexFormat settings incl. auto) are run; compared with the model of the whole pipeline: the parsed "
        "library (all attributes, metadata) and the written text. "
        "Non-trivial = at least one block.")
EXHAUSTIVE = {"quick": False, "thorough": False}
ASSUMPTIONS = ["the only exceptions able to leave Splitter.split are ParserStateException/RegexMismatchException "
               "(every BlockAbortedException is caught per block) - by reading splitter.py:261-320"]
PARTIAL = ["RecursionError / MemoryError are interpreter behaviour: exercised with size-scaled inputs, not proved"]
CASE_TIMEOUT_S = 30


def corpus():
    texts = [
        "\n" * 2000,                     # D1: RecursionError before the fix
        "\n" * 20000 + "@a{k}",
        "@a{k, f = " + "{" * 3000,
        "@comment{" + "{" * 5000 + "}" * 5000 + "}",
        "@a{k, a = \"x{\"}y\"}",
        "@",
        "@{",
        "@ {",
        "@a\t {",
        "@string{",
        "@string{=",
        "@preamble{",
        "@comment{",
        '@a{k,x="',
        "}}}}",
        '"""',
        "\\",
        "@a{k, month = 13}",
        "\ud800@a{\udfff}",
        "@İ{k}",
        "@a{k, f = {v}}\x00\x0b\x0c\x1c\x85 ",
        # the default stack runs on every parse: @strings defined by themselves, by each other, in long chains; references to
        # them; definitions and keys that differ only in case; empty and blank keys
        "@string{a = a}\n@article{k, title = a}",
        "@string{x = y}\n@string{y = x}\n@misc{m, note = y, n2 = x # y}",
        "".join("@string{s%d = s%d}\n" % (i, i + 1) for i in range(3000)) + "@a{k, f = s0}",
        "@string{Foo = \"a\"}\n@string{foo = \"b\"}\n@string{FOO = foo}\n@a{K, f = Foo}\n@a{k, f = FOO}",
        "@string{ = 1}\n@a{, = }\n@a{ , f = }\n@string{a = }\n@a{k, f = a}",
    ]
    return [{"t": t} for t in texts]


def _garbage(rng, n):
    pools = ['{}",=@\\\n \t#', "abcXYZ019_", "\r\x0b\x0c\x1c\x85  　", "éÜßİıǅΣς²٣", "\U0001F600�̀",
             "@comment{", "@string{", "@preamble{", "@a{"]
    out = []
    for _ in range(n):
        p = rng.choice(pools)
        out.append(p if p.startswith("@") and rng.random() < .5 else rng.choice(p))
    return "".join(out)


def _scaled(tier):
    sizes = [1000, 10000] if tier == "quick" else [1000, 10000, 100000]
    for n in sizes:
        yield "\n" * n
        yield "% comment line\n" * n
        yield " \n\t\n" * n
        yield "@a{k,\n f = {" + "value text\n" * n + "}\n}"
        yield "@a{k,\n f = {" + "value text\n" * n           # unterminated at EOF
        yield "@comment{" + "line\n" * n                     # unterminated comment
        yield "x\\\n" * n
        yield "@string{s = {v}}\n" * min(n, 20000)
        yield "".join("@a{k%d, f = {v}}\n" % i for i in range(min(n, 20000)))
        yield "@a{k" * min(n, 20000)
        yield ("@a{k, f = " + "{" * min(n, 10000))
        yield ("@comment{" + "{" * min(n, 10000) + "}" * min(n, 10000) + "}")
        yield ('@a{k, f = "' + "{" * min(n, 10000) + '"' + "}" * min(n, 10000) + '"}')
        yield ",=" * n
        yield "@a{k," + "f=1," * min(n, 20000) + "}"
    # long runs that a backtracking regex or a quadratic scan would choke on ("no hang"): an '@' followed by many word
    # characters / blanks that is NOT a block start, runs of backslashes, many '@' in a row
    for n in (40, 5000):
        for tail in ("", "(", "-{", " \t x"):
            yield "@" + "a" * n + tail
            yield "@" + "a1_" * n + tail
            yield "text @" + "Ab" * n + tail + "\n@a{k}"
        yield "@a" + " " * n + "x"
        yield "@a" + " \t" * n + "\n{"
        yield "x@" * n + "{"
        yield "\\" * n + "{" + "\\" * n + "}"
        yield "@a{k, f = " + '"' * n


# whole blocks whose keys collide exactly or only up to letter case, with references in both spellings:
# every sequence of a few of them goes through Library.add, string resolution, enclosing and the writer
BLOCK_POOL = ['@string{Jan = "x"}', "@string{jan = {y}}", "@string{jan = 1}", "@a{K, f = jan, g = Jan}", "@a{k, f = JAN}",
              "@a{k}", "@B{K,}", "@a{k, f = 1, F = 2, f = 3}", "@comment{jan}", "jan", "@preamble{jan}"]


def gen(tier, rng):
    k = 4 if tier == "quick" else 5
    for t in C.token_strings(C.SPLIT_ALPHABET, k, C.SPLIT_PREFIXES):
        yield {"t": t}
    import itertools
    for n in range(1, 4 if tier == "quick" else 5):
        for combo in itertools.product(BLOCK_POOL, repeat=n):
            yield {"t": "\n".join(combo)}
    for _ in range(4000 if tier == "quick" else 40000):
        yield {"t": _garbage(rng, rng.randint(1, 40))}
    for _ in range(500 if tier == "quick" else 5000):
        # python-only: lone surrogates cannot be represented as Lean characters
        t = _garbage(rng, rng.randint(1, 20))
        i = rng.randint(0, len(t))
        yield {"t": t[:i] + rng.choice(["\ud800", "\udc00", "\udfff"]) + t[i:]}
    for t in _scaled(tier):
        yield {"t": t}


def request(case):
    t = case["t"]
    if not lean_representable(t):
        return None
    return rq("parsewrite", t, chars_of=t)


def _other_formats():
    """write_string takes a BibtexFormat: "returns a string instead of raising" holds for every setting of it"""
    from bibtexparser.writer import BibtexFormat
    out = []
    for col, tc, sep, ind in (("auto", True, "\n", "  "), (0, False, "", ""), (25, True, " \n", "\t")):
        f = BibtexFormat()
        f.value_column, f.trailing_comma, f.block_separator, f.indent = col, tc, sep, ind
        out.append(f)
    return out


def _pipeline(text):
    """the real parse_string + write_string; returns (library, written text). The library is also written with three
    non-default formats (result only required to be a str)"""
    import bibtexparser
    lib = bibtexparser.parse_string(text)
    out = bibtexparser.write_string(lib)
    for f in _other_formats():
        o = bibtexparser.write_string(lib, bibtex_format=f)
        if not isinstance(o, str):
            raise TypeError("write_string returned %r" % type(o).__name__)
    return lib, out


def impl(case):
    from ..wire import enc, Sym
    text = case["t"]
    import bibtexparser
    lib = bibtexparser.parse_string(text)          # any exception becomes (raise X) in the runner
    sig = B.enc_blocks(lib.blocks, prev=False)
    out = bibtexparser.write_string(lib)
    if not isinstance(out, str):
        return "(raise NotAString)"
    for f in _other_formats():                      # any exception becomes (raise X) in the runner
        if not isinstance(bibtexparser.write_string(lib, bibtex_format=f), str):
            return "(raise NotAString)"
    return enc([Sym("ok"), sig, out])


def oracle(case):
    from bibtexparser import model as M
    from bibtexparser.library import Library
    text = case["t"]
    try:
        lib, out = _pipeline(text)
    except RecursionError:
        return "RecursionError from parse_string/write_string"
    except BaseException as e:  # noqa
        return "parse_string/write_string raised %s: %s" % (type(e).__name__, str(e)[:200])
    if not isinstance(lib, Library) or not isinstance(out, str):
        return "wrong result types %r %r" % (type(lib), type(out))
    for i, b in enumerate(lib.failed_blocks):
        if b.error is None or not isinstance(b.error, BaseException) or b.raw is None:
            return "failed block %d lacks error or raw" % i
    return None


def known_match(finding, case, failure):
    return False


def describe(cases, outs):
    kinds = collections.Counter()
    sizes = collections.Counter()
    for c, o in zip(cases, outs):
        kinds.update(set(C.block_kinds(o[:20000])))
        n = len(c["t"])
        sizes["<=16" if n <= 16 else "<=256" if n <= 256 else "<=1e4" if n <= 10000 else "<=1e5" if n <= 100000 else ">1e5"] += 1
    return {"inputs_with_block_kind": dict(kinds), "input_chars": dict(sizes),
            "raised": sum(1 for o in outs if o.startswith("(raise")),
            "non_ascii_inputs": sum(1 for c in cases if any(ord(ch) > 127 for ch in c["t"]))}
