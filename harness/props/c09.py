"""C09 - duplicate keys are never merged or dropped: first wins, the rest are flagged."""
import collections

from .. import common as C
from .. import blocks as B
from .. import docgen
from ..wire import lean_representable, request as rq, Sym, enc

ID = "C09"
LEAN_MODULE = "BibVerif.Props.C09"
LEVEL_TEXT = ("Lean theorems over the model of Library.add: library_add (never raises; result = the specification addAllSpec), "
              "count_preserved, first_wins / later_wrapped (the wrapper holds the key, the FIRST block with that key - nothing "
              "with the key precedes it - and the complete duplicate), string variants, other_kinds_register_nothing, "
              "dup_field_wrapper + dup_field_not_registered (splitter: every field occurrence kept in order, key not live), "
              "dupKeys_nonempty_iff, readd_is_identity (survives the Library(blocks) rebuild every block middleware performs) - "
              "for all block lists / all derivations. Pipeline level: models_agree / models_agree_indexes / models_agree_spec (the "
              "assert-free Library.add fold inside the model of the default parse stack builds the same blocks and indexes as the "
              "model with the _cast_to_duplicate asserts, = addAllSpec), resolve_keeps_skeleton, remove_enclosing_keeps_skeleton, "
              "readd_skeleton (a block list with the skeletons of a library is a fixed point of Library(blocks): nothing re-wrapped, "
              "nothing dropped), default_stack_keeps_structure / default_stack_structure_total (for EVERY text parse_string(text) "
              "succeeds and returns, position by position, blocks with the skeleton - class, type, key, field keys and lines in "
              "order, start line, raw, failure reason, duplicated keys, wrapper key and the skeletons of previous block and "
              "duplicate - of parse_string(text, parse_stack=[]); only values and parser metadata may differ), and its corollaries "
              "count_preserved_default, count_blocks_default (grammar documents: one non-free-text block per source block), "
              "first_wins_default, later_wrapped_default, string_later_wrapped_default, dup_field_default. Tied to library.py + "
              "splitter.py + the default parse stack by differential execution on documents whose keys come from a pool of 3.")
LEVEL_NOTE = ("Trusted: Lean kernel + 3 standard axioms; the hand-written models AddAll.lean (Library.add) and Split.lean; the "
              "correspondence run; dict = insertion-ordered assoc list. For the pipeline-level theorems additionally the models "
              "Interpolate.lean (ResolveStringReferences + its Library.add fold), Enclosing.lean (RemoveEnclosing, BlockMiddleware "
              "dispatch) and their composition Pipeline.parseDefault, each compared with the real parse_string(text) on every case "
              "(complete blocks incl. values and metadata; a duplicate-key block's previous_block only as (class, key) there - its "
              "aliasing with the live block is modelled but not transmitted). What the value transformations do is C10/C11; here "
              "that they leave the block structure alone is proved.")
TECHNIQUE = "Lean 4 proof: invariant of sequential key-safe insertion vs a first-occurrence specification; differential correspondence"
RULE = ("documents cut between two blocks and parsed in two calls (parse_string(first), parse_string(second, library=...)) against one call; grammar-derived documents with entry keys, @string keys and field keys drawn from pools of 3 (collisions of every "
        "multiplicity and interleaving: entry vs string with the same name, duplicates of duplicate-field entries), plus "
        "bounded-exhaustive sequences of <= k tiny blocks over {@a{x}, @a{y}, @string{x=1}, @a{x,f=1,f=2}, @comment{c}, junk} "
        "(k=5 quick, 6 thorough). Every text is sent twice: parse_string(text, parse_stack=[]).blocks vs the model of "
        "splitter + Library.add (request parse0), and parse_string(text).blocks vs the model of the default parse stack "
        "(request parsedefault); the impl side also checks on the real objects that the default parse stack keeps every "
        "block's skeleton (the Lean `skel`). Non-trivial = at least one duplicate block.")
EXHAUSTIVE = {"quick": False, "thorough": False}
ASSUMPTIONS = []
PARTIAL = []

TINY = ["@a{x}", "@b{y, f = 1}", "@string{x = {1}}", "@a{x, f = 1, f = 2}", "@comment{c}", "junk\n", "@string{y = x}", "@a{x, g = x}"]


def corpus():
    texts = [
        "@a{x}@a{x}",
        "@a{x}\n@string{x = 1}\n@a{x, f=1}\n@string{x = 2}\n@string{x = 3}",
        "@a{x, f = 1, f = 2}\n@a{x}\n@a{x, g = 1, g = 2, g = 3}",
        "@a{x, f = 1, F = 2, f = 3, h = 4, h = 5}",
        "@a{ x }@a{x }@a{ x}",
    ]
    return [{"t": t} for t in texts] + [{"t": t, "d": 1} for t in texts]


def gen(tier, rng):
    k = 5 if tier == "quick" else 6
    for t in C.token_strings(TINY, k):
        yield {"t": t}
        yield {"t": t, "d": 1}
    # the same document handed over in two calls (parse_string(..., library=...)), cut between two blocks
    parts = list(C.token_strings([x + "\n" for x in TINY if x != "junk\n"], 3))
    for a in parts[1:]:
        for b in parts[1:]:
            if (len(a) + 3 * len(b)) % 7 == 0 or len(a) + len(b) < 40:
                yield {"t": a + b, "cut": len(a)}
    n = 3000 if tier == "quick" else 30000
    made = 0
    while made < n:
        d = docgen.gen_doc(rng, max_blocks=7, keypool=["k", "K", "s"], fieldpool=["f", "g", "F"],
                           distinct_field_keys=False, distinct_block_keys=False)
        if not docgen.sane(d):
            continue
        made += 1
        yield {"t": d.text()}
        yield {"t": d.text(), "d": 1}


def request(case):
    if "cut" in case:
        return None      # python-only: evaluated on the real code (impl raises when it fails)
    t = case["t"]
    if not lean_representable(t):
        return None
    if case.get("d"):
        return rq("parsedefault", t, chars_of=t)      # the default parse stack (Pipeline.parseDefault)
    return rq("parse0", t, chars_of=t)


def _skel_live(b):
    """the Lean `skelLive`: class, type, key, field keys + lines, text of comments/preambles, line, raw - no values, no metadata"""
    from bibtexparser import model as M
    if isinstance(b, M.Entry):
        return ("entry", b.entry_type, b.key, tuple((f.key, f.start_line) for f in b.fields), b.start_line, b.raw)
    if isinstance(b, M.String):
        return ("string", b.key, b.start_line, b.raw)
    if isinstance(b, M.Preamble):
        return ("preamble", b.value, b.start_line, b.raw)
    if isinstance(b, M.ExplicitComment):
        return ("expl", b.comment, b.start_line, b.raw)
    if isinstance(b, M.ImplicitComment):
        return ("impl", b.comment, b.start_line, b.raw)
    return ("other", type(b).__name__)


def _structure(blocks):
    """the Lean `skel` of every block"""
    from bibtexparser import model as M
    out = []
    for b in blocks:
        if isinstance(b, M.DuplicateBlockKeyBlock):
            out.append(("dupkey", b.key, _skel_live(b.previous_block), _skel_live(b.ignore_error_block)))
        elif isinstance(b, M.DuplicateFieldKeyBlock):
            out.append(("dupfield", tuple(sorted(b.duplicate_keys)), _skel_live(b.ignore_error_block)))
        elif isinstance(b, M.MiddlewareErrorBlock):
            out.append(("mwerror", type(b.error).__name__, _skel_live(b.ignore_error_block)))
        elif isinstance(b, M.ParsingFailedBlock):
            out.append(("failed", str(B.fail_class(b.error)), b.start_line, b.raw))
        else:
            out.append(_skel_live(b))
    return out


def _cont_check(case):
    """a document parsed in two calls - parse_string(first part), then parse_string(second part, library=that library) - holds
    the duplicates of the document parsed in one call: the first block with a key is live, every later one is a wrapper
    exposing that first, live block (free-text comments, which may join across the cut, are left out of the comparison)"""
    import bibtexparser
    from bibtexparser import model as M

    def sig(lib):
        pos = {id(b): i for i, b in enumerate(lib.blocks)}
        out = []
        for b in lib.blocks:
            if isinstance(b, M.ImplicitComment):
                continue
            if isinstance(b, M.DuplicateBlockKeyBlock):
                p = b.previous_block
                out.append(("dupkey", b.key, type(b.ignore_error_block).__name__,
                            (type(p).__name__, p.key, p.raw) if id(p) in pos else "previous block is not a block of the library"))
            elif isinstance(b, (M.Entry, M.String)):
                out.append((type(b).__name__, b.key))
            else:
                out.append((type(b).__name__,))
        return out

    t, cut = case["t"], case["cut"]
    for kw in ({"parse_stack": []}, {}):
        one = bibtexparser.parse_string(t, **kw)
        lib = bibtexparser.parse_string(t[:cut], **kw)
        two = bibtexparser.parse_string(t[cut:], library=lib, **kw)
        if sig(two) != sig(one):
            return "parsed in two calls (cut at %d, %s): %r; parsed in one call: %r" % (cut, "parse_stack=[]" if kw else "default stack", sig(two), sig(one))
    return None


def impl(case):
    import bibtexparser
    if "cut" in case:
        f = _cont_check(case)
        if f:
            raise AssertionError(f)
        return "(ok continuation)"
    if case.get("d"):
        lib2 = bibtexparser.parse_string(case["t"])
        res = C.ok(B.enc_blocks(lib2.blocks, prev=False))
        # the same stack built with allow_inplace_modification=False (every block is copied on its way): same blocks,
        # same wrappers, and every wrapper still exposes its first block
        from bibtexparser.middlewares.parsestack import default_parse_stack
        lib3 = bibtexparser.parse_string(case["t"], parse_stack=default_parse_stack(allow_inplace_modification=False))
        if C.ok(B.enc_blocks(lib3.blocks, prev=False)) != res:
            return res + " copy-mode-default-stack-differs"
        return res
    lib = bibtexparser.parse_string(case["t"], parse_stack=[])
    res = C.ok(B.enc_blocks(lib.blocks))
    lib2 = bibtexparser.parse_string(case["t"])
    if _structure(lib2.blocks) != _structure(lib.blocks):
        return res + " default-stack-changed-block-structure"
    return res


def oracle(case):
    """the property statement on the real code, from the raw splitter output"""
    import bibtexparser
    from bibtexparser import model as M
    if "cut" in case:
        return _cont_check(case)
    text = case["t"]
    src = C.raw_split(text)                       # blocks before Library.add
    from bibtexparser.middlewares.parsestack import default_parse_stack
    for stack in ([], None, "default stack in copy mode"):
        lib = bibtexparser.parse_string(text, parse_stack=default_parse_stack(allow_inplace_modification=False)
                                        if isinstance(stack, str) else stack)
        got = lib.blocks
        if len(got) != len(src):
            return "%d source blocks but %d returned (stack=%r)" % (len(src), len(got), stack)
        first_e, first_s = {}, {}
        for i, (s, g) in enumerate(zip(src, got)):
            if isinstance(s, M.Entry) or isinstance(s, M.String):
                idx = first_e if isinstance(s, M.Entry) else first_s
                if s.key not in idx:
                    idx[s.key] = i
                    if type(g) is not type(s) or g.key != s.key:
                        return "first block with key %r at %d is not live: %r" % (s.key, i, type(g).__name__)
                    live = lib.entries_dict if isinstance(s, M.Entry) else lib.strings_dict
                    if live.get(s.key) is not g:
                        return "index does not map %r to the first block" % s.key
                else:
                    if not isinstance(g, M.DuplicateBlockKeyBlock):
                        return "later block with key %r at %d was not flagged: %r" % (s.key, i, type(g).__name__)
                    fb, pb = got[idx[s.key]], g.previous_block
                    if isinstance(stack, str):
                        # copy mode copies block by block: the wrapper exposes a copy of the first block (same class,
                        # key, position and raw text), not the object held by the library
                        exposes = (pb is not None and type(pb) is type(fb) and pb.key == fb.key
                                   and pb.start_line == fb.start_line and pb.raw == fb.raw)
                    else:
                        exposes = pb is fb
                    if g.key != s.key or not exposes:
                        return "duplicate wrapper at %d does not expose key / first block (stack=%r)" % (i, stack)
                    d = g.ignore_error_block
                    if type(d) is not type(s) or d.key != s.key or (isinstance(s, M.Entry) and [f.key for f in d.fields] != [f.key for f in s.fields]):
                        return "duplicate wrapper at %d does not hold the complete duplicate" % i
            elif isinstance(s, M.DuplicateFieldKeyBlock):
                if not isinstance(g, M.DuplicateFieldKeyBlock):
                    return "duplicate-field block at %d became %r" % (i, type(g).__name__)
                e = g.ignore_error_block
                if [f.key for f in e.fields] != [f.key for f in s.ignore_error_block.fields]:
                    return "duplicate-field block at %d lost field occurrences" % i
                keys = [f.key for f in e.fields]
                # ... in SOURCE order, read off the raw text (not off the splitter's own output): the occurrences
                # `key =` are found one after the other in the block's text, and the start lines never decrease
                import re as _re
                pos = 0
                for f in e.fields:
                    m = _re.compile(_re.escape(f.key) + r"\s*=").search(g.raw, pos)
                    if m is None:
                        return ("duplicate-field block at %d: field occurrences %r are not in source order (raw %r)"
                                % (i, keys, g.raw[:80]))
                    pos = m.end()
                lines = [f.start_line for f in e.fields]
                if lines != sorted(lines):
                    return "duplicate-field block at %d: start lines of the field occurrences decrease: %r" % (i, lines)
                if set(g.duplicate_keys) != {k for k in keys if keys.count(k) > 1}:
                    return "duplicate-field block at %d reports keys %r" % (i, sorted(g.duplicate_keys))
                if lib.entries_dict.get(e.key) is e:
                    return "key of a duplicate-field entry is registered as live"
            else:
                if type(g) is not type(s):
                    return "block %d changed class %r -> %r" % (i, type(s).__name__, type(g).__name__)
    return None


def known_match(finding, case, failure):
    return False


def describe(cases, outs):
    kinds = collections.Counter()
    mult = collections.Counter()
    for c, o in zip(cases, outs):
        ks = C.block_kinds(o)
        kinds.update(ks)
        mult[min(ks.count("dupkey"), 4)] += 1
    return {"block_kinds": dict(kinds), "duplicate_key_blocks_per_document(capped 4)": dict(mult)}


def nontrivial(case, out):
    return "(dupkey " in out or "(dupfield " in out
