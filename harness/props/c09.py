"""C09 - duplicate keys are never merged or dropped: first wins, the rest are flagged."""
import collections

from .. import common as C
from .. import blocks as B
from .. import docgen
from ..wire import lean_representable, request as rq, Sym, enc

ID = "C09"
LEAN_MODULE = "BibVerif.Props.C09"
LEVEL_TEXT = ("Lean theorems over the model of Library.add: library_add (never raises; result = the specification addAllSpec), "
              "count_preserved, first_wins / later_wrapped (the wrapper holds the key, the FIRST block with that key - nothing "
              "with the key precedes it - and the complete duplicate), string variants, other_kinds_register_nothing, "
              "dup_field_wrapper + dup_field_not_registered (splitter: every field occurrence kept in order, key not live), "
              "dupKeys_nonempty_iff, readd_is_identity (survives the Library(blocks) rebuild every block middleware performs) - "
              "for all block lists / all derivations; tied to library.py + splitter.py by differential execution on documents "
              "whose keys come from a pool of 3.")
LEVEL_NOTE = ("Trusted: Lean kernel + 3 standard axioms; the hand-written models AddAll.lean (Library.add) and Split.lean; the "
              "correspondence run; dict = insertion-ordered assoc list. The default parse stack's value transformations are "
              "C10/C11; here only that the block structure survives it is compared.")
TECHNIQUE = "Lean 4 proof: invariant of sequential key-safe insertion vs a first-occurrence specification; differential correspondence"
RULE = ("grammar-derived documents with entry keys, @string keys and field keys drawn from pools of 3 (collisions of every "
        "multiplicity and interleaving: entry vs string with the same name, duplicates of duplicate-field entries), plus "
        "bounded-exhaustive sequences of <= k tiny blocks over {@a{x}, @a{y}, @string{x=1}, @a{x,f=1,f=2}, @comment{c}, junk} "
        "(k=5 quick, 6 thorough). Compared: parse_string(text, parse_stack=[]).blocks vs the model; the impl side also checks "
        "that the default parse stack keeps the same block structure. Non-trivial = at least one duplicate block.")
EXHAUSTIVE = {"quick": False, "thorough": False}
ASSUMPTIONS = []
PARTIAL = []

TINY = ["@a{x}", "@b{y, f = 1}", "@string{x = {1}}", "@a{x, f = 1, f = 2}", "@comment{c}", "junk\n", "@string{y = x}", "@a{x, g = x}"]


def corpus():
    texts = [
        "@a{x}@a{x}",
        "@a{x}\n@string{x = 1}\n@a{x, f=1}\n@string{x = 2}\n@string{x = 3}",
        "@a{x, f = 1, f = 2}\n@a{x}\n@a{x, g = 1, g = 2, g = 3}",
        "@a{x, f = 1, F = 2, f = 3, h = 4, h = 5}",
        "@a{ x }@a{x }@a{ x}",
    ]
    return [{"t": t} for t in texts]


def gen(tier, rng):
    k = 5 if tier == "quick" else 6
    for t in C.token_strings(TINY, k):
        yield {"t": t}
    n = 3000 if tier == "quick" else 30000
    made = 0
    while made < n:
        d = docgen.gen_doc(rng, max_blocks=7, keypool=["k", "K", "s"], fieldpool=["f", "g", "F"],
                           distinct_field_keys=False, distinct_block_keys=False)
        if not docgen.sane(d):
            continue
        made += 1
        yield {"t": d.text()}


def request(case):
    t = case["t"]
    if not lean_representable(t):
        return None
    return rq("parse0", t, chars_of=t)


def _structure(blocks):
    from bibtexparser import model as M
    out = []
    for b in blocks:
        if isinstance(b, M.DuplicateBlockKeyBlock):
            out.append(("dupkey", b.key, type(b.ignore_error_block).__name__, b.start_line))
        elif isinstance(b, M.DuplicateFieldKeyBlock):
            out.append(("dupfield", b.ignore_error_block.key, tuple(f.key for f in b.ignore_error_block.fields), b.start_line))
        elif isinstance(b, M.ParsingFailedBlock):
            out.append(("failed", b.start_line))
        else:
            out.append((type(b).__name__, getattr(b, "key", None), b.start_line))
    return out


def impl(case):
    import bibtexparser
    lib = bibtexparser.parse_string(case["t"], parse_stack=[])
    res = C.ok(B.enc_blocks(lib.blocks))
    lib2 = bibtexparser.parse_string(case["t"])
    if _structure(lib2.blocks) != _structure(lib.blocks):
        return res + " default-stack-changed-block-structure"
    return res


def oracle(case):
    """the property statement on the real code, from the raw splitter output"""
    import bibtexparser
    from bibtexparser import model as M
    text = case["t"]
    src = C.raw_split(text)                       # blocks before Library.add
    for stack in ([], None):
        lib = bibtexparser.parse_string(text, parse_stack=stack)
        got = lib.blocks
        if len(got) != len(src):
            return "%d source blocks but %d returned (stack=%r)" % (len(src), len(got), stack)
        first_e, first_s = {}, {}
        for i, (s, g) in enumerate(zip(src, got)):
            if isinstance(s, M.Entry) or isinstance(s, M.String):
                idx = first_e if isinstance(s, M.Entry) else first_s
                if s.key not in idx:
                    idx[s.key] = i
                    if type(g) is not type(s) or g.key != s.key:
                        return "first block with key %r at %d is not live: %r" % (s.key, i, type(g).__name__)
                    live = lib.entries_dict if isinstance(s, M.Entry) else lib.strings_dict
                    if live.get(s.key) is not g:
                        return "index does not map %r to the first block" % s.key
                else:
                    if not isinstance(g, M.DuplicateBlockKeyBlock):
                        return "later block with key %r at %d was not flagged: %r" % (s.key, i, type(g).__name__)
                    if g.key != s.key or g.previous_block is not got[idx[s.key]]:
                        return "duplicate wrapper at %d does not expose key / first block" % i
                    d = g.ignore_error_block
                    if type(d) is not type(s) or d.key != s.key or (isinstance(s, M.Entry) and [f.key for f in d.fields] != [f.key for f in s.fields]):
                        return "duplicate wrapper at %d does not hold the complete duplicate" % i
            elif isinstance(s, M.DuplicateFieldKeyBlock):
                if not isinstance(g, M.DuplicateFieldKeyBlock):
                    return "duplicate-field block at %d became %r" % (i, type(g).__name__)
                e = g.ignore_error_block
                if [f.key for f in e.fields] != [f.key for f in s.ignore_error_block.fields]:
                    return "duplicate-field block at %d lost field occurrences" % i
                keys = [f.key for f in e.fields]
                if set(g.duplicate_keys) != {k for k in keys if keys.count(k) > 1}:
                    return "duplicate-field block at %d reports keys %r" % (i, sorted(g.duplicate_keys))
                if lib.entries_dict.get(e.key) is e:
                    return "key of a duplicate-field entry is registered as live"
            else:
                if type(g) is not type(s):
                    return "block %d changed class %r -> %r" % (i, type(s).__name__, type(g).__name__)
    return None


def known_match(finding, case, failure):
    return False


def describe(cases, outs):
    kinds = collections.Counter()
    mult = collections.Counter()
    for c, o in zip(cases, outs):
        ks = C.block_kinds(o)
        kinds.update(ks)
        mult[min(ks.count("dupkey"), 4)] += 1
    return {"block_kinds": dict(kinds), "duplicate_key_blocks_per_document(capped 4)": dict(mult)}


def nontrivial(case, out):
    return "(dupkey " in out or "(dupfield " in out
