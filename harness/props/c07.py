"""C07 - writing and copy-mode middleware never mutate or alias their input."""
import collections
import copy
import itertools

from .. import common as C
from .. import blocks as B
from .. import docgen
from ..wire import Sym, enc, request as rq

ID = "C07"
LEAN_MODULE = "BibVerif.Props.C07"
LEVEL_TEXT = ("Lean theorems over a store model of the object graph: deepcopy_fresh (copy.deepcopy with memo never writes to an "
              "existing object and returns a closed fresh copy, for every graph incl. cycles and every recursion budget) and "
              "discipline_sound (any program that writes only to objects it allocated / deep-copied / read out of those, and "
              "stores only such objects or immutables, leaves every pre-existing object unchanged and returns a result from "
              "which no pre-existing mutable object is reachable). The copy patterns of the framework (per-block deepcopy of "
              "BlockMiddleware, deepcopy(library) of LibraryMiddleware, deepcopy(blocks) of the sorter, format copy of the "
              "writer) are programs of that model; the Lean checker `check` is evaluated on them for the shape of every library "
              "of the run, and the predicted verdict is compared with the verdict observed on the REAL object graph (ids "
              "reachable from input vs output, structural snapshot of the input before/after) for every shipped middleware "
              "class, option set and stacks up to 3.")
LEVEL_NOTE = ("PARTIAL by nature: copy.deepcopy itself, the attribute protocol and that each shipped transform_* method writes "
              "only through its block argument are CPython/runtime facts - modelled, and validated by the object-graph "
              "comparison of this run, not verified. Trusted: Lean kernel + 3 standard axioms; Heap.lean/HeapProgs.lean; the "
              "graph probe of the harness. Exception objects are leaves (ParsingException.__deepcopy__ returns self: shared by design).")
TECHNIQUE = "Lean 4 proof of an ownership discipline over a heap model + per-run checker evaluation; differential object-graph probe"
RULE = ("libraries obtained by parsing documents (grammar-derived, with failed / duplicate-key / duplicate-field / invalid-name "
        "middleware-error blocks, name lists and NameParts values) x every shipped middleware class with "
        "allow_inplace_modification=False (all option sets) and the block sorter x stacks of 1..3, plus write_string (default "
        "stack, 'auto' column) run twice. Observed on the real code: input graph signature before/after, identity-disjointness "
        "of the mutable objects reachable from input and output, second write equal to the first. Non-trivial = library has at "
        "least one entry with a field.")
EXHAUSTIVE = {"quick": False, "thorough": False}
ASSUMPTIONS = ["exception objects held by failed blocks are treated as immutable leaves"]
PARTIAL = ["copy.deepcopy and the attribute protocol are CPython behaviour: modelled, validated, not verified",
           "per-middleware bodies are abstracted by one generic block body in the model programs; that the real transform_* "
           "methods stay within it is what the object-graph comparison establishes, run by run",
           "in-place mode (allow_inplace_modification=True) is outside the property and only used as a non-vacuity example"]

DOCS = [
    "@a{k, author = {A B and C D}, title = {T}, year = 2000, month = jan}\n@string{s = {x}}\n@b{j, t = s, editor = \"E F\"}",
    "@a{k, f = 1}\n@a{k, f = 2}\n@string{k = 1}\n@string{k = 2}\n@a{j, f = 1, f = 2}\n@a{broken\n@comment{c}\ntext\n@preamble{p}",
    "@a{k, author = {A, B, C, D}, title = {\\'e $x$}}\n@a{m, author = {von Last, Jr, First and {Braced Name}}, Title = {x}, TITLE = {y}}",
    "",
    "text only",
    "@comment{c}\n@comment{d}\n@a{z, b = 1, a = 2}\n% tail",
]


def _mw_specs():
    """(name, pattern, constructor) for every shipped middleware in copy mode"""
    import bibtexparser.middlewares as m
    from bibtexparser import model as M
    out = []
    out.append(("RemoveEnclosing", "block", lambda: m.RemoveEnclosingMiddleware(allow_inplace_modification=False)))
    for de, ru, ei in itertools.product(["{", '"'], [True, False], [True, False]):
        out.append(("AddEnclosing[%s,%s,%s]" % (de, ru, ei), "block",
                    lambda de=de, ru=ru, ei=ei: m.AddEnclosingMiddleware(reuse_previous_enclosing=ru, enclose_integers=ei,
                                                                        default_enclosing=de, allow_inplace_modification=False)))
    out.append(("ResolveStringReferences", "library", lambda: m.ResolveStringReferencesMiddleware(allow_inplace_modification=False)))
    out.append(("NormalizeFieldKeys", "block", lambda: m.NormalizeFieldKeys(allow_inplace_modification=False)))
    for cls in (m.MonthIntMiddleware, m.MonthAbbreviationMiddleware, m.MonthLongStringMiddleware):
        out.append((cls.__name__, "block", lambda cls=cls: cls(allow_inplace_modification=False)))
    out.append(("SeparateCoAuthors", "block", lambda: m.SeparateCoAuthors(allow_inplace_modification=False)))
    out.append(("SplitNameParts", "block", lambda: m.SplitNameParts(allow_inplace_modification=False)))
    for st in ("last", "first"):
        out.append(("MergeNameParts[%s]" % st, "block", lambda st=st: m.MergeNameParts(style=st, allow_inplace_modification=False)))
    out.append(("MergeCoAuthors", "block", lambda: m.MergeCoAuthors(allow_inplace_modification=False)))
    out.append(("SortFieldsAlphabetically", "block", lambda: m.SortFieldsAlphabeticallyMiddleware(allow_inplace_modification=False)))
    for cs in (True, False):
        out.append(("SortFieldsCustom[%s]" % cs, "block",
                    lambda cs=cs: m.SortFieldsCustomMiddleware(order=("title", "Author"), case_sensitive=cs, allow_inplace_modification=False)))
    for kw in ({}, {"keep_math": False, "enclose_urls": False}):
        out.append(("LatexEncoding%r" % sorted(kw), "block", lambda kw=kw: m.LatexEncodingMiddleware(allow_inplace_modification=False, **kw)))
    for kw in ({}, {"keep_braced_groups": True, "keep_math_mode": False}):
        out.append(("LatexDecoding%r" % sorted(kw), "block", lambda kw=kw: m.LatexDecodingMiddleware(allow_inplace_modification=False, **kw)))
    for pc in (True, False):
        out.append(("SortBlocks[%s]" % pc, "sort", lambda pc=pc: m.SortBlocksByTypeAndKeyMiddleware(preserve_comments_on_top=pc)))
    out.append(("SortBlocks[order]", "sort", lambda: m.SortBlocksByTypeAndKeyMiddleware(block_type_order=(M.Entry, M.String))))
    return out


_SPECS = None


def specs():
    global _SPECS
    if _SPECS is None:
        _SPECS = _mw_specs()
    return _SPECS


# how the input library of a case is prepared (so that name lists / NameParts / int values occur)
PREPS = ["parsed", "names", "months"]


def _library(doc, prep):
    import bibtexparser
    import bibtexparser.middlewares as m
    if prep == "names":
        return bibtexparser.parse_string(doc, append_middleware=[m.SeparateCoAuthors(), m.SplitNameParts()])
    if prep == "months":
        return bibtexparser.parse_string(doc, append_middleware=[m.MonthIntMiddleware(), m.SeparateCoAuthors()])
    return bibtexparser.parse_string(doc)


def applicable(prep, stack):
    """well-typed stacks only: the name middlewares have type preconditions (str -> list -> NameParts),
    RemoveEnclosing needs str values; an ill-typed stack raises by design and is outside the property"""
    names = {"parsed": "str", "names": "parts", "months": "list"}[prep]
    strs_only = prep == "parsed"
    for i in stack:
        n = specs()[i][0]
        if n == "RemoveEnclosing" and not (strs_only and names == "str"):
            return False
        if n.startswith("AddEnclosing"):
            if ",False," in n:                  # reuse_previous_enclosing=False: every value becomes a str
                names, strs_only = "str", True
            else:                               # with reuse, a 'no-enclosing' value keeps its type, others become str
                names, strs_only = ("str" if names == "str" else "unknown"), strs_only
            continue
        if n == "SeparateCoAuthors":
            if names != "str":
                return False
            names = "list"
        elif n == "SplitNameParts":
            if names != "list":
                return False
            names = "parts"
        elif n.startswith("MergeNameParts"):
            if names != "parts":
                return False
            names = "list"
        elif n == "MergeCoAuthors":
            if names in ("parts", "unknown"):
                return False
            names = "str"
        elif n == "MonthIntMiddleware":
            strs_only = False
    return True


def corpus():
    n = {s[0]: i for i, s in enumerate(specs())}
    return [
        {"doc": DOCS[2], "prep": "names", "stack": [n["MergeNameParts[last]"]], "write": False},   # D14: invalid name error block
        {"doc": DOCS[2], "prep": "names", "stack": [], "write": True},
        {"doc": DOCS[0], "prep": "parsed", "stack": [], "write": True},
        {"doc": DOCS[1], "prep": "parsed", "stack": [n["SortBlocks[True]"]], "write": False},
    ]


def gen(tier, rng):
    ns = len(specs())
    for doc in DOCS:
        for prep in PREPS:
            for i in range(ns):
                if applicable(prep, [i]):
                    yield {"doc": doc, "prep": prep, "stack": [i], "write": False}
            for wm in ("plain", "prepend_empty", "prepend_copy", "file"):
                yield {"doc": doc, "prep": prep, "stack": [], "write": True, "wmode": wm}
    n = 400 if tier == "quick" else 6000
    for _ in range(n):
        if rng.random() < 0.5:
            doc = rng.choice(DOCS)
        else:
            d = docgen.gen_doc(rng, max_blocks=5, keypool=["k", "j", "s"], fieldpool=["author", "title", "month", "Title", "f"],
                               distinct_field_keys=False, distinct_block_keys=False)
            doc = d.text()
        st = [rng.randrange(ns) for _ in range(rng.randint(1, 3))]
        prep = rng.choice(PREPS)
        if not applicable(prep, st):
            continue
        yield {"doc": doc, "prep": prep, "stack": st, "write": rng.random() < 0.25,
               "wmode": rng.choice(["plain", "prepend_empty", "prepend_copy", "file"])}


# ---------------------------------------------------------------------------------------------------
# the object-graph probe

_LEAF = (str, int, float, bool, type(None), bytes, BaseException, type)


def graph(root):
    """(signature, ids): a canonical structural dump of everything reachable from `root` with
    aliasing made explicit by first-visit numbering, and the ids of the mutable objects."""
    seen = {}
    ids = {}

    def walk(x):
        if isinstance(x, BaseException):
            return ("exc", type(x).__name__)
        if isinstance(x, _LEAF):
            return ("leaf", type(x).__name__, x if not isinstance(x, type) else x.__name__)
        if id(x) in seen:
            return ("alias", seen[id(x)])
        seen[id(x)] = len(seen)
        ids[id(x)] = x
        if isinstance(x, (list, tuple)):
            return (type(x).__name__, [walk(y) for y in x])
        if isinstance(x, (set, frozenset)):
            return (type(x).__name__, sorted(repr(walk(y)) for y in x))
        if isinstance(x, dict):
            return ("dict", [(walk(k), walk(v)) for k, v in x.items()])
        d = getattr(x, "__dict__", None)
        if d is not None:
            return ("obj", type(x).__name__, [(k, walk(v)) for k, v in d.items()])
        return ("opaque", type(x).__name__)

    sig = walk(root)
    # tuples are immutable containers: their identity is not a shared *mutable* object
    mutable = {i for i, o in ids.items() if not isinstance(o, (tuple, frozenset))}
    return sig, mutable, ids


def _shape(lib):
    from bibtexparser import model as M
    return [len(b.fields) if isinstance(b, M.Entry) else -1 for b in lib.blocks]


def observe(case):
    """run the real code; returns (unchanged, disjoint, twice_same, detail)"""
    import bibtexparser
    from bibtexparser.writer import BibtexFormat
    lib = _library(case["doc"], case["prep"])
    fmt = BibtexFormat()
    fmt.value_column = "auto"
    before_sig, before_ids, keep = graph([lib, fmt])
    out = lib
    for i in case["stack"]:
        out = specs()[i][2]().transform(out)
    texts = None
    if case["write"]:
        # every way of asking for the default write stack must leave the library alone
        wm = case.get("wmode", "plain")
        if wm == "file":
            import io
            b1, b2 = io.StringIO(), io.StringIO()
            bibtexparser.write_file(b1, out, append_middleware=[], bibtex_format=fmt)
            bibtexparser.write_file(b2, out, append_middleware=[], bibtex_format=fmt)
            texts = (b1.getvalue(), b2.getvalue())
        else:
            kw = {"plain": {}, "prepend_empty": {"prepend_middleware": []},
                  "prepend_copy": {"prepend_middleware": [specs()[10][2]()]}}[wm]
            t1 = bibtexparser.write_string(out, bibtex_format=fmt, **kw)
            kw = {"plain": {}, "prepend_empty": {"prepend_middleware": []},
                  "prepend_copy": {"prepend_middleware": [specs()[10][2]()]}}[wm]
            t2 = bibtexparser.write_string(out, bibtex_format=fmt, **kw)
            texts = (t1, t2)
    after_sig, _, _ = graph([lib, fmt])
    unchanged = before_sig == after_sig
    detail = ""
    if not unchanged:
        detail = "input library/format changed"
    disjoint = True
    if case["stack"]:
        _, out_ids, objs = graph(out)
        shared = before_ids & out_ids
        if shared:
            disjoint = False
            detail += " shared mutable objects: " + ", ".join(sorted({type(objs[i]).__name__ for i in shared}))
    twice = texts is None or texts[0] == texts[1]
    if not twice:
        detail += " second write differs"
    return unchanged, disjoint, twice, detail.strip(), _shape(lib)


def request(case):
    lib = _library(case["doc"], case["prep"])
    pats = [Sym(specs()[i][1]) for i in case["stack"]]
    if case["write"]:
        pats += [Sym("block"), Sym("fmt")]
    if not pats:
        pats = [Sym("block")]
    return rq("heappat", pats, False, _shape(lib))


def impl(case):
    unchanged, disjoint, twice, _, _ = observe(case)
    return enc([Sym("verdict"), unchanged and disjoint and twice, unchanged and twice, disjoint])


def oracle(case):
    unchanged, disjoint, twice, detail, _ = observe(case)
    if unchanged and disjoint and twice:
        return None
    names = [specs()[i][0] for i in case["stack"]] + (["write_string x2"] if case["write"] else [])
    return "%s: %s" % (" -> ".join(names), detail)


def known_match(finding, case, failure):
    return False


def describe(cases, outs):
    per = collections.Counter()
    for c in cases:
        for i in c["stack"]:
            per[specs()[i][0]] += 1
        if c["write"]:
            per["write_string x2"] += 1
    return {"runs_per_middleware": dict(per), "stack_length": dict(collections.Counter(len(c["stack"]) for c in cases)),
            "verdicts": dict(collections.Counter(outs))}


def nontrivial(case, out):
    return "=" in case["doc"]
