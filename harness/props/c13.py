"""C13 - name parts follow BibTeX's First/von/Last/Jr rules and keep every word once."""
import collections

from .. import common as C
from .. import names_util as U
from .. import blocks as B
from ..wire import Sym, enc, request as rq, lean_representable

ID = "C13"
LEAN_MODULE = "BibVerif.Props.C13"
TECHNIQUE = ("Lean 4 proof about a one-pass scanner model (structural recursion over the characters), the partition "
             "function and the per-word case function wordCase (a fold over one word; case_spec: scanner invariant by "
             "induction over the loop); differential correspondence model vs names.py incl. the repo's BibTeX-derived corpus")
RULE = ("entries built in code (no start line) in the error-containment cases; appending to the parts of one parsed name must not show in another; corpus (D8/D14 witnesses; every name and co-author input of tests/middleware_tests/test_names.py, loaded from "
        "the file - inputs only); every string of <= k tokens over {Aa, bb, 1, space, ',', ~, {, }, \\x, \\X, \\ (lone), "
        "\\', 'b c', tab} (k=5 quick: exhaustive for that alphabet; k=6 thorough); random structured names with special "
        "characters {\\'E}x, nested braces, control sequences, non-ASCII letters (classified by the running CPython); "
        "SplitNameParts / MergeNameParts on entries (invalid names -> MiddlewareErrorBlock, both inplace settings, "
        "a following copy-mode middleware deep-copies the error block). Compared: the four word lists or the exact "
        "InvalidNameError reason; for entries the complete block. Word case (kind wcase): for every corpus name, every "
        "token string of <= 5 tokens and every random name, each word the real parser returns is sent with its case by "
        "the Python reference word_case and the REAL parser's own verdict on it (is it a von part in `A <word> B`?) and "
        "compared with the Lean wordCase of the theorem case_spec and with wordCase = 0; additionally wordCase against "
        "word_case on arbitrary strings (token strings of <= 3 tokens quick / <= 5 thorough, random word-like strings; "
        "unbalanced ones and top-level separators included). Non-trivial = a name with at least one word.")
LEVEL_TEXT = ("Lean theorems about the model of parse_single_name_into_parts(strict=True), for EVERY name and every "
              "Unicode classification of characters: words_preserved (all words of all sections, concatenated in order, are "
              "the name with its top-level separators removed - an independent recursion over depth and escapes), "
              "sections_partition, rule_form1 / rule_form23 / rule_form3 (the First/von/Last/Jr partition exactly as the "
              "property states it) with rule_form1_unique / rule_form23_unique (the stated rule determines the partition), "
              "case_spec (the case the scanner records for EVERY word of every section of every name is wordCase P w: "
              "BibTeX's case of the word as a fold over the word's own characters - depth-0 letters, escapes, special "
              "characters {\\cs ...} after their control sequence, ordinary brace groups skipped, first counting letter "
              "decides, caseless = -1 - with no hypothesis beyond scan = ok), lower_iff_wordCase and rule_form1_case / "
              "rule_form23_case / rule_form3_case (+ _unique): the partition rule restated on the texts of the words "
              "alone, 'lower-case word' = wordCase P w = 0, "
              "invalid_iff (error <=> unbalanced braces, more than two top-level commas or a trailing comma; the model has "
              "no other failure mode), middleware_error_block and middleware_never_raises. The model is tied to names.py "
              "by differential execution on every run (incl. the repo's own BibTeX-derived corpus); the reference notions "
              "of the statements (Invalid, dropTopSeps, wordCase) are additionally run against the real function: wordCase "
              "against the independent Python word_case and against the real parser's treatment of each word.")
LEVEL_NOTE = ("Trusted: Lean kernel + 3 standard axioms; the hand-written models Names/Parse.lean, Names/Merge.lean; the "
              "correspondence run; str.isalpha/str.isupper enter as parameters (no hypothesis about them is needed). "
              "wordCase (Names/Case.lean) is part of the statements, not of the trusted model: that it is BibTeX's case "
              "of a word is read off its definition (kernel-evaluated examples in Props/C13.lean) and cross-checked "
              "against names_util.word_case on every run; the real parser only reveals case = 0 vs != 0 of a word "
              "(upper vs caseless does not influence any result), which is what the probe compares.")
EXHAUSTIVE = {"quick": True, "thorough": True}
ASSUMPTIONS = []
PARTIAL = []

ALPHABET = ["Aa", "bb", "1", " ", ",", "~", "{", "}", "\\x", "\\X", "\\", "\\'", "b c", "\t"]

_REASON = {
    "Unmatched closing brace": "unmatchedClose",
    "Too many commas": "tooManyCommas",
    "Unterminated opening brace": "unterminated",
    "Trailing comma at end of name": "trailingComma",
}


def render_parse(name):
    """the real function's complete observable result, as the model's `nameparse` answers"""
    from bibtexparser.middlewares.names import parse_single_name_into_parts, InvalidNameError
    try:
        p = parse_single_name_into_parts(name)
    except InvalidNameError as e:
        return enc([Sym("invalid"), Sym(_REASON.get(e.reason, "other:" + str(e.reason).replace(" ", "_")))])
    return enc([Sym("ok"), [Sym("np"), list(p.first), list(p.von), list(p.last), list(p.jr)]])


def corpus():
    texts = [
        "A\\",                       # D8: the trailing backslash was doubled
        "AA bb CC dd",               # D8: von was 'bb CC'
        "A, B, C, D",                # D14 input (too many commas)
        "AA bb", "bb AA", "bb", "AA bb cc", "aa bb cc", "AA BB cc", "aa BB cc DD ee", "AA bb CC dd EE",
        "bb CC, AA", "bb CC dd, AA", "bb cc, AA", "CC bb, AA", ", AA", "AA,, BB", "AA, , BB", "AA,BB,CC",
        "AA,", ",", ",,", ",,,", "AA, BB,", "AA, BB, CC,", "{", "}", "{}}", "{{}", "A{", "\\{", "\\}", "{\\}",
        "{\\'E}x {\\'e}x Z", "{\\relax Ab} cd Ef", "{\\relax ab} cd Ef", "{\\1Ab} cd Ef", "{x\\Y} cd Ef", "\\x1 A B",
        "A\\ B", "A\\~B", "A \\", "\\", "\\\\", "A\\\\", "{A\\ B} c D", "{\\ b} c D", "{{\\'e}} c D", "{a}B c D",
        "1 2 3", "1 b 3", "A~B~C", "A\tB\nC\rD", "  ", "", "Émile de la Étoile", "émile Zola Émile", "ǅ b C",
        "中 文 字", "ß a B", "A B c D", "{\\'É}x {\\'é}x Z",
    ]
    names, fields = U.repo_name_corpus()
    cases = [{"n": t} for t in texts + names]
    from bibtexparser.middlewares.names import split_multiple_persons_names as split
    for f in fields:
        for n in split(f):
            cases.append({"n": n})
    # the per-word case function (`wordCase` of the Lean theorem case_spec) on the words of all these names
    cases.extend([{"kind": "wcase", "n": c["n"]} for c in list(cases)])
    cases.append({"kind": "wcase", "w": ["{\\'E}x", "{\\'e}x", "{\\relax ab}", "{\\relax Ab}", "{Ab}", "{Ab}c", "\\x1", "\\X", "{x\\Y}",
                                        "{\\1Ab}", "{{\\'e}}z", "12", "", "a\\", "{\\ a}B", "}}{a", "a b", "{\\", "\\{a", "{\\É}", "ǅ", "{\\ǅ}é"]})
    # D14: the error block must survive a following copy-mode middleware / deepcopy
    cases.append({"kind": "mw", "fields": [["author", {"names": ["A, B, C, D"]}]],
                  "groups": [["splitParts"], ["mergeCo"], ["mergePartsLast"]], "inplace": False})
    cases.append({"kind": "mw", "fields": [["author", {"names": ["Aa Bb", "cc Dd, Ee"]}], ["title", {"s": "T"}],
                                          ["editor", {"names": ["X,"]}], ["translator", {"names": ["Yy Zz"]}]],
                  "groups": [["splitParts"], ["mergePartsLast"]], "inplace": True})
    for names in ("Knuth, Donald E., and Lamport, Leslie", "de la Fontaine, Jean,", "A, and B", "A and B,", "A ,and B", "A, B and C, D, E, and F"):
        for ip in (True, False):
            cases.append({"kind": "mw", "fields": [["author", {"s": names}], ["title", {"s": "T"}]], "groups": [["separate", "splitParts"]], "inplace": ip})
    cases.append({"kind": "mw", "fields": [["author", {"s": "A and B"}]], "groups": [["splitParts"]], "inplace": True})
    cases.append({"kind": "mw", "fields": [["author", {"s": "A and B"}]], "groups": [["separate", "splitParts"], ["mergePartsFirst"]], "inplace": False})
    return cases


_W = ["Aa", "bb", "Cc", "dd", "1", "{\\'E}x", "{\\'e}x", "{\\relax Ab}", "{\\relax ab}", "{b c}", "{B c}", "{{\\'e}}z", "\\x", "\\X",
      "\\'e", "x\\", "{a}B", "{A}b", "de", "la", "van", "Émile", "émile", "ǅx", "中", "ßz", "Ωmega", "ωmega", "{\\1a}B", "{x\\Y}",
      "{\\ a}", "{\\", "}", "{", "\\ ", "\\~", "\\,", "Jr.", "III"]
_S = [" ", " ", " ", "~", "\t", "  ", ", ", ",", " ,", "\n"]


def _random_name(rng):
    out = []
    for _ in range(rng.randint(1, 7)):
        out.append(rng.choice(_W))
        out.append(rng.choice(_S))
    if rng.random() < 0.8:
        out.pop()
    return rng.choice(["", "", " "]) + "".join(out)


def _random_mw(rng):
    keys = ["author", "editor", "translator", "title", "year"]
    fields = []
    for k in rng.sample(keys, rng.randint(1, 4)):
        r = rng.random()
        if r < 0.7:
            v = {"names": [_random_name(rng) if rng.random() < .5 else "".join(rng.choice(ALPHABET) for _ in range(rng.randint(0, 4)))
                           for _ in range(rng.randint(0, 3))]}
        elif r < 0.85:
            v = {"s": "".join(rng.choice(ALPHABET) for _ in range(rng.randint(0, 4)))}
        elif r < 0.93:
            v = {"parts": [[["F", "G"], ["v"], ["L\\"], ["J"]], [[], [], ["L"], []], [[""], [], [], ["", ""]]][:rng.randint(0, 3)]}
        else:
            v = {"i": rng.randint(0, 9)}
        fields.append([k, v])
    groups = rng.choice([[["splitParts"]], [["splitParts"], ["mergePartsLast"]], [["splitParts"], ["mergePartsFirst"]],
                         [["splitParts"], ["mergeCo"]], [["mergePartsLast"]], [["mergePartsFirst"], ["splitParts"]],
                         [["splitParts", "mergePartsLast", "splitParts"]]])
    return {"kind": "mw", "fields": fields, "groups": groups, "inplace": rng.random() < 0.5}


def gen(tier, rng):
    k = 5 if tier == "quick" else 6
    for t in C.token_strings(ALPHABET, k):
        yield {"n": t}
    # the per-word case function of the Lean statement `case_spec` on every word of every such name (k = 5 in both
    # tiers: a word of a 6-token name that is not a word of a 5-token name is the whole name, covered below)
    for t in C.token_strings(ALPHABET, 5):
        yield {"kind": "wcase", "n": t}
    for _ in range(20000 if tier == "quick" else 200000):
        n = _random_name(rng)
        yield {"n": n}
        yield {"kind": "wcase", "n": n}
    # ... and as a function of arbitrary strings (also unbalanced ones, separators inside): `wordCase` against the
    # Python reference `word_case`; the real parser is probed where the string is a word of a valid name
    for t in C.token_strings(ALPHABET, 3 if tier == "quick" else 5):
        yield {"kind": "wcase", "w": [t]}
    for _ in range(5000 if tier == "quick" else 50000):
        yield {"kind": "wcase", "w": [rng.choice(_W) + rng.choice(["", "", rng.choice(_W)]) + rng.choice(["", rng.choice(ALPHABET)])
                                       for _ in range(rng.randint(1, 4))]}
    # the reference notions of the Lean statements (`Invalid`, `dropTopSeps`) against the real function
    for t in C.token_strings(ALPHABET, 4 if tier == "quick" else 5):
        yield {"kind": "spec", "n": t}
    for _ in range(5000 if tier == "quick" else 50000):
        yield {"kind": "spec", "n": _random_name(rng)}
    for _ in range(3000 if tier == "quick" else 30000):
        c = _random_mw(rng)
        yield c
        if c["groups"][0][:1] == ["splitParts"] and rng.random() < 0.3:
            yield dict(c, noline=True, groups=[["splitParts"]])
    # results belong to the caller: appending to the (possibly empty) parts of one parsed name changes no other name
    for a, b in (("Knuth", "Donald E. Knuth"), ("van Beethoven, Ludwig", "Last, Jr, First"), ("A B", "c d"), ("{X}", "Y, Z")):
        yield {"kind": "alias", "n": a, "m": b}


def request(case):
    if case.get("noline") or case.get("kind") == "alias":
        return None      # python-only: the check is made on the real code (impl raises when it fails)
    if case.get("kind") == "mw":
        text = "".join(U.value_text(v) for _k, v in case["fields"])
        if not lean_representable(text):
            return None
        return rq("namestack", B.enc_block(U.make_entry(case["fields"])), U.groups_sx(case["groups"]), chars_of=text)
    if case.get("kind") == "wcase" and "w" in case:
        text = "".join(case["w"])
        if any(0xD800 <= ord(c) <= 0xDFFF for c in text):
            return None
        return rq("wordcase", list(case["w"]), chars_of=text)
    n = case["n"]
    if any(0xD800 <= ord(c) <= 0xDFFF for c in n):
        return None
    if case.get("kind") == "spec":
        return rq("namespec", n)
    if case.get("kind") == "wcase":
        return rq("namecases", n, chars_of=n)
    return rq("nameparse", n, chars_of=n)


def real_lower_probe(w):
    """How the REAL parser treats the word `w` between an upper-case word and a final word (`A w B`, comma-free
    form with three words): von = [w] exactly when the parser's case of `w` is 0.  Returns True / False, or None
    when `w` is not one word of a valid name (then the parser cannot be asked about it)."""
    from bibtexparser.middlewares.names import parse_single_name_into_parts, InvalidNameError
    try:
        p = parse_single_name_into_parts("A " + w + " B")
    except InvalidNameError:
        return None
    if p.first + p.von + p.last != ["A", w, "B"] or p.jr or p.last[-1:] != ["B"] or p.first[:1] != ["A"]:
        return None
    if p.von == [w] and p.first == ["A"] and p.last == ["B"]:
        return True
    if p.von == [] and p.first == ["A", w] and p.last == ["B"]:
        return False
    return Sym("probe:%d.%d.%d" % (len(p.first), len(p.von), len(p.last)))


def _case_words(case):
    """the words of a `wcase` case: given directly, or all words the REAL parser returns for the name
    (first, von, last, jr); None for an invalid name"""
    from bibtexparser.middlewares.names import parse_single_name_into_parts, InvalidNameError
    if "w" in case:
        return list(case["w"])
    try:
        p = parse_single_name_into_parts(case["n"])
    except InvalidNameError:
        return None
    return p.first + p.von + p.last + p.jr


def render_cases(case):
    """`(cases ((word case lower?) ...))`: the case by the Python reference `word_case`; `lower?` is the REAL
    parser's own verdict on the word (`real_lower_probe`) wherever it can be asked, else the reference's"""
    ws = _case_words(case)
    if ws is None:
        return "(invalid)"
    out = []
    for w in ws:
        c = U.word_case(w)
        probe = real_lower_probe(w)
        out.append([w, c, (c == 0) if probe is None else probe])
    return enc([Sym("cases"), out])


def render_spec(name):
    """`(spec invalid? words)` from the REAL function: did it raise InvalidNameError; all words it returned,
    concatenated in section order (comma-free: first von last; comma forms: von last, jr, first)"""
    from bibtexparser.middlewares.names import parse_single_name_into_parts, InvalidNameError
    try:
        p = parse_single_name_into_parts(name)
    except InvalidNameError:
        # the words of an invalid name are not observable: the model's text is taken as is
        return None
    comma_form = any(len(s) for s in [p.jr]) or _has_top_comma(name)
    ws = (p.von + p.last + p.jr + p.first) if comma_form else (p.first + p.von + p.last)
    return enc([Sym("spec"), False, "".join(ws)])


def _has_top_comma(name):
    d, i = 0, 0
    while i < len(name):
        c = name[i]
        if c == "\\":
            i += 1 if (i + 1 < len(name) and name[i + 1] in U.NAME_WS) else 2
            continue
        if c == "{":
            d += 1
        elif c == "}":
            d -= 1
        elif c == "," and d == 0:
            return True
        i += 1
    return False


def impl(case):
    if case.get("noline"):
        f = _oracle_mw(case)
        if f:
            raise AssertionError(f)
        return "(ok noline)"
    if case.get("kind") == "alias":
        f = _alias_check(case)
        if f:
            raise AssertionError(f)
        return "(ok alias)"
    if case.get("kind") == "mw":
        return enc(U.run_groups(U.make_entry(case["fields"]), case["groups"], case.get("inplace", True)))
    if case.get("kind") == "spec":
        r = render_spec(case["n"])
        if r is None:
            # invalid: compare only the flag; take the text from the model side convention
            return "(spec T)"
        return r
    if case.get("kind") == "wcase":
        return render_cases(case)
    return render_parse(case["n"])


def oracle(case):
    """The property on the real code: the result equals the independent sectioniser + the partition
    rule as stated in the property (with the per-word case function); invalid names raise
    InvalidNameError and nothing else."""
    from bibtexparser.middlewares.names import parse_single_name_into_parts as parse, InvalidNameError
    if case.get("kind") == "mw":
        return _oracle_mw(case)
    if case.get("kind") == "alias":
        return _alias_check(case)
    if case.get("kind") == "wcase":
        return _oracle_wcase(case)
    name = case["n"]
    secs = U.sections_spec(name)
    try:
        p = parse(name)
    except InvalidNameError:
        if secs is not None:
            return "valid name (sections %r) reported as invalid" % (secs,)
        return None
    if secs is None:
        return "invalid name (unbalanced braces / too many commas / trailing comma) accepted: %r" % (p,)
    got = (p.first, p.von, p.last, p.jr)
    want = U.rule(secs)
    if got != want:
        return "parts first/von/last/jr %r, BibTeX's rule gives %r (sections %r, cases %r)" % (
            got, want, secs, [[U.word_case(w) for w in s] for s in secs])
    # every top-level word exactly once, in order within its section (redundant with the above, kept explicit)
    if len(secs) == 1:
        if p.first + p.von + p.last != secs[0] or p.jr:
            return "words not preserved: %r vs %r" % (got, secs)
    elif secs and (p.von + p.last != secs[0] or p.first != secs[-1] or (len(secs) == 3 and p.jr != secs[1])):
        return "words not preserved: %r vs %r" % (got, secs)
    if secs and secs[0] and not p.last:
        return "last name is empty although the first section has words"
    return None


def _alias_check(case):
    """the four lists of a parsed name are its own: appending to them (also to the empty ones) shows in no other parsed
    name - neither one parsed before nor one parsed afterwards"""
    from bibtexparser.middlewares.names import parse_single_name_into_parts as parse
    mark = "\u2620appended"
    first = parse(case["n"])
    lists = [first.first, first.von, first.last, first.jr]
    try:
        for lst in lists:
            lst.append(mark)
        again = parse(case["n"])
        other = parse(case["m"])
        for what, p in (("the same name parsed again", again), ("another name", other)):
            for part in (p.first, p.von, p.last, p.jr):
                if mark in part:
                    return "a word appended to the parts of one parsed name shows up in %s: %r" % (what, p)
    finally:
        for lst in lists:
            while mark in lst:
                lst.remove(mark)
    return None


def _oracle_wcase(case):
    """per word: the real parser makes the word a von part between `A` and `B` exactly when BibTeX's case of the
    word (the independent `word_case`) is 0; words of a name are the words of the independent sectioniser"""
    ws = _case_words(case)
    if "n" in case:
        secs = U.sections_spec(case["n"])
        if (ws is None) != (secs is None):
            return "validity: parser %r, sectioniser %r" % (ws, secs)
        if ws is not None and sorted(ws) != sorted(w for sec in secs for w in sec):
            return "words %r, sectioniser %r" % (ws, secs)
    for w in ws or []:
        probe = real_lower_probe(w)
        if U.sections_spec(w) == [[w]]:
            if probe is None:
                return "the one-word name %r is not kept as one word in `A %s B`" % (w, w)
            if probe is not (U.word_case(w) == 0):
                return "word %r: BibTeX's case is %d, but `A %s B` gives von? = %r" % (w, U.word_case(w), w, probe)
        elif probe is not None and "n" in case:
            return "word %r of a valid name is not a one-word name for the sectioniser" % (w,)
    return None


def _oracle_mw(case):
    """invalid name => MiddlewareErrorBlock retaining the entry (never an exception); the block can be
    deep-copied; valid lists => every name replaced by its parts."""
    import copy
    from bibtexparser import model as M
    from bibtexparser.library import Library
    from bibtexparser.middlewares.names import parse_single_name_into_parts as parse, InvalidNameError, SplitNameParts
    if case["groups"][0][:2] == ["separate", "splitParts"]:
        # a co-author string is separated first: the names are the pieces between top-level ' and ' (reference splitter, not
        # the real one); one invalid piece (e.g. a trailing comma in front of ' and ') makes the entry an error block
        from bibtexparser.middlewares.names import SeparateCoAuthors
        vals0 = [U.dec_value(v) for _k, v in case["fields"]]
        strs = [v for (k, _), v in zip(case["fields"], vals0) if k in ("author", "editor", "translator")]
        if not strs or not all(isinstance(v, str) and U.no_unmatched_close(v) for v in strs):
            return None
        entry = U.make_entry(case["fields"])
        try:
            lib = SeparateCoAuthors(allow_inplace_modification=True).transform(Library([entry]))
            (blk,) = SplitNameParts(allow_inplace_modification=case.get("inplace", True)).transform(lib).blocks
        except Exception as e:  # noqa
            return "SeparateCoAuthors + SplitNameParts raised %s" % type(e).__name__
        invalid = any(U.sections_spec(n) is None for v in strs for n in U.ref_split(v))
        if invalid != isinstance(blk, M.MiddlewareErrorBlock):
            return ("co-author strings %r: the names %r are %s, but the result is %s" % (
                strs, [U.ref_split(v) for v in strs], "not all valid" if invalid else "all valid", type(blk).__name__))
        return None
    if case["groups"][0][:1] != ["splitParts"]:
        return None
    vals = [U.dec_value(v) for _k, v in case["fields"]]
    name_vals = [(k, v) for (k, _), v in zip(case["fields"], vals) if k in ("author", "editor", "translator")]
    if not all(isinstance(v, list) and all(isinstance(x, str) for x in v) for _k, v in name_vals):
        return None   # ill-typed input: ValueError/TypeError are the documented behaviour
    entry = U.make_entry(case["fields"])
    if case.get("noline"):
        # an entry built in code: no start line, no raw text
        entry = M.Entry(entry.entry_type, entry.key, entry.fields)
    try:
        (blk,) = SplitNameParts(allow_inplace_modification=case.get("inplace", True)).transform(Library([entry])).blocks
    except Exception as e:  # noqa
        return "SplitNameParts raised %s on a list-of-str entry" % type(e).__name__
    invalid = False
    for _k, v in name_vals:
        for n in v:
            if U.sections_spec(n) is None:
                invalid = True
    if invalid:
        if not isinstance(blk, M.MiddlewareErrorBlock) or not isinstance(blk.error, InvalidNameError):
            return "invalid name did not yield a MiddlewareErrorBlock(InvalidNameError): %r" % (blk,)
        inner = blk.ignore_error_block
        if not isinstance(inner, M.Entry) or inner.key != entry.key or [f.key for f in inner.fields] != [k for k, _ in case["fields"]]:
            return "the error block does not retain the original entry"
        # "retains the original entry ... never a silently altered name": every name field of the retained entry is either
        # still the original list of strings or completely converted (fields before the failing one) - never a mixture
        for f, (k, _), v in zip(inner.fields, case["fields"], vals):
            if k in ("author", "editor", "translator"):
                bad = any(U.sections_spec(n) is None for n in v)
                if bad and f.value != v:
                    return "error block: the field %s with the invalid name was altered: %r (original %r)" % (k, f.value, v)
                if not bad and f.value != v and f.value != [parse(n) for n in v]:
                    return "error block: field %s is neither the original nor the converted list: %r" % (k, f.value)
            elif f.value != v:
                return "error block: non-name field %s changed" % k
        try:
            copy.deepcopy(blk)
        except Exception as e:  # noqa
            return "the error block cannot be deep-copied: %s" % type(e).__name__
        return None
    if not isinstance(blk, M.Entry):
        return "valid names produced %r" % type(blk).__name__
    for f, (k, _), v in zip(blk.fields, case["fields"], vals):
        if k in ("author", "editor", "translator"):
            if f.value != [parse(n) for n in v]:
                return "field %s: %r" % (k, f.value)
        elif f.value != v:
            return "non-name field %s changed" % k
    return None


def known_match(finding, case, failure):
    return False


def nontrivial(case, out):
    return out not in ("(ok (np () () () ()))", "()", "", "(cases ())", "(invalid)")


def describe(cases, outs):
    forms = collections.Counter()
    shape = collections.Counter()
    feats = collections.Counter()
    kinds = collections.Counter()
    wcases = collections.Counter()
    for c, o in zip(cases, outs):
        if c.get("kind") == "mw":
            kinds["middleware"] += 1
            kinds["mw error block" if "(mwerror" in o else "mw raised" if "(raise" in o else "mw ok"] += 1
            continue
        if c.get("kind") == "spec":
            kinds["statement reference (Invalid / dropTopSeps)"] += 1
            continue
        if c.get("kind") == "wcase":
            kinds["word case (wordCase of case_spec): " + ("words of a parsed name" if "n" in c else "arbitrary strings")] += 1
            if o.startswith("(cases"):
                wcases["words"] += o.count(" i")
                wcases["upper (1)"] += o.count(" i1 ")
                wcases["lower (0)"] += o.count(" i0 ")
                wcases["caseless (-1)"] += o.count(" i-1 ")
                # 7b.5c = a brace group starting with a backslash (special character)
                wcases["words with a special character {\\..}"] += o.count("7b.5c")
            continue
        kinds["function"] += 1
        n = c["n"]
        if o.startswith("(invalid"):
            forms[o[1:-1]] += 1
            continue
        secs = U.sections_spec(n)
        forms["form%d" % len(secs) if secs else "empty"] += 1
        if secs:
            shape["words in first section: %d" % min(len(secs[0]), 5)] += 1
        if "(np () " not in o:
            feats["first non-empty"] += 1
        import re
        m = re.match(r"\(ok \(np (\([^)]*\)) (\([^)]*\)) (\([^)]*\)) (\([^)]*\))\)\)", o)
        if m:
            if m.group(2) != "()":
                feats["von non-empty"] += 1
            if m.group(4) != "()":
                feats["jr non-empty"] += 1
        if "\\" in n:
            feats["has escape"] += 1
        if "{" in n:
            feats["has brace"] += 1
        if any(ord(ch) > 127 for ch in n):
            feats["non-ASCII"] += 1
    return {"kinds": dict(kinds), "forms": dict(forms), "shape": dict(shape), "features": dict(feats),
            "word_cases": dict(wcases)}
