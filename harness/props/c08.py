"""C08 - Library views stay consistent under any sequence of add / remove / replace."""
import collections
import copy
import itertools

from .. import blocks as B
from ..wire import Sym, enc, request as wire_request, lean_representable
from . import c19 as E

ID = "C08"
LEAN_MODULE = "BibVerif.Props.C08"
RULE = ("corpus (K1, the F11 witness remove([held, not_held]), failing replaces in libraries that already hold duplicates); "
        "call histories on real Library objects: every sequence of <= k calls (quick: k=4 over a 19-call alphabet; "
        "thorough: k=4 over the full 24-call alphabet plus k=5 over a 13-call sub-alphabet) from an alphabet of add (single / list, both fail modes), remove "
        "(single / list, by universe block or by current position) and replace (both fail modes, block or position) over a "
        "universe with colliding keys: two different entries with key 'a', an equal-but-distinct copy of the first, a string "
        "with key 'a', a comment, a failed block; random histories of up to 30 calls over a larger universe (entries and "
        "strings sharing key names, equal-but-distinct entries and strings, failed blocks sharing / not sharing their error "
        "object, a duplicate-field block, a middleware-error block, a user-made duplicate-key block, comments of both "
        "classes with equal content, preambles) with lists of up to 3 blocks and positional arguments. After EVERY call the "
        "outcome (ok / exception class) and blocks, entries, entries_dict, strings, strings_dict, preambles, comments, "
        "failed_blocks are compared by value with the Lean model. Non-trivial = at least one call was made.")
LEVEL_TEXT = ("Lean theorems inv_init / inv_step / inv_reachable: after EVERY finite history of add, remove, replace calls "
              "(any arguments, including calls that raise) both key indexes map exactly the keys of the held Entry / String "
              "blocks to those blocks and no two held entries (strings) share a key; no_internal_error (the asserts of "
              "_cast_to_duplicate, KeyError of the index deletion and AttributeError are unreachable: only ValueError is ever "
              "raised); views_partition; strings_are_held; entries_in_order; add_appends; replace_keeps_position; raise_unchanged_remove, "
              "raise_unchanged_replace (a ValueError leaves blocks equal and both indexes equal as maps); and the refutation "
              "raise_unchanged_add_cx (known finding K1). The model is tied to library.py by differential execution on every run.")
LEVEL_NOTE = ("Trusted: Lean kernel + 3 standard axioms; the hand-written model Library.lean (generic in the block type; "
              "list.remove/index use ==, which is structural equality of block values, failed blocks carrying an identity token "
              "for their error object, wrappers a fresh one); the correspondence run; CPython list/dict semantics. Blocks are "
              "not mutated while held (changing the key of a held entry is outside the statement). After a failed replace the "
              "ORDER of strings_dict / strings may differ (the re-added key moves to the end) - the statement orders only "
              "blocks and entries, indexes are compared as mappings.")
TECHNIQUE = "Lean 4 proof: state invariant by induction over operation histories; differential correspondence model vs library.py"
EXHAUSTIVE = {"quick": False, "thorough": False}
ASSUMPTIONS = ["held blocks are not mutated between calls",
               "== of blocks is equality of block values: structural for the non-failed classes (C19; metadata of the universe "
               "blocks is empty), error objects by identity (identity tokens; wrappers made by the library are fresh)"]
PARTIAL = ["observation, not a violation: strings / strings_dict follow the order of the string index; after a replace - also one "
           "that raises ValueError and is rolled back - the re-inserted key sits at the end, so strings may be reordered while "
           "blocks is unchanged (strings_are_held: a permutation of the String blocks; raise_unchanged_replace: indexes equal "
           "as mappings). The statement orders only blocks and entries.",
           "raise_unchanged_add is false of model and code (raise_unchanged_add_cx, known finding K1)"]
CASE_TIMEOUT_S = 20

# --------------------------------------------------------------------------------------------------
# universe descriptions -> real blocks
#   live blocks: as in c19.py;  failed blocks: {"c": "failed"|"dupfield"|"mwerror"|"dupkey", "eid": n, ...}


def _entry(key, val="1", ty="article", line=1, extra=()):
    return {"c": "entry", "ty": ty, "key": key, "fields": [["x", val, line + 1]] + [list(f) for f in extra], "line": line,
            "raw": "@%s{%s, x = %s}" % (ty, key, val), "md": []}


def _string(key, val="v", line=5):
    return {"c": "string", "key": key, "value": val, "line": line, "raw": "@string{%s = %s}" % (key, val), "md": []}


E1 = _entry("a")
E2 = _entry("a", val="2", ty="book", line=3)
EB = _entry("b")
S1 = _string("a")
S2 = _string("a", val="w", line=7)
SB = _string("b")
CE = {"c": "expl", "comment": "c", "line": 9, "raw": "@comment{c}", "md": []}
CI = {"c": "impl", "comment": "c", "line": 9, "raw": "@comment{c}", "md": []}
PR = {"c": "preamble", "value": "p", "line": 11, "raw": "@preamble{p}", "md": []}
F0 = {"c": "failed", "eid": 0, "why": "eof", "line": 13, "raw": "@article{a,"}
F1 = {"c": "failed", "eid": 1, "why": "eof", "line": 13, "raw": "@article{a,"}
DF = {"c": "dupfield", "eid": 2, "dups": ["x"], "e": _entry("a", extra=[["x", "3", 4]])}
MW = {"c": "mwerror", "eid": 3, "why": "invalidName", "inner": _entry("b")}
DK = {"c": "dupkey", "eid": 4, "key": "a", "prev": E1, "dup": E2}

CORE_U = [E1, E2, dict(E1), S1, CE, F0]                   # u2 equals u0 but is another object
RICH_U = [E1, E2, dict(E1), EB, S1, S2, dict(S1), SB, CE, CI, PR, F0, dict(F0), F1, DF, MW, DK]


def is_failed_desc(d):
    return d["c"] in ("failed", "dupfield", "mwerror", "dupkey")


def build_universe(descs):
    """real block objects; failed blocks with the same eid share one error object"""
    from bibtexparser import model as M
    from bibtexparser.exceptions import BlockAbortedException
    from bibtexparser.middlewares.names import InvalidNameError
    errs = {}
    out = []
    for d in descs:
        c = d["c"]
        if not is_failed_desc(d):
            out.append(E.mk_block(d))
            continue
        if c == "failed":
            reason = {v: k for k, v in B._ABORT}[d["why"]]
            b = M.ParsingFailedBlock(error=BlockAbortedException(abort_reason=reason), start_line=d["line"], raw=d["raw"])
        elif c == "dupfield":
            b = M.DuplicateFieldKeyBlock(duplicate_keys=set(d["dups"]), entry=E.mk_block(d["e"]))
        elif c == "mwerror":
            b = M.MiddlewareErrorBlock(block=E.mk_block(d["inner"]), error=InvalidNameError("?", "?"))
        elif c == "dupkey":
            dup = E.mk_block(d["dup"])
            b = M.DuplicateBlockKeyBlock(key=d["key"], previous_block=E.mk_block(d["prev"]), duplicate_block=dup,
                                         start_line=dup.start_line, raw=dup.raw)
        else:
            raise ValueError(c)
        if d["eid"] in errs:
            b._error = errs[d["eid"]]         # the same error object: what copy.copy of a failed block shares
        else:
            errs[d["eid"]] = b._error
        out.append(b)
    return out


def enc_any(b):
    """by value, never by id; wrappers made by the library may reference any block"""
    from bibtexparser import model as M
    if isinstance(b, M.DuplicateBlockKeyBlock):
        return [Sym("dupkey"), b.key, enc_any(b.previous_block), enc_any(b.ignore_error_block)]
    return B.enc_block(b)


def u_wire(d, obj):
    if is_failed_desc(d):
        return [Sym("fb"), d["eid"], B.enc_block(obj)]
    return B.enc_live(obj)


def arg_wire(a):
    return [Sym(a[0]), a[1]]


def op_wire(op):
    n = op[0]
    if n == "add1":
        return [Sym(n), arg_wire(op[1]), bool(op[2])]
    if n == "addl":
        return [Sym(n), [arg_wire(a) for a in op[1]], bool(op[2])]
    if n == "rem1":
        return [Sym(n), arg_wire(op[1])]
    if n == "reml":
        return [Sym(n), [arg_wire(a) for a in op[1]]]
    if n == "repl":
        return [Sym(n), arg_wire(op[1]), arg_wire(op[2]), bool(op[3])]
    raise ValueError(n)


_U_CACHE = {}


def _universe_wire(u):
    """(representable, next token, wire text of the universe) - cached per universe object (requests are built
    serially in the runner, and the exhaustive stream shares one universe)"""
    hit = _U_CACHE.get(id(u))
    if hit is not None and hit[0] is u:
        return hit[1]
    ok = lean_representable("".join(E.texts_of(u, [])))
    objs = build_universe(u) if ok else []
    nxt = 1 + max([d["eid"] for d in u if is_failed_desc(d)] + [-1])
    val = (ok, nxt, enc([u_wire(d, o) for d, o in zip(u, objs)]) if ok else "")
    if len(_U_CACHE) > 64:
        _U_CACHE.clear()
    _U_CACHE[id(u)] = (u, val)
    return val


def request(case):
    ok, nxt, uw = _universe_wire(case["u"])
    if not ok:
        return None
    return "(libhist i%d %s %s)" % (nxt, uw, enc([op_wire(o) for o in case["ops"]]))


def views(lib):
    return [[enc_any(b) for b in lib.blocks],
            [enc_any(b) for b in lib.entries],
            [[k, enc_any(b)] for k, b in lib.entries_dict.items()],
            [enc_any(b) for b in lib.strings],
            [[k, enc_any(b)] for k, b in lib.strings_dict.items()],
            [enc_any(b) for b in lib.preambles],
            [enc_any(b) for b in lib.comments],
            [enc_any(b) for b in lib.failed_blocks]]


def resolve(lib, objs, a):
    """the real object an argument denotes, or None if it names a position that does not exist"""
    if a[0] == "u":
        return objs[a[1]]
    return lib.blocks[a[1]] if a[1] < len(lib.blocks) else None


def resolve_op(lib, objs, op):
    """(callable, description) or None (skip)"""
    n = op[0]
    if n in ("add1", "rem1"):
        x = resolve(lib, objs, op[1])
        if x is None:
            return None
        return (lambda: lib.add(x, fail_on_duplicate_key=bool(op[2]))) if n == "add1" else (lambda: lib.remove(x))
    if n in ("addl", "reml"):
        xs = [resolve(lib, objs, a) for a in op[1]]
        if any(x is None for x in xs):
            return None
        return (lambda: lib.add(xs, fail_on_duplicate_key=bool(op[2]))) if n == "addl" else (lambda: lib.remove(xs))
    if n == "repl":
        o, nw = resolve(lib, objs, op[1]), resolve(lib, objs, op[2])
        if o is None or nw is None:
            return None
        return lambda: lib.replace(o, nw, fail_on_duplicate_key=bool(op[3]))
    raise ValueError(n)


def impl(case):
    from bibtexparser.library import Library
    objs = build_universe(case["u"])
    lib = Library()
    out = []
    for op in case["ops"]:
        call = resolve_op(lib, objs, op)
        if call is None:
            r = Sym("skip")
        else:
            try:
                call()
                r = Sym("ok")
            except Exception as ex:  # noqa - the exception class is the observable
                r = [Sym("raise"), Sym(type(ex).__name__)]
        out.append([r] + views(lib))
    return enc(out)


# --------------------------------------------------------------------------------------------------
# the oracle: the property statement on the real Library (no model involved)

def _snapshot(lib):
    """deep snapshot by value"""
    return {"blocks": enc([enc_any(b) for b in lib.blocks]),
            "entries": enc([enc_any(b) for b in lib.entries]),
            "entries_dict": {k: enc(enc_any(b)) for k, b in lib.entries_dict.items()},
            "strings_dict": {k: enc(enc_any(b)) for k, b in lib.strings_dict.items()},
            "strings": sorted(enc(enc_any(b)) for b in lib.strings),
            "preambles": enc([enc_any(b) for b in lib.preambles]),
            "comments": enc([enc_any(b) for b in lib.comments]),
            "failed": enc([enc_any(b) for b in lib.failed_blocks])}


def _consistent(lib):
    """the state part of the statement; None or a description"""
    from bibtexparser import model as M
    blocks = lib.blocks
    ents = [b for b in blocks if isinstance(b, M.Entry)]
    strs = [b for b in blocks if isinstance(b, M.String)]
    if len(lib.entries) != len(ents) or any(x is not y for x, y in zip(lib.entries, ents)):
        return "entries is not the Entry blocks of blocks in order"
    for name, held, dct in (("entries_dict", ents, lib.entries_dict), ("strings_dict", strs, lib.strings_dict)):
        keys = [b.key for b in held]
        if len(set(keys)) != len(keys):
            return "two held %s share a key: %r" % ("entries" if name == "entries_dict" else "strings", keys)
        if sorted(dct.keys()) != sorted(keys):
            return "%s has keys %r, the held blocks have %r" % (name, sorted(dct.keys()), sorted(keys))
        for b in held:
            if dct[b.key] is not b:
                return "%s[%r] is not the held block with that key" % (name, b.key)
    if collections.Counter(map(id, lib.strings)) != collections.Counter(map(id, strs)):
        return "strings is not the held String blocks"
    parts = list(lib.entries) + list(lib.strings) + list(lib.preambles) + list(lib.comments) + list(lib.failed_blocks)
    if collections.Counter(map(id, parts)) != collections.Counter(map(id, blocks)):
        return "entries, strings, preambles, comments, failed_blocks do not partition blocks"
    for b in lib.preambles:
        if not isinstance(b, M.Preamble):
            return "preambles holds a %s" % type(b).__name__
    for b in lib.comments:
        if not isinstance(b, (M.ExplicitComment, M.ImplicitComment)):
            return "comments holds a %s" % type(b).__name__
    for b in lib.failed_blocks:
        if not isinstance(b, M.ParsingFailedBlock):
            return "failed_blocks holds a %s" % type(b).__name__
    return None


def oracle(case, ignore_k1=False):
    from bibtexparser.library import Library
    from bibtexparser import model as M
    objs = build_universe(case["u"])
    lib = Library()
    k1_seen = None      # the first K1-shaped failure; reported only if nothing else fails in this history
    for i, op in enumerate(case["ops"]):
        call = resolve_op(lib, objs, op)
        if call is None:
            continue
        where = "call %d %s" % (i, op[0])
        before = _snapshot(lib)
        before_objs = list(lib.blocks)
        n = op[0]
        args = None
        if n == "repl":
            old, new = resolve(lib, objs, op[1]), resolve(lib, objs, op[2])
            idx = next((j for j, b in enumerate(before_objs) if b == old), None)
        elif n in ("add1", "addl"):
            args = [resolve(lib, objs, a) for a in (op[1] if n == "addl" else [op[1]])]
        raised = None
        try:
            call()
        except ValueError:
            raised = "ValueError"
        except Exception as ex:  # noqa
            return "%s raised %s (only ValueError is documented)" % (where, type(ex).__name__)
        bad = _consistent(lib)
        if bad:
            return "%s (%s): %s" % (where, raised or "ok", bad)
        after = _snapshot(lib)
        if raised:
            diff = [k for k in before if before[k] != after[k]]
            if diff:
                k1_shape = n in ("add1", "addl") and bool(op[2])
                if not k1_shape:
                    return "%s raised ValueError but changed %s" % (where, ", ".join(diff))
                # the known finding K1 is this and nothing else: the raising add has added EVERY block of the call (duplicates
                # wrapped), as documented and pinned by tests/test_library.py. Any other state after the ValueError is a
                # different violation of "a call that raises leaves the library equal to what it was"
                now = list(lib.blocks)
                documented = (len(now) == len(before_objs) + len(args) and all(x is y for x, y in zip(before_objs, now))
                              and all(got is a or (isinstance(got, M.DuplicateBlockKeyBlock) and got.ignore_error_block is a)
                                      for a, got in zip(args, now[len(before_objs):])))
                if not documented:
                    return ("%s(fail_on_duplicate_key=True) raised ValueError and left the library neither as it was nor in the "
                            "documented state of known finding K1 (every block of the call added, duplicates wrapped): %d blocks "
                            "before, %d in the call, %d after" % (where, len(before_objs), len(args), len(now)))
                if k1_seen is None:
                    k1_seen = "%s(fail_on_duplicate_key=True) raised ValueError but changed %s" % (where, ", ".join(diff))
            continue
        now = list(lib.blocks)
        if n == "repl":
            if len(now) != len(before_objs) or idx is None:
                return "%s: the number of blocks changed" % where
            for j, (x, y) in enumerate(zip(before_objs, now)):
                if j != idx and x is not y:
                    return "%s: position %d changed although position %d was replaced" % (where, j, idx)
            got = now[idx]
            if got is not new and not (isinstance(got, M.DuplicateBlockKeyBlock) and got.ignore_error_block is new
                                       and not bool(op[3])):
                return "%s: position %d does not hold the new block (or, with fail_on_duplicate_key=False, its wrapper)" % (where, idx)
        elif n in ("add1", "addl"):
            if len(now) != len(before_objs) + len(args) or any(x is not y for x, y in zip(before_objs, now)):
                return "%s: blocks is not the old list followed by one block per argument" % where
            for a, got in zip(args, now[len(before_objs):]):
                if got is not a and not (isinstance(got, M.DuplicateBlockKeyBlock) and got.ignore_error_block is a):
                    return "%s: an appended block is neither the argument nor its wrapper" % where
        else:
            rem = list(before_objs)
            for a in [resolve_snapshot(before_objs, objs, x) for x in (op[1] if n == "reml" else [op[1]])]:
                j = next((j for j, b in enumerate(rem) if b == a), None)
                if j is None:
                    return "%s returned although an argument was not held" % where
                del rem[j]
            if len(rem) != len(now) or any(x is not y for x, y in zip(rem, now)):
                return "%s: blocks is not the old list without the removed blocks" % where
    if k1_seen is not None and not ignore_k1:
        return k1_seen + K1_ONLY
    return None


K1_ONLY = " [nothing else fails in this history]"


def resolve_snapshot(before_objs, objs, a):
    return objs[a[1]] if a[0] == "u" else before_objs[a[1]]


def known_match(finding, case, failure):
    """K1 explains a failure only if it is `add(..., fail_on_duplicate_key=True)` that raised ValueError after
    mutating, i.e. the case passes once exactly that shape is tolerated."""
    if finding.get("id") != "K1":
        return False
    m = finding.get("match", {})
    if not (m.get("op") == "add" and m.get("fail_on_duplicate_key") is True and m.get("raised") == "ValueError"):
        return False
    # the oracle reports a K1-shaped failure only when the rest of the history satisfies the property
    return ("(fail_on_duplicate_key=True) raised ValueError but changed" in failure and failure.endswith(K1_ONLY)
            and any(op[0] in ("add1", "addl") and bool(op[2]) for op in case["ops"]))


# --------------------------------------------------------------------------------------------------
# generators

def U(i):
    return ["u", i]


def P(i):
    return ["p", i]


# over CORE_U = [E1(a), E2(a), E1'(== E1), S1(a), C, F]
QUICK_ALPHABET = [
    ["add1", U(0), False], ["add1", U(1), False], ["add1", U(1), True], ["add1", U(2), False],
    ["add1", U(3), False], ["add1", U(4), False], ["add1", U(5), False],
    ["addl", [U(0), U(1)], True],
    ["rem1", U(0)], ["rem1", U(2)], ["rem1", U(3)], ["rem1", P(1)],
    ["reml", [U(0), U(4)]],
    ["repl", U(0), U(1), True], ["repl", U(0), U(1), False], ["repl", P(0), U(1), True], ["repl", P(1), U(0), True],
    ["repl", U(3), U(1), True], ["repl", P(0), U(4), True],
]
ALPHABET = QUICK_ALPHABET + [
    ["add1", U(3), True], ["rem1", U(1)], ["rem1", P(0)], ["repl", U(0), U(3), True], ["repl", U(4), U(0), True],
]
SUB_ALPHABET = [
    ["add1", U(0), False], ["add1", U(1), False], ["add1", U(1), True], ["add1", U(3), False], ["add1", U(4), False],
    ["rem1", U(0)], ["rem1", P(1)], ["reml", [U(0), U(4)]],
    ["repl", U(0), U(1), True], ["repl", P(0), U(1), True], ["repl", P(1), U(0), True], ["repl", U(3), U(1), True],
    ["repl", P(0), U(4), False],
]

K1_WITNESS = {"u": [E1, E2], "ops": [["add1", U(0), False], ["add1", U(1), True]]}


def corpus():
    return [
        K1_WITNESS,
        # F11: remove([held, not_held]) must not remove anything
        {"u": [E1, EB, CE], "ops": [["addl", [U(0), U(2)], False], ["reml", [U(0), U(1)]], ["reml", [U(0), U(2)]]]},
        {"u": [E1, CE], "ops": [["add1", U(0), False], ["reml", [U(0), U(0)]], ["reml", [U(1), U(0)]]]},
        # remove the original, then add the same key again; remove by an equal-but-distinct block
        {"u": [E1, E2, dict(E1)], "ops": [["add1", U(0), False], ["add1", U(1), False], ["rem1", U(2)], ["add1", U(1), False],
                                         ["rem1", P(0)], ["add1", U(0), True]]},
        # replace a String by an Entry and back; entries and strings share key names
        {"u": [E1, S1, S2, SB], "ops": [["addl", [U(1), U(3), U(0)], False], ["repl", U(1), U(0), True], ["repl", U(1), U(0), False],
                                       ["repl", P(0), U(2), True], ["repl", U(3), U(2), True]]},
        # a failing replace in a library that already holds duplicates; strings order after the rollback
        {"u": [E1, E2, EB, S1, SB], "ops": [["addl", [U(0), U(1), U(2), U(3), U(4)], False], ["repl", U(2), U(1), True],
                                           ["repl", U(3), U(4), True], ["repl", P(1), U(2), True], ["repl", P(1), U(0), True]]},
        # failed blocks: the same error object / another one
        {"u": [F0, dict(F0), F1, DF, MW, DK], "ops": [["addl", [U(0), U(3), U(4), U(5)], True], ["rem1", U(2)], ["rem1", U(1)],
                                                      ["repl", U(3), U(2), True], ["rem1", U(0)], ["rem1", U(2)]]},
        # replace by a block that is already held; replace a wrapper
        {"u": [E1, E2, CE], "ops": [["addl", [U(0), U(1), U(2)], False], ["repl", U(2), U(0), True], ["repl", P(1), U(2), True],
                                   ["repl", U(0), U(0), True], ["repl", U(0), U(1), True]]},
    ]


def _random_case(rng):
    u = RICH_U
    n = len(u)
    ops = []

    def arg(p_pos=0.25):
        return P(rng.randint(0, 5)) if rng.random() < p_pos else U(rng.randrange(n))

    for _ in range(rng.randint(1, 30)):
        r = rng.random()
        if r < 0.3:
            ops.append(["add1", arg(0.05), rng.random() < 0.3])
        elif r < 0.42:
            ops.append(["addl", [arg(0.05) for _ in range(rng.randint(0, 3))], rng.random() < 0.3])
        elif r < 0.6:
            ops.append(["rem1", arg(0.4)])
        elif r < 0.7:
            ops.append(["reml", [arg(0.4) for _ in range(rng.randint(0, 3))]])
        else:
            ops.append(["repl", arg(0.5), arg(0.1), rng.random() < 0.6])
    return {"u": u, "ops": ops}


def gen(tier, rng):
    for n in range(1, 5):
        for seq in itertools.product(QUICK_ALPHABET if tier == "quick" else ALPHABET, repeat=n):
            yield {"u": CORE_U, "ops": list(seq)}
    if tier == "thorough":
        for seq in itertools.product(SUB_ALPHABET, repeat=5):
            yield {"u": CORE_U, "ops": list(seq)}
    for _ in range(3000 if tier == "quick" else 30000):
        yield _random_case(rng)


def nontrivial(case, out):
    return out not in ("()", "") and not out.startswith("(raise") and ("(ok " in out or "((raise " in out)


def describe(cases, outs):
    ops = collections.Counter()
    lens = collections.Counter()
    outcomes = collections.Counter()
    maxheld = collections.Counter()
    for c, o in zip(cases, outs):
        ops.update(op[0] for op in c["ops"])
        n = len(c["ops"])
        lens["<=2" if n <= 2 else "<=4" if n <= 4 else "5" if n == 5 else "<=15" if n <= 15 else "<=30"] += 1
        outcomes["ok"] += o.count("(ok ")
        outcomes["ValueError"] += o.count("((raise ValueError)")
        outcomes["skip"] += o.count("(skip ")
        outcomes["other raise"] += o.count("((raise ") - o.count("((raise ValueError)")
        maxheld["wrappers made"] += o.count("(dupkey ") > 0
    return {"calls": dict(ops), "history_length": dict(lens), "call_outcomes": dict(outcomes),
            "histories_with_a_duplicate_wrapper": maxheld["wrappers made"],
            "raised_outside_a_call": sum(1 for o in outs if o.startswith("(raise"))}
