"""C17 - field sorting and key normalisation only permute/merge fields; values intact."""
import collections
import itertools

from .. import mwcases as W
from ..wire import Sym, lean_representable, char_table

ID = "C17"
LEAN_MODULE = "BibVerif.Props.C17"

LEVEL_TEXT = (
    "Lean theorems about the models of SortFieldsAlphabeticallyMiddleware, SortFieldsCustomMiddleware and NormalizeFieldKeys, "
    "for EVERY field list (any length, any keys/values) and every order list: the sorted fields are a permutation of the input "
    "(alpha_perm, custom_perm), ordered by key code points resp. by index in the order list with unknown keys last "
    "(alpha_sorted, custom_sorted), stable (alpha_stable, custom_stable: fields with equal sort key keep source order), listed "
    "keys first in listed order and the unlisted ones after them in source order (custom_listed_first), idempotent "
    "(alpha_idempotent, custom_idempotent), the order list is rejected with ValueError exactly when it has duplicates after the "
    "optional case folding (order_validation); normalisation yields lower-cased unique keys (norm_keys_lower_unique), the value "
    "of the last occurrence (norm_last_value_wins), first-occurrence order (norm_first_occurrence_order), unchanged values/lines "
    "(norm_values_unchanged), and is idempotent (norm_idempotent); all three leave entry type, key, line, raw and every other "
    "block untouched (entry_frame, library_frame). The models are tied to the Python code by differential execution each run.")
LEVEL_NOTE = (
    "Trusted: Lean kernel + 3 standard axioms; the hand-written models lean/BibVerif/SortFields.lean, FieldKeys.lean, MwCommon.lean; "
    "the correspondence run; CPython's sorted() is a stable sort comparing str by code point (modelled by List.mergeSort); dict keeps "
    "insertion order and an update keeps the position; LowerIdem (lower-casing a lower-cased character changes nothing) checked over "
    "all code points each run. DuplicateBlockKeyBlock.previous_block is compared as a reference (class, key, line) only.")
TECHNIQUE = ("Lean 4 proof over executable models (core mergeSort lemmas: permutation, sortedness, stability; induction over the "
             "normalisation loop); differential correspondence model vs the three middleware classes through Middleware.transform")
RULE = ("every corpus library also with instances of a user-defined subclass of Entry; documents with keys different as written (also equal up to case) parsed with the middleware appended; corpus; exhaustive: every entry with 0..k fields (quick k=4, thorough k=5) over the key pool a/A/b/B/ab (all case-collision "
        "patterns; alphabetical/normalise up to k+2 fields), each field with a distinct value and line, x {alphabetical, normalise, every permutation of every subset of the "
        "order pool a/A/b/c as custom order x case_sensitive in {False, True}} (130 custom configurations, duplicates after folding "
        "included); random entries with 5..8 fields over a wider pool incl. non-ASCII keys (dotted I, sharp s, Kelvin sign, astral "
        "characters), stacks of 2-3 middlewares, libraries with other block kinds and duplicate entry keys, both in-place modes. "
        "Compared: all blocks with every field (key, value, line) in order and parser_metadata, or the exception class. "
        "Non-trivial = the resulting field order/keys differ from the input or the constructor raised.")
EXHAUSTIVE = {"quick": True, "thorough": True}
ASSUMPTIONS = [
    "sorted() is stable and compares str keys by code point (CPython; modelled as List.mergeSort with a Boolean <=)",
    "dict preserves insertion order; assigning to an existing key keeps its position",
    "LowerIdem: every character of c.lower() is fixed by lower() (checked this run over all 1,114,112 code points) - used by norm_idempotent and norm_keys_lower_unique",
    "str.lower() acts character by character on the keys sent to the model (keys where the final-sigma rule applies go to the real code only)",
]
PARTIAL = []

POOL = ["a", "A", "b", "B", "ab"]
ORDER_POOL = ["a", "A", "b", "c"]
WIDE_POOL = ["a", "A", "b", "B", "ab", "Ab", "aB", "AB", "c", "title", "Title", "TITLE", "author", "year", "", " ", "a ", "_", "Z", "z",
             "é", "É", "İ", "i̇", "ı", "I", "i", "ß", "SS", "ss", "K", "k", "K", "ǅ", "ǆ", "Ǆ",
             "￿", "\U00010000", "\U0001d7d9", "ſ", "S", "s"]
PY_ONLY_KEYS = ["Σ", "aΣ", "AΣ", "\ud800", "a\udfff"]


def _entry(keys, ty="article", key="k", vals=None):
    fields = [[k, ("v%d" % i) if vals is None else vals[i], i + 1] for i, k in enumerate(keys)]
    return ["entry", ty, key, fields, 0, "raw %s" % key]


def _case(ops, lib, ip=True, label=""):
    return {"ops": ops, "lib": lib, "ip": ip, "cls": label}


def all_orders(pool):
    for n in range(len(pool) + 1):
        for sub in itertools.permutations(pool, n):
            yield list(sub)


def all_ops():
    ops = ["alpha", "norm"]
    for o in all_orders(ORDER_POOL):
        for cs in (False, True):
            ops.append(["custom", o, cs])
    return ops


def corpus():
    c = []
    e5 = _entry(["title", "Author", "year", "author", "Title"])
    for op in ["alpha", "norm", ["custom", ["author", "title"], False], ["custom", ["author", "title"], True],
               ["custom", ["Title", "title"], False], ["custom", ["Title", "title"], True], ["custom", ["a", "a"], True],
               ["custom", [], False]]:
        c.append(_case([op], [e5], True, "corpus"))
        c.append(_case([op], [e5], False, "corpus"))
        c.append(_case([op, op], [e5], True, "corpus"))
    # the tests' own examples
    c.append(_case(["alpha"], [_entry(["year", "author", "title", "journal"])], True, "corpus"))
    c.append(_case(["norm"], [_entry(["Author", "author", "AUTHOR", "Year"])], True, "corpus"))
    # keys comparing by code point, not UTF-16 unit or locale
    c.append(_case(["alpha"], [_entry(["\U00010000", "￿", "Z", "a", "é", "E", "e"])], True, "corpus"))
    c.append(_case(["norm"], [_entry(["İ", "i̇", "I", "ı", "K", "k", "K"])], True, "corpus"))
    c.append(_case([["custom", ["k", "i̇"], False]], [_entry(["İ", "x", "K", "K", "i̇"])], True, "corpus"))
    # values of every type survive
    vals = ["s", 7, {"big": [30, 1]}, {"py": "None"}, {"names": ["A", "B"]}]
    e = _entry(["b", "A", "a", "B", "a"], vals=vals)
    for op in ["alpha", "norm", ["custom", ["b"], False]]:
        c.append(_case([op], [e], True, "corpus"))
    # a library with every block class and a duplicate entry key
    c.extend(_case([op], _context_lib(["b", "a", "B", "A"]), ip, "corpus")
             for op in ["alpha", "norm", ["custom", ["b", "a"], False]] for ip in (True, False))
    # the same libraries holding instances of a user-defined subclass of Entry
    return c + [dict(x, sub=True) for x in c]


def _context_lib(keys):
    return [["string", "s", "{v}", 0, "@string{s = {v}}"],
            _entry(keys, key="k1"),
            ["impl", "free", 3, "free"],
            _entry(list(reversed(keys)), ty="Book", key="k1"),          # duplicate entry key: wrapped, not transformed
            ["preamble", "p", 5, "@preamble{p}"],
            ["failed", "eof", 6, "@a{k, B = 1"],
            ["dupfield", ["a"], _entry(["a", "B", "a"], key="d")],
            ["expl", "c", 9, "@comment{c}"],
            _entry(keys + ["C"], ty="misc", key="k2")]


def gen(tier, rng):
    k = 4 if tier == "quick" else 5
    ops = all_ops()
    n = 0
    for ln in range(k + 1):
        for keys in itertools.product(POOL, repeat=ln):
            e = _entry(list(keys))
            for op in ops:
                yield _case([op], [e], n % 2 == 0, "exhaustive")
                n += 1
    # through the entry point: documents whose entry has field keys that are different as written (also ones equal up to
    # case), parsed with the middleware appended
    vkeys = ["title", "Title", "TITLE", "author", "Author", "year", "b", "A"]
    for ln in (1, 2, 3):
        for keys in itertools.permutations(vkeys, ln):
            for op in ("norm", "alpha", ["custom", ["author", "title"], False], ["custom", ["Title", "year"], True]):
                c = _case([op], [_entry(list(keys))], True, "viaparse")
                c["vp"] = True
                yield c
    # the two configuration-free middlewares on longer entries (all key patterns up to k+2 fields)
    for ln in range(k + 1, k + 3):
        for keys in itertools.product(POOL, repeat=ln):
            e = _entry(list(keys))
            for op in ("alpha", "norm"):
                yield _case([op], [e], n % 2 == 0, "exhaustive")
                n += 1
    # python-only keys (final sigma, lone surrogates)
    for key in PY_ONLY_KEYS:
        for op in ["alpha", "norm", ["custom", ["a"], False]]:
            yield _case([op], [_entry(["b", key, "a", key])], True, "python-only")
    for _ in range(8000 if tier == "quick" else 80000):
        yield _random_case(rng)


def _random_op(rng):
    r = rng.random()
    if r < 0.25:
        return "alpha"
    if r < 0.5:
        return "norm"
    pool = WIDE_POOL if rng.random() < 0.5 else POOL + ORDER_POOL
    o = [rng.choice(pool) for _ in range(rng.randint(0, 5))]
    if rng.random() < 0.6:   # mostly duplicate-free, so that the transform is reached
        seen, oo = set(), []
        for x in o:
            if x.lower() not in seen:
                seen.add(x.lower())
                oo.append(x)
        o = oo
    return ["custom", o, rng.random() < 0.5]


def _random_case(rng):
    pool = WIDE_POOL if rng.random() < 0.6 else POOL
    keys = [rng.choice(pool) for _ in range(rng.randint(0, 8) if rng.random() < 0.3 else rng.randint(5, 8))]
    ops = [_random_op(rng) for _ in range(rng.choice([1, 1, 2, 2, 3]))]
    r = rng.random()
    if r < 0.7:
        lib = [_entry(keys)]
    elif r < 0.85:
        lib = _context_lib(keys)
    else:
        lib = [_entry(keys, key="x"), ["expl", "c", 1, None], _entry([rng.choice(pool) for _ in range(rng.randint(0, 6))], key="y")]
    return _case(ops, lib, rng.random() < 0.6, "random")


# ------------------------------------------------------------------------------------------------

def _mk(op, ip):
    from bibtexparser.middlewares.sorting_entry_fields import SortFieldsAlphabeticallyMiddleware, SortFieldsCustomMiddleware
    from bibtexparser.middlewares.fieldkeys import NormalizeFieldKeys
    if op == "alpha":
        return SortFieldsAlphabeticallyMiddleware(allow_inplace_modification=ip)
    if op == "norm":
        return NormalizeFieldKeys(allow_inplace_modification=ip)
    return SortFieldsCustomMiddleware(order=tuple(op[1]), case_sensitive=op[2], allow_inplace_modification=ip)


def _op_wire(op):
    if isinstance(op, str):
        return Sym(op)
    return [Sym("custom"), list(op[1]), bool(op[2])]


def _text(case):
    t = [W.spec_text(case["lib"])]
    for op in case["ops"]:
        if not isinstance(op, str):
            t.extend(op[1])
    return "".join(t)


def request(case):
    text = _text(case)
    if W.spec_python_only(case["lib"]) or not lean_representable(text):
        return None
    # per-key representability (lower() is applied key by key)
    for s in _all_strings(case):
        if not lean_representable(s):
            return None
    body = W.enc([Sym("fieldmw"), [_op_wire(op) for op in case["ops"]], W.wire_blocks(case["lib"])])
    tbl = char_table(text)
    if tbl:
        return "(withchars %s %s)" % (W.enc(tbl), body)
    return body


def _all_strings(case):
    for b in case["lib"]:
        stack = [b]
        while stack:
            x = stack.pop()
            if isinstance(x, str):
                yield x
            elif isinstance(x, list):
                stack.extend(x)
    for op in case["ops"]:
        if not isinstance(op, str):
            for s in op[1]:
                yield s


def _run(case):
    ip = case.get("ip", True)
    mws = [_mk(op, ip) for op in case["ops"]]      # constructors first
    lib = W.library(case["lib"], sub=case.get("sub", False))
    for mw in mws:
        lib = mw.transform(lib)
    return lib


def _viaparse_check(case):
    """The same through the entry point: a document holding the entry (field keys pairwise different as written, possibly
    equal up to case), parsed with parse_string(text, append_middleware=[middleware]), gives one entry with the fields the
    middleware gives for the hand-built entry."""
    import bibtexparser
    from bibtexparser import model as M
    e = case["lib"][0]
    fields = [(f[0], f[1]) for f in e[3]]
    text = "@article{k,\n" + ",\n".join(" %s = {%s}" % kv for kv in fields) + "\n}\n"
    op = case["ops"][0]
    from bibtexparser.library import Library
    want_e = _mk(op, True).transform(Library([M.Entry("article", "k", [M.Field(k, v) for k, v in fields])])).blocks[0]
    want = [(f.key, f.value) for f in want_e.fields]
    lib = bibtexparser.parse_string(text, append_middleware=[_mk(op, True)])
    if len(lib.blocks) != 1 or type(lib.blocks[0]) is not M.Entry:
        return "parse_string(%r, append_middleware=[%r]) returns %r instead of one entry" % (text, op, [type(b).__name__ for b in lib.blocks])
    got = [(f.key, f.value) for f in lib.blocks[0].fields]
    if got != want:
        return "parse_string(%r, append_middleware=[%r]) gives the fields %r, the middleware on the entry gives %r" % (text, op, got, want)
    return None


def impl(case):
    res = W.ok(W.enc_blocks(_run(case).blocks))
    if case.get("vp") and _viaparse_check(case) is not None:
        return res + " (via-parse-differs)"
    return res


def nontrivial(case, out):
    if out.startswith("(raise"):
        return True
    return W.ok(W.enc_blocks(W.library(case["lib"]).blocks)) != out


# ------------------------------------------------------------------------------------------------
# the property on the real code

def _snap(f):
    v = f.value
    return (f.key, type(v).__name__, repr(v) if not isinstance(v, int) or isinstance(v, bool) else "int:%x" % v, f.start_line)


def _stable_sort(items, keyfn):
    """insertion sort written out (not sorted()): stable by construction"""
    out = []
    for it in items:
        k = keyfn(it)
        pos = len(out)
        while pos > 0 and k < keyfn(out[pos - 1]):
            pos -= 1
        out.insert(pos, it)
    return out


def _folded_order(op):
    return [x if op[2] else x.lower() for x in op[1]]


def _has_duplicates(xs):
    return any(xs[i] == xs[j] for i in range(len(xs)) for j in range(i + 1, len(xs)))


def _check_fields(op, before, after):
    """`before`/`after`: lists of field snapshots (key, type, value, line) of one entry"""
    if op == "norm":
        firsts = []
        last = {}
        for s in before:
            lk = s[0].lower()
            if lk not in last:
                firsts.append(lk)
            last[lk] = s
        want = [(lk,) + last[lk][1:] for lk in firsts]
        keys = [s[0] for s in after]
        if any(k != k.lower() for k in keys):
            return "a key is not lower-case after normalisation: %r" % keys
        if _has_duplicates(keys):
            return "keys not unique after normalisation: %r" % keys
        if keys != firsts:
            return "order of first occurrences not kept: %r, required %r" % (keys, firsts)
        if after != want:
            return "last value does not win / a value changed: %r, required %r" % (after, want)
        return None
    if sorted(after) != sorted(before):
        return "fields are not a permutation of the entry's fields: %r -> %r" % (before, after)
    if op == "alpha":
        keyfn = lambda s: s[0]
    else:
        order = _folded_order(op)

        def keyfn(s):
            k = s[0] if op[2] else s[0].lower()
            for i, o in enumerate(order):
                if o == k:
                    return i
            return len(order)
    ks = [keyfn(s) for s in after]
    if any(ks[i + 1] < ks[i] for i in range(len(ks) - 1)):
        return "fields not in %s order: %r" % ("key" if op == "alpha" else "listed", [s[0] for s in after])
    if after != _stable_sort(before, keyfn):
        return "ties do not keep source order: %r, required %r" % (after, _stable_sort(before, keyfn))
    if op != "alpha":
        n = len(order)
        listed = [s for s in after if keyfn(s) < n]
        if after[:len(listed)] != listed:
            return "listed keys are not first"
        if [s for s in after if keyfn(s) == n] != [s for s in before if keyfn(s) == n]:
            return "unlisted fields not in source order after the listed ones"
    return None


def oracle(case):
    from bibtexparser import model as M
    if case.get("vp"):
        f = _viaparse_check(case)
        if f:
            return f
    ip = case.get("ip", True)
    ops = case["ops"]
    # order-list validation happens at construction
    mws = []
    for op in ops:
        dup = (not isinstance(op, str)) and _has_duplicates(_folded_order(op))
        try:
            mws.append(_mk(op, ip))
            if dup:
                return "order list %r (case_sensitive=%r) has duplicates but was accepted" % (op[1], op[2])
        except ValueError:
            if not dup:
                return "order list %r (case_sensitive=%r) without duplicates was rejected" % (op[1], op[2])
            return None       # rejected as required; nothing else to run
        except Exception as e:  # noqa
            return "constructing %r raised %s" % (op, type(e).__name__)
    lib = W.library(case["lib"], sub=case.get("sub", False))
    for op, mw in zip(ops, mws):
        before = [(type(b), W.enc(W.enc_block(b)), [_snap(f) for f in b.fields] if isinstance(b, M.Entry) else None,
                   (b.entry_type, b.key, b.start_line, b.raw) if isinstance(b, M.Entry) else None) for b in lib.blocks]
        try:
            out = mw.transform(lib)
        except Exception as e:  # noqa
            return "%r raised %s" % (op, type(e).__name__)
        if len(out.blocks) != len(before):
            return "%r changed the number of blocks" % (op,)
        for i, (b1, (t0, w0, f0, h0)) in enumerate(zip(out.blocks, before)):
            if type(b1) is not t0:
                return "%r: block %d changed class" % (op, i)
            if f0 is None:
                if W.enc(W.enc_block(b1)) != w0:
                    return "%r: block %d (%s) was altered" % (op, i, t0.__name__)
                continue
            if (b1.entry_type, b1.key, b1.start_line, b1.raw) != h0:
                return "%r: entry %d: type/key/line/raw changed" % (op, i)
            bad = _check_fields(op, f0, [_snap(f) for f in b1.fields])
            if bad:
                return "%r: entry %d: %s" % (op, i, bad)
        # idempotence
        once = [[_snap(f) for f in b.fields] if isinstance(b, M.Entry) else None for b in out.blocks]
        try:
            twice = _mk(op, ip).transform(out)
        except Exception as e:  # noqa
            return "%r applied twice raised %s" % (op, type(e).__name__)
        again = [[_snap(f) for f in b.fields] if isinstance(b, M.Entry) else None for b in twice.blocks]
        if once != again:
            return "%r is not idempotent: %r then %r" % (op, once, again)
        lib = out
    return None


def known_match(finding, case, failure):
    return False


def extra_obligations(tier):
    bad = []
    for cp in range(0x110000):
        if 0xD800 <= cp <= 0xDFFF:
            continue
        low = chr(cp).lower()
        if any(d.lower() != d for d in low):
            bad.append(cp)
    res = [("LowerIdem: every character of c.lower() is fixed by lower() (all 1114112 code points)", not bad, "offending: %r" % bad[:5])]
    # string level (final-sigma rule included): lower is idempotent on a sample of words
    import random
    r = random.Random(17)
    alphabet = "aAbBσΣςİıßKǅé ́" + "".join(chr(r.randrange(0x80, 0x3000)) for _ in range(200))
    badw = []
    for _ in range(20000):
        w = "".join(r.choice(alphabet) for _ in range(r.randint(0, 6)))
        if w.lower().lower() != w.lower():
            badw.append(w)
    res.append(("str.lower is idempotent on 20000 sampled words (incl. final-sigma contexts)", not badw, "offending: %r" % badw[:3]))
    # sorted() compares str by code point and is stable
    xs = [("\U00010000", 0), ("￿", 1), ("a", 2), ("B", 3), ("a", 4), ("é", 5), ("B", 6)]
    got = sorted(xs, key=lambda t: t[0])
    want = [("B", 3), ("B", 6), ("a", 2), ("a", 4), ("é", 5), ("￿", 1), ("\U00010000", 0)]
    res.append(("sorted(key=) orders str by code point and keeps ties in source order (probe)", got == want, "got %r" % (got,)))
    return res


def describe(cases, outs):
    nf = collections.Counter()
    kinds = collections.Counter()
    stack = collections.Counter()
    coll = collections.Counter()
    res = collections.Counter()
    for c, o in zip(cases, outs):
        stack[len(c["ops"])] += 1
        for op in c["ops"]:
            kinds[op if isinstance(op, str) else "custom(cs=%s,len=%d)" % (op[2], len(op[1]))] += 1
        for b in c["lib"]:
            if b[0] == "entry":
                keys = [f[0] for f in b[3]]
                nf[min(len(keys), 9)] += 1
                low = [k.lower() for k in keys]
                coll["exact-duplicate keys" if len(set(keys)) < len(keys) else
                     "case-insensitive collision" if len(set(low)) < len(low) else "distinct"] += 1
        res["raised ValueError" if o == "(raise ValueError)" else "raised other" if o.startswith("(raise") else "ok"] += 1
    return {"fields_per_entry": {str(k): v for k, v in sorted(nf.items())}, "middleware": dict(kinds),
            "stack_length": {str(k): v for k, v in stack.items()}, "key_collisions_per_entry": dict(coll), "result": dict(res),
            "inplace": dict(collections.Counter(str(c.get("ip", True)) for c in cases)),
            "class": dict(collections.Counter(c.get("cls", "?") for c in cases))}
