"""C20 - entry points apply exactly the requested middleware stack, in order."""
import collections
import copy
import itertools

from .. import common as C
from .. import blocks as B
from ..wire import Sym, enc, request as rq

ID = "C20"
LEAN_MODULE = "BibVerif.Props.C20"
LEVEL_TEXT = ("Lean theorems over the model of entrypoint.py / BlockMiddleware.transform: parse_with_stack, parse_with_append, "
              "parse_default, parse_both_given, write_with_prepend, write_with_stack, write_both_given (exactly the requested "
              "stack, left to right, ValueError when both are given), splice_ok / splice_type_error / block_transform_splice "
              "(None or empty -> nothing, block -> itself, collection -> its items in place, anything else -> TypeError, then "
              "Library(blocks)) - for all stacks and all libraries, middlewares abstract. The model is thin (close to the "
              "specification); the assurance for the real code comes from the correspondence run with order-sensitive probes "
              "in every argument position. parse_file / write_file (file system, codecs) are exercised, not modelled.")
LEVEL_NOTE = ("Trusted: Lean kernel + 3 standard axioms; the hand-written model Stack.lean + AddAll.lean; the correspondence run "
              "with probe middlewares; file I/O part is partial by nature (real temporary files x 4 encodings x path/file "
              "object compared with parse_string/write_string of the decoded content on the real code only).")
TECHNIQUE = "Lean 4 proof (stack = fold, splice semantics) + differential correspondence with order-sensitive probe middlewares"
RULE = ("documents x stacks of 0..3 probes (tag probes appending their tag to every entry key: order-sensitive; splice probes "
        "returning None / [] / the block / lists or tuples of k blocks / a generator / an int / a collection with a non-block, "
        "per block class) in every argument position (parse_stack, append_middleware, unparse_stack, prepend_middleware, "
        "both given); library-level middlewares on every document; shipped middlewares in the addition positions; a caller "
        "changing the lists got from default_parse_stack() / default_unparse_stack() before the entry points are called; file cases: {utf-8, latin-1, gbk, utf-16} x path / file object. Non-trivial = stack non-empty.")
EXHAUSTIVE = {"quick": False, "thorough": False}
ASSUMPTIONS = ["probe middlewares stand for arbitrary middlewares (the model is parametric in them)"]
PARTIAL = ["parse_file / write_file: file system and codecs are not modelled (python-only stream)"]

DOCS = [
    "@a{k1, f = {v}}\n@string{s = {x}}\n@preamble{p}\n@comment{c}\nfree text\n@b{k2, g = s}",
    "@a{k, f = 1}\n@a{k, f = 2}\n@string{k = 1}\n@string{k = 2}\n@a{j, f = 1, f = 2}\n@a{broken",
    "",
    "only text",
    "@a{x}@a{x1}@a{x}",
]
KINDS = ["entry", "string", "preamble", "expl", "impl"]
HOWS = ["none", "empty", "same", ["dup", "", ""], ["dup", "X"], ["dup", "1", "2", "3"], "illegal", "illegal_falsy", "badcoll"]


_CLASSES = {}


def _classes():
    """the probe classes, defined once: a stack may hold several INSTANCES of the same class"""
    if _CLASSES:
        return _CLASSES
    from bibtexparser.middlewares.middleware import BlockMiddleware
    from bibtexparser import model as M

    def retag(b, t):
        nb = copy.copy(b)
        if isinstance(b, (M.Entry, M.String)):
            nb.key = b.key + t
        elif isinstance(b, M.Preamble):
            nb.value = b.value + t
        else:
            nb.comment = b.comment + t
        return nb

    class Tag(BlockMiddleware):
        # returns a new entry object: the model has value semantics, so a probe must not mutate an
        # object that a DuplicateBlockKeyBlock still references as its previous_block
        def __init__(self, t):
            super().__init__()
            self.t = t

        def transform_entry(self, entry, library):
            return retag(entry, self.t)

    class VTag(BlockMiddleware):
        # appends its tag to every str field value: does not commute with Add/RemoveEnclosing
        def __init__(self, t):
            super().__init__()
            self.t = t

        def transform_entry(self, entry, library):
            ne = copy.copy(entry)
            ne.fields = [M.Field(f.key, f.value + self.t if isinstance(f.value, str) else f.value, f.start_line)
                         for f in entry.fields]
            return ne

    class Splice(BlockMiddleware):
        def __init__(self, kind, how):
            super().__init__()
            self.kind, self.how, self.n = kind, how, 0

        def _res(self, b, k):
            kind, how = self.kind, self.how
            if k != kind:
                return b
            self.n += 1
            if how == "none":
                return None
            if how == "empty":
                return [[], (), "", {}][self.n % 4]
            if how == "same":
                return b
            if how == "illegal":
                return [5, (x for x in [b]), object()][self.n % 3]
            if how == "illegal_falsy":       # falsy non-blocks must raise TypeError too, not be dropped like None
                return [False, 0, 0.0][self.n % 3]
            if how == "badcoll":
                return [[b, 5], "abc", (None,)][self.n % 3]
            # equal tags give the SAME block instance several times ([x, x]): every occurrence is added
            made = {}
            items = [made.setdefault(t, retag(b, t)) for t in how[1:]]
            return items if self.n % 2 else tuple(items)

        def transform_entry(self, e, library):
            return self._res(e, "entry")

        def transform_string(self, s, library):
            return self._res(s, "string")

        def transform_preamble(self, p, library):
            return self._res(p, "preamble")

        def transform_explicit_comment(self, c, library):
            return self._res(c, "expl")

        def transform_implicit_comment(self, c, library):
            return self._res(c, "impl")

    _CLASSES.update(Tag=Tag, VTag=VTag, Splice=Splice)
    return _CLASSES


def _probe(spec):
    """real middleware object for a wire spec"""
    c = _classes()
    if spec[0] == "tag":
        return c["Tag"](spec[1])
    if spec[0] == "vtag":
        return c["VTag"](spec[1])
    return c["Splice"](spec[1], spec[2])


def _kind(b):
    from bibtexparser import model as M
    for cls, k in ((M.Entry, "entry"), (M.String, "string"), (M.Preamble, "preamble"),
                   (M.ExplicitComment, "expl"), (M.ImplicitComment, "impl")):
        if isinstance(b, cls):
            return k
    return "other"


def ref_apply(spec, lib):
    """the splice protocol as the property states it, written independently of BlockMiddleware.transform:
    None/empty -> nothing, block -> itself, collection of blocks -> its items in place, else TypeError"""
    from bibtexparser.library import Library
    from bibtexparser import model as M
    out = []
    for b in lib.blocks:
        k = _kind(b)
        if spec[0] == "tag":
            if k == "entry":
                nb = copy.copy(b)
                nb.key = b.key + spec[1]
                b = nb
            out.append(b)
        elif spec[0] == "vtag":
            if k == "entry":
                nb = copy.copy(b)
                nb.fields = [M.Field(f.key, f.value + spec[1] if isinstance(f.value, str) else f.value, f.start_line) for f in b.fields]
                b = nb
            out.append(b)
        else:
            kind, how = spec[1], spec[2]
            if k != kind or how == "same":
                out.append(b)
            elif how in ("none", "empty"):
                pass
            elif how in ("illegal", "illegal_falsy", "badcoll"):
                raise TypeError("non-block result")
            else:
                for t in how[1:]:
                    nb = copy.copy(b)
                    if k in ("entry", "string"):
                        nb.key = b.key + t
                    elif k == "preamble":
                        nb.value = b.value + t
                    else:
                        nb.comment = b.comment + t
                    out.append(nb)
    return Library(out)


def _wire(spec):
    if spec[0] in ("tag", "vtag"):
        return [Sym(spec[0]), spec[1]]
    how = spec[2]
    if how == "illegal_falsy":
        how = "illegal"
    return [Sym("splice"), Sym(spec[1]), Sym(how) if isinstance(how, str) else [Sym("dup")] + list(how[1:])]


def corpus():
    return [
        {"op": "parse", "doc": 0, "ps": [["tag", "1"], ["tag", "2"]], "am": None},
        {"op": "parse", "doc": 0, "ps": None, "am": [["tag", "1"], ["tag", "2"]]},
        {"op": "parse", "doc": 0, "ps": [["tag", "1"]], "am": [["tag", "2"]]},
        {"op": "write", "doc": 0, "us": None, "pm": [["tag", "1"], ["tag", "2"]]},
        {"op": "write", "doc": 0, "us": [["tag", "1"], ["tag", "2"]], "pm": None},
        {"op": "write", "doc": 0, "us": [["tag", "1"]], "pm": [["tag", "2"]]},
        {"op": "parse", "doc": 1, "ps": [["splice", "entry", ["dup", "", ""]]], "am": None},
        {"op": "file", "doc": 0, "enc": "gbk", "target": "path"},
        {"op": "write", "doc": 0, "us": None, "pm": [["vtag", "}"]]},
        {"op": "parse", "doc": 0, "ps": None, "am": [["vtag", "}"]]},
    ]


def gen(tier, rng):
    tags = [["tag", "1"], ["tag", "2"], ["vtag", "}"], ["vtag", "x"]]
    stacks = [[]]
    for n in (1, 2, 3):
        for p in itertools.permutations(tags, n):
            stacks.append(list(p))
    for doc in range(len(DOCS)):
        for st in stacks:
            yield {"op": "parse", "doc": doc, "ps": st, "am": None}
            yield {"op": "parse", "doc": doc, "ps": None, "am": st}
            yield {"op": "write", "doc": doc, "us": st, "pm": None}
            yield {"op": "write", "doc": doc, "us": None, "pm": st}
        yield {"op": "parse", "doc": doc, "ps": None, "am": None}
        yield {"op": "write", "doc": doc, "us": None, "pm": None}
        # the stack arguments are Iterables: tuples, one-shot iterators and generators must work like lists
        for ct in ("tuple", "iter", "gen"):
            for st in ([["tag", "1"]], [["tag", "1"], ["vtag", "x"]], []):
                yield {"op": "parse", "doc": doc, "ps": st, "am": None, "ct": ct}
                yield {"op": "parse", "doc": doc, "ps": None, "am": st, "ct": ct}
                yield {"op": "write", "doc": doc, "us": st, "pm": None, "ct": ct}
                yield {"op": "write", "doc": doc, "us": None, "pm": st, "ct": ct}
        yield {"op": "parse", "doc": doc, "ps": None, "am": [["vtag", "}"]]}
        yield {"op": "write", "doc": doc, "us": None, "pm": [["vtag", "{"]]}
        yield {"op": "parse", "doc": doc, "ps": [], "am": [["tag", "1"]]}
        yield {"op": "write", "doc": doc, "us": [["tag", "1"]], "pm": []}
        for kind in KINDS:
            for how in HOWS:
                sp = ["splice", kind, how]
                yield {"op": "parse", "doc": doc, "ps": [sp], "am": None}
                yield {"op": "parse", "doc": doc, "ps": [["tag", "1"], sp, ["tag", "2"]], "am": None}
                yield {"op": "write", "doc": doc, "us": None, "pm": [sp, ["tag", "9"]]}
    n = 300 if tier == "quick" else 5000
    for _ in range(n):
        st = []
        for _ in range(rng.randint(0, 3)):
            st.append(rng.choice(tags) if rng.random() < .5 else ["splice", rng.choice(KINDS), rng.choice(HOWS)])
        op = rng.choice(["parse", "write"])
        pos = rng.choice([0, 1])
        c = {"op": op, "doc": rng.randrange(len(DOCS))}
        if op == "parse":
            c.update({"ps": st if pos else None, "am": None if pos else st})
        else:
            c.update({"us": st if pos else None, "pm": None if pos else st})
        yield c
    # library-level middlewares (not block middlewares) that act on ANY library, also an empty one: every requested
    # middleware runs exactly once, in order, whatever the document (python-only: the check is made on the real code)
    for doc in range(len(DOCS)):
        for pos in ("ps", "am", "us", "pm"):
            for tags in (["1"], ["1", "2"], ["2", "1", "3"]):
                yield {"op": "libmw", "doc": doc, "pos": pos, "tags": tags}
    for doc in (0, 1):
        for encn in ("utf-8", "latin-1", "gbk", "utf-16"):
            for target in ("path", "fileobj"):
                yield {"op": "file", "doc": doc, "enc": encn, "target": target}
        for encn in ("utf-8", "UTF-8", "utf8"):
            yield {"op": "file", "doc": doc, "enc": encn, "target": "path", "bom": True}
    # shipped middlewares - also of the very classes the default stacks consist of - in the "addition" positions: the
    # default stack still runs completely, before (parse) resp. after (write) them
    for doc in range(len(DOCS)):
        for which in range(len(SHIPPED)):
            yield {"op": "shipped", "doc": doc, "which": which}
    # the default stacks are built for each call: a list a caller got from default_parse_stack() / default_unparse_stack()
    # and changed does not change what the entry points apply
    for doc in range(len(DOCS)):
        for how in ("pop", "clear", "reverse", "append", "insert"):
            yield {"op": "defmut", "doc": doc, "how": how}
        yield {"op": "fmtreuse", "doc": doc}


def _stack_wire(st):
    return Sym("N") if st is None else [_wire(s) for s in st]


def _split_blocks(text):
    from bibtexparser.splitter import Splitter
    return Splitter(text).split().blocks


def request(case):
    import bibtexparser
    text = DOCS[case["doc"]]
    if case["op"] == "parse":
        if case["ps"] is None:
            # the default stack is applied by the real code; the model continues from there
            start = bibtexparser.parse_string(text).blocks
        else:
            start = _split_blocks(text)
        return rq("parsestack", B.enc_blocks(start), [], _stack_wire(case["ps"]), _stack_wire(case["am"]))
    if case["op"] in ("libmw", "shipped", "defmut", "fmtreuse"):
        return None
    if case["op"] == "write":
        start = bibtexparser.parse_string(text).blocks
        return rq("unparsestack", B.enc_blocks(start), [], _stack_wire(case["us"]), _stack_wire(case["pm"]))
    return None


def _mk(st, ct="list"):
    """the stack argument as the container kind `ct`: the parameters are typed Iterable[Middleware], so a
    tuple, a one-shot iterator or a generator is as legal as a list"""
    if st is None:
        return None
    ms = [_probe(s) for s in st]
    if ct == "tuple":
        return tuple(ms)
    if ct == "iter":
        return iter(ms)
    if ct == "gen":
        return (m for m in ms)
    return ms


class _Capture(Exception):
    pass


SHIPPED = ["add_enclosing_quote", "add_enclosing_reuse", "remove_enclosing", "resolve_strings", "month_int", "normalize_keys"]


def _shipped(which):
    import bibtexparser.middlewares as m
    name = SHIPPED[which]
    if name == "add_enclosing_quote":
        return m.AddEnclosingMiddleware(reuse_previous_enclosing=False, enclose_integers=True, default_enclosing='"')
    if name == "add_enclosing_reuse":
        return m.AddEnclosingMiddleware(reuse_previous_enclosing=True, enclose_integers=False, default_enclosing="{")
    if name == "remove_enclosing":
        return m.RemoveEnclosingMiddleware()
    if name == "resolve_strings":
        return m.ResolveStringReferencesMiddleware()
    if name == "month_int":
        return m.MonthIntMiddleware()
    return m.NormalizeFieldKeys()


def _shipped_check(case):
    """append_middleware / prepend_middleware holding a shipped middleware: parse_string = default parse, then it;
    write_string = it, then the complete default write stack, then the writer - computed here by hand"""
    import warnings
    import bibtexparser
    from bibtexparser import writer
    from bibtexparser.middlewares.parsestack import default_parse_stack, default_unparse_stack
    from bibtexparser.splitter import Splitter
    text, which = DOCS[case["doc"]], case["which"]
    with warnings.catch_warnings():
        warnings.simplefilter("ignore")
        got = bibtexparser.parse_string(text, append_middleware=[_shipped(which)])
        want = Splitter(text).split()
        for mw in default_parse_stack(allow_inplace_modification=True):
            want = mw.transform(want)
        want = _shipped(which).transform(want)
        a, b = enc(B.enc_blocks(got.blocks, prev=False)), enc(B.enc_blocks(want.blocks, prev=False))
        if a != b:
            return "parse_string(append_middleware=[%s]) differs from default parse followed by that middleware" % SHIPPED[which]
        if SHIPPED[which] in ("remove_enclosing", "resolve_strings", "month_int"):
            return None      # not meaningful in front of the default write stack (values are already unenclosed etc.)
        lib = bibtexparser.parse_string(text)
        try:
            out = bibtexparser.write_string(lib, prepend_middleware=[_shipped(which)])
        except Exception as e:  # noqa
            out = "raise " + type(e).__name__
        lib2 = bibtexparser.parse_string(text)
        try:
            lib2 = _shipped(which).transform(lib2)
            for mw in default_unparse_stack(allow_inplace_modification=False):
                lib2 = mw.transform(lib2)
            want_text = writer.write(lib2)
        except Exception as e:  # noqa
            want_text = "raise " + type(e).__name__
        if out != want_text:
            return "write_string(prepend_middleware=[%s]) gives %r, the middleware followed by the default write stack gives %r" % (
                SHIPPED[which], out[:120], want_text[:120])
    return None


def _defmut_check(case):
    """a list obtained from default_parse_stack() / default_unparse_stack() belongs to the caller: after they changed it
    (pop, clear, reverse, append or insert of a middleware of their own), parse_string / write_string without a stack
    argument - and with append_middleware / prepend_middleware - still apply exactly the default stack. Whatever was
    changed is put back afterwards (on the unchanged code nothing is shared)."""
    import bibtexparser
    from bibtexparser.middlewares import parsestack
    text, how = DOCS[case["doc"]], case["how"]

    def run():
        lib = bibtexparser.parse_string(text)
        a = enc(B.enc_blocks(lib.blocks, prev=False))
        b = enc(B.enc_blocks(bibtexparser.parse_string(text, append_middleware=[_probe(["tag", "1"])]).blocks, prev=False))
        return a, b, lib

    a0, b0, lib0 = run()
    t0 = bibtexparser.write_string(lib0)
    p0 = bibtexparser.write_string(lib0, prepend_middleware=[_probe(["tag", "2"])])
    saved = []
    try:
        for fn in (parsestack.default_parse_stack, parsestack.default_unparse_stack):
            for kw in ({}, {"allow_inplace_modification": True}, {"allow_inplace_modification": False}):
                st = fn(**kw)
                if not isinstance(st, list):
                    continue
                saved.append((st, list(st)))
                if how == "pop" and st:
                    st.pop(0)
                elif how == "clear":
                    del st[:]
                elif how == "reverse":
                    st.reverse()
                elif how == "append":
                    st.append(_probe(["tag", "9"]))
                elif how == "insert":
                    st.insert(0, _probe(["tag", "9"]))
        a1, b1, _lib1 = run()
        t1 = bibtexparser.write_string(lib0)
        p1 = bibtexparser.write_string(lib0, prepend_middleware=[_probe(["tag", "2"])])
    finally:
        for st, was in reversed(saved):
            st[:] = was
    what = "after a caller changed (%s) the lists they got from default_parse_stack() / default_unparse_stack(), " % how
    if a1 != a0:
        return what + "parse_string(text) gives other blocks than before"
    if b1 != b0:
        return what + "parse_string(text, append_middleware=[...]) gives other blocks than before"
    if t1 != t0:
        return what + "write_string(library) gives %r instead of %r" % (t1[:100], t0[:100])
    if p1 != p0:
        return what + "write_string(library, prepend_middleware=[...]) gives %r instead of %r" % (p1[:100], p0[:100])
    return None


def _fmtreuse_check(case):
    """one BibtexFormat object (value_column='auto') handed to write_string / write_file for two different libraries: each
    text is what a fresh format object with the same settings gives, and the caller's object is not changed"""
    import io
    import bibtexparser
    from bibtexparser.writer import BibtexFormat
    a = bibtexparser.parse_string(DOCS[case["doc"]])
    b = bibtexparser.parse_string("@a{kk, averyveryverylongfieldkey = {v}, x = {y}}\n" + DOCS[case["doc"]])

    def fresh():
        f = BibtexFormat()
        f.value_column = "auto"
        f.indent = " "
        return f

    shared = fresh()
    for lib in (b, a, b):
        for pm in (None, [_probe(["tag", "7"])]):
            kw = {"prepend_middleware": pm} if pm else {}
            kw2 = {"prepend_middleware": [_probe(["tag", "7"])]} if pm else {}
            got = bibtexparser.write_string(lib, bibtex_format=shared, **kw)
            want = bibtexparser.write_string(lib, bibtex_format=fresh(), **kw2)
            if got != want:
                return "write_string with a format object used before gives %r, with a fresh equal format %r" % (got[:120], want[:120])
            buf = io.StringIO()
            bibtexparser.write_file(buf, lib, bibtex_format=shared)
            if pm is None and buf.getvalue() != want:
                return "write_file with a format object used before writes %r, a fresh equal format gives %r" % (buf.getvalue()[:120], want[:120])
            if shared.value_column != "auto":
                return "the caller's format object was changed: value_column is now %r" % (shared.value_column,)
    return None


def _wrappers_kept(text, ps):
    """a block middleware hands failed blocks - duplicate-key wrappers among them - on as they are: the library built from
    its results holds every such wrapper that went in (the same object), whatever happened to the block it duplicates"""
    import bibtexparser
    from bibtexparser import model as M
    lib = bibtexparser.parse_string(text, parse_stack=[])
    for spec in ps:
        before = [b for b in lib.blocks if isinstance(b, M.DuplicateBlockKeyBlock)]
        try:
            lib = _probe(spec).transform(lib)
        except (TypeError, ValueError):
            return None
        for d in before:
            if not any(b is d for b in lib.blocks):
                return ("a duplicate-key block that the middleware %r handed on is not in the resulting library any more: its blocks "
                        "are %r" % (spec, [type(b).__name__ for b in lib.blocks]))
    return None


def _libmw_check(case):
    """every requested library-level middleware runs exactly once, in the requested order, on every document"""
    import bibtexparser
    from bibtexparser import model as M
    from bibtexparser.library import Library
    from bibtexparser.middlewares.middleware import LibraryMiddleware
    calls = []

    class Mark(LibraryMiddleware):
        def __init__(self, tag):
            super().__init__(allow_inplace_modification=True)
            self.tag = tag

        def transform(self, library):
            calls.append(self.tag)
            return Library(list(library.blocks) + [M.ExplicitComment("ran-" + self.tag)])

    text, tags, pos = DOCS[case["doc"]], case["tags"], case["pos"]
    ms = [Mark(t) for t in tags]
    if pos in ("ps", "am"):
        lib = bibtexparser.parse_string(text, **{"parse_stack" if pos == "ps" else "append_middleware": ms})
        marks = [b.comment for b in lib.blocks if isinstance(b, M.ExplicitComment) and b.comment.startswith("ran-")]
        if calls != tags or marks != ["ran-" + t for t in tags]:
            return "parse_string(%s=%r) on document %r: middlewares run %r, marker blocks %r" % (pos, tags, text[:30], calls, marks)
        if len(lib.blocks) != len(bibtexparser.parse_string(text, parse_stack=[] if pos == "ps" else None).blocks) + len(tags):
            return "parse_string(%s=...) on document %r: wrong number of blocks" % (pos, text[:30])
    else:
        out = bibtexparser.write_string(bibtexparser.parse_string(text), **{"unparse_stack" if pos == "us" else "prepend_middleware": ms})
        if calls != tags or [out.find("@comment{ran-%s}" % t) >= 0 for t in tags] != [True] * len(tags):
            return "write_string(%s=%r) on document %r: middlewares run %r, text %r" % (pos, tags, text[:30], calls, out[-80:])
        order = [out.find("@comment{ran-%s}" % t) for t in tags]
        if order != sorted(order):
            return "write_string(%s=%r): markers out of order in %r" % (pos, tags, out[-80:])
    return None


def impl(case):
    import bibtexparser
    from bibtexparser import writer
    if case["op"] == "libmw":
        f = _libmw_check(case)
        if f:
            raise AssertionError(f)
        return "(ok libmw)"
    if case["op"] == "shipped":
        f = _shipped_check(case)
        if f:
            raise AssertionError(f)
        return "(ok shipped)"
    if case["op"] == "defmut":
        f = _defmut_check(case)
        if f:
            raise AssertionError(f)
        return "(ok defmut)"
    if case["op"] == "fmtreuse":
        f = _fmtreuse_check(case)
        if f:
            raise AssertionError(f)
        return "(ok fmtreuse)"
    text = DOCS[case["doc"]]
    if case["op"] == "parse":
        ct = case.get("ct", "list")
        ps, am = _mk(case["ps"], ct), _mk(case["am"], ct)
        lib = bibtexparser.parse_string(text, parse_stack=ps, append_middleware=am)
        if ct == "list":
            # the caller's lists are not changed, and handing the same list objects over again gives the same result
            # (no state may leak from one call into the next)
            for given, want in ((ps, case["ps"]), (am, case["am"])):
                if given is not None and len(given) != len(want):
                    return "(stack-argument-mutated)"
            again = bibtexparser.parse_string(text, parse_stack=ps, append_middleware=am)
            if enc(B.enc_blocks(again.blocks)) != enc(B.enc_blocks(lib.blocks)):
                return "(second-call-differs)"
        return C.ok(B.enc_blocks(lib.blocks))
    if case["op"] == "write":
        lib = bibtexparser.parse_string(text)
        # capture the library handed to the writer: unparse_stack given -> exactly that stack;
        # prepend given -> prepend + the default AddEnclosing stack (we observe before the default by
        # appending nothing: compare texts instead)
        ct = case.get("ct", "list")
        us, pm = _mk(case["us"], ct), _mk(case["pm"], ct)
        out = bibtexparser.write_string(lib, unparse_stack=us, prepend_middleware=pm)
        if ct == "list":
            for given, want in ((us, case["us"]), (pm, case["pm"])):
                if given is not None and len(given) != len(want):
                    return "(stack-argument-mutated)"
            if bibtexparser.write_string(bibtexparser.parse_string(text), unparse_stack=us, prepend_middleware=pm) != out:
                return "(second-call-differs)"
        # what the model predicts is the library after the requested middlewares; recompute it on the real code
        lib2 = bibtexparser.parse_string(text)
        for m in (_mk(case["pm"]) or []) if case["us"] is None else (_mk(case["us"]) or []):
            lib2 = m.transform(lib2)
        if case["us"] is None:
            want = bibtexparser.write_string(lib2)              # default write stack + writer
        else:
            want = writer.write(lib2)                           # exactly the given stack, then the writer
        if out != want:
            return "(write-text-differs)"
        return C.ok(B.enc_blocks(lib2.blocks))
    return _file_case(case)


def _file_case(case):
    import io
    import os
    import tempfile
    import bibtexparser
    text = DOCS[case["doc"]] + "\n@a{u, t = {éü}}\n" + ("@a{z, t = {中}}" if case["enc"] in ("gbk", "utf-8", "utf-16") else "")
    if case.get("bom"):
        # the decoded content starts with U+FEFF (a UTF-8 file written with a byte-order mark, read as "utf-8"):
        # parse_file must see exactly what open(path, encoding=...).read() returns
        text = "\ufeff" + text
    encn = case["enc"]
    d = tempfile.mkdtemp(prefix="c20_")
    try:
        p = os.path.join(d, "in.bib")
        with open(p, "w", encoding=encn) as f:
            f.write(text)
        with open(p, encoding=encn) as f:
            decoded = f.read()
        a = bibtexparser.parse_file(p, encoding=encn)
        b = bibtexparser.parse_string(decoded)
        if enc(B.enc_blocks(a.blocks)) != enc(B.enc_blocks(b.blocks)):
            raise AssertionError("parse_file differs from parse_string of the decoded content")
        tagged = [_probe(["tag", "T"])]
        a2 = bibtexparser.parse_file(p, append_middleware=tagged, encoding=encn)
        b2 = bibtexparser.parse_string(decoded, append_middleware=[_probe(["tag", "T"])])
        if enc(B.enc_blocks(a2.blocks)) != enc(B.enc_blocks(b2.blocks)):
            raise AssertionError("parse_file drops append_middleware")
        a3 = bibtexparser.parse_file(p, parse_stack=[_probe(["tag", "S"])], encoding=encn)
        b3 = bibtexparser.parse_string(decoded, parse_stack=[_probe(["tag", "S"])])
        if enc(B.enc_blocks(a3.blocks)) != enc(B.enc_blocks(b3.blocks)):
            raise AssertionError("parse_file drops parse_stack")
        for kw in ({}, {"append_middleware": [["tag", "W"]]}, {"parse_stack": [["tag", "V"]]}):
            lib = bibtexparser.parse_string(decoded)
            kwr = {k: [_probe(s) for s in v] for k, v in kw.items()}
            want = bibtexparser.write_string(bibtexparser.parse_string(decoded),
                                             unparse_stack=[_probe(s) for s in kw["parse_stack"]] if "parse_stack" in kw else None,
                                             prepend_middleware=[_probe(s) for s in kw["append_middleware"]] if "append_middleware" in kw else None)
            if case["target"] == "path":
                q = os.path.join(d, "out.bib")
                bibtexparser.write_file(q, lib, **kwr)
                with open(q) as f:
                    got = f.read()
            else:
                buf = io.StringIO()
                bibtexparser.write_file(buf, lib, **kwr)
                got = buf.getvalue()
            if got != want:
                raise AssertionError("write_file wrote something else than write_string returns (%r)" % (kw,))
    finally:
        for fn in os.listdir(d):
            os.unlink(os.path.join(d, fn))
        os.rmdir(d)
    return "(ok file)"


def oracle(case):
    """the statement on the real code, computed independently: manual fold of the stack"""
    import bibtexparser
    from bibtexparser.middlewares.parsestack import default_parse_stack
    if case["op"] == "file":
        try:
            _file_case(case)
        except AssertionError as e:
            return str(e)
        return None
    if case["op"] == "libmw":
        return _libmw_check(case)
    if case["op"] == "shipped":
        return _shipped_check(case)
    if case["op"] == "defmut":
        return _defmut_check(case)
    if case["op"] == "fmtreuse":
        return _fmtreuse_check(case)
    text = DOCS[case["doc"]]
    if case["op"] == "parse":
        ps, am = case["ps"], case["am"]
        if ps is not None and am is None:
            f = _wrappers_kept(text, ps)
            if f:
                return f
        try:
            ct = case.get("ct", "list")
            got = bibtexparser.parse_string(text, parse_stack=_mk(ps, ct), append_middleware=_mk(am, ct))
            got = ("ok", enc(B.enc_blocks(got.blocks)))
        except (ValueError, TypeError) as e:
            got = ("raise", type(e).__name__)
        if ps is not None and am is not None:
            want = ("raise", "ValueError")
        else:
            from bibtexparser.splitter import Splitter
            lib = Splitter(text).split()
            try:
                if ps is None:
                    for m in default_parse_stack():
                        lib = m.transform(lib)
                for spec in (ps if ps is not None else (am or [])):
                    lib = ref_apply(spec, lib)
                want = ("ok", enc(B.enc_blocks(lib.blocks)))
            except TypeError:
                want = ("raise", "TypeError")
        if got != want:
            return "parse_string gave %s, the requested stack applied in order gives %s" % (str(got)[:150], str(want)[:150])
        if not (ps is not None and am is not None):
            try:
                r = impl(case)
            except (ValueError, TypeError):
                r = None
            if r == "(stack-argument-mutated)":
                return "parse_string changed the list it was given as parse_stack / append_middleware"
            if r == "(second-call-differs)":
                return "parse_string with the same stack arguments gives a different library the second time"
        return None
    if case["us"] is not None and case["pm"] is not None:
        try:
            impl(case)
        except ValueError:
            return None
        return "write_string accepted both unparse_stack and prepend_middleware"
    try:
        r = impl(case)
    except TypeError:
        return None     # a probe returned a non-block: TypeError is the specified outcome
    if r == "(write-text-differs)":
        return "write_string does not equal prepend/unparse stack in order followed by the writer"
    if r == "(stack-argument-mutated)":
        return "write_string changed the list it was given as unparse_stack / prepend_middleware"
    if r == "(second-call-differs)":
        return "write_string with the same stack arguments gives a different text the second time"
    return None


def known_match(finding, case, failure):
    return False


def describe(cases, outs):
    ops = collections.Counter(c["op"] for c in cases)
    res = collections.Counter("raise" if o.startswith("(raise") else "ok" for o in outs)
    lens = collections.Counter()
    for c in cases:
        st = c.get("ps") or c.get("am") or c.get("us") or c.get("pm") or []
        lens[len(st)] += 1
    return {"operations": dict(ops), "outcomes": dict(res), "stack_length": dict(lens),
            "raise_kinds": dict(collections.Counter(o for o in outs if o.startswith("(raise")))}


def nontrivial(case, out):
    return bool(case.get("ps") or case.get("am") or case.get("us") or case.get("pm")) or case["op"] in ("file", "libmw", "shipped", "defmut", "fmtreuse")


PY_ONLY_MAY_RAISE = False
