"""C18 - LaTeX en/decoding touches only text values, round-trips, and contains errors."""
import collections
import re

from .. import common as C
from .. import blocks as B
from ..wire import Sym, enc, request as rq

ID = "C18"
LEAN_MODULE = "BibVerif.Props.C18"
LEVEL_TEXT = ("Lean theorems about the wrapper (_PyStringTransformerMiddleware) for EVERY converter: types_preserved, "
              "scope_fields / scope_entry / scope_string / other_blocks_untouched (only str field values, NameParts strings and "
              "@string values change; keys, order, lines, type, raw, metadata, other blocks do not), error_contained (total; a "
              "non-empty message => MiddlewareErrorBlock retaining the entry), and roundtrip_entry / roundtrip_string CONDITIONAL "
              "on `dec (enc t) = t` for the texts that occur. That condition is about the third-party pylatexenc + the rule "
              "lists of latex_encoding.py: it is an assumption, sampled by this run over the property's alphabet - the one "
              "clause this technique cannot prove.")
LEVEL_NOTE = ("Trusted: Lean kernel + 3 standard axioms; Latex.lean (wrapper) + AddAll.lean; the correspondence run, which gives "
              "the model the real converter's answers as a table (so the wrapper logic is compared, the converter is a "
              "parameter); pylatexenc is third party. Round trip: assumption sampled, not proved.")
TECHNIQUE = "Lean 4 proof for the wrapper parametric in the converter; conditional round trip; differential correspondence with the real converter as table"
RULE = ("error containment also for blocks built in code (no start line, no raw); libraries whose str values / NameParts strings / @string values are built from segments: plain text over letters, digits, "
        "accented Latin letters, punctuation and TeX specials (& % # _ { } ~ \\ and a lone $ only when no math span is present), "
        "math spans $...$, URLs; without the ligature sequences, '^' and '\"'; x {encode, decode, encode-then-decode} x "
        "constructor options (keep_math, enclose_urls, keep_braced_groups, keep_math_mode, custom raising encoder/decoder) x "
        "inplace/copy. Non-trivial = some value changed.")
EXHAUSTIVE = {"quick": False, "thorough": False}
ASSUMPTIONS = ["dec(enc(t)) = t for texts over the property's alphabet: assumption about pylatexenc, sampled in this run"]
PARTIAL = ["round trip: conditional on the third-party converter (assumption sampled, failures reported as violations unless "
           "explained by known finding K4)"]

PLAIN = list("abcxyzXYZ0189 .,;:!?()-+/'*@=<>|[]") + list("éüñçøßÅêŁ") + ["&", "%", "#", "_", "{", "}", "~", "\\", " ", " "]
MATH = ["$x^2$", "$a_b$", "$\\alpha + 1$", "$f(x) < 3$", "$p = 5\\$ + t$", "$a\\$b$"]   # the last two: an escaped dollar inside the span
URLS = ["https://a.b/c", "www.x.org/y?z=1", "http://u.v/w#f_g", "https://example.com/p_q"]
URL_BAD = ["https://a.b/c&d", "http://x.y/a%20b", "www.a.b/~user", "https://a.b/{c}", "http://a.b/c\\d", "https://a.b/c$d"]
_URL_RE = re.compile(r"(https?://\S*\.\S*)|(www.\S*\.\S*)")
_K4 = set("&%~$\\{}")


def gen_text(rng, allow_bad_url=False):
    segs = []
    has_math = False
    for _ in range(rng.randint(1, 4)):
        r = rng.random()
        if r < 0.6:
            segs.append("".join(rng.choice(PLAIN) for _ in range(rng.randint(1, 6))))
        elif r < 0.75:
            # usually set off by blanks, sometimes glued to the neighbouring word ("the $n$th item", "x$_1$")
            glue = rng.random() < 0.3
            # (glued on the right only: a backslash in front of the opening dollar would escape it)
            segs.append(" " + rng.choice(MATH) + (rng.choice(["th", "s", "x9", "_a"]) if glue else " "))
            has_math = True
        elif r < 0.95 or not allow_bad_url:
            segs.append(" " + rng.choice(URLS) + " ")
        else:
            segs.append(" " + rng.choice(URL_BAD) + " ")
    if not has_math and rng.random() < 0.15:
        segs.insert(rng.randrange(len(segs) + 1), "$")
    t = "".join(segs)
    changed = True
    while changed:                      # until no ligature sequence is left (three quotes need a second pass)
        changed = False
        for lig in ("--", "``", "''", "!`", "?`"):
            if lig in t:
                t = t.replace(lig, lig[0] + " " + lig[1])
                changed = True
    return t


class _Raising:
    """custom encoder/decoder that raises on marked input (error containment)"""

    def unicode_to_latex(self, s):
        if "BOOM" in s:
            raise RuntimeError("cannot encode %r" % s)
        if "SILENT" in s:
            raise RuntimeError("")
        return s.upper()

    def latex_to_text(self, s):
        if "BOOM" in s:
            raise [ValueError, RuntimeError, KeyError, RecursionError][len(s) % 4]("cannot decode")
        return s.lower()


OPTS = [
    ("enc", {}), ("enc", {"keep_math": False}), ("enc", {"enclose_urls": False}), ("enc", {"keep_math": False, "enclose_urls": False}),
    ("dec", {}), ("dec", {"keep_braced_groups": True}), ("dec", {"keep_math_mode": False}),
    ("enc", {"encoder": "raising"}), ("dec", {"decoder": "raising"}),
]


def _mw(kind, kw, inplace):
    import bibtexparser.middlewares as m
    kw = dict(kw)
    if kw.get("encoder") == "raising":
        kw["encoder"] = _Raising()
    if kw.get("decoder") == "raising":
        kw["decoder"] = _Raising()
    cls = m.LatexEncodingMiddleware if kind == "enc" else m.LatexDecodingMiddleware
    return cls(allow_inplace_modification=inplace, **kw)


def _library(case):
    from bibtexparser import model as M
    from bibtexparser.library import Library
    from bibtexparser.middlewares.names import NameParts
    from bibtexparser.exceptions import BlockAbortedException
    t = case["texts"]
    g = lambda i: t[i % len(t)]
    e1 = M.Entry("article", "k1", [M.Field("title", g(0), 1), M.Field("year", 2000, 2),
                                   M.Field("author", NameParts(first=[g(1)], von=[], last=[g(2), g(3)], jr=[g(4)]), 3),
                                   M.Field("editor", [NameParts(first=[g(0)], last=[g(1)])], 4),
                                   M.Field("note", [g(2), g(3)], 5)], 0, "@article{raw1}")
    rot = case.get("rot", 0) % 5
    e1.fields = e1.fields[rot:] + e1.fields[:rot]      # which field comes first matters for the error bookkeeping
    e1.parser_metadata["x"] = "keep"
    e2 = M.Entry("book", "k2", [M.Field(g(5) if case.get("keytext") else "f", g(5), 7)], 6, "raw2")
    e3 = M.Entry("misc", "k1", [M.Field("a", g(6), 9)], 8, "raw3")        # duplicate key -> wrapped by the library
    e4 = M.Entry("misc", "k4", [M.Field("author", NameParts(first=[g(3)], von=[g(1)], last=[g(2)], jr=[]), 17)], 16, "raw4")
    # the same field key twice (a duplicate-field entry handed on by the user): an error in either must be reported
    e5 = M.Entry("misc", "k5", [M.Field("note", g(1), 19), M.Field("t", g(0), 20), M.Field("note", g(2), 21)], 18, "raw5")
    s1 = M.String("s", g(7), 10, "@string{raw}")
    s2 = M.String("n", 5, 11, "@string{n}")
    blocks = [e1, e4, e5, M.Preamble(g(0), 12, "p"), s1, M.ExplicitComment(g(1), 13, "c"), e2, M.ImplicitComment(g(2), 14, g(2)), e3, s2,
              M.ParsingFailedBlock(error=BlockAbortedException(abort_reason="Unexpectedly reached end of file."), start_line=15, raw=g(3))]
    if case.get("noline"):
        # blocks built in code: no start line, no raw text
        blocks = [M.Entry(b.entry_type, b.key, b.fields) if isinstance(b, M.Entry) else M.String(b.key, b.value) if isinstance(b, M.String)
                  else b for b in blocks]
    return Library(blocks)


def corpus():
    return [
        {"texts": ["plain", "é & co", "$x^2$ and 50%", "see https://a.b/c", "a_b #1", "{braces}", "~tilde~", "back\\slash"], "opt": 0, "inplace": True, "then": 4},
        {"texts": ["BOOM here", "fine", "SILENT"], "opt": 7, "inplace": False, "then": None},
        {"texts": ["BOOM"], "opt": 8, "inplace": True, "then": None},
        {"texts": ["fine", "BOOM", "fine", "fine"], "opt": 7, "inplace": True, "then": None, "rot": 2},   # first failure inside a NameParts
        {"texts": ["fine", "fine", "fine", "BOOM"], "opt": 8, "inplace": False, "then": None, "rot": 2},
        {"texts": ["fine", "BOOM", "fine"], "opt": 7, "inplace": True, "then": None},     # first of two fields with one key fails
        {"texts": ["the $n$th item costs 5% of $m$ units", "a$x$b & c$y$d"], "opt": 0, "inplace": True, "then": 4},   # math glued to words
        {"texts": ["fine", "fine", "BOOM"], "opt": 8, "inplace": True, "then": None},     # ... the second one fails
        {"texts": ["see https://a.b/c&d now"], "opt": 0, "inplace": True, "then": 4},           # K4
        {"texts": ["a"], "opt": 0, "inplace": True, "then": 4, "keytext": True},
        {"texts": ["{" * 400 + "x" + "}" * 400, "fine"], "opt": 4, "inplace": True, "then": None},   # converter hits the recursion limit
        {"texts": ["{" * 400 + "x" + "}" * 400, "fine"], "opt": 5, "inplace": False, "then": None},
        {"texts": ["M\u00fcller & S\u00f6hne {GmbH} 50% ~x\\y"], "opt": 2, "inplace": True, "then": 4},
    ] + [
        # a library that already holds error blocks (first stage: a failing custom coder) goes through a second middleware
        {"texts": t, "opt": o, "inplace": True, "then": th, "rot": r}
        for t, o, th in ((["BOOM", "a \\& b {\\'e}", "50\\% off"], 7, 4), (["x BOOM", "a & b", "50% off \u00e9"], 8, 0), (["fine", "BOOM \\& x", "p \\_ q"], 7, 5))
        for r in (0, 1, 3)
    ] + [
        # entries and @strings built in code (no start line, no raw text): errors are contained all the same
        {"texts": t, "opt": o, "inplace": ip, "then": None, "rot": r, "noline": True}
        for t in (["fine", "fine", "fine", "BOOM"], ["BOOM"], ["fine", "BOOM", "fine"], ["fine", "x SILENT"], ["fine"])
        for o in (7, 8, 0, 4) for ip in (True, False) for r in (0, 2)
    ]


def gen(tier, rng):
    n = 1500 if tier == "quick" else 20000
    for i in range(n):
        opt = rng.randrange(len(OPTS))
        raising = "encoder" in OPTS[opt][1] or "decoder" in OPTS[opt][1]
        texts = [gen_text(rng, allow_bad_url=(i % 10 == 0)) for _ in range(rng.randint(1, 8))]
        if raising:
            texts = [t + rng.choice(["", "", " BOOM", " SILENT"]) for t in texts]
        then = None
        if OPTS[opt][0] == "enc" and not raising and rng.random() < 0.6:
            then = rng.choice([4, 4, 5, 6])
        yield {"texts": texts, "opt": opt, "inplace": rng.random() < 0.5, "then": then, "keytext": rng.random() < 0.2,
               "rot": rng.randrange(5)}


def _strings_of(lib):
    from bibtexparser import model as M
    from bibtexparser.middlewares.names import NameParts
    out = []
    for b in lib.blocks:
        if isinstance(b, M.Entry):
            for f in b.fields:
                if isinstance(f.value, str):
                    out.append(f.value)
                elif isinstance(f.value, NameParts):
                    out += f.value.first + f.value.last + f.value.von + f.value.jr
        elif isinstance(b, M.String) and isinstance(b.value, str):
            out.append(b.value)
    return out


def _stages(case):
    st = [OPTS[case["opt"]]]
    if case.get("then") is not None:
        st.append(OPTS[case["then"]])
    return st


def request(case):
    if case.get("noline"):
        return None      # python-only: the statement is evaluated on the real code (impl raises when it fails)
    # the model is asked about the LAST stage; earlier stages are run on the real code
    lib = _library(case)
    st = _stages(case)
    for kind, kw in st[:-1]:
        lib = _mw(kind, kw, True).transform(lib)
    kind, kw = st[-1]
    mw = _mw(kind, kw, True)
    table = []
    for s in dict.fromkeys(_strings_of(lib)):
        o, e = mw._transform_python_value_string(s)
        table.append([s, o, e])
    return rq("latex", B.enc_blocks(lib.blocks), table)


def impl(case):
    if case.get("noline"):
        f = oracle(case)
        if f:
            raise AssertionError(f)
        return "(ok noline)"
    lib = _library(case)
    st = _stages(case)
    for i, (kind, kw) in enumerate(st):
        lib = _mw(kind, kw, case["inplace"] if i == len(st) - 1 else True).transform(lib)
    return C.ok(B.enc_blocks(lib.blocks, prev=False))


def url_k4(text):
    for m in _URL_RE.finditer(text):
        if _K4 & set(m.group(0)):
            return True
    return False


def oracle(case):
    from bibtexparser import model as M
    from bibtexparser.middlewares.names import NameParts
    lib0 = _library(case)
    before = B.enc_blocks(lib0.blocks)
    # nothing may leak between instances or directions: the same texts first go through a decoder and an encoder of their
    # own (results discarded), in this process, before the stages under test run
    for kind in ("dec", "enc"):
        try:
            _mw(kind, {}, True).transform(_library(case))
        except Exception:  # noqa
            pass
    lib = _library(case)
    st = _stages(case)
    try:
        for kind, kw in st:
            lib = _mw(kind, kw, True).transform(lib)
    except Exception as e:  # noqa
        return "the middleware raised %s instead of containing the error" % type(e).__name__
    after = lib.blocks
    src = lib0.blocks
    if len(after) != len(src):
        return "block count changed"
    if len(st) == 2:
        # blocks that were error blocks before the last middleware ran are "other blocks": they - and the entry each holds - come
        # out as they went in
        mid = _mw(st[0][0], st[0][1], True).transform(_library(case))
        snap = [enc(B.enc_block(b, prev=False)) if isinstance(b, M.MiddlewareErrorBlock) else None for b in mid.blocks]
        fin = _mw(st[1][0], st[1][1], True).transform(mid)
        for i, (s0, b) in enumerate(zip(snap, fin.blocks)):
            if s0 is not None and enc(B.enc_block(b, prev=False)) != s0:
                return "block %d was an error block before the last middleware ran; it (or the entry it holds) was changed by it" % i
    if len(st) == 1:
        # containment, computed independently: a block is an error block iff one of its texts fails to convert
        mw = _mw(st[0][0], st[0][1], True)
        for a, b in zip(src, after):
            if isinstance(a, (M.Entry, M.String)):
                class _L:
                    blocks = [a]
                errs = [mw._transform_python_value_string(t)[1] for t in _strings_of(_L)]
                want = any(e != "" for e in errs)
                if want != isinstance(b, M.MiddlewareErrorBlock):
                    return "conversion %s but the block is %s" % ("failed" if want else "succeeded", type(b).__name__)
                if want and b.ignore_error_block is None:
                    return "error block does not retain the original block"
    for a, b in zip(src, after):
        inner = b.ignore_error_block if isinstance(b, M.MiddlewareErrorBlock) else b
        if isinstance(a, M.Entry) and isinstance(inner, M.Entry):
            if (a.entry_type, a.key, a.start_line, a.raw) != (inner.entry_type, inner.key, inner.start_line, inner.raw):
                return "entry attributes changed"
            if [f.key for f in a.fields] != [f.key for f in inner.fields] or [f.start_line for f in a.fields] != [f.start_line for f in inner.fields]:
                return "field keys / lines changed"
            for f, g in zip(a.fields, inner.fields):
                if type(f.value) is not type(g.value):
                    return "field %r changed type %s -> %s" % (f.key, type(f.value).__name__, type(g.value).__name__)
                if isinstance(f.value, NameParts):
                    if any(not isinstance(x, str) for x in g.value.first + g.value.last + g.value.von + g.value.jr):
                        return "NameParts holds non-strings"
                elif not isinstance(f.value, str) and enc(B.enc_val(f.value)) != enc(B.enc_val(g.value)):
                    return "non-text value of %r changed" % f.key
        elif isinstance(a, M.String) and isinstance(inner, M.String):
            if (a.key, a.start_line, a.raw) != (inner.key, inner.start_line, inner.raw) or type(a.value) is not type(inner.value):
                return "@string attributes or value type changed: %r" % (inner.value,)
        else:
            if enc(B.enc_block(a, prev=False)) != enc(B.enc_block(b, prev=False)):
                return "a block outside the scope changed: %s" % type(a).__name__
    # round trip
    if len(st) == 2 and st[0][0] == "enc" and "encoder" not in st[0][1] and st[1] == ("dec", {}):
        for t, u in zip(_strings_of(lib0), _strings_of_inner(after)):
            if t != u and not (st[0][1].get("keep_math") is False and "$" in t):
                return "round trip: %r -> %r" % (t, u)
    return None


def extra_obligations(tier):
    """The assumption of roundtrip_entry/roundtrip_string - dec(enc(t)) = t without error for texts over
    the property's alphabet - is about the third-party converter: sampled here on EVERY run (seeded), for
    the default options and the keep_math / enclose_urls variants; failures explained by K4 are skipped."""
    import random
    rng = random.Random(20260930)
    n = 600 if tier == "quick" else 6000
    # instances must be independent: build (and use) every other option set first, in the same process,
    # so that state leaking between instances (a shared cache, a mutated module-level rule list) shows up here
    for kind, kw in OPTS:
        if "encoder" not in kw and "decoder" not in kw and kw:
            _mw(kind, kw, True)._transform_python_value_string("warm $a_b$ {up} https://a.b/c")
    dec = _mw("dec", {}, True)
    res = []
    for kw in ({}, {"enclose_urls": False}, {"keep_math": False}, {"keep_math": False, "enclose_urls": False}):
        encm = _mw("enc", kw, True)
        bad = None
        for i in range(n):
            t = gen_text(rng)
            if kw.get("keep_math") is False and "$" in t:
                continue
            a, ea = encm._transform_python_value_string(t)
            b, eb = dec._transform_python_value_string(a)
            if (b != t or ea or eb) and not url_k4(t):
                bad = "%r -> %r -> %r %s %s" % (t, a, b, ea, eb)
                break
        res.append(("round-trip assumption sampled, encoder options %r" % (kw,), bad is None, bad or "%d texts" % n))
    return res


def _strings_of_inner(blocks):
    from bibtexparser import model as M

    class L:
        pass
    x = L()
    x.blocks = [b.ignore_error_block if isinstance(b, M.MiddlewareErrorBlock) else b for b in blocks]
    return _strings_of(x)


def known_match(finding, case, failure):
    if finding.get("id") != "K4" or not failure.startswith("round trip: "):
        return False
    m = re.match(r"round trip: ('.*'|\".*\") -> ", failure, re.S)
    if not m:
        return False
    import ast
    try:
        t = ast.literal_eval(m.group(1))
    except Exception:
        return False
    return url_k4(t)


def describe(cases, outs):
    per = collections.Counter("%s%s" % (OPTS[c["opt"]][0], sorted(OPTS[c["opt"]][1])) for c in cases)
    return {"runs_per_option_set": dict(per), "with_second_stage": sum(1 for c in cases if c.get("then") is not None),
            "error_blocks": sum(o.count("(mwerror ") for o in outs),
            "texts_with_url": sum(1 for c in cases for t in c["texts"] if _URL_RE.search(t)),
            "texts_with_math": sum(1 for c in cases for t in c["texts"] if t.count("$") >= 2)}


def nontrivial(case, out):
    return True
