"""Helpers shared by the C06 / C10 / C11 property modules: JSON-able block descriptions -> real
bibtexparser objects, and their wire rendering.

A block description is a list:
    ["entry", type, key, [[fkey, value], ...], raw]      value: str | int | {"names": [...]} | None
    ["string", key, value, raw]
    ["preamble", value, raw]   ["expl", comment, raw]   ["impl", comment, raw]
    ["failed", raw]
    ["dupfield", <entry description>]
    ["mwerror", <live description>]
    ["other"]                                             an object that is not a Block
Optional trailing dict {"md": {...}} on live blocks sets parser_metadata.
Duplicate-key blocks are not described: they arise when the descriptions are added to a Library.
"""
from .. import blocks as B
from ..wire import Sym


class NotABlock:
    def __repr__(self):
        return "<not a block>"


def build_val(v):
    if isinstance(v, dict):
        return list(v["names"])
    if v is None:
        return NotABlock()
    return v


def _md(desc):
    return desc[-1]["md"] if isinstance(desc[-1], dict) else None


def _with_md(b, desc):
    md = _md(desc)
    if md:
        for k, v in md.items():
            b.parser_metadata[k] = dict(v) if isinstance(v, dict) else (list(v) if isinstance(v, list) else v)
    return b


def build_live(desc, line, same_line=False):
    from bibtexparser import model as M
    t = desc[0]
    if t == "entry":
        # same_line: all fields of the entry share one start_line, so that fields with equal key and value compare equal
        fields = [M.Field(key=k, value=build_val(v), start_line=line + 1 + (0 if same_line else i)) for i, (k, v) in enumerate(desc[3])]
        return _with_md(M.Entry(entry_type=desc[1], key=desc[2], fields=fields, start_line=line, raw=desc[4]), desc)
    if t == "string":
        return _with_md(M.String(key=desc[1], value=build_val(desc[2]), start_line=line, raw=desc[3]), desc)
    if t == "preamble":
        return _with_md(M.Preamble(value=desc[1], start_line=line, raw=desc[2]), desc)
    if t == "expl":
        return _with_md(M.ExplicitComment(comment=desc[1], start_line=line, raw=desc[2]), desc)
    if t == "impl":
        return _with_md(M.ImplicitComment(comment=desc[1], start_line=line, raw=desc[2]), desc)
    raise ValueError("bad live description %r" % (desc,))


def build_block(desc, line=0, same_line=False):
    from bibtexparser import model as M
    from bibtexparser.exceptions import BlockAbortedException
    from bibtexparser.middlewares.names import InvalidNameError
    t = desc[0]
    if t == "failed":
        return M.ParsingFailedBlock(error=BlockAbortedException(abort_reason="Unexpectedly reached end of file"),
                                    start_line=line, raw=desc[1])
    if t == "dupfield":
        e = build_live(desc[1], line, same_line)
        keys = [f.key for f in e.fields]
        return M.DuplicateFieldKeyBlock(duplicate_keys={k for k in keys if keys.count(k) > 1}, entry=e)
    if t == "mwerror":
        return M.MiddlewareErrorBlock(block=build_live(desc[1], line, same_line), error=InvalidNameError("?", "?"))
    if t == "other":
        return NotABlock()
    return build_live(desc, line, same_line)


def build_blocks(descs, same_line=False):
    """same_line: every block gets start_line 0, so that equal descriptions give blocks that compare equal
    (`Block.__eq__` is structural) - a library may hold the same comment or preamble several times"""
    return [build_block(d, 0 if same_line else 3 * i, same_line) for i, d in enumerate(descs)]


def build_library(descs, same_line=False):
    from bibtexparser.library import Library
    return Library(build_blocks(descs, same_line))


def enc_item(b):
    from bibtexparser import model as M
    if not isinstance(b, M.Block):
        return Sym("other")
    return B.enc_block(b)


def enc_items(bs):
    return [enc_item(b) for b in bs]


def all_text(x):
    """every str occurring in a nested JSON-like value (for the Unicode table of a request)"""
    out = []

    def go(y):
        if isinstance(y, str):
            out.append(y)
        elif isinstance(y, dict):
            for k, v in y.items():
                go(k)
                go(v)
        elif isinstance(y, (list, tuple)):
            for z in y:
                go(z)
    go(x)
    return "".join(out)


def bucket(n, edges=(0, 1, 2, 4, 8, 16, 64)):
    for e in edges:
        if n <= e:
            return "<=%d" % e
    return ">%d" % edges[-1]
