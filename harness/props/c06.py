"""C06 - the written text obeys the BibtexFormat contract and carries every block's content."""
import collections
import itertools

from ..wire import Sym, enc, request as wire_request, lean_representable
from . import wcommon as W

ID = "C06"
LEAN_MODULE = "BibVerif.Props.C06"
LEVEL_TEXT = ("Lean theorems about the writer model, for EVERY library and EVERY BibtexFormat: the text is the block texts "
              "joined by exactly the separator with none after the last (write_eq_intercalate); an entry is header, one line "
              "per field = indent+key+padding+' = '+value+comma?+newline, footer (entry_shape); the value starts at column "
              "len(indent)+value_column iff the key fits (value_column_hit/_miss); under 'auto' every value of every entry "
              "starts in the column len(indent)+maxKey+3 and some field has no padding (auto_aligned/auto_minimal); the comma "
              "rule; failed blocks = configured comment with {n}=len(raw.splitlines()), newline, raw verbatim, newline "
              "(failed_verbatim); the format object is unchanged (format_unchanged); string-valued libraries never raise "
              "(write_total). The model is tied to writer.py by differential execution on every run.")
LEVEL_NOTE = ("Trusted: Lean kernel + 3 standard axioms; the hand-written model Writer.lean (pieces joined last, loop with "
              "'i < len-1' separator test, deep copy of the format for 'auto'); the correspondence run. str.format is modelled "
              "for templates made of literal text, {{, }}, {n}; other replacement fields are outside the model and are "
              "not generated. Aliasing of the format object (deepcopy really is a copy) is CPython behaviour; its "
              "attributes are compared before/after on every case.")
TECHNIQUE = "Lean 4 proof: algebraic characterisation of a fold-structured writer model; differential correspondence model vs writer.py"
RULE = ("corpus; entries holding equal fields (same key, value and line); one format object used for two writes with "
        "different value_column settings; library objects with a history (views read, an entry removed); write_string against the writer on the library with every value enclosed; one Library object written, its entries edited (same number of blocks) and written again; exhaustive small libraries (<=3 blocks over 9 block shapes) x 6 formats; structured random libraries "
        "(0..7 blocks of every class incl. failed / duplicate-key / duplicate-field / middleware-error / non-block objects, "
        "0..6 fields, key lengths 0..45, int and list values) x formats (indent in '', ' ', tab, 4 spaces, 'xy'; value_column 0..40 "
        "or auto; separators '', NL, NL NL, ' NL', '%%NL', ', '; trailing comma; failed-comment templates with and without {n}, "
        "doubled and single braces); raws with CRLF, VT, NEL, U+2028. Compared: the full text or exception class and "
        "all five attributes of the format object after the call. Non-trivial = a non-empty text was written.")
EXHAUSTIVE = {"quick": False, "thorough": False}
ASSUMPTIONS = ["field and @string values are str (as after the default unparse stack) for the shape theorems; other values "
               "make ''.join raise TypeError in model and code alike",
               "parsing_failed_comment uses no replacement field other than {n}"]
PARTIAL = []

DEFAULT_COMMENT = "% WARNING Parsing failed for the following {n} lines."
INDENTS = ["\t", "", " ", "    ", "xy"]
SEPS = ["\n\n", "", "\n", " \n", "%%\n", ", "]
COMMENTS = [DEFAULT_COMMENT, "% failed", "% {n} lines", "{{x}} {n}{n}", "}}{{", "{n}", "", "% \u00e9 {n}", "a { b", "a } b", "{"]
RAWS = ["@a{k, x = ", "l1\nl2", "l1\r\nl2\r\n", "a\x0bb\x0cc", "a\x85b", "a\u2028b\u2029", "", "\n", "\r", "\n\r", "\r\n\n",
        "x\x1cy\x1dz\x1e", "@a{k,\n f = {v}\n", "\u00e9\r", "a\x1fb"]


def tpl_modelled(t):
    """mirror of `tplModelled` (Writer.lean): only {{, }}, {n} and ValueError-raising single braces"""
    i = 0
    while i < len(t):
        c = t[i]
        if c == "{":
            if t[i + 1:i + 2] == "{":
                i += 2
            elif t[i + 1:i + 3] == "n}":
                i += 3
            elif i + 1 == len(t):
                return True
            else:
                return False
        elif c == "}":
            if t[i + 1:i + 2] == "}":
                i += 2
            else:
                return True
        else:
            i += 1
    return True


def mkfmt(indent="\t", col=0, sep="\n\n", tc=False, comment=DEFAULT_COMMENT):
    return {"indent": indent, "col": col, "sep": sep, "tc": tc, "comment": comment}


def corpus():
    e2 = ["entry", "article", "k", [["author", "{A}"], ["title", "{T}"]], "@article{k, ...}"]
    cases = [
        {"fmt": mkfmt(), "blocks": []},
        {"fmt": mkfmt(), "blocks": [e2]},
        {"fmt": mkfmt(col="auto"), "blocks": [e2, ["entry", "book", "j", [["x", "1"], ["averyveryverylongkey", "{v}"]], "r"]]},
        {"fmt": mkfmt(col=10, tc=True), "blocks": [["entry", "a", "k", [], "r"]]},                  # trailing comma with zero fields
        {"fmt": mkfmt(col=5), "blocks": [["entry", "a", "k", [["toolongkey", "v"], ["ab", "w"]], "r"]]},
        {"fmt": mkfmt(comment="% custom {n}!"), "blocks": [["failed", "@a{k, x\ny\r\nz"]]},        # D5
        {"fmt": mkfmt(comment="% none"), "blocks": [["failed", "raw"], e2]},
        {"fmt": mkfmt(sep="", indent=""), "blocks": [["impl", "c", "c"], ["expl", "x", "@comment{x}"], ["preamble", "\"p\"", "r"],
                                                    ["string", "s", "{v}", "r"], e2, e2]},  # second e2 becomes a duplicate-key block
        {"fmt": mkfmt(col="auto"), "blocks": [["dupfield", ["entry", "a", "k", [["loooooooooong", "1"], ["loooooooooong", "2"]], "raw df"]],
                                              ["entry", "a", "k2", [["s", "1"]], "r"]]},
        {"fmt": mkfmt(), "blocks": [["entry", "a", "k", [["year", 2020]], "r"]]},                   # TypeError from join
        {"fmt": mkfmt(comment="{"), "blocks": [["entry", "a", "k", [["year", 2020]], "r"], ["failed", "x"]]},  # ValueError wins
        {"fmt": mkfmt(), "blocks": [["other"]]},
        {"fmt": mkfmt(), "blocks": [["mwerror", e2], ["failed", "a\x85b\u2028c"]]},
        {"fmt": mkfmt(col=40, indent="    ", sep=" \n", tc=True), "blocks": [e2, ["string", "s", 5, "r"]]},
        {"fmt": mkfmt(sep="\n%%\n"), "same_line": True,
         "blocks": [["impl", "% ---", "% ---"], e2, ["impl", "% ---", "% ---"], ["preamble", "p", "r"], ["impl", "% ---", "% ---"]]},
    ]
    return cases


KEYS = ["", "a", "ab", "year", "title", "author", "k" * 9, "k" * 17, "k" * 38, "k" * 45, "\u00e9t\u00e9", "a b", "x\ny"]
VALUES = ["{v}", "\"w\"", "1", "", "{a\nb}", "abc # {d}", "{\u00fc}"]


def _rand_entry(rng, key=None):
    nf = rng.choice([0, 0, 1, 1, 2, 2, 3, 4, 6])
    fields = []
    for _ in range(nf):
        r = rng.random()
        v = rng.choice(VALUES) if r < 0.93 else (rng.choice([7, 0, -3]) if r < 0.97 else ({"names": ["A", "B"]} if r < 0.985 else None))
        fields.append([rng.choice(KEYS), v])
    return ["entry", rng.choice(["article", "a", "", "B\u00e9"]), key if key is not None else rng.choice(["k1", "k2", "k3", ""]),
            fields, rng.choice(RAWS)]


def _rand_block(rng):
    r = rng.random()
    if r < 0.45:
        return _rand_entry(rng)
    if r < 0.55:
        return ["string", rng.choice(["s", "t", ""]), rng.choice(VALUES) if rng.random() < 0.93 else 3, rng.choice(RAWS)]
    if r < 0.62:
        return ["preamble", rng.choice(["\"p\"", "", "{x}", "a\nb"]), rng.choice(RAWS)]
    if r < 0.69:
        return ["expl", rng.choice(["c", "", "a{b}"]), rng.choice(RAWS)]
    if r < 0.76:
        return ["impl", rng.choice(["% c", "", "free\ntext"]), rng.choice(RAWS)]
    if r < 0.88:
        return ["failed", rng.choice(RAWS) + rng.choice(["", "", "\n", "tail"])]
    if r < 0.93:
        e = _rand_entry(rng)
        if e[3]:
            e[3].append([e[3][0][0], "dup"])
        return ["dupfield", e]
    if r < 0.98:
        return ["mwerror", _rand_entry(rng) if rng.random() < 0.7 else ["string", "s", "{v}", rng.choice(RAWS)]]
    return ["other"]


def _rand_fmt(rng):
    r = rng.random()
    col = "auto" if r < 0.3 else rng.randint(0, 40)
    c = rng.random()
    return mkfmt(rng.choice(INDENTS), col, rng.choice(SEPS), rng.random() < 0.5,
                 DEFAULT_COMMENT if c < 0.4 else rng.choice(COMMENTS))


SMALL_BLOCKS = [
    ["entry", "a", "k", [], "r"],
    ["entry", "a", "k", [["x", "{1}"]], "r"],
    ["entry", "b", "j", [["longerkey", "v"], ["y", "\"2\""], ["", ""]], "r2"],
    ["string", "s", "{v}", "r"],
    ["preamble", "p", "r"],
    ["expl", "c", "r"],
    ["impl", "i", "r"],
    ["failed", "f1\r\nf2\n"],
    ["dupfield", ["entry", "a", "d", [["kk", "1"], ["kk", "2"]], "df\x0bx"]],
]
SMALL_FMTS = [mkfmt(), mkfmt("", "auto", "", True, "% {n}"), mkfmt(" ", 4, "\n", False, "%"), mkfmt("    ", 12, " \n", True),
              mkfmt("\t", "auto", "%%\n", False, "{{{n}}}"), mkfmt("xy", 11, ", ", True, "a } b")]


def gen(tier, rng):
    depth = 3 if tier == "quick" else 4
    # the same through write_string (default write stack, then the writer): small libraries of every block shape
    for n in (1, 2):
        for bs in itertools.product(SMALL_BLOCKS, repeat=n):
            yield {"fmt": SMALL_FMTS[(n + len(repr(bs))) % len(SMALL_FMTS)], "blocks": list(bs), "ws": 1}
    for bs in ([], [["impl", "notes\n\n", "r"]], [["entry", "a", "k", [["x", "{1}"]], "r"], ["impl", "end\n\n\n", "r"]], [["failed", "f1\n\n"]]):
        for f in (mkfmt(), mkfmt("", "auto", "", True, "% {n}")):
            yield {"fmt": f, "blocks": bs, "ws": 1}
    for col in ("auto", 5):
        for ks1, ks2 in ((["k" * 20, "a"], ["x"]), (["a"], ["k" * 12]), ([], ["abc"])):
            yield {"fmt": mkfmt(" ", col, "\n", False), "rename": 1,
                   "blocks": [["entry", "a", "k", [[k, "{v}"] for k in ks1], "r"], ["entry", "a", "k2", [[k, "{w}"] for k in ks2], "r"]]}
    # a library object with a history: it held an entry with a long field key, its views were read, the entry was removed
    for col in ("auto", 7):
        for keys in (["abc", "k" * 9], ["a"], []):
            yield {"fmt": mkfmt(" ", col, "\n", False),
                   "blocks": [["entry", "a", "k", [[k, "{v}"] for k in keys], "r"], ["string", "s", "{x}", "r"]],
                   "hist": ["entry", "a", "zzhist", [["k" * 30, "{v}"]], "r"]}
    for n in range(depth + 1):
        for bs in itertools.product(SMALL_BLOCKS, repeat=n):
            if n == depth and tier == "thorough":
                f = SMALL_FMTS[rng.randrange(len(SMALL_FMTS))]
                yield {"fmt": f, "blocks": list(bs)}
                continue
            for f in SMALL_FMTS:
                yield {"fmt": f, "blocks": list(bs)}
    # every column against every key length, both comma settings
    for col in list(range(0, 41)) + ["auto"]:
        for tc in (False, True):
            for ind in INDENTS:
                fields = [[k, "{v}"] for k in ["", "a", "abc", "k" * 9, "k" * 17, "k" * 37, "k" * 38, "k" * 45]]
                yield {"fmt": mkfmt(ind, col, "\n", tc), "blocks": [["entry", "a", "k", fields, "r"], ["entry", "a", "k2", fields[:2], "r"]]}
    for c in COMMENTS:
        for raw in RAWS:
            yield {"fmt": mkfmt(comment=c), "blocks": [["failed", raw]]}
    # libraries holding structurally EQUAL blocks (same comment / preamble / failed block several times, also last)
    for n in (2, 3, 4):
        for bs in itertools.product(SMALL_BLOCKS[:6], repeat=n):
            if len(set(map(repr, bs))) < n:
                yield {"fmt": SMALL_FMTS[(n + len(repr(bs))) % len(SMALL_FMTS)], "blocks": list(bs), "same_line": True}
    # entries holding EQUAL fields (same key, value and line - also as the last field): the comma rule is positional
    for tc in (False, True):
        for fs in ([["a", "{x}"], ["b", "{y}"], ["a", "{x}"]], [["a", "{x}"], ["a", "{x}"]], [["a", "{x}"], ["a", "{x}"], ["b", "{y}"]],
                   [["n", "1"], ["n", "1"], ["n", "1"]]):
            yield {"fmt": mkfmt("  ", 0, "\n", tc), "blocks": [["entry", "a", "k", fs, "r"]], "same_line": True}
            yield {"fmt": mkfmt("", "auto", "", tc), "blocks": [["entry", "a", "k", fs, "r"], ["dupfield", ["entry", "a", "k", fs, "r"]]],
                   "same_line": True}
    # one format object used for two writes with different columns: the second text must obey the second column
    for col in (0, 5, 12, 20, "auto"):
        for warm in (0, 7, 12, 30, "auto"):
            if warm != col:
                fields = [[k, "{v}"] for k in ["", "a", "abc", "k" * 9, "k" * 17]]
                yield {"fmt": mkfmt(" ", col, "\n", False), "blocks": [["entry", "a", "k", fields, "r"]], "warm": warm}
    # one LIBRARY object written twice, its entries edited in between (same number of blocks): the second text is that of
    # the library as it is now
    for col in ("auto", 0, 12):
        for prevkeys in (["k" * 20], ["a"], [], ["k" * 5, "k" * 30]):
            for keys in (["abc", "k" * 9], ["a"], ["k" * 25, "b"], []):
                yield {"fmt": mkfmt(" ", col, "\n", False),
                       "blocks": [["entry", "a", "k", [[k, "{v}"] for k in keys], "r"], ["entry", "a", "k2", [["x", "{y}"]], "r"]],
                       "prev": [[[k, "{v}"] for k in prevkeys], [["x", "{y}"]]]}
    for _ in range(60000 if tier == "quick" else 500000):
        bl = [_rand_block(rng) for _ in range(rng.choice([0, 1, 1, 2, 2, 3, 3, 4, 5, 7]))]
        c = {"fmt": _rand_fmt(rng), "blocks": bl}
        if rng.random() < 0.04:
            c["prev"] = [_rand_entry(rng)[3] for d in bl if d[0] == "entry"]
        if rng.random() < 0.03:
            c["hist"] = _rand_entry(rng, key="zzhist")
        if rng.random() < 0.03:
            c["ws"] = 1
        if rng.random() < 0.05:
            c["warm"] = rng.choice([0, 3, 11, 25, "auto"])
        if bl and rng.random() < 0.1:
            bl.append(bl[rng.randrange(len(bl))])
            c["same_line"] = True
        yield c


def fmt_sx(f):
    return [Sym("fmt"), f["indent"], Sym("auto") if f["col"] == "auto" else f["col"], f["sep"], bool(f["tc"]), f["comment"]]


def build_fmt(f):
    from bibtexparser.writer import BibtexFormat
    F = BibtexFormat()
    F.indent = f["indent"]
    F.value_column = f["col"]
    F.block_separator = f["sep"]
    F.trailing_comma = f["tc"]
    F.parsing_failed_comment = f["comment"]
    return F


def fmt_attrs(F):
    vc = F.value_column
    return [Sym("fmt"), F.indent, Sym("auto") if vc == "auto" else vc, F.block_separator, bool(F.trailing_comma),
            F.parsing_failed_comment]


def request(case):
    if not tpl_modelled(case["fmt"]["comment"]):
        return None
    txt = W.all_text(case)
    if not lean_representable(txt):
        return None
    lib = W.build_library(case["blocks"], case.get("same_line", False))
    _rename(lib, case)
    return wire_request("c06.write", fmt_sx(case["fmt"]), W.enc_items(lib.blocks), chars_of=txt)


def _rename(lib, case):
    """the first entry was given another key after it had been added (entry.key = ...): it is written under its present key and
    counts for the 'auto' column like every entry of the library"""
    from bibtexparser import model as M
    if case.get("rename"):
        for b in lib.blocks:
            if type(b) is M.Entry:
                b.key = b.key + "_renamed"
                break


def _prewrite(lib, case, F):
    """the same Library OBJECT was written before with the same format while its entries held other fields (a caller edits
    entries between two writes): nothing remembered from the earlier write may reach the later one"""
    from bibtexparser import writer
    from bibtexparser import model as M
    _rename(lib, case)
    hist = case.get("hist")
    if hist is not None:
        # the library held another entry before; its views were read while it did; then it was removed
        extra = W.build_block(hist, 999)
        lib.add(extra)
        _views = (list(lib.entries), list(lib.strings), list(lib.preambles), list(lib.comments), dict(lib.entries_dict), list(lib.failed_blocks))
        lib.remove(extra)
    prev = case.get("prev")
    if prev is None:
        return
    ents = [b for b in lib.blocks if isinstance(b, M.Entry)]
    saved = [list(e.fields) for e in ents]
    for e, fs in zip(ents, prev):
        e.fields = [M.Field(k, v) for k, v in fs]
    try:
        writer.write(lib, F)
    except RecursionError:
        raise
    except Exception:  # noqa
        pass
    for e, fs in zip(ents, saved):
        e.fields = fs


def _ws_check(case):
    """through the entry point: write_string(library, bibtex_format=F) - the default write stack first encloses every value
    in braces - is the writer's text for the library whose values are so enclosed: every block is written, none is lost"""
    import bibtexparser
    from bibtexparser import writer
    if not _writable(case):
        return None

    def wrap(d):
        if d[0] == "entry":
            return [d[0], d[1], d[2], [[k, "{" + v + "}"] for k, v in d[3]]] + list(d[4:])
        if d[0] == "string":
            return [d[0], d[1], "{" + d[2] + "}"] + list(d[3:])
        return d

    lib = W.build_library(case["blocks"], case.get("same_line", False))
    lib2 = W.build_library([wrap(d) for d in case["blocks"]], case.get("same_line", False))
    try:
        want = writer.write(lib2, build_fmt(case["fmt"]))
    except RecursionError:
        raise
    except Exception as e:  # noqa
        want = "raise " + type(e).__name__
    try:
        got = bibtexparser.write_string(lib, bibtex_format=build_fmt(case["fmt"]))
    except RecursionError:
        raise
    except Exception as e:  # noqa
        got = "raise " + type(e).__name__
    if got != want:
        return "write_string(library, bibtex_format=...) gives %r, the writer on the library with every value in braces %r" % (got[:200], want[:200])
    if not got.startswith("raise "):
        import io
        buf = io.StringIO()
        bibtexparser.write_file(buf, lib, bibtex_format=build_fmt(case["fmt"]))
        if buf.getvalue() != got:
            return "write_file(stream, library, bibtex_format=...) writes %r, write_string gives %r" % (buf.getvalue()[-80:], got[-80:])
    return None


def impl(case):
    from bibtexparser import writer
    if case.get("ws") and _ws_check(case) is not None:
        return "(write-string-differs)"
    lib = W.build_library(case["blocks"], case.get("same_line", False))
    F = build_fmt(case["fmt"])
    _prewrite(lib, case, F)
    if "warm" in case:
        # the same format object was used before with another column (state must not leak between writes)
        F.value_column = case["warm"]
        try:
            writer.write(lib, F)
        except RecursionError:
            raise
        except Exception:  # noqa
            pass
        F.value_column = case["fmt"]["col"]
    try:
        res = [Sym("ok"), writer.write(lib, F)]
    except RecursionError:
        raise
    except Exception as e:  # noqa
        res = [Sym("raise"), Sym(type(e).__name__)]
    return enc([Sym("res"), res, fmt_attrs(F)])


def _writable(case):
    """inside the quantifier of C06: every value is a str, every item a block, template is plain"""
    def live_ok(d):
        if d[0] == "entry":
            return all(isinstance(v, str) for _k, v in d[3])
        if d[0] == "string":
            return isinstance(d[2], str)
        return True
    for d in case["blocks"]:
        if d[0] == "other":
            return False
        if d[0] in ("dupfield", "mwerror"):
            continue   # written raw; their content is not rendered
        if not live_ok(d):
            return False
    c = case["fmt"]["comment"]
    rest = c.replace("{n}", "").replace("{{", "").replace("}}", "")
    return "{" not in rest and "}" not in rest


def _expand(tpl, n):
    """the configured comment with {n} filled in ({{ and }} are literal braces), read left to right"""
    out, i = [], 0
    while i < len(tpl):
        if tpl.startswith("{{", i):
            out.append("{")
            i += 2
        elif tpl.startswith("}}", i):
            out.append("}")
            i += 2
        elif tpl.startswith("{n}", i):
            out.append(str(n))
            i += 3
        else:
            out.append(tpl[i])
            i += 1
    return "".join(out)


def oracle(case):
    """C06 evaluated on the real code, clause by clause, from the statement (not from the model)."""
    from bibtexparser import writer
    from bibtexparser import model as M
    if not _writable(case):
        return None
    if case.get("ws"):
        r = _ws_check(case)
        if r:
            return r
    lib = W.build_library(case["blocks"], case.get("same_line", False))
    f = case["fmt"]
    F = build_fmt(f)
    _prewrite(lib, case, F)
    if "warm" in case:
        F.value_column = case["warm"]
        writer.write(lib, F)
        F.value_column = f["col"]
    before = [F.indent, F.value_column, F.block_separator, F.trailing_comma, F.parsing_failed_comment]
    blocks_before = enc(W.enc_items(lib.blocks))
    out = writer.write(lib, F)
    after = [F.indent, F.value_column, F.block_separator, F.trailing_comma, F.parsing_failed_comment]
    if before != after:
        return "the format object changed: %r -> %r" % (before, after)
    if enc(W.enc_items(lib.blocks)) != blocks_before:
        return "the library changed while writing"
    indent, sep, tc = f["indent"], f["sep"], f["tc"]
    if f["col"] == "auto":
        lens = [len(fl.key) for b in lib.blocks if isinstance(b, M.Entry) for fl in b.fields]
        col = (max(lens) if lens else 0) + 3
    else:
        col = f["col"]
    # expected text of each block, from the statement
    texts = []
    for b in lib.blocks:
        if isinstance(b, M.ParsingFailedBlock):
            n = len(b.raw.splitlines())
            comment = _expand(f["comment"], n)
            texts.append(comment + "\n" + b.raw + "\n")
        elif isinstance(b, M.Entry):
            t = "@" + b.entry_type + "{" + b.key + ",\n"
            for i, fl in enumerate(b.fields):
                pad = " " * max(0, col - len(fl.key) - 3)
                line = indent + fl.key + pad + " = " + fl.value
                start = len(indent + fl.key + pad + " = ")
                if len(fl.key) + 3 <= col and "\n" not in indent + fl.key:
                    if start != len(indent) + col:
                        return "oracle self-check: column"
                comma = "," if (tc or i < len(b.fields) - 1) else ""
                t += line + comma + "\n"
            t += "}\n"
            texts.append(t)
        elif isinstance(b, M.String):
            texts.append("@string{" + b.key + " = " + b.value + "}\n")
        elif isinstance(b, M.Preamble):
            texts.append("@preamble{" + b.value + "}\n")
        elif isinstance(b, M.ExplicitComment):
            texts.append("@comment{" + b.comment + "}\n")
        elif isinstance(b, M.ImplicitComment):
            texts.append(b.comment + "\n")
    # blocks in order, separated by exactly the separator, none after the last
    pos = 0
    for i, t in enumerate(texts):
        if not out.startswith(t, pos):
            return ("block %d (%s) is not written as the format requires at offset %d: expected %r, found %r"
                    % (i, type(lib.blocks[i]).__name__, pos, t[:120], out[pos:pos + 120]))
        pos += len(t)
        if i < len(texts) - 1:
            if not out.startswith(sep, pos):
                return "after block %d the separator %r is missing: found %r" % (i, sep, out[pos:pos + 20])
            pos += len(sep)
    if pos != len(out):
        return "text after the last block: %r" % out[pos:pos + 40]
    return None


def known_match(finding, case, failure):
    return False


def nontrivial(case, out):
    return out.startswith("(res (ok s") and not out.startswith("(res (ok s)")


def describe(cases, outs):
    kinds = collections.Counter()
    nblocks = collections.Counter()
    cols = collections.Counter()
    indents = collections.Counter()
    seps = collections.Counter()
    comments = collections.Counter()
    keyfit = collections.Counter()
    results = collections.Counter()
    nfields = collections.Counter()
    for c, o in zip(cases, outs):
        seen_keys = set()
        for d in c["blocks"]:
            kinds[d[0]] += 1
            if d[0] in ("entry", "string"):
                kk = (d[0], d[2] if d[0] == "entry" else d[1])
                if kk in seen_keys:
                    kinds["(of which became duplicate-key blocks)"] += 1
                seen_keys.add(kk)
            e = d[1] if d[0] in ("dupfield", "mwerror") else d
            if e[0] == "entry":
                nfields[W.bucket(len(e[3]), (0, 1, 2, 4, 8))] += 1
                if d[0] == "entry" and c["fmt"]["col"] != "auto":
                    for k, _v in e[3]:
                        keyfit["key fits column" if len(k) + 3 <= c["fmt"]["col"] else "key longer than column"] += 1
        nblocks[W.bucket(len(c["blocks"]), (0, 1, 2, 3, 4, 8))] += 1
        col = c["fmt"]["col"]
        cols["auto" if col == "auto" else W.bucket(col, (0, 5, 10, 20, 40))] += 1
        indents[repr(c["fmt"]["indent"])] += 1
        seps[repr(c["fmt"]["sep"])] += 1
        cm = c["fmt"]["comment"]
        comments["default" if cm == DEFAULT_COMMENT else ("custom with {n}" if "{n}" in cm else "custom without {n}")] += 1
        results["ok" if o.startswith("(res (ok") else o[5:].split(")")[0] + ")"] += 1
    return {"block_kinds": dict(kinds), "blocks_per_library": dict(nblocks), "fields_per_entry": dict(nfields),
            "value_column": dict(cols), "indent": dict(indents), "separator": dict(seps), "failed_comment": dict(comments),
            "key_vs_column": dict(keyfit), "result": dict(results), "trailing_comma_on": sum(1 for c in cases if c["fmt"]["tc"])}
