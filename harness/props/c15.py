"""C15 - month middlewares share one 12-month table, compose, and leave non-months alone."""
import collections
import itertools
import os
import sys

from .. import mwcases as W
from ..wire import Sym, enc_str, lean_representable, char_table
from .. import blocks as B

ID = "C15"
LEAN_MODULE = "BibVerif.Props.C15"
ROOT = os.path.dirname(os.path.dirname(os.path.dirname(os.path.abspath(__file__))))
GENERATED = os.path.join(ROOT, "lean", "BibVerif", "Generated", "Months.lean")

LEVEL_TEXT = (
    "Lean theorems over the regenerated month table: table_ok (the table the real middlewares produce on 1..12 is the "
    "English one, by `decide`); int_of_spelling / abbr_of_spelling / long_of_spelling (every spelling of month m - int, "
    "any digit string that int() reads as m incl. leading zeros and non-ASCII decimals, any string whose str.lower() is the "
    "abbreviation or the lower-cased full name - gives m / the abbreviation / the full name); compose (X(Y v) = X v for all "
    "9 ordered pairs and EVERY value v); non_month_unchanged; never_raises / never_raises_library (NO value whatsoever makes a "
    "middleware raise - without any side condition); huge_int_ok (an int too long for str() is left unchanged and the message "
    "carries the placeholder text); entry_frame (only the value of the last "
    "'month' field and one metadata key change). Quantified over every value and every Unicode behaviour P satisfying "
    "MonthOK; the model is tied to month.py by differential execution on every run.")
LEVEL_NOTE = (
    "Trusted: Lean kernel + 3 standard axioms; the hand-written model lean/BibVerif/Month.lean (+ MwCommon.lean for "
    "BlockMiddleware.transform / Library(blocks)); the correspondence run; MonthOK (ASCII lower/isdigit, digit characters "
    "are caseless) checked over all 1,114,112 code points each run; the int() digit limit is modelled as "
    "'more than D characters' and probed at the boundary each run. bool values are outside the model. "
    "The printing limit of str(int) is modelled as '|i| >= 10^D gives the placeholder text' and probed at the boundary each run.")
TECHNIQUE = ("Lean 4 proof over an executable model (case analysis on the 12-row table, generic in the Unicode parameter); "
             "regenerated constants; differential correspondence model vs month.py through Middleware.transform")
RULE = ("every corpus library also with instances of a user-defined subclass of Entry; corpus (D9 witnesses: 13, '\\u00b2', 5000 digits, ...; int month values 10**4300, 10**5000, -10**4300 that made str() raise "
        "before repo commit d1d53b4, through all three middlewares and all 9 pairs); exhaustive: 12 months x {int, decimal strings with 0..3 "
        "(thorough: 0..6) leading zeros, all 2^n case variants of the abbreviation and of the full name} x {3 single "
        "middlewares + 9 ordered pairs (thorough: + 27 triples)} embedded in 4 library contexts in rotation; non-month values "
        "(0, 13, negative, ints of 4300/4301/5001/6001 digits of either sign, enclosed, near-misses, non-ASCII digits, 4300/4301-digit strings, None, float, list) x the "
        "same 12 stacks x 3 contexts; random strings over month letters/digits/special Unicode, mutated month names, random "
        "code points. Compared: every block of the resulting library with all fields (key, value, type, line) and "
        "parser_metadata. Non-trivial = some block of the result carries parser_metadata (a month field was resolved).")
EXHAUSTIVE = {"quick": True, "thorough": True}
ASSUMPTIONS = [
    "MonthOK.asciiLower: str.lower() of an ASCII character is its ASCII lower case (checked this run, 128 code points)",
    "MonthOK.asciiDigit: an ASCII character is a digit character iff it is 0..9 (checked this run)",
    "MonthOK.digitCaseless: str.lower() leaves every character with str.isdigit() unchanged (checked this run over all 1,114,112 code points)",
    "int(s) of an all-isdigit() string fails exactly when len(s) > sys.get_int_max_str_digits() or some character has no decimal value; "
    "str(i) of an int fails (ValueError) exactly when |i| >= 10**sys.get_int_max_str_digits() (probed at the boundary this run)",
    "str.lower() acts character by character on the strings sent to the model (strings where the final-sigma rule applies go to the real code only)",
    "bool field values are not modelled (sent to the real code only: must not raise)",
]
PARTIAL = []

KINDS = ["toInt", "toAbbr", "toLong"]
EXPECT = [("jan", "January"), ("feb", "February"), ("mar", "March"), ("apr", "April"), ("may", "May"), ("jun", "June"),
          ("jul", "July"), ("aug", "August"), ("sep", "September"), ("oct", "October"), ("nov", "November"), ("dec", "December")]
MESSAGES = ["month field unchanged", "month-field unchanged - unknown month", "<integer with too many digits>", "transformed int-month to str-month",
            "transformed abbreviated month to full month", "transformed month casing", "transformed int-month to abbreviated month",
            "transformed full month to abbreviated month", "use lowercase month abbreviation", "transformed full month to int-month",
            "transformed abbreviated month to int-month", "cast month int-string to int"]


def _cls(kind):
    from bibtexparser.middlewares import month as mm
    return {"toInt": mm.MonthIntMiddleware, "toAbbr": mm.MonthAbbreviationMiddleware, "toLong": mm.MonthLongStringMiddleware}[kind]


def max_digits():
    return sys.get_int_max_str_digits()


# ------------------------------------------------------------------------------------------------
# regenerated constants

def _behavioural_table():
    from bibtexparser.library import Library
    from bibtexparser.model import Entry, Field
    rows = []
    for m in range(1, 13):
        got = []
        for kind in ("toAbbr", "toLong"):
            lib = _cls(kind)().transform(Library([Entry("article", "k", [Field("month", m)])]))
            v = lib.blocks[0].fields_dict["month"].value
            if not isinstance(v, str):
                raise ValueError("month %d through %s is not a string: %r" % (m, kind, type(v)))
            got.append(v)
        rows.append(tuple(got))
    return rows


def _lean_chars(s):
    def one(c):
        if c in "'\\":
            return "'\\%s'" % c
        if 32 <= ord(c) < 127:
            return "'%s'" % c
        return "(Char.ofNat %d)" % ord(c)
    return "[" + ", ".join(one(c) for c in s) + "]"


def regenerate():
    rows = _behavioural_table()
    body = ",\n   ".join("(%s, %s)" % (_lean_chars(a), _lean_chars(f)) for a, f in rows)
    text = (
        "/-\n"
        "  REGENERATED by harness/props/c15.py (`regenerate`) on every run from the *behaviour* of\n"
        "  MonthAbbreviationMiddleware / MonthLongStringMiddleware / MonthIntMiddleware of the repo on the\n"
        "  integers 1..12 (public API only).  Do not edit by hand.\n"
        "-/\n"
        "namespace Bib.Generated\n\n"
        "/-- `(abbreviation, full name)` of month 1..12 as produced by the real middlewares -/\n"
        "def months : List (List Char × List Char) :=\n"
        "  [%s]\n\n"
        "end Bib.Generated\n" % body)
    old = open(GENERATED, encoding="utf-8").read() if os.path.exists(GENERATED) else None
    changed = old != text
    if changed:
        tmp = GENERATED + ".tmp%d" % os.getpid()
        with open(tmp, "w", encoding="utf-8") as f:
            f.write(text)
        os.replace(tmp, GENERATED)
    return {"file": os.path.relpath(GENERATED, ROOT), "rewritten": changed, "rows": ["%s/%s" % r for r in rows],
            "matches_english_table": rows == EXPECT}


# ------------------------------------------------------------------------------------------------
# cases:  {"ks": [kind, ...], "lib": library spec, "ip": allow_inplace_modification, "cls": label}

def _lib(v, ctx):
    """a library around one month value, in one of several contexts"""
    if ctx == 0:
        return [["entry", "article", "k", [["month", v, 1]], 0, "@article{k, month = x}"]]
    if ctx == 1:
        return [["entry", "Book", "key1", [["title", "{T}", 1], ["month", v, 2], ["year", "2020", 3]], 0, None]]
    if ctx == 2:
        return [["string", "s", "{v}", 0, "@string{s = {v}}"],
                ["entry", "article", "a", [["author", "X", 2], ["month", v, 3]], 1, "raw a"],
                ["impl", "free text", 5, "free text"],
                ["entry", "misc", "b", [["Month", "jan", 7], ["note", "march", 8]], 6, "raw b"],
                ["preamble", "p", 9, "@preamble{p}"],
                ["failed", "eof", 10, "@a{k, month = 1"],
                ["expl", "c", 11, "@comment{c}"]]
    if ctx == 3:   # two month fields: fields_dict keeps the last one
        return [["entry", "article", "k", [["month", "zzz", 1], ["x", "1", 2], ["month", v, 3], ["y", "jan", 4]], 0, None]]
    if ctx == 4:   # no field called exactly 'month'
        return [["entry", "article", "k", [["Month", v, 1], ["MONTH", v, 2], ["month ", v, 3]], 0, None]]
    if ctx == 5:   # duplicate entry key: the second entry is wrapped by Library(...) and not transformed
        return [["entry", "article", "k", [["month", v, 1]], 0, "r1"],
                ["entry", "article", "k", [["month", v, 3]], 2, "r2"],
                ["dupfield", ["month"], ["entry", "article", "d", [["month", v, 5], ["month", "2", 6]], 4, "r3"]],
                ["mwerror", "invalidName", ["entry", "article", "e", [["month", v, 8]], 7, "r4"]]]
    raise ValueError(ctx)


def _case(ks, v, ctx, label, ip=True):
    return {"ks": list(ks), "lib": _lib(v, ctx), "ip": ip, "cls": label}


STACKS1 = [[k] for k in KINDS]
STACKS2 = [[y, x] for y in KINDS for x in KINDS]
STACKS3 = [[z, y, x] for z in KINDS for y in KINDS for x in KINDS]


def case_variants(word):
    for bits in itertools.product((0, 1), repeat=len(word)):
        yield "".join(c.upper() if b else c.lower() for c, b in zip(word, bits))


def spellings(m, zeros):
    """every modelled spelling of month m (1-based): (value spec, class label)"""
    yield m, "int"
    for z in range(zeros + 1):
        yield "0" * z + str(m), "digits"
    a, f = EXPECT[m - 1]
    for s in case_variants(a):
        yield s, "abbr-case"
    for s in case_variants(f):
        yield s, "full-case"


NON_MONTHS = [
    0, 13, -1, -12, 100, 2 ** 64, {"big": [4299, 0]}, {"big": [4300, -1]}, {"big": [4300, 0]}, {"negbig": [4300, 0]}, {"big": [6000, 3]},
    "0", "00", "13", "013", "99", "000", "{jan}", '"jan"', '"1"', "{1}", "jan.", " jan", "jan ", "janu", "sept", "mai", "",
    " ", "1.0", "+1", "-1", "1_2", "1 2", "january ", "ja", "j", "augustus", "Dezember", "jan feb", "1jan", "jan1",
    "²", "1²", "¹²", "①", "Ⅻ", "١٣", "ſep", "juſt", "İan", "MAİ",
    "Kan", "ocŧ", "é", "máy", "ǅ", "jаn",
    {"rep": ["1", 4300]}, {"rep": ["1", 4301]}, {"rep": ["1", 5000]}, {"rep": ["0", 4301]}, {"rep": ["0", 5000]},
    {"rep": ["٣", 4301]}, {"rep": ["jan", 2000]},
    {"py": "None"}, {"py": "float"}, {"names": ["jan"]}, {"names": []},
]
# spellings of a month that are not in the exhaustive stream (non-ASCII decimals, the 4300-character boundary)
EXOTIC_MONTHS = [
    "٣", "١٢", "１２", "0٣", "\U0001d7d9", "१",
]
PY_ONLY_VALUES = [{"py": "True"}, {"py": "False"}, "\ud800", "jan\udfff", "Σ", "aΣ", "MAΣ"]
# int month values with more digits than str() prints (raised ValueError before repo commit d1d53b4), and the boundary
HUGE_INT_WITNESSES = [{"big": [4300, 0]}, {"big": [5000, 0]}, {"negbig": [4300, 0]}, {"negbig": [5000, 7]}, {"big": [4300, 12]}]


def corpus():
    cases = []
    # D9 (fixed in the repo: f01d8f2, 2f19d52) and relatives
    for v in [13, "13", 0, "²", {"rep": ["1", 5000]}, {"rep": ["9", 4301]}, "٣", "012", "00012", "MAY", "may", "May",
              "sEPTEMBER", "Sep", 12, 1, {"py": "None"}, {"py": "True"}]:
        for ks in STACKS1:
            cases.append(_case(ks, v, 0, "corpus"))
        cases.append(_case(["toLong", "toInt"], v, 1, "corpus", ip=False))
    # the 4300-character boundary of int(): '0'*4298+'12' is December, one more zero is not a number any more
    for v in [{"rep": ["0", 4299]}, {"rep": ["0", 4300]}]:
        for ks in STACKS1:
            cases.append({"ks": ks, "lib": [["entry", "a", "k", [["month", v, 1]], 0, None]], "ip": True, "cls": "corpus"})
    z = "0" * 4298
    for tail in ["12", "012", "7", "13"]:
        for ks in STACKS1 + [["toAbbr", "toInt"]]:
            cases.append({"ks": ks, "lib": [["entry", "a", "k", [["month", z + tail, 1]], 0, None]], "ip": True, "cls": "corpus"})
    for v in HUGE_INT_WITNESSES + [{"big": [4300, -1]}, {"negbig": [4300, -1]}]:
        for ks in STACKS1:
            cases.append(_case(ks, v, 0, "huge-int"))
        for ks in STACKS2:
            cases.append(_case(ks, v, 2, "huge-int", ip=False))
    # the same libraries holding instances of a user-defined subclass of Entry
    chains = [{"src": src, "ks": ks, "cls": "chain"}
              for src in ("jan", "3", "{March}", "\"12\"", "sept", "DECEMBER", "07", "13", "abc # jan")
              for ks in (["toInt", "toAbbr", "toInt"], ["toAbbr", "toInt", "toAbbr"], ["toLong", "toLong"], ["toInt"],
                         ["toLong", "toAbbr", "toLong", "toInt"], ["toAbbr", "toAbbr", "toLong"])]
    return cases + [dict(c, sub=True) for c in cases] + chains


ALPHABET = list("janfebmrpyulgsoctvdJANFEBMRPYULGSOCTVD0123456789") + [
    " ", "{", "}", '"', ".", "²", "٣", "１", "①", "İ", "ı", "K", "ſ", "ß",
    "Σ", "ς", "é", "́", " ", "ǅ", "\U0001d7d9", "\n"]
DIGITISH = list("0123456789") + ["²", "٣", "１", "①", "\U0001d7d9", "१", "½"]


def _random_value(rng):
    r = rng.random()
    if r < 0.3:
        return "".join(rng.choice(ALPHABET) for _ in range(rng.randint(0, 6)))
    if r < 0.65:
        a, f = rng.choice(EXPECT)
        w = list(rng.choice([a, f, f.lower(), a.upper(), f.upper()]))
        for _ in range(rng.randint(0, 2)):
            op = rng.randint(0, 3)
            pos = rng.randint(0, len(w))
            if op == 0 and w:
                w[pos % len(w)] = rng.choice(ALPHABET)
            elif op == 1:
                w.insert(pos, rng.choice(ALPHABET))
            elif op == 2 and w:
                del w[pos % len(w)]
            elif w:
                i = pos % len(w)
                w[i] = w[i].swapcase()
        return "".join(w)
    if r < 0.85:
        return "".join(rng.choice(DIGITISH) for _ in range(rng.randint(1, 5)))
    if r < 0.9:
        return rng.randint(-20, 40)
    return "".join(chr(rng.choice([rng.randrange(0x80, 0x3000), rng.randrange(0x110000), rng.randrange(0x20, 0x7f)]))
                   for _ in range(rng.randint(1, 3)))


def gen(tier, rng):
    zeros = 3 if tier == "quick" else 6
    stacks = STACKS1 + STACKS2 + (STACKS3 if tier == "thorough" else [])
    n = 0
    for m in range(1, 13):
        for v, label in spellings(m, zeros):
            for ks in stacks:
                yield _case(ks, v, n % 4, label, ip=(n % 3 != 0))
                n += 1
    if tier == "quick":
        # stacks of three (A after B after A ...) on a sample of spellings; the thorough tier has all of them
        for m in range(1, 13):
            for v in (m, str(m), "0" + str(m)):
                for ks in STACKS3:
                    yield _case(ks, v, n % 4, "triple", ip=(n % 3 != 0))
                    n += 1
    for v in EXOTIC_MONTHS:
        for ks in stacks:
            yield _case(ks, v, n % 4, "exotic-month", ip=(n % 3 != 0))
            n += 1
    for v in NON_MONTHS:
        heavy = isinstance(v, dict) and ("rep" in v or "big" in v or "negbig" in v)
        for ctx in ((0,) if heavy and tier == "quick" else (0, 2, 5) if heavy else (0, 1, 2, 3, 4, 5)):
            for ks in (STACKS1 + STACKS2[:3] if heavy else STACKS1 + STACKS2):
                yield _case(ks, v, ctx, "non-month", ip=(n % 3 != 0))
                n += 1
    for v in PY_ONLY_VALUES:
        for ks in STACKS1 + STACKS2:
            yield _case(ks, v, 0, "python-only", ip=(n % 3 != 0))
            n += 1
    for _ in range(6000 if tier == "quick" else 120000):
        v = _random_value(rng)
        yield _case(rng.choice(stacks), v, rng.choice([0, 0, 1, 2, 3, 4, 5]), "random", ip=rng.random() < 0.7)


# ------------------------------------------------------------------------------------------------
# the two sides

def request(case):
    if "src" in case:
        return None      # python-only: evaluated on the real code (impl raises when it fails)
    text = W.spec_text(case["lib"])
    if W.spec_python_only(case["lib"]) or not lean_representable(text):
        return None
    body = W.enc([Sym("month"), [Sym(k) for k in case["ks"]], max_digits(), W.wire_blocks(case["lib"])])
    tbl = char_table(text)
    if tbl:
        return "(withchars %s %s)" % (W.enc(tbl), body)
    return body


def _run(case):
    lib = W.library(case["lib"], sub=case.get("sub", False))
    for k in case["ks"]:
        lib = _cls(k)(allow_inplace_modification=case.get("ip", True)).transform(lib)
    return lib


def _chain_check(case):
    """through the entry point: parse_string(text, append_middleware=[m1, m2, ...]) applies every listed month middleware,
    in order (also the same class twice): the month is what the chain gives on the parsed entry"""
    import bibtexparser
    text = "@article{k,\n title = {T},\n month = %s\n}\n" % case["src"]
    lib = bibtexparser.parse_string(text, append_middleware=[_cls(k)() for k in case["ks"]])
    want = bibtexparser.parse_string(text)
    for k in case["ks"]:
        want = _cls(k)().transform(want)
    got_v = [(f.key, f.value, type(f.value).__name__) for b in lib.blocks for f in getattr(b, "fields", [])]
    want_v = [(f.key, f.value, type(f.value).__name__) for b in want.blocks for f in getattr(b, "fields", [])]
    if got_v != want_v:
        return "parse_string(%r, append_middleware=%r) gives %r, the chain applied to the parsed library gives %r" % (text, case["ks"], got_v, want_v)
    return None


def impl(case):
    if "src" in case:
        f = _chain_check(case)
        if f:
            raise AssertionError(f)
        return "(ok chain)"
    return W.ok(W.enc_blocks(_run(case).blocks))


def nontrivial(case, out):
    return "(md (" in out


# ------------------------------------------------------------------------------------------------
# the property, evaluated on the real code (independent of the model)

ABBR = [a for a, _ in EXPECT]
FULL = [f for _, f in EXPECT]
FULL_LOWER = [f.lower() for f in FULL]


def month_of(v):
    """the month (1..12) a value spells, or None"""
    if isinstance(v, bool):
        return None
    if isinstance(v, int):
        return v if 1 <= v <= 12 else None
    if isinstance(v, str):
        if v.isdigit():
            if len(v) > max_digits() > 0:
                return None
            n = 0
            for c in v:                       # positional value, written out (no int())
                import unicodedata
                d = unicodedata.decimal(c, None)
                if d is None:
                    return None
                n = n * 10 + d
            return n if 1 <= n <= 12 else None
        low = v.lower()
        if low in ABBR:
            return ABBR.index(low) + 1
        if low in FULL_LOWER:
            return FULL_LOWER.index(low) + 1
    return None


def canonical(kind, m):
    return {"toInt": m, "toAbbr": ABBR[m - 1], "toLong": FULL[m - 1]}[kind]


def _month_field(entry):
    last = None
    for f in entry.fields:
        if f.key == "month":
            last = f
    return last


def oracle(case):
    from bibtexparser import model as M
    if "src" in case:
        return _chain_check(case)
    ks = case["ks"]
    before = W.library(case["lib"], sub=case.get("sub", False))
    try:
        after = _run(case)
    except Exception as e:  # noqa
        return "the middleware stack %s raised %s" % (ks, type(e).__name__)
    alone = None
    if len(ks) > 1:
        try:
            alone = _run({"ks": ks[-1:], "lib": case["lib"], "ip": case.get("ip", True), "sub": case.get("sub", False)})
        except Exception as e:  # noqa
            return "the middleware %s alone raised %s" % (ks[-1], type(e).__name__)
    if len(before.blocks) != len(after.blocks):
        return "number of blocks changed: %d -> %d" % (len(before.blocks), len(after.blocks))
    for i, (b0, b1) in enumerate(zip(before.blocks, after.blocks)):
        if type(b0) is not type(b1):
            return "block %d changed class %s -> %s" % (i, type(b0).__name__, type(b1).__name__)
        if not isinstance(b0, M.Entry):
            if W.enc(W.enc_block(b0)) != W.enc(W.enc_block(b1)):
                return "block %d (%s) was altered" % (i, type(b0).__name__)
            continue
        if (b0.entry_type, b0.key, b0.start_line, b0.raw) != (b1.entry_type, b1.key, b1.start_line, b1.raw):
            return "entry %d: type/key/line/raw changed" % i
        if len(b0.fields) != len(b1.fields):
            return "entry %d: number of fields changed" % i
        mf = _month_field(b0)
        for j, (f0, f1) in enumerate(zip(b0.fields, b1.fields)):
            if (f0.key, f0.start_line) != (f1.key, f1.start_line):
                return "entry %d field %d: key or line changed" % (i, j)
            v0, v1 = f0.value, f1.value
            if f0 is not mf:
                if not W.same_value(v0, v1):
                    return "entry %d field %r (not the month field) changed: %s -> %s" % (i, f0.key, _show(v0), _show(v1))
                continue
            if isinstance(v0, bool):
                continue
            m = month_of(v0)
            want = canonical(ks[-1], m) if m is not None else v0
            if not W.same_value(v1, want):
                return "entry %d: month %s through %s gave %s, required %s (%s)" % (
                    i, _show(v0), ks, _show(v1), _show(want), "month %d" % m if m else "not a month: unchanged with its type")
            if alone is not None:
                va = _month_field(alone.blocks[i]).value
                if not W.same_value(v1, va):
                    return "entry %d: %s applied in sequence gave %s but %s alone gives %s" % (i, ks, _show(v1), ks[-1], _show(va))
    return None


def _show(v):
    if isinstance(v, int) and not isinstance(v, bool) and abs(v) >= 10 ** 30:
        return "<int of about %d bits>" % v.bit_length()
    r = repr(v)
    return r if len(r) <= 60 else r[:60] + "...(%d chars)" % len(r)


def known_match(finding, case, failure):
    return False


# ------------------------------------------------------------------------------------------------
# hypotheses of the theorems / of the model, checked against the running CPython

def extra_obligations(tier):
    res = []
    bad = [i for i in range(128) if chr(i).lower() != (chr(i + 32) if 65 <= i <= 90 else chr(i))]
    res.append(("MonthOK.asciiLower: lower() of an ASCII character is its ASCII lower case", not bad, "offending: %r" % bad[:5]))
    bad = [i for i in range(128) if chr(i).isdigit() != (48 <= i <= 57)]
    res.append(("MonthOK.asciiDigit: ASCII isdigit() is exactly 0-9", not bad, "offending: %r" % bad[:5]))
    bad = []
    ndig = 0
    for cp in range(0x110000):
        c = chr(cp)
        if c.isdigit():
            ndig += 1
            if c.lower() != c:
                bad.append(cp)
    res.append(("MonthOK.digitCaseless: lower() fixes every isdigit() character (all 1114112 code points, %d digit characters)" % ndig,
                not bad, "offending: %r" % bad[:5]))
    # model assumptions about int() / f-string on digit strings
    d = max_digits()
    okm = True
    detail = "limit %d" % d
    if d > 0:
        def fails(f):
            try:
                f()
                return False
            except ValueError:
                return True
        checks = [
            (not fails(lambda: int("0" * d)), "int('0'*D) works"),
            (fails(lambda: int("0" * (d + 1))), "int('0'*(D+1)) raises (leading zeros count)"),
            (not fails(lambda: int("0" * (d - 1) + "7")), "int of D characters works"),
            (not fails(lambda: str(10 ** d - 1)) and not fails(lambda: str(-(10 ** d - 1))), "str() prints an int of D digits"),
            (fails(lambda: str(10 ** d)), "str() refuses an int of D+1 digits with ValueError"),
            (fails(lambda: str(-(10 ** d))), "str() refuses a negative int of D+1 digits with ValueError"),
            (fails(lambda: int("²")) and "²".isdigit(), "superscript two is isdigit() but int() rejects it"),
            (int("٣") == 3 and int("1٣") == 13, "non-ASCII decimals have their positional value"),
        ]
        okm = all(c for c, _ in checks)
        detail += "; failed: %r" % [t for c, t in checks if not c]
    # int(c) succeeds exactly on the characters with a decimal value, all of which are isdigit()
    import unicodedata
    bad = []
    for cp in range(0x110000):
        if 0xD800 <= cp <= 0xDFFF:
            continue
        c = chr(cp)
        dv = unicodedata.decimal(c, None)
        try:
            iv = int(c)
        except ValueError:
            iv = None
        if c.isdigit():
            if iv != dv:
                bad.append(cp)
        elif dv is not None:
            bad.append(cp)
    res.append(("model: int() digit limit / decimal values as modelled (boundary probes + all code points)", okm and not bad,
                detail + "; offending code points: %r" % bad[:5]))
    return res


# ------------------------------------------------------------------------------------------------

def describe(cases, outs):
    by_cls = collections.Counter(c.get("cls", "?") for c in cases)
    by_stack = collections.Counter("+".join(c["ks"]) for c in cases)
    by_len = collections.Counter(len(c["ks"]) for c in cases)
    msgs = collections.Counter()
    enc_msgs = [(m, enc_str(m)[1:]) for m in MESSAGES]
    raised = 0
    for o in outs:
        if o.startswith("(raise"):
            raised += 1
            continue
        for m, e in enc_msgs:
            if e in o:
                msgs[m] += 1
    return {"spelling_class": dict(by_cls), "stack": dict(by_stack), "stack_length": {str(k): v for k, v in by_len.items()},
            "inplace": dict(collections.Counter(str(c.get("ip", True)) for c in cases)),
            "metadata_message_seen_in_result": dict(msgs), "raised": raised, "max_str_digits": max_digits()}
