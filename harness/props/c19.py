"""C19 - an entry behaves like an insertion-ordered mapping of its fields; equality is structural."""
import collections
import copy
import itertools

from .. import blocks as B
from ..wire import Sym, enc, request as wire_request, lean_representable, N

ID = "C19"
LEAN_MODULE = "BibVerif.Props.C19"
RULE = ("corpus (incl. entries as the parser hands them out: @misc{key}, @book{key,}); call histories on real Entry objects: every sequence of <= k mutating calls (set_field, e[k]=v, pop with "
        "and without default, del e[k]) over the keys a / A / b from 4 start entries (empty, two fields, keys differing only "
        "in case, a duplicated key), and every sequence of k-1 mutators followed by one observer (get, in, e[k] incl. "
        "ENTRYTYPE/ID) - k=4 quick, 5 thorough; random histories of up to 30 calls from entries parsed out of BibTeX text, "
        "with reserved and duplicated keys, str/int/list values. After EVERY call the returned object / exception class and "
        "the three views fields, fields_dict, items() are compared by value with the Lean model. Equality: every "
        "single-attribute perturbation (key, value, type, line, raw, metadata entry / order, field key / value / line / "
        "order / count, class) of blocks parsed from BibTeX text, all pairs of base blocks, copy.copy and copy.deepcopy "
        "pairs; real == (both directions) compared with the model's liveEq / fieldEq. Non-trivial = at least one call "
        "or one comparison.")
LEVEL_TEXT = ("Lean theorems refines / refines_history: for EVERY entry whose field keys are distinct and not reserved and "
              "EVERY finite sequence of set_field, e[k]=v, pop, del, get, in, e[k] on non-reserved keys, the field list after "
              "each call and the object each call returns equal those of an insertion-ordered map (replace keeps the position, "
              "new keys append, removal closes the gap; KeyError exactly for e[k] with k absent, nothing else raises); "
              "views_agree(_after): fields, fields_dict, items() list the same fields in the same order; reserved_lookup; "
              "fieldEq_iff / liveEq_iff_same / liveEq_iff_eq / copy_eq: __eq__ of Field and of the five non-failed block "
              "classes holds exactly for same class + same attribute values (metadata as a mapping). The model is tied to "
              "model.py by differential execution on every run.")
LEVEL_NOTE = ("Trusted: Lean kernel + 3 standard axioms; the hand-written model EntryOps.lean (dict = insertion-ordered "
              "association list; fields_dict rebuilt per call; __eq__ = same class + attribute-wise ==, dict.__eq__ "
              "order-insensitive); the correspondence run; CPython dict/list/str semantics. start_line=None is represented "
              "by -999 in the shared data model. Field values are str / int / list of str / list of NameParts; arbitrary "
              "user objects as values (identity equality, not deep-copy stable) are outside the statement.")
TECHNIQUE = "Lean 4 proof: refinement of the field list to an abstract insertion-ordered map; structural-equality lemmas; differential correspondence model vs model.py"
EXHAUSTIVE = {"quick": False, "thorough": False}
ASSUMPTIONS = ["field values are str, int, list[str] or list[NameParts] (compared by value by Python)",
               "a Python dict holds no key twice (MdWF) - true of every dict"]
PARTIAL = ["copy.copy / copy.deepcopy themselves are not modelled (CPython semantics, exercised by the correspondence run on "
           "every base block and field): copy_eq / field_copy_eq state that a block or field equals every object with the same "
           "class and attribute values, which is what a copy is",
           "liveEq_iff_eq (== is equality of the modelled data) is stated for blocks without parser metadata; with metadata "
           "the exact statement is liveEq_iff_same (metadata compared as a mapping, as dict.__eq__ does)"]
CASE_TIMEOUT_S = 20

RESERVED = ("ENTRYTYPE", "ID")

# --------------------------------------------------------------------------------------------------
# JSON descriptions <-> real objects
#   value : str | int | {"n": [str..]} | {"p": [[first, von, last, jr]..]}
#   field : [key, value, line]
#   meta  : str | bool | {"d": [[k, v]..]} | {"l": [str..]}
#   block : {"c": "entry"|"string"|"preamble"|"expl"|"impl", ...attributes..., "line", "raw", "md": [[k, meta]..]}


def mk_val(v):
    from bibtexparser.middlewares.names import NameParts
    if isinstance(v, dict):
        if "n" in v:
            return list(v["n"])
        return [NameParts(first=list(p[0]), von=list(p[1]), last=list(p[2]), jr=list(p[3])) for p in v["p"]]
    return v


def mk_field(d):
    from bibtexparser import model as M
    return M.Field(key=d[0], value=mk_val(d[1]), start_line=d[2])


def mk_meta(v):
    if isinstance(v, dict):
        if "d" in v:
            return {k: x for k, x in v["d"]}
        return list(v["l"])
    return v


def mk_block(d):
    from bibtexparser import model as M
    c = d["c"]
    if c == "entry" and d.get("src") is not None:
        # the entry as the parser hands it out (the description says what that is): the dict-like operations hold for it too
        import bibtexparser
        (b,) = bibtexparser.parse_string(d["src"], parse_stack=[]).blocks
        return b
    if c == "entry":
        b = M.Entry(entry_type=d["ty"], key=d["key"], fields=[mk_field(f) for f in d["fields"]],
                    start_line=d["line"], raw=d["raw"])
    elif c == "string":
        b = M.String(key=d["key"], value=mk_val(d["value"]), start_line=d["line"], raw=d["raw"])
    elif c == "preamble":
        b = M.Preamble(value=d["value"], start_line=d["line"], raw=d["raw"])
    elif c == "expl":
        b = M.ExplicitComment(comment=d["comment"], start_line=d["line"], raw=d["raw"])
    elif c == "impl":
        b = M.ImplicitComment(comment=d["comment"], start_line=d["line"], raw=d["raw"])
    else:
        raise ValueError(c)
    for k, v in d.get("md", []):
        b.parser_metadata[k] = mk_meta(v)
    return b


def desc_val(v):
    if isinstance(v, (str, int)):
        return v
    if isinstance(v, list) and all(isinstance(x, str) for x in v):
        return {"n": list(v)}
    return {"p": [[list(p.first), list(p.von), list(p.last), list(p.jr)] for p in v]}


def desc_block(b):
    """description of a real (parsed) block"""
    from bibtexparser import model as M
    base = {"line": b.start_line, "raw": b.raw, "md": []}
    if isinstance(b, M.Entry):
        base.update(c="entry", ty=b.entry_type, key=b.key,
                    fields=[[f.key, desc_val(f.value), f.start_line] for f in b.fields])
    elif isinstance(b, M.String):
        base.update(c="string", key=b.key, value=desc_val(b.value))
    elif isinstance(b, M.Preamble):
        base.update(c="preamble", value=b.value)
    elif isinstance(b, M.ExplicitComment):
        base.update(c="expl", comment=b.comment)
    elif isinstance(b, M.ImplicitComment):
        base.update(c="impl", comment=b.comment)
    else:
        return None
    return base


def texts_of(x, acc):
    if isinstance(x, str):
        acc.append(x)
    elif isinstance(x, dict):
        for v in x.values():
            texts_of(v, acc)
    elif isinstance(x, (list, tuple)):
        for v in x:
            texts_of(v, acc)
    return acc


# --------------------------------------------------------------------------------------------------
# the calls

def op_wire(op):
    n = op[0]
    if n == "setfield":
        return [Sym(n), B.enc_field(mk_field(op[1]))]
    if n == "setitem":
        return [Sym(n), op[1], B.enc_val(mk_val(op[2]))]
    if n in ("pop", "get"):
        return [Sym(n), op[1], N if op[2] is None else B.enc_field(mk_field(op[2]))]
    return [Sym(n), op[1]]


def _touch(x):
    """read-only use of an object: every public accessor is called once; this must not change what == answers"""
    for name in ("parser_metadata", "start_line", "raw", "key", "value", "comment", "entry_type", "fields", "fields_dict"):
        try:
            getattr(x, name)
        except Exception:  # noqa
            pass
    for f in (repr, str):
        try:
            f(x)
        except Exception:  # noqa
            pass
    try:
        list(x.items())
    except Exception:  # noqa
        pass


def _touched(a, b, case):
    t = case.get("touch", "")
    if "a" in t:
        _touch(a)
    if "b" in t:
        _touch(b)


def request(case):
    if not lean_representable("".join(texts_of(case, []))):
        return None
    k = case["k"]
    if k == "ops":
        return wire_request("entryops", B.enc_entry(mk_block(case["e"])), [op_wire(o) for o in case["ops"]])
    if k == "eq":
        a = mk_block(case["a"])
        b = a if "copy" in case else mk_block(case["b"])
        return wire_request("liveeq", B.enc_live(a), B.enc_live(b))
    if k == "feq":
        a = mk_field(case["a"])
        b = a if "copy" in case else mk_field(case["b"])
        return wire_request("fieldeq", B.enc_field(a), B.enc_field(b))
    raise ValueError(k)


def _views(e):
    return [[B.enc_field(f) for f in e.fields],
            [[k, B.enc_field(f)] for k, f in e.fields_dict.items()],
            [[k, B.enc_val(v)] for k, v in e.items()]]


def _call(e, op):
    """perform one call on the real entry; returns the wire rendering of what it returned"""
    from bibtexparser import model as M
    n = op[0]
    if n == "setfield":
        r = e.set_field(mk_field(op[1]))
        return N if r is None else Sym("unexpected-return")
    if n == "setitem":
        e[op[1]] = mk_val(op[2])
        return N
    if n == "pop":
        r = e.pop(op[1]) if op[2] is None else e.pop(op[1], mk_field(op[2]))
        return N if r is None else B.enc_field(r)
    if n == "delitem":
        del e[op[1]]
        return N
    if n == "get":
        r = e.get(op[1]) if op[2] is None else e.get(op[1], mk_field(op[2]))
        return N if r is None else B.enc_field(r)
    if n == "contains":
        r = op[1] in e
        return r if isinstance(r, bool) else Sym("not-a-bool")
    if n == "getitem":
        return B.enc_val(e[op[1]])
    raise ValueError(n)


def _copy_of(x, how):
    return copy.copy(x) if how == "copy" else copy.deepcopy(x)


def impl(case):
    k = case["k"]
    if k == "ops":
        e = mk_block(case["e"])
        out = []
        for op in case["ops"]:
            try:
                r = _call(e, op)
            except Exception as ex:  # noqa - the exception class is the observable
                r = [Sym("raise"), Sym(type(ex).__name__)]
            out.append([r] + _views(e))
        return enc(out)
    if k == "eq":
        a = mk_block(case["a"])
        b = _copy_of(a, case["copy"]) if "copy" in case else mk_block(case["b"])
        _touched(a, b, case)
        return enc([bool(a == b), bool(b == a)])
    if k == "feq":
        a = mk_field(case["a"])
        b = _copy_of(a, case["copy"]) if "copy" in case else mk_field(case["b"])
        _touched(a, b, case)
        return enc([bool(a == b), bool(b == a)])
    raise ValueError(k)


# --------------------------------------------------------------------------------------------------
# the oracle: the property statement on the real objects (no model involved)

def _norm(d):
    """content of a block description with dict-valued parts as dicts (mapping equality)"""
    d = dict(d)
    d["md"] = {k: ({"d": dict(v["d"])} if isinstance(v, dict) and "d" in v else v) for k, v in d.get("md", [])}
    return d


def oracle(case):
    k = case["k"]
    if k == "eq":
        a = mk_block(case["a"])
        if "copy" in case:
            b = _copy_of(a, case["copy"])
            want = True
        else:
            b = mk_block(case["b"])
            want = _norm(case["a"]) == _norm(case["b"])
        _touched(a, b, case)
        got = (a == b, b == a, not (a != b))
        if got != (want, want, want):
            return "blocks with %s content compare (a==b, b==a, not a!=b) = %r" % ("the same" if want else "different", got)
        return None
    if k == "feq":
        a = mk_field(case["a"])
        if "copy" in case:
            b = _copy_of(a, case["copy"])
            want = True
        else:
            b = mk_field(case["b"])
            want = case["a"] == case["b"]
        _touched(a, b, case)
        got = (a == b, b == a, not (a != b))
        if got != (want, want, want):
            return "fields with %s content compare (a==b, b==a, not a!=b) = %r" % ("the same" if want else "different", got)
        return None
    # --- histories: a real dict subjected to the same calls ---
    e = mk_block(case["e"])
    keys = [f.key for f in e.fields]
    in_scope = len(set(keys)) == len(keys) and not any(x in RESERVED for x in keys)
    d = {f.key: f for f in e.fields}
    for i, op in enumerate(case["ops"]):
        n, key = op[0], (op[1][0] if op[0] == "setfield" else op[1])
        where = "call %d %s(%r)" % (i, n, key)
        if key in RESERVED:
            if n == "getitem":
                want = e.entry_type if key == "ENTRYTYPE" else e.key
                got = e[key]
                if got != want:
                    return "%s returned %r, not %r" % (where, got, want)
                continue
            in_scope = False        # the statement does not cover writes/removals of reserved names
        if not in_scope:
            try:
                _call(e, op)
            except Exception:
                pass
            continue
        try:
            if n == "setfield":
                f = mk_field(op[1])
                r = e.set_field(f)
                d[key] = f
                ok = r is None
            elif n == "setitem":
                v = mk_val(op[2])
                before = d.get(key)
                before_content = (before.key, before.value, before.start_line) if before is not None else None
                e[key] = v
                f = e.fields_dict.get(key)
                ok = f is not None and f.key == key and f.value is v
                d[key] = f
                # d[k] = v rebinds the slot: what an earlier get() / fields handed out (the Field stored before) is a
                # result of an earlier call and must not change retroactively - nor may an entry sharing that Field
                if before is not None and (before.key, before.value, before.start_line) != before_content:
                    return "%s changed the Field object that was stored before (%r -> %r): results handed out earlier change" % (
                        where, before_content, (before.key, before.value, before.start_line))
            elif n == "pop":
                dflt = None if op[2] is None else mk_field(op[2])
                want = d.pop(key, dflt)
                r = e.pop(key, dflt) if dflt is not None else e.pop(key)
                ok = r is want
            elif n == "delitem":
                d.pop(key, None)
                del e[key]
                ok = True
            elif n == "get":
                dflt = None if op[2] is None else mk_field(op[2])
                r = e.get(key, dflt) if dflt is not None else e.get(key)
                ok = r is d.get(key, dflt)
            elif n == "contains":
                ok = (key in e) is (key in d)
            elif n == "getitem":
                if key in d:
                    ok = e[key] is d[key].value
                else:
                    try:
                        e[key]
                        ok = False
                    except KeyError:
                        ok = True
            else:
                raise ValueError(n)
        except Exception as ex:  # noqa
            return "%s raised %s" % (where, type(ex).__name__)
        if not ok:
            return "%s returned something else than a dict subjected to the same calls" % where
        fs = list(e.fields)
        if len(fs) != len(d) or any(x is not y for x, y in zip(fs, d.values())) or [f.key for f in fs] != list(d.keys()):
            return "%s: field order %r, a dict has %r" % (where, [f.key for f in fs], list(d.keys()))
        fd = e.fields_dict
        if list(fd.keys()) != list(d.keys()) or any(x is not y for x, y in zip(fd.values(), d.values())):
            return "%s: fields_dict %r differs from fields %r" % (where, list(fd.keys()), list(d.keys()))
        it = e.items()
        if it != [("ENTRYTYPE", e.entry_type), ("ID", e.key)] + [(f.key, f.value) for f in fs]:
            return "%s: items() does not list the fields in order" % where
    return None


def known_match(finding, case, failure):
    return False


# --------------------------------------------------------------------------------------------------
# generators

KEYS = ["a", "A", "b"]

START = [
    {"c": "entry", "ty": "article", "key": "k", "fields": [], "line": 0, "raw": "@article{k}", "md": []},
    {"c": "entry", "ty": "article", "key": "k", "fields": [["a", "1", 1], ["b", "2", 2]], "line": 0, "raw": "r", "md": []},
    {"c": "entry", "ty": "book", "key": "K2", "fields": [["b", "x", 3], ["a", "y", 4], ["A", 7, 5]], "line": 2, "raw": "r",
     "md": [["m", True]]},
    {"c": "entry", "ty": "misc", "key": "d", "fields": [["a", "1", 1], ["b", "2", 2], ["a", "3", 3]], "line": 0, "raw": "r", "md": []},
]


def _mutators(pos):
    """the mutating calls available at step `pos` (values depend on the step so that replacements show)"""
    out = []
    for k in KEYS:
        out.append(["setitem", k, "v%d" % pos])
        out.append(["setfield", [k, "f%d" % pos, 10 + pos]])
        out.append(["pop", k, None])
        out.append(["delitem", k])
    out.append(["pop", "a", ["dflt", "d", 99]])
    return out


def _observers():
    out = []
    for k in KEYS:
        out.append(["get", k, None])
        out.append(["contains", k])
        out.append(["getitem", k])
    out += [["get", "b", ["dflt", "d", 99]], ["getitem", "ID"], ["getitem", "ENTRYTYPE"], ["contains", "ID"]]
    return out


PARSED = [
    {"c": "entry", "ty": "misc", "key": "reftex", "fields": [], "line": 0, "raw": "@misc{reftex}", "md": [], "src": "@misc{reftex}"},
    {"c": "entry", "ty": "book", "key": "b1", "fields": [], "line": 0, "raw": "@book{b1,}", "md": [], "src": "@book{b1,}"},
    {"c": "entry", "ty": "a", "key": "k", "fields": [["x", "1", 0], ["y", "{2}", 1]], "line": 0, "raw": "@a{k, x = 1,\n y = {2}}", "md": [],
     "src": "@a{k, x = 1,\n y = {2}}"},
]


def corpus():
    e2 = START[1]
    cs = [
        {"k": "ops", "e": START[1], "ops": ops}
        for ops in ([["setitem", "note ", "v"], ["contains", "note "], ["contains", "note"], ["getitem", "note "], ["setitem", " a", 1],
                     ["get", "a", None], ["pop", "note ", None], ["delitem", " a"]],
                    [["setfield", ["a\t", "z", 9]], ["setfield", ["\na", "y", 3]], ["get", "a\t", None], ["pop", "a", None], ["contains", "\na"]])
    ] + [
        {"k": "ops", "e": pe, "ops": ops}
        for pe in PARSED
        for ops in ([["setitem", "note", "v"], ["setfield", ["a", "z", 9]], ["getitem", "note"], ["pop", "note", None], ["contains", "a"]],
                    [["setfield", ["x", "new", 5]], ["delitem", "x"], ["setitem", "x", "again"], ["get", "y", None]])
    ] + [
        {"k": "ops", "e": e2, "ops": [["setitem", "a", "new"], ["setitem", "c", "app"], ["delitem", "a"], ["getitem", "a"]]},
        {"k": "ops", "e": START[2], "ops": [["setfield", ["a", "z", 9]], ["pop", "A", None], ["setitem", "A", 1], ["get", "A", None]]},
        {"k": "ops", "e": START[3], "ops": [["setitem", "a", "n"], ["get", "a", None], ["pop", "a", None], ["contains", "a"]]},
        {"k": "ops", "e": e2, "ops": [["getitem", "ENTRYTYPE"], ["getitem", "ID"], ["setitem", "ID", "x"], ["getitem", "ID"],
                                      ["pop", "ID", None], ["delitem", "nope"], ["pop", "nope", ["q", "r", 1]]]},
        {"k": "eq", "a": START[2], "copy": "copy"},
        {"k": "eq", "a": START[2], "copy": "deepcopy"},
        {"k": "eq", "a": {"c": "expl", "comment": "x", "line": 1, "raw": "@comment{x}", "md": []},
         "b": {"c": "impl", "comment": "x", "line": 1, "raw": "@comment{x}", "md": []}},
        {"k": "eq", "a": {"c": "preamble", "value": "x", "line": 1, "raw": "r", "md": [["p", "1"], ["q", {"d": [["x", "1"], ["y", "2"]]}]]},
         "b": {"c": "preamble", "value": "x", "line": 1, "raw": "r", "md": [["q", {"d": [["y", "2"], ["x", "1"]]}], ["p", "1"]]}},
        # the surviving mutant of Field.__eq__ named in the property: same key and line, other value
        {"k": "feq", "a": ["a", "1", 1], "b": ["a", "2", 1]},
        {"k": "feq", "a": ["a", "1", 1], "b": ["a", 1, 1]},
        {"k": "feq", "a": ["a", {"n": ["x", "y"]}, 1], "copy": "deepcopy"},
        # a field built by hand has start_line None: it differs from a parsed one with the same key and value
        {"k": "feq", "a": ["a", "1", None], "b": ["a", "1", 1]},
        {"k": "feq", "a": ["a", "1", 3], "b": ["a", "1", None]},
        {"k": "feq", "a": ["a", "1", None], "b": ["a", "1", None]},
        {"k": "feq", "a": ["a", "1", None], "b": ["a", "2", None]},
        {"k": "eq", "a": {"c": "entry", "ty": "a", "key": "k", "fields": [["year", "2020", 4]], "line": 1, "raw": "r", "md": []},
         "b": {"c": "entry", "ty": "a", "key": "k", "fields": [["year", "2020", None]], "line": 1, "raw": "r", "md": []}},
        # field keys that are case variants of the reserved names are ordinary keys
        {"k": "ops", "e": {"c": "entry", "ty": "book", "key": "K", "fields": [["id", "x", 1], ["entrytype", "y", 2], ["Id", "z", 3]],
                           "line": 0, "raw": "r", "md": []},
         "ops": [["getitem", "id"], ["getitem", "entrytype"], ["getitem", "Id"], ["getitem", "ID"], ["getitem", "ENTRYTYPE"],
                 ["get", "id", None], ["contains", "id"], ["setitem", "id", "n"], ["getitem", "id"], ["pop", "Id", None], ["getitem", "id"]]},
    ]
    return cs


BIB = """@comment{an explicit comment}
free text before
@string{jan = "January"}
@preamble{"\\newcommand{\\x}{y}"}
@article{Cesar2013,
  author = {Jean César},
  title = "An amazing title",
  year = 2013,
  month = jan,
}
@book{k2, a = {1}, A = {2}}
@string{s2 = {v}}
trailing text
"""


def base_blocks():
    from ..common import raw_split
    out = []
    for b in raw_split(BIB):
        d = desc_block(b)
        if d is not None:
            out.append(d)
    # values of the other modelled types, metadata
    out.append({"c": "entry", "ty": "article", "key": "n", "line": 40, "raw": "@article{n,...}",
                "fields": [["author", {"n": ["A B", "C D"]}, 41], ["editor", {"p": [[["A"], [], ["B"], []], [["C"], ["von"], ["D"], ["jr"]]]}, 42],
                           ["year", 2013, 43]],
                "md": [["removed_enclosing", {"d": [["author", "{"], ["year", "no-enclosing"]]}], ["sorted", True],
                       ["order", {"l": ["x", "y"]}]]})
    out.append({"c": "string", "key": "s", "value": "v", "line": 50, "raw": "@string{s = v}", "md": [["removed_enclosing", "{"]]})
    return out


def _perturb_text(s):
    return [s + "x", s.swapcase() if s.swapcase() != s else s + "X", s[:-1] if s else "y", " " + s]


def _perturb_val(v):
    out = []
    if isinstance(v, str):
        out += _perturb_text(v)
        if v.isdigit():
            out.append(int(v))
        out.append({"n": [v]})
    elif isinstance(v, int):
        out += [v + 1, str(v), -v - 1]
    elif "n" in v:
        out += [{"n": v["n"] + ["z"]}, {"n": list(reversed(v["n"]))}, {"n": v["n"][:-1]}, " and ".join(v["n"])]
    else:
        p = v["p"]
        q = [list(map(list, x)) for x in p]
        q[0][0] = q[0][0] + ["Z"]
        r = [list(map(list, x)) for x in p]
        r[-1][3], r[-1][1] = r[-1][1], r[-1][3]
        out += [{"p": q}, {"p": r}, {"p": p[:-1]}, {"p": list(reversed(p))}]
    return out


def _perturb_md(md):
    out = [md + [["extra", "1"]], md + [["extra", False]]]
    for i, (k, v) in enumerate(md):
        out.append(md[:i] + md[i + 1:])
        out.append(md[:i] + [[k + "x", v]] + md[i + 1:])
        if isinstance(v, bool):
            out.append(md[:i] + [[k, not v]] + md[i + 1:])
            out.append(md[:i] + [[k, "True"]] + md[i + 1:])
        elif isinstance(v, str):
            out.append(md[:i] + [[k, v + "x"]] + md[i + 1:])
        elif "d" in v:
            dd = v["d"]
            out.append(md[:i] + [[k, {"d": list(reversed(dd))}]] + md[i + 1:])          # same mapping
            out.append(md[:i] + [[k, {"d": dd[:-1]}]] + md[i + 1:])
            out.append(md[:i] + [[k, {"d": dd + [["zz", "1"]]}]] + md[i + 1:])
            out.append(md[:i] + [[k, {"d": [[dd[0][0], dd[0][1] + "x"]] + dd[1:]}]] + md[i + 1:])
        else:
            out.append(md[:i] + [[k, {"l": list(reversed(v["l"]))}]] + md[i + 1:])
            out.append(md[:i] + [[k, {"l": v["l"] + ["z"]}]] + md[i + 1:])
    if len(md) > 1:
        out.append(list(reversed(md)))      # same mapping, other insertion order
        out.append(md[1:] + md[:1])
    return out


def perturbations(d):
    """descriptions differing from `d` in exactly one attribute (or only in dict order)"""
    out = []

    def w(**kw):
        x = dict(d)
        x.update(kw)
        out.append(x)

    w()                                     # rebuilt identically
    for l in (d["line"] + 1, d["line"] - 1, 0 if d["line"] else 1):
        w(line=l)
    for r in _perturb_text(d["raw"]):
        w(raw=r)
    # a block built by hand has start_line / raw None: it differs from a parsed one with the same content
    # (None is rendered as line -999 / raw "" in the shared data model; the base blocks have neither)
    w(line=None)
    w(raw=None)
    for m in _perturb_md(d["md"]):
        w(md=m)
    c = d["c"]
    if c in ("entry", "string"):
        for k in _perturb_text(d["key"]):
            w(key=k)
    if c == "entry":
        for t in _perturb_text(d["ty"]):
            w(ty=t)
        fs = d["fields"]
        w(fields=fs + [["new", "v", 1]])
        for i, f in enumerate(fs):
            w(fields=fs[:i] + fs[i + 1:])
            for k in _perturb_text(f[0]):
                w(fields=fs[:i] + [[k, f[1], f[2]]] + fs[i + 1:])
            for v in _perturb_val(f[1]):
                w(fields=fs[:i] + [[f[0], v, f[2]]] + fs[i + 1:])
            w(fields=fs[:i] + [[f[0], f[1], f[2] + 1]] + fs[i + 1:])
            if i + 1 < len(fs):
                w(fields=fs[:i] + [fs[i + 1], f] + fs[i + 2:])      # order only
        if len(fs) > 2:
            w(fields=list(reversed(fs)))
    if c == "string":
        for v in _perturb_val(d["value"]):
            w(value=v)
        out.append({"c": "preamble", "value": d["value"], "line": d["line"], "raw": d["raw"], "md": d["md"]})
    if c == "preamble":
        for v in _perturb_text(d["value"]):
            w(value=v)
        out.append({"c": "expl", "comment": d["value"], "line": d["line"], "raw": d["raw"], "md": d["md"]})
    if c in ("expl", "impl"):
        for v in _perturb_text(d["comment"]):
            w(comment=v)
        w(c="impl" if c == "expl" else "expl")     # class only
        out.append({"c": "preamble", "value": d["comment"], "line": d["line"], "raw": d["raw"], "md": d["md"]})
    return out


def eq_cases():
    base = base_blocks()
    for d in base:
        yield {"k": "eq", "a": d, "copy": "copy"}
        yield {"k": "eq", "a": d, "copy": "deepcopy"}
        # using one of two equal objects read-only (all accessors, repr) must not make them unequal
        for touch in ("a", "b", "ab"):
            yield {"k": "eq", "a": d, "copy": "copy", "touch": touch}
            yield {"k": "eq", "a": d, "copy": "deepcopy", "touch": touch}
            yield {"k": "eq", "a": d, "b": dict(d), "touch": touch}
            e = dict(d, md=[])
            yield {"k": "eq", "a": e, "b": dict(e), "touch": touch}
            yield {"k": "eq", "a": e, "copy": "deepcopy", "touch": touch}
        for p in perturbations(d):
            yield {"k": "eq", "a": d, "b": p}
            yield {"k": "eq", "a": p, "b": d}
        if d["c"] == "entry":
            for f in d["fields"]:
                yield {"k": "feq", "a": f, "copy": "copy"}
                yield {"k": "feq", "a": f, "copy": "deepcopy"}
                yield {"k": "feq", "a": f, "b": list(f)}
                for k in _perturb_text(f[0]):
                    yield {"k": "feq", "a": f, "b": [k, f[1], f[2]]}
                for v in _perturb_val(f[1]):
                    yield {"k": "feq", "a": f, "b": [f[0], v, f[2]]}
                    yield {"k": "feq", "a": [f[0], v, f[2]], "b": f}
                for l in (f[2] + 1, f[2] - 1, 0, None):
                    yield {"k": "feq", "a": f, "b": [f[0], f[1], l]}
    for a, b in itertools.permutations(base, 2):
        yield {"k": "eq", "a": a, "b": b}
    # metadata added to every base block, then perturbed (also order-only changes)
    for d in base:
        if not d["md"]:
            m = dict(d)
            m["md"] = [["k1", "v"], ["k2", {"d": [["a", "{"], ["b", "\""]]}], ["k3", True]]
            for md in _perturb_md(m["md"]):
                x = dict(m)
                x["md"] = md
                yield {"k": "eq", "a": m, "b": x}


def _random_history(rng, base_entries):
    e = dict(rng.choice(base_entries))
    pool = [f[0] for f in e["fields"]] + ["a", "A", "b", "B", "title", "Title", "year", "é", "ID", "ENTRYTYPE", "", "id", "Id", "entrytype"]
    if rng.random() < 0.85:
        pool = [k for k in pool if k not in RESERVED]
    if rng.random() < 0.2 and e["fields"]:
        e["fields"] = e["fields"] + [[e["fields"][0][0], "dup", 77]]      # a duplicated key: outside the statement
    vals = ["v", "", 3, {"n": ["A B"]}, {"p": [[["A"], [], ["B"], []]]}, "{braced}", -1]
    ops = []
    for i in range(rng.randint(1, 30)):
        k = rng.choice(pool)
        r = rng.random()
        if r < 0.22:
            ops.append(["setitem", k, rng.choice(vals) if rng.random() < .5 else "s%d" % i])
        elif r < 0.4:
            ops.append(["setfield", [k, rng.choice(vals) if rng.random() < .5 else "f%d" % i, rng.randint(0, 50)]])
        elif r < 0.55:
            ops.append(["pop", k, None if rng.random() < .6 else ["dflt", "d%d" % i, 99]])
        elif r < 0.67:
            ops.append(["delitem", k])
        elif r < 0.78:
            ops.append(["get", k, None if rng.random() < .6 else ["dflt", "d%d" % i, 99]])
        elif r < 0.88:
            ops.append(["contains", k])
        else:
            ops.append(["getitem", k if rng.random() < .8 else rng.choice(RESERVED)])
    return {"k": "ops", "e": e, "ops": ops}


def gen(tier, rng):
    k = 4 if tier == "quick" else 5
    # every sequence of <= k mutators
    for n in range(1, k + 1):
        for e in START:
            for seq in itertools.product(*[_mutators(i) for i in range(n)]):
                yield {"k": "ops", "e": e, "ops": list(seq)}
    # every sequence of k-1 mutators followed by one observer (thorough: from the two in-scope non-empty starts)
    for e in (START if tier == "quick" else START[1:3]):
        for seq in itertools.product(*[_mutators(i) for i in range(k - 1)]):
            for o in _observers():
                yield {"k": "ops", "e": e, "ops": list(seq) + [o]}
    for c in eq_cases():
        yield c
    base_entries = [d for d in base_blocks() if d["c"] == "entry"] + START
    for _ in range(4000 if tier == "quick" else 40000):
        yield _random_history(rng, base_entries)


def nontrivial(case, out):
    return out not in ("()", "") and not out.startswith("(raise")


def describe(cases, outs):
    kinds = collections.Counter(c["k"] for c in cases)
    ops = collections.Counter()
    lens = collections.Counter()
    keyerr = 0
    eq = collections.Counter()
    in_scope = 0
    for c, o in zip(cases, outs):
        if c["k"] == "ops":
            ops.update(op[0] for op in c["ops"])
            n = len(c["ops"])
            lens["<=2" if n <= 2 else "<=4" if n <= 4 else "5" if n == 5 else "<=15" if n <= 15 else "<=30"] += 1
            keyerr += o.count("(raise KeyError)")
            ks = [f[0] for f in c["e"]["fields"]]
            if len(set(ks)) == len(ks) and not any(x in RESERVED for x in ks):
                in_scope += 1
        else:
            eq[("copy " if "copy" in c else "") + c["k"] + " -> " + o] += 1
    return {"case_kinds": dict(kinds), "calls": dict(ops), "history_length": dict(lens), "KeyError_results": keyerr,
            "histories_from_entries_with_distinct_unreserved_keys": in_scope, "equality_outcomes": dict(eq),
            "raised_outside_a_call": sum(1 for o in outs if o.startswith("(raise"))}
