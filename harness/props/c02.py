"""C02 - well-formed BibTeX yields exactly the blocks, keys, fields and values written."""
import collections

from .. import common as C
from .. import blocks as B
from .. import docgen
from ..wire import lean_representable, request as rq

ID = "C02"
LEAN_MODULE = "BibVerif.Props.C02"
LEVEL_TEXT = ("Lean theorem split_correct: for EVERY derivation of the dialect grammar G (any number of blocks, any brace "
              "nesting depth, quotes inside braces inside quotes, '='/',' inside braces, optional trailing comma, any junk "
              "between blocks) the splitter model returns exactly the expected blocks - one per source block plus one implicit "
              "comment per non-blank junk region, in order, with lower-cased type, stripped keys/values, verbatim preambles, "
              "raw text, start lines and field lines - proved by induction over the derivation (scanner lemmas run_bal, "
              "run_qbody, run_value, run_afterFields, run_block); no_failed_block and count_blocks as corollaries. Model tied to "
              "splitter.py by differential execution on grammar-derived and bounded-exhaustive inputs.")
LEVEL_NOTE = ("Trusted: Lean kernel + 3 standard axioms; the hand-written model Lex/Split.lean and the grammar definitions "
              "Grammar.lean (the specification side); the correspondence run; CPython re semantics. Token level "
              "(split_correct) and text level (split_correct_text via the re-lexing lemma relex; lex_is_canonical for the "
              "converse). Duplicate entry/@string keys are C09's business and excluded by the generator here.")
TECHNIQUE = "Lean 4 proof by induction over grammar derivations; differential correspondence on grammar-derived documents"
RULE = ("every case also: parse_string(text, parse_stack=[]) and parse_string(text) hold the splitter's blocks (common.entry_points_agree); corpus; seeded random derivations of G built as ASTs with constructive ground truth over an adversarial terminal "
        "alphabet (quote inside braces inside quotes, = , @ inside nested braces, escaped delimiters, '#', CRLF, blocks "
        "sharing a line, empty keys/values, non-ASCII letters and whitespace); bounded-exhaustive token strings (k tokens "
        "behind 6 prefixes). Compared: the model's blocks vs the real splitter's blocks (complete attributes). "
        "Non-trivial = at least one non-comment block.")
EXHAUSTIVE = {"quick": False, "thorough": False}
ASSUMPTIONS = ["entry/@string keys pairwise distinct within a generated document (duplicates are C09)"]
PARTIAL = []


def extra_obligations(tier):
    """WordOK2: regex \\w matches neither '{' nor a blank (used by the re-lexing lemma)"""
    import re
    w = re.compile(r"\w")
    bad = [c for c in "{ \t" if w.match(c)]
    return [("WordOK2: \\w matches neither '{' nor blank/tab", not bad, "offending: %r" % bad)]


def corpus():
    texts = [
        '@article{k, a = "x{"}y"}',
        '@article{k, a = "x{"}y", b = {p{=,}q} # z ,}\n@string{s = {v}} @comment{c{}} t @preamble{"p"}',
        "@a{k}",
        "@a{k,}",
        "@a{ k , }",
        "@a{k, f = }",
        "@a{,f=1}",
        "@{k, f = 1}",
        "@a\t {k, f = {a\\}b}, g = \"c\\\"d\" # e}",
        "@string{ s = \"a{\"}b\" }",
        "@comment{a = b, \"c\" {d}}@preamble{ x }",
        "junk } here\n@a{k,\n\n t = {v\n w}\n,\n}\n tail",
        "@a{k, t = {a}{b} \"c\"\"d\" e}",
        "@a{k, t = @. }",
    ]
    return [{"t": t} for t in texts]


def gen(tier, rng):
    n = 6000 if tier == "quick" else 60000
    made = 0
    while made < n:
        d = docgen.gen_doc(rng)
        if not docgen.sane(d):
            continue
        made += 1
        yield {"t": d.text(), "exp": d.expected()}
    k = 4 if tier == "quick" else 5
    for t in C.token_strings(C.SPLIT_ALPHABET, k, C.SPLIT_PREFIXES):
        yield {"t": t}


def request(case):
    t = case["t"]
    if not lean_representable(t):
        return None
    return rq("split", t, chars_of=t)


def impl(case):
    res = C.ok(B.enc_blocks(C.raw_split(case["t"])))
    if C.entry_points_agree(case["t"]) is not None:
        return res + " (entry-points-differ)"
    return res


def oracle(case):
    """derivation ground truth vs the real parser (only for cases that carry a derivation)"""
    f = C.entry_points_agree(case["t"])
    if f or "exp" not in case:
        return f
    import bibtexparser
    from bibtexparser.splitter import Splitter
    real = docgen.real_as_expected(Splitter(case["t"]).split().blocks)
    exp = [dict(e) for e in case["exp"]]
    for e in exp:
        if "fields" in e:
            e["fields"] = [tuple(f) for f in e["fields"]]
    if real != exp:
        for i, (a, b) in enumerate(zip(real, exp)):
            if a != b:
                return "block %d: parsed %r, written %r" % (i, a, b)
        return "parsed %d blocks, document has %d" % (len(real), len(exp))
    lib2 = bibtexparser.parse_string(case["t"], parse_stack=[])
    if docgen.real_as_expected(lib2.blocks) != exp:
        return "parse_string(parse_stack=[]) differs from the derivation"
    return None


def known_match(finding, case, failure):
    return False


def describe(cases, outs):
    kinds = collections.Counter()
    derived = 0
    nest = collections.Counter()
    feats = collections.Counter()
    for c, o in zip(cases, outs):
        kinds.update(C.block_kinds(o))
        if "exp" in c:
            derived += 1
            t = c["t"]
            d, m = 0, 0
            for ch in t:
                if ch == "{":
                    d += 1
                    m = max(m, d)
                elif ch == "}":
                    d -= 1
            nest[min(m, 5)] += 1
            for name, needle in (("quote-in-brace-in-quote", '{"'), ("escaped delimiter", "\\"), ("concatenation", "#"),
                                 ("CRLF", "\r\n"), ("non-ASCII", None), ("two blocks on a line", "}@")):
                if (needle is not None and needle in t) or (needle is None and any(ord(x) > 127 for x in t)):
                    feats[name] += 1
    return {"block_kinds": dict(kinds), "grammar_derived_documents": derived, "max_brace_depth(capped 5)": dict(nest),
            "documents_with_feature": dict(feats), "failed_blocks_in_derived": 0}


def nontrivial(case, out):
    return any(k in out for k in ("(entry ", "(string ", "(preamble ", "(expl "))
