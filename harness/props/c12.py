"""C12 - co-author splitting loses nothing and splits only at top-level ' and '."""
import collections

from .. import common as C
from .. import names_util as U
from .. import blocks as B
from ..wire import Sym, enc, request as rq, lean_representable

ID = "C12"
LEAN_MODULE = "BibVerif.Props.C12"
TECHNIQUE = ("Lean 4 proof: invariant of the six-step machine (a fold over the characters) with a ghost "
             "decomposition pieces/separators; differential correspondence model vs names.py")
RULE = ("multi-line name fields parsed through parse_string with SeparateCoAuthors appended; entries holding the same name field twice; corpus (D7 witnesses, the repo's own co-author test inputs); every string of <= k tokens over "
        "{A, and, AND, And, an, d, space, tab, newline, ~, {, }, \\x, \\ (lone), ','} (k=5 quick: exhaustive for that "
        "alphabet; k=6 thorough); every string of <= 6 (thorough 7) tokens over the coarser alphabet {A, ' and ', space, {, }, "
        "\\{, \\}, '\\ ', \\} (escaped braces inside groups followed by separators); every string of <= 5 tokens over {U+0130, sharp s, fi ligature, A, ' and ', space, lone CR, NBSP, CRLF}; random long author lists (2-40 names, mixed separators, braces, escapes, non-ASCII); "
        "SeparateCoAuthors / MergeCoAuthors on entries with author/editor/translator and other fields, both "
        "allow_inplace_modification settings. Compared: the complete list of pieces (resp. the complete transformed "
        "block). Non-trivial = at least one piece returned.")
LEVEL_TEXT = ("Lean theorems about the model of split_multiple_persons_names, each for EVERY input string (all lengths, "
              "nesting depths, balanced or not): conservation (the stripped input is p0 s1 p1 ... sn pn with the returned "
              "pieces pi and every si of the form ws+ [aA][nN][dD] ws+, so no non-blank character is lost and nothing is "
              "split elsewhere), pieces_contiguous_in_order, pieces_start (pieces are non-empty and start with a non-blank), "
              "idempotent (split(' and '.join(split s)) = split s), and exact_rule: on every input without an unmatched "
              "closing brace (in particular every brace-balanced one) the result equals an independent word-level "
              "reference splitter; the hypothesis is shown necessary (exact_rule_unbalanced_cx). The model is tied to "
              "names.py by differential execution on every run; the reference splitter of the statement is additionally "
              "run against the real function.")
LEVEL_NOTE = ("Trusted: Lean kernel + 3 standard axioms; the hand-written model Names/CoAuthors.lean; the correspondence run "
              "(bounded-exhaustive token strings + random author lists). No Unicode hypotheses: the function only "
              "compares against literal ASCII characters.")
EXHAUSTIVE = {"quick": True, "thorough": True}
ASSUMPTIONS = []
PARTIAL = []

ALPHABET = ["A", "and", "AND", "And", "an", "d", " ", "\t", "\n", "~", "{", "}", "\\x", "\\", ","]
# a second, coarser alphabet whose tokens are whole separators and escaped braces, so that short strings reach
# "escaped brace inside a group, then a separator" (7+ tokens of the fine alphabet)
ALPHABET2 = ["A", " and ", " ", "{", "}", "\\{", "\\}", "\\ ", "\\"]


def corpus():
    texts = [
        "A and \\'Etienne B",          # D7: the escape after ' and ' was dropped
        "A a\\xnd B",                   # D7: 'a\\xnd' was dropped
        "A and \\", "A and\\ B", "A an\\d B", "A and \\{B", "\\ and B", "A\\  and B",
        "X and and B and C",           # K3 (C14) input: three pieces
        "{Marks \\} and Spencer} and Smith, J.", "{Marks \\{ Co} and Smith, J.", "{A \\} and B} and C", "{\\{} and B",
        "A and }B", "}A and B", "A} and B", "{A and B", "A and B{", "A and {B} and C",
        "and", "and and", "and and and", "A and", "and A", " A and and ", "A and and and B",
        "A  and\tB\nand\r\nC", "A aNd B AnD C", "A an and B", "A a and B", "A an d B", "A and~B", "A~and B",
        "A andB", "Aand B", "A, and B,", "{A} and {B}", "A{ and }B", "A \\and B", "A and\\", "",
        "   ", "\t\n", "é and Étienne", "A and B", "A  and B", "A and\u0085B",
    ]
    _names, fields = U.repo_name_corpus()
    cases = [{"t": t} for t in texts + fields]
    cases.append({"kind": "mw", "fields": [["author", {"s": "A and B"}], ["title", {"s": "x and y"}],
                                          ["editor", {"s": " C "}], ["translator", {"s": ""}]],
                  "groups": [["separate"], ["mergeCo"]], "inplace": True})
    cases.append({"kind": "mw", "fields": [["author", {"names": ["A", "B"]}]], "groups": [["separate"]], "inplace": True})
    cases.append({"kind": "mw", "fields": [["author", {"i": 3}]], "groups": [["mergeCo"], ["separate"]], "inplace": False})
    return cases


_WORDS = ["Knuth", "Donald", "E.", "de", "la", "{van der}", "Vall{\\'e}e", "\\'Etienne", "Jr", "and", "AND", "an", "d",
          "{A and B}", "Émile", "müller", "A.~B.", "x,", "\\", "{", "}", "a\\nd", "And,", "中文"]
_SEPS = [" and ", " AND ", "  and\t", "\nand\n", " and ", " And ", " and  ", "\r\nand ", " and", "and ", " an d ", " , "]


def _random_list(rng):
    n = rng.randint(2, 40)
    out = []
    for i in range(n):
        name = " ".join(rng.choice(_WORDS) for _ in range(rng.randint(1, 4)))
        out.append(name)
        if i + 1 < n:
            out.append(rng.choice(_SEPS))
    return rng.choice(["", " ", "\n"]) + "".join(out) + rng.choice(["", " ", "\t\n"])


def _random_mw(rng):
    keys = ["author", "editor", "translator", "title", "Author", "year"]
    fields = []
    for k in rng.sample(keys, rng.randint(1, 5)):
        r = rng.random()
        if r < 0.6:
            v = {"s": "".join(rng.choice(ALPHABET + [" and "]) for _ in range(rng.randint(0, 7)))}
        elif r < 0.85:
            v = {"names": ["".join(rng.choice(ALPHABET) for _ in range(rng.randint(0, 3))) for _ in range(rng.randint(0, 3))]}
        elif r < 0.93:
            v = {"i": rng.randint(0, 9)}
        else:
            v = {"parts": [[["F"], [], ["L"], []]] * rng.randint(0, 2)}
        fields.append([k, v])
    if rng.random() < 0.25:
        # the same name field twice (what a duplicate-field entry holds): each occurrence is split / merged on its own
        fields.append([rng.choice(["author", "editor"]), {"s": "".join(rng.choice(ALPHABET + [" and "]) for _ in range(rng.randint(0, 7)))}])
    groups = rng.choice([[["separate"]], [["mergeCo"]], [["separate"], ["mergeCo"]], [["separate"], ["mergeCo"], ["separate"]],
                         [["mergeCo"], ["separate"]]])
    return {"kind": "mw", "fields": fields, "groups": groups, "inplace": rng.random() < 0.5}


DOC_NAMES = ["A and\n B", "Alice Smith and\n   Bob~Jones", "A\nand B", "A and\r\nB", "{A and\n B} and C", "A\tand\tB", "A", "A and B and\n\nC",
             " A and B ", "A  and  B", "{Simon and Schuster}", "{A and B}", "{A} and {B}", "{{A and B}}"]


def _doc_check(case):
    """through the entry point: parse_string(document, append_middleware=[SeparateCoAuthors()]) - the default stack first
    removes the enclosing of the value, which may run over several lines - gives exactly the pieces of the value's content"""
    import bibtexparser
    from bibtexparser import model as M
    from bibtexparser.middlewares.names import SeparateCoAuthors, split_multiple_persons_names as split
    names = case["names"]
    text = "@a{k,\n author = %s%s%s,\n title = {T}\n}\n" % (case["enc"][0], names, case["enc"][1])
    lib = bibtexparser.parse_string(text, append_middleware=[SeparateCoAuthors()])
    if len(lib.blocks) != 1 or type(lib.blocks[0]) is not M.Entry:
        return "parse_string(%r) gives %r" % (text, [type(b).__name__ for b in lib.blocks])
    got = lib.blocks[0].fields[0].value
    want = split(names)
    if got != want:
        return "parse_string(%r, append_middleware=[SeparateCoAuthors()]): author is %r, the pieces of the content are %r" % (text, got, want)
    return None


def gen(tier, rng):
    k = 5 if tier == "quick" else 6
    for t in C.token_strings(ALPHABET, k):
        yield {"t": t}
    for t in C.token_strings(ALPHABET2, 6 if tier == "quick" else 7):
        yield {"t": t}
    # characters whose case mapping changes the LENGTH of the text (U+0130 lower-cases to two code points, sharp s and
    # the fi ligature upper-case to two letters), a lone CR, whitespace outside BibTeX's set: offsets must not drift
    for t in C.token_strings(["\u0130", "\u00df", "\ufb01", "A", " and ", " ", "\r", "\u00a0", "\r\n"], 5 if tier == "quick" else 6):
        yield {"t": t}
    # the reference splitter of the Lean statement `exact_rule` itself, against the real function
    # (on inputs without an unmatched closing brace, where the theorem says they agree)
    for t in C.token_strings(ALPHABET, 4 if tier == "quick" else 5):
        if U.no_unmatched_close(t):
            yield {"kind": "ref", "t": t}
    for _ in range(3000 if tier == "quick" else 40000):
        yield {"t": _random_list(rng)}
    for _ in range(1500 if tier == "quick" else 15000):
        yield _random_mw(rng)
    for names in DOC_NAMES:
        for e in ("{}", '""'):
            yield {"kind": "doc", "names": names, "enc": e, "t": names}


def request(case):
    if case.get("kind") == "doc":
        return None      # python-only: evaluated on the real code (impl raises when it fails)
    if case.get("kind") == "mw":
        text = "".join(U.value_text(v) for _k, v in case["fields"])
        if not lean_representable(text):
            return None
        block = U.make_entry(case["fields"])
        return rq("namestack", B.enc_block(block), U.groups_sx(case["groups"]), chars_of=text)
    t = case["t"]
    if any(0xD800 <= ord(c) <= 0xDFFF for c in t):
        return None
    if case.get("kind") == "ref":
        return rq("coauthref", t)
    return rq("coauth", t)


def impl(case):
    if case.get("kind") == "doc":
        f = _doc_check(case)
        if f:
            raise AssertionError(f)
        return "(ok doc)"
    if case.get("kind") == "mw":
        return enc(U.run_groups(U.make_entry(case["fields"]), case["groups"], case.get("inplace", True)))
    from bibtexparser.middlewares.names import split_multiple_persons_names
    return C.ok(list(split_multiple_persons_names(case["t"])))


def oracle(case):
    """The property on the real code."""
    from bibtexparser.middlewares.names import split_multiple_persons_names as split
    if case.get("kind") == "mw":
        return _oracle_mw(case)
    if case.get("kind") == "doc":
        return _doc_check(case)
    s = case["t"]
    if case.get("kind") == "ref":
        want = U.ref_split(s)
        got = split(s)
        return None if got == want else "exact separator rule: got %r, the word-level reference splitter gives %r" % (got, want)
    pieces = split(s)
    if not isinstance(pieces, list) or not all(isinstance(p, str) for p in pieces):
        return "result is not a list of str: %r" % (pieces,)
    # the result belongs to the caller: editing it must not change what a later call for the same text returns
    mine = list(pieces)
    pieces.append("edited by the caller")
    pieces.reverse()
    later = split(s)
    if later != mine:
        return "a second call returns %r after the first result %r was edited by the caller (shared result object)" % (later, mine)
    pieces = mine
    c = U.conservation(s, pieces)
    if c:
        return "conservation: %s (pieces %r)" % (c, pieces)
    for p in pieces:
        if p == "" or p[0] in U.CO_WS:
            return "piece %r is empty or starts with whitespace" % p
    again = split(" and ".join(pieces))
    if again != pieces:
        return "idempotence: pieces %r, merged with ' and ' and split again %r" % (pieces, again)
    if U.balanced(s):
        want = U.ref_split(s)
        if want != pieces:
            return "exact separator rule: got %r, the word-level reference splitter gives %r" % (pieces, want)
    return None


def _oracle_mw(case):
    """SeparateCoAuthors touches exactly the str values of author/editor/translator (turning them into
    the split lists); MergeCoAuthors joins lists with ' and '; everything else is untouched."""
    from bibtexparser.middlewares.names import split_multiple_persons_names as split
    entry = U.make_entry(case["fields"])
    vals = [U.dec_value(v) for _k, v in case["fields"]]
    from bibtexparser.library import Library
    for g in case["groups"]:
        for op in g:
            if op not in ("separate", "mergeCo"):
                return None
            expect, raised = [], False
            for (k, _v), val in zip(case["fields"], vals):
                if k in ("author", "editor", "translator"):
                    if op == "separate":
                        if not isinstance(val, str):
                            raised = True
                            break
                        expect.append(split(val))
                    else:
                        if isinstance(val, list):
                            if not all(isinstance(x, str) for x in val):
                                raised = True
                                break
                            expect.append(" and ".join(val))
                        else:
                            expect.append(val)
                else:
                    expect.append(val)
            try:
                (blk,) = U.make_mw(op, case.get("inplace", True)).transform(Library([entry])).blocks
            except (AttributeError, TypeError):
                return None if raised else "middleware %s raised on a well-typed entry" % op
            if raised:
                return None  # the real code may also have tolerated it; nothing to check
            got = [f.value for f in blk.fields]
            if got != expect or [f.key for f in blk.fields] != [k for k, _ in case["fields"]]:
                return "%s: field values %r, expected %r" % (op, got, expect)
            entry, vals = blk, got
    return None


def known_match(finding, case, failure):
    return False


def nontrivial(case, out):
    return out not in ("(ok ())", "()", "")


def describe(cases, outs):
    npieces = collections.Counter()
    lens = collections.Counter()
    kinds = collections.Counter()
    feats = collections.Counter()
    for c, o in zip(cases, outs):
        if c.get("kind") == "mw":
            kinds["middleware"] += 1
            kinds["mw raised" if "(raise" in o else "mw ok"] += 1
            continue
        kinds["statement reference (exact_rule)" if c.get("kind") == "ref" else "function"] += 1
        t = c["t"]
        n = o.count(" s") + (1 if o.startswith("(ok (s") else 0) if o.startswith("(ok") else -1
        npieces[min(n, 6)] += 1
        L = len(t)
        lens["<=4" if L <= 4 else "<=8" if L <= 8 else "<=16" if L <= 16 else "<=64" if L <= 64 else ">64"] += 1
        if "\\" in t:
            feats["has escape"] += 1
        if "{" in t or "}" in t:
            feats["has brace"] += 1
            if not U.balanced(t):
                feats["unbalanced"] += 1
        if any(ord(ch) > 127 for ch in t):
            feats["non-ASCII"] += 1
        if "and" in t.lower():
            feats["contains a-n-d"] += 1
    return {"kinds": dict(kinds), "pieces_per_input(capped 6)": dict(npieces), "input_length": dict(lens),
            "features": dict(feats)}
