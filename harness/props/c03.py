"""C03 - block raw texts tile the source; line numbers are true."""
import collections

from .. import common as C
from ..wire import request, lean_representable
from .. import blocks as B

ID = "C03"
LEAN_MODULE = "BibVerif.Props.C03"
RULE = ("every case also: raw texts, start lines and field lines of what parse_string returns (empty and default stack) are the splitter's (common.entry_points_agree); corpus (incl. documents whose values the default stack rewrites); every string of <= k tokens over { } \" , = NL \\ @a a SP behind 6 block prefixes "
        "(k=4 quick, 5 thorough: exhaustive for that alphabet); every string of <= 4 (thorough 5) tokens over Unicode line boundaries / whitespace that are not the newline mark "
        "(FF, VT, lone CR, NEL, U+2028, FS, NBSP) mixed with newlines, text and blocks; random documents with CRLF, backslash-newline, "
        "several blocks per line, non-ASCII text. Compared: class, start_line, raw, keys, fields with lines, "
        "abort class of every block the splitter hands to Library.add. Non-trivial = at least one block returned.")
LEVEL_TEXT = ("Lean theorems tiling_chars / line_true / field_line_true: for EVERY text the raws of the blocks returned by the "
              "splitter model tile '\\n'+text in order with whitespace-only gaps, every start_line equals the number of "
              "preceding newlines, and every field of every returned entry (live or inside a duplicate-field wrapper) has "
              "its own '=' mark in the token stream, directly preceded by its key tokens and the separating ',', with "
              "field.key the stripped key text and field.line the number of newlines of the input in front of that '=' "
              "(entry_placed: the fields occur in order inside the entry's own token run) - invariants of the splitter "
              "automaton proved by induction over the token list, all lengths and nesting depths at once; the model is "
              "tied to splitter.py by differential execution on every run.")
LEVEL_NOTE = ("Trusted: Lean kernel + 3 standard axioms; the hand-written model Lex/Split.lean; the correspondence run "
              "(bounded-exhaustive token strings + random documents); CPython re semantics for the one mark regex; "
              "\\w does not match newline (checked).")
TECHNIQUE = "Lean 4 proof: automaton invariant by induction over tokens; differential correspondence model vs splitter.py"
EXHAUSTIVE = {"quick": False, "thorough": False}
ASSUMPTIONS = ["regex \\w never matches a newline (WordOK), checked over all code points this run"]
PARTIAL = []


def corpus():
    texts = [
        "@article{a, b, c}",                       # D2: the ',' was dropped
        "@article{a, x = {y@comment{z}",           # D2: the 'y' was dropped
        "@article{a @book{b, x=y}",                # D2: raws overlapped
        "a\\\n@comment{c}",                         # D3: backslash-newline not counted
        "\\\n\\\n@a{k,\\\n x = 1}\n",
        "@a{k, x = \"a{\"}b\"}\n tail",             # D4
        "@comment{a}@comment{b} @a{k}\r\n@string{s = {v}}",
        "  leading\n\n  text \n@a{k,\n  f = {v},\n\n g = 2,}\n trailing  ",
        "@a{k, f = v\n@b{j, g = w}\n",
        "\n" * 50,
        "@a{k,f=1}\n" * 3,
        "@preamble{ \"x\" # y }\n% comment\n@STRING{a = \"b\"}",
        "@a{k, x = {é ü}, y = é}\u0085@comment{ }",
        "@aé\t { k }",
        # values that the default parse stack rewrites (an @string reference, enclosed values): the lines stay true
        "@string{j = {J}}\n@a{k,\n t = {x},\n journal = j,\n y = 1\n}",
        "\n@a{k, a = j, b = \"q\",\n c = j # j,\n d = j}\n\n@string{j = 5}\n@string{j = 6}\n@a{k, e = j}",
        "\ufeff@a{k, f = 1}\n", "\ufeff\n\n@comment{c}", "\u200b @a{k}", "\ufeff",
    ]
    return [{"t": t} for t in texts]


def _random_doc(rng):
    pieces = []
    for _ in range(rng.randint(1, 8)):
        r = rng.random()
        if r < 0.35:
            nf = rng.randint(0, 4)
            fs = []
            for i in range(nf):
                v = rng.choice(["{v}", '"v"', "1", "abc", "{a{b}c}", '"a{"}b"', "{x=,y}", "a # {b}", "{\\}}", "{l1\nl2}", ""])
                fs.append("%sk%d%s=%s%s" % (rng.choice(["", " ", "\n ", "\r\n\t"]), i, rng.choice(["", " ", "\n"]), rng.choice(["", " "]), v))
            pieces.append("@%s{key%s%s%s}" % (rng.choice(["a", "Article", "b_1", ""]), "," if nf or rng.random() < .5 else "",
                                             ",".join(fs), rng.choice(["", ",", "\n", " ,\n"])))
        elif r < 0.5:
            pieces.append("@comment{%s}" % rng.choice(["c", "{n}", "a\nb", " x = y, "]))
        elif r < 0.6:
            pieces.append("@string{%s = %s}" % (rng.choice(["s", "S1"]), rng.choice(["{v}", '"w"', "{a{b}}"])))
        elif r < 0.7:
            pieces.append("@preamble{%s}" % rng.choice(['"p"', " {q} ", "a\nb"]))
        elif r < 0.85:
            pieces.append(rng.choice(["free text", "% c", "a = b, c", "x\\", "\\\"q", "}{", "é ü", "text\\"]))
        else:
            # a broken block
            pieces.append(rng.choice(["@a{k, f = {v", "@a{k f = v}", "@string{s {v}}", "@a{k, f = \"v}", "@comment{x", "@a{k,, f=v}", "@a{k, f = v g = w}"]))
        pieces.append(rng.choice(["\n", "\n\n", " ", "", "\r\n", "\\\n", "\n \t\n"]))
    return "".join(pieces)


def gen(tier, rng):
    k = 4 if tier == "quick" else 5
    for t in C.token_strings(C.SPLIT_ALPHABET, k, C.SPLIT_PREFIXES):
        yield {"t": t}
    for t in C.token_strings(["\\\n", "\r\n", "@a{k}", "@comment{c}", " ", "x", "\n", "@a{k,f=", "}"], 4 if tier == "quick" else 5):
        yield {"t": t}
    # Unicode line boundaries and whitespace that are NOT the newline mark: str.splitlines / str.isspace treat them
    # specially, the splitter's line counter must not (only "\n" counts)
    for t in C.token_strings(["\x0c", "\x0b", "\r", "\x85", "\u2028", "\x1c", "\u00a0", "\n", "x", "@a{k}", "@a{k,\x0cf\u2028=\r1}"],
                             4 if tier == "quick" else 5):
        yield {"t": t}
    for _ in range(3000 if tier == "quick" else 30000):
        yield {"t": _random_doc(rng)}


def request(case):
    t = case["t"]
    if not lean_representable(t):
        return None
    return request_line(t)


def request_line(t):
    from ..wire import request as rq
    return rq("split", t, chars_of=t)


def impl(case):
    res = C.ok(B.enc_blocks(C.raw_split(case["t"])))
    if C.entry_points_agree(case["t"]) is not None:
        return res + " (entry-points-differ)"
    return res


def oracle(case):
    """The property on the real code: raws tile "\\n"+text in order, gaps are whitespace, lines true."""
    from bibtexparser.splitter import Splitter
    from bibtexparser import model as M
    text = case["t"]
    bib = "\n" + text
    blocks = Splitter(text).split().blocks
    cur = 0
    for i, b in enumerate(blocks):
        raw = b.raw
        if raw is None:
            return "block %d has no raw" % i
        p = cur
        while p < len(bib) and bib[p].isspace():
            p += 1
        if not bib.startswith(raw, p) or raw == "":
            return "block %d: raw %r does not follow position %d (next text %r): dropped/duplicated characters" % (
                i, raw[:60], cur, bib[p:p + 40])
        line = bib[:p].count("\n") - 1
        if b.start_line != line:
            return "block %d: start_line %r but raw starts on line %d" % (i, b.start_line, line)
        e = b
        if isinstance(b, M.ParsingFailedBlock) and isinstance(b.ignore_error_block, M.Entry):
            e = b.ignore_error_block
        if isinstance(e, M.Entry) and raw.count("=") == len(e.fields):
            pos = -1
            for f in e.fields:
                pos = raw.index("=", pos + 1)
                want = line + raw[:pos].count("\n")
                if f.start_line != want:
                    return "block %d field %r: start_line %r but its '=' is on line %d" % (i, f.key, f.start_line, want)
        cur = p + len(raw)
    if bib[cur:].strip() != "":
        return "text after the last block is not whitespace: %r" % bib[cur:cur + 60]
    # the same blocks - raw texts, start lines, field lines - are what parse_string hands out (empty and default stack)
    return C.entry_points_agree(text)


def known_match(finding, case, failure):
    return False


def extra_obligations(tier):
    """WordOK: regex \\w does not match a newline - over all code points (only '\\n' matters, but we
    also record that \\w excludes the delimiters, blanks and '@', used by the lexer reading)."""
    import re
    w = re.compile(r"\w")
    bad = [c for c in '\n{}",= \t@\\' if w.match(c)]
    return [("WordOK: \\w matches none of newline { } \" , = blank tab @ backslash", not bad, "offending: %r" % bad)]


def describe(cases, outs):
    kinds = collections.Counter()
    nblocks = collections.Counter()
    lens = collections.Counter()
    for c, o in zip(cases, outs):
        ks = C.block_kinds(o)
        kinds.update(ks)
        nblocks[min(len(ks), 6)] += 1
        n = len(c["t"])
        lens["<=4" if n <= 4 else "<=8" if n <= 8 else "<=16" if n <= 16 else "<=64" if n <= 64 else ">64"] += 1
    return {"block_kinds": dict(kinds), "blocks_per_input(capped 6)": dict(nblocks), "input_length": dict(lens),
            "raised": sum(1 for o in outs if o.startswith("(raise"))}
