"""C16 - block sorting is a stable permutation by (type, key) keeping comments attached."""
import collections
import itertools

from .. import mwcases as W
from ..wire import Sym

ID = "C16"
LEAN_MODULE = "BibVerif.Props.C16"

LEVEL_TEXT = (
    "Lean theorems about the model of SortBlocksByTypeAndKeyMiddleware, for EVERY block list (any length) and every type order: "
    "plain mode - the result is a permutation of the blocks (plain_perm), ordered by (index of the exact class in the order, "
    "unlisted classes last; key) (plain_sorted, rank_spec), ties in source order (plain_stable); comment-preserving mode - "
    "grouping then flattening is the identity (junks_flatten), every group is a run of comments followed by the non-comment "
    "block below it, or the trailing comment run (junk_shape), the groups are permuted as wholes, ordered by (rank of the class "
    "of their last block, key of that block or '') and stably (preserve_perm_groups, preserve_sorted, preserve_stable), so "
    "the output is the concatenation of the input's groups: comments stay directly above their block in the same order "
    "(comment_runs_attached), and is a permutation of the blocks (preserve_perm); the rebuilt Library wraps nothing anew when "
    "entry keys and string keys are unique, as in every Library (library_unchanged_by_rebuild, transform_plain, "
    "transform_preserve); never RuntimeError, ValueError exactly for a non-Block class in the order (never_runtime_error, "
    "order_check). The model is tied to sorting_blocks.py by differential execution on every run.")
LEVEL_NOTE = (
    "Trusted: Lean kernel + 3 standard axioms; the hand-written model lean/BibVerif/SortBlocks.lean (+ MwCommon.lean for "
    "Library(blocks)); the correspondence run; CPython's list.sort is stable and compares (int, str) tuples lexicographically, str "
    "by code point; copy.deepcopy copies values faithfully ('blocks unaltered' is by value; that the INPUT library is not "
    "touched is observed on every case of every run through a flag in the compared answer, not proved). Keys are str. "
    "DuplicateBlockKeyBlock.previous_block is compared as a reference (class, key, line).")
TECHNIQUE = ("Lean 4 proof over an executable model (core mergeSort lemmas: permutation, sortedness, stability; an invariant of "
             "the grouping loop); differential correspondence model vs SortBlocksByTypeAndKeyMiddleware.transform")
RULE = ("corpus (the test suite's library, default order, trailing/leading comment runs, equal keys across types, empty keys, "
        "duplicate keys, tampered keys); exhaustive cross product: every library of <= 3 blocks over a universe of 6 (quick) / 7 "
        "(thorough) blocks x all 326 sub-permutations of the five block types x both comment modes; every library of 4 (thorough: "
        "4-5) blocks over an 11-block universe (empty keys, second string, implicit comments, failed / duplicate-field / "
        "middleware-error blocks; repeated blocks give duplicate-key blocks) x both modes with the type order rotating through "
        "the 326; random libraries of up to 12 blocks with orders that also list failed-block classes, repeat classes, the "
        "abstract Block, a non-Block class; libraries whose keys were changed after construction (rebuild wraps duplicates). "
        "Compared: the complete resulting block list (class, all attributes, fields, metadata) or the exception class. "
        "Non-trivial = the result is not the input order or an exception was raised.")
EXHAUSTIVE = {"quick": True, "thorough": True}
ASSUMPTIONS = [
    "list.sort() is stable and compares the (int, str) sort keys lexicographically, str by code point (CPython; modelled as List.mergeSort)",
    "copy.deepcopy reproduces every block by value; the input library is not touched (oracle, and C07)",
    "block keys are str (a key of another type could make the tuple comparison raise TypeError)",
    "entry keys and string keys of the input library are unique (true of every Library built through add()); for tampered libraries "
    "the model still follows the code (Library(...) wraps the later duplicate), but 'exactly the input blocks' is then not claimed",
]
PARTIAL = [
    "'the input library is unchanged' is not a Lean theorem: the model works on values, where deepcopy is the identity. It is "
    "observed on the real code on every case of every run (the implementation's answer carries an input-unchanged flag that "
    "the model fixes to true) and by the oracle; object identity/aliasing is the subject of C07.",
]

CLASSES = ["String", "Preamble", "Entry", "ImplicitComment", "ExplicitComment"]
EXTRA_CLASSES = ["ParsingFailedBlock", "MiddlewareErrorBlock", "DuplicateBlockKeyBlock", "DuplicateFieldKeyBlock", "Block"]


def _cls(name):
    from bibtexparser import model as M
    if name == "NotBlock":
        return str
    return getattr(M, name)


def default_order():
    from bibtexparser.middlewares import sorting_blocks as sb
    return [c.__name__ for c in sb.DEFAULT_BLOCK_TYPE_ORDER]


# the block universe; `n` makes every block of a library unique (start_line = position)
def _blk(code, n, ln=None):
    """`n` makes the content unique; `ln` is the start_line (default: the position, so ascending)"""
    if ln is None:
        ln = n
    if code == "Ea":
        return ["entry", "article", "a", [["t", "v%d" % n, ln]], ln, "@article{a,...}#%d" % n]
    if code == "Eb":
        return ["entry", "book", "b", [], ln, "@book{b}#%d" % n]
    if code == "E0":
        return ["entry", "misc", "", [["x", "y", ln]], ln, "@misc{,}#%d" % n]
    if code == "EA":
        return ["entry", "misc", "A", [], ln, "@misc{A}#%d" % n]
    if code == "Sa":
        return ["string", "a", "{s%d}" % n, ln, "@string{a = ..}#%d" % n]
    if code == "Sb":
        return ["string", "b", "{s%d}" % n, ln, "@string{b = ..}#%d" % n]
    if code == "P":
        return ["preamble", "p%d" % n, ln, "@preamble{p}#%d" % n]
    if code == "X":
        return ["expl", "c%d" % n, ln, "@comment{c}#%d" % n]
    if code == "I":
        return ["impl", "i%d" % n, ln, "text#%d" % n]
    if code == "F":
        return ["failed", "eof", ln, "@a{broken#%d" % n]
    if code == "DF":
        return ["dupfield", ["x"], ["entry", "article", "a", [["x", "1", ln], ["x", "2", ln]], ln, "dupfield#%d" % n]]
    if code == "MW":
        return ["mwerror", "invalidName", ["entry", "article", "b", [["author", "{", ln]], ln, "mwerror#%d" % n]]
    raise ValueError(code)


U6 = ["Ea", "Eb", "Sa", "P", "X", "F"]
U7 = U6 + ["I"]
U11 = U7 + ["E0", "Sb", "DF", "MW"]


def _lines(mode, i, n):
    """start_line of block i of n: ascending (as after parsing one file), descending or scattered (a library merged
    from several files / built by hand), or all equal"""
    if mode == "rev":
        return 2 * (n - i)
    if mode == "scatter":
        return (7 * i + 3) % (n + 2)
    if mode == "same":
        return 5
    return i


def _lib(codes, lines="pos"):
    return [_blk(c, i, _lines(lines, i, len(codes))) for i, c in enumerate(codes)]


def all_orders():
    for n in range(len(CLASSES) + 1):
        for p in itertools.permutations(CLASSES, n):
            yield list(p)


def _case(order, preserve, codes, label, tamper=None):
    c = {"order": order, "preserve": preserve, "codes": list(codes), "cls": label}
    if tamper:
        c["tamper"] = tamper
    return c


def corpus():
    c = []
    # the library of tests/middleware_tests/test_sorting_blocks.py, in spirit
    suite = ["X", "Sb", "I", "Ea", "P", "X", "X", "Eb", "Sa", "F", "I", "X"]
    for order in ("default", ["Entry", "String"], ["ExplicitComment", "Preamble"], []):
        for p in (True, False):
            c.append(_case(order, p, suite, "corpus"))
    # leading / trailing comment runs, only comments, empty library
    for codes in (["X", "I", "Ea"], ["Ea", "X", "I"], ["X", "I"], [], ["X"], ["I", "X", "Sa", "X", "Ea", "I", "I"]):
        for order in ("default", ["ImplicitComment", "Entry"], ["ExplicitComment"]):
            for p in (True, False):
                c.append(_case(order, p, codes, "corpus"))
    # equal keys across types, empty keys, case of keys, duplicates (second Ea becomes a DuplicateBlockKeyBlock with key 'a')
    for codes in (["Sa", "Ea", "EA", "E0", "Sb", "Eb"], ["Ea", "Sa", "Ea", "Sa", "Ea"], ["Eb", "Ea", "X", "Ea", "DF", "MW", "F"]):
        for order in ("default", ["Entry", "String"], ["DuplicateBlockKeyBlock", "Entry"], ["ParsingFailedBlock", "Entry"],
                      ["Block", "Entry", "Entry", "String"], ["NotBlock"], ["Entry", "NotBlock"]):
            for p in (True, False):
                c.append(_case(order, p, codes, "corpus"))
    # keys changed after the library was built: the rebuilt Library wraps the later duplicate
    for p in (True, False):
        c.append(_case("default", p, ["Eb", "X", "Ea", "Sa", "Sb"], "tampered", tamper=[[0, "a"]]))
        c.append(_case(["String", "Entry"], p, ["Eb", "X", "Ea", "Sa", "Sb"], "tampered", tamper=[[0, "a"], [4, "a"]]))
    return c


def gen(tier, rng):
    orders = list(all_orders())
    uni = U6 if tier == "quick" else U7
    for n in range(4):
        for codes in itertools.product(uni, repeat=n):
            for order in orders:
                yield _case(order, True, codes, "cross")
                yield _case(order, False, codes, "cross")
    k = 0
    for n in ((4,) if tier == "quick" else (4, 5)):
        for codes in itertools.product(U11, repeat=n):
            order = orders[k % len(orders)]
            k += 1
            yield _case(order, True, codes, "rotating")
            yield _case(order, False, codes, "rotating")
    # start lines that are not ascending (ties on (rank, key) must keep LIBRARY order, whatever the line numbers say)
    for lines in ("rev", "scatter", "same"):
        for n in (2, 3):
            for codes in itertools.product(["P", "X", "F", "I", "Ea", "Sa"], repeat=n):
                for order in ("default", ["Preamble"], [], ["ExplicitComment", "ParsingFailedBlock", "Preamble"]):
                    for p in (True, False):
                        c = _case(order, p, codes, "lines")
                        c["lines"] = lines
                        yield c
    pool = U11 + ["EA", "X", "I", "X"]
    allc = CLASSES + EXTRA_CLASSES
    for _ in range(6000 if tier == "quick" else 100000):
        codes = [rng.choice(pool) for _ in range(rng.randint(0, 12))]
        r = rng.random()
        if r < 0.1:
            order = "default"
        elif r < 0.5:
            order = rng.sample(CLASSES, rng.randint(0, 5))
        else:
            order = [rng.choice(allc) for _ in range(rng.randint(0, 7))]
            if rng.random() < 0.05:
                order.insert(rng.randint(0, len(order)), "NotBlock")
        tamper = None
        if codes and rng.random() < 0.1:
            tamper = [[rng.randrange(len(codes)), rng.choice(["a", "b", "", "zz"])] for _ in range(rng.randint(1, 2))]
        c = _case(order, rng.random() < 0.5, codes, "tampered" if tamper else "random", tamper)
        if rng.random() < 0.3:
            c["lines"] = rng.choice(["rev", "scatter", "same"])
        yield c


# ------------------------------------------------------------------------------------------------

def _library(case):
    lib = W.library(_lib(case["codes"], case.get("lines", "pos")))
    for i, k in case.get("tamper") or []:
        b = lib.blocks[i]
        if hasattr(b, "key"):
            b.key = k
    return lib


def _order_names(case):
    return default_order() if case["order"] == "default" else list(case["order"])


def _mw(case):
    from bibtexparser.middlewares.sorting_blocks import SortBlocksByTypeAndKeyMiddleware
    if case["order"] == "default":
        return SortBlocksByTypeAndKeyMiddleware(preserve_comments_on_top=case["preserve"])
    return SortBlocksByTypeAndKeyMiddleware(block_type_order=tuple(_cls(n) for n in case["order"]),
                                            preserve_comments_on_top=case["preserve"])


def request(case):
    from .. import blocks as B
    names = _order_names(case)
    if case.get("tamper"):
        blocks, raw = B.enc_blocks(_library(case).blocks), True     # the library as it is, by value
    else:
        blocks, raw = W.wire_blocks(_lib(case["codes"], case.get("lines", "pos"))), False     # the model builds Library(blocks) itself
    return W.enc([Sym("sortblocks"), [Sym(n) for n in names], bool(case["preserve"]), blocks, raw])


def impl(case):
    lib = _library(case)
    before = (W.enc(W.enc_blocks(lib.blocks)), [id(b) for b in lib.blocks])
    out = _mw(case).transform(lib)
    same = (W.enc(W.enc_blocks(lib.blocks)), [id(b) for b in lib.blocks]) == before and out is not lib
    return W.enc([Sym("ok"), W.enc_blocks(out.blocks), Sym("input-unchanged" if same else "INPUT-CHANGED")])


def nontrivial(case, out):
    if out.startswith("(raise"):
        return True
    return W.enc([Sym("ok"), W.enc_blocks(_library(case).blocks), Sym("input-unchanged")]) != out


# ------------------------------------------------------------------------------------------------
# the property on the real code

def _stable_sort(items, keyfn):
    out = []
    for it in items:
        k = keyfn(it)
        pos = len(out)
        while pos > 0 and k < keyfn(out[pos - 1]):
            pos -= 1
        out.insert(pos, it)
    return out


def oracle(case):
    from bibtexparser import model as M
    names = _order_names(case)
    classes = [_cls(n) for n in names]
    bad_order = any(not (isinstance(c, type) and issubclass(c, M.Block)) for c in classes)
    try:
        mw = _mw(case)
        if bad_order:
            return "an order containing a non-Block class was accepted"
    except ValueError:
        return None if bad_order else "a valid type order %r was rejected with ValueError" % (names,)
    except Exception as e:  # noqa
        return "the constructor raised %s" % type(e).__name__
    lib = _library(case)
    before = [W.enc(W.enc_block(b)) for b in lib.blocks]
    ids_before = [id(b) for b in lib.blocks]
    try:
        out = mw.transform(lib)
    except Exception as e:  # noqa
        return "transform raised %s" % type(e).__name__
    if [W.enc(W.enc_block(b)) for b in lib.blocks] != before or [id(b) for b in lib.blocks] != ids_before:
        return "the input library was changed by transform"
    got = [W.enc(W.enc_block(b)) for b in out.blocks]
    if case.get("tamper"):
        return None if len(got) == len(before) else "number of blocks changed"
    if sorted(got) != sorted(before):
        return "the sorted library does not contain exactly the input blocks (lost, duplicated or altered)"

    def rank(b):
        for i, c in enumerate(classes):
            if type(b) is c:
                return i
        return len(classes)

    def key(b):
        k = getattr(b, "key", "")
        return k

    src = list(lib.blocks)
    tag = {id(b): W.enc(W.enc_block(b)) for b in src}
    if not case["preserve"]:
        keys = [(rank(b), key(b)) for b in out.blocks]
        if any(keys[i + 1] < keys[i] for i in range(len(keys) - 1)):
            return "blocks not ordered by (type rank, key): %r" % (keys,)
        want = [tag[id(b)] for b in _stable_sort(src, lambda b: (rank(b), key(b)))]
        if got != want:
            return "ties are not in original relative order"
        return None
    # comment-preserving mode: comment runs stay glued above the following block
    groups, cur = [], []
    for b in src:
        cur.append(b)
        if not isinstance(b, (M.ExplicitComment, M.ImplicitComment)):
            groups.append(cur)
            cur = []
    if cur:
        groups.append(cur)

    def gkey(g):
        return (rank(g[-1]), key(g[-1]))
    want_groups = _stable_sort(groups, gkey)
    want = [tag[id(b)] for g in want_groups for b in g]
    if got != want:
        # say which clause
        pos = {t: i for i, t in enumerate(got)}
        for g in groups:
            idx = [pos[tag[id(b)]] for b in g]
            if idx != list(range(idx[0], idx[0] + len(idx))):
                return "a comment run was separated from the block below it (or reordered)"
        gk = []
        for t in got:
            for g in groups:
                if tag[id(g[-1])] == t:
                    gk.append(gkey(g))
        if any(gk[i + 1] < gk[i] for i in range(len(gk) - 1)):
            return "groups not ordered by (type rank, key): %r" % (gk,)
        return "groups with equal (type rank, key) are not in original relative order"
    return None


def known_match(finding, case, failure):
    return False


def extra_obligations(tier):
    # list.sort: stable, tuple keys compare lexicographically with str by code point
    xs = [((1, "b"), 0), ((0, "\U00010000"), 1), ((1, "B"), 2), ((0, "￿"), 3), ((1, "b"), 4), ((0, ""), 5)]
    ys = list(xs)
    ys.sort(key=lambda t: t[0])
    want = [((0, ""), 5), ((0, "￿"), 3), ((0, "\U00010000"), 1), ((1, "B"), 2), ((1, "b"), 0), ((1, "b"), 4)]
    res = [("list.sort(key=) is stable and orders (int, str) tuples lexicographically, str by code point (probe)", ys == want, "got %r" % (ys,))]
    # the classes that have a `.key` are exactly Entry, String, DuplicateBlockKeyBlock
    lib = W.library(_lib(U11 + ["Ea"]))
    have = sorted({type(b).__name__ for b in lib.blocks if hasattr(b, "key")})
    res.append(("model: exactly Entry, String and DuplicateBlockKeyBlock have a .key", have == ["DuplicateBlockKeyBlock", "Entry", "String"], "have: %r" % have))
    return res


def describe(cases, outs):
    n = collections.Counter()
    modes = collections.Counter()
    olen = collections.Counter()
    kinds = collections.Counter()
    feats = collections.Counter()
    res = collections.Counter()
    for c, o in zip(cases, outs):
        codes = c["codes"]
        n[min(len(codes), 13)] += 1
        modes["preserve" if c["preserve"] else "plain"] += 1
        olen["default" if c["order"] == "default" else len(c["order"])] += 1
        kinds.update(codes)
        if codes and codes[-1] in ("X", "I"):
            feats["trailing comment run"] += 1
        if codes and codes[0] in ("X", "I"):
            feats["leading comment run"] += 1
        if len(set(codes)) < len(codes):
            feats["repeated block (equal keys / duplicate-key block)"] += 1
        if c.get("tamper"):
            feats["tampered keys"] += 1
        if c["order"] != "default" and any(x in EXTRA_CLASSES or x == "NotBlock" for x in c["order"]):
            feats["order lists a failed-block class / Block / non-Block"] += 1
        res["raised ValueError" if o == "(raise ValueError)" else "raised other" if o.startswith("(raise") else "ok"] += 1
    return {"blocks_per_library": {str(k): v for k, v in sorted(n.items())}, "mode": dict(modes),
            "order_length": {str(k): v for k, v in olen.items()}, "block_universe_usage": dict(kinds), "features": dict(feats),
            "result": dict(res), "class": dict(collections.Counter(c.get("cls", "?") for c in cases))}
