"""C05 - parse -> write -> parse preserves content; written text is a fixpoint."""
import collections
import re

from .. import common as C
from .. import blocks as B
from .. import docgen
from ..wire import Sym, enc, lean_representable, request as rq

ID = "C05"
LEAN_MODULE = "BibVerif.Props.C05"
RULE = ("grammar-derived documents (resolved and unresolved @string references, concatenations, numeric values, nested braces, "
        "multi-line values, comments between blocks, duplicate keys in a minority of documents) x BibtexFormat settings "
        "(indent in '', ' ', TAB, 4 spaces; value_column in 0..40 and 'auto'; trailing_comma; block_separator in '', NL, NLNL, ' NL'). "
        "Compared: the model of the whole default pipeline (splitter, Library.add, ResolveStringReferences, RemoveEnclosing, "
        "AddEnclosing, writer) run parse->write->parse->write vs the real parse_string/write_string: both libraries (complete "
        "attributes incl. metadata) and both texts. Non-trivial = at least one entry with a field.")
LEVEL_TEXT = "under construction"
LEVEL_NOTE = "under construction"
TECHNIQUE = "Lean 4 proof + differential correspondence of the whole default pipeline"
ASSUMPTIONS = []
PARTIAL = []
EXHAUSTIVE = {"quick": False, "thorough": False}

INDENTS = ["", " ", "\t", "    "]
SEPS = ["", "\n", "\n\n", " \n"]


def fmt_of(case):
    from bibtexparser.writer import BibtexFormat
    f = BibtexFormat()
    f.indent = case["indent"]
    f.value_column = case["col"]
    f.block_separator = case["sep"]
    f.trailing_comma = case["tc"]
    return f


def fmt_wire(case):
    col = Sym("auto") if case["col"] == "auto" else case["col"]
    return [Sym("fmt"), case["indent"], col, case["sep"], case["tc"], "% WARNING Parsing failed for the following {n} lines."]


def corpus():
    base = {"indent": "\t", "col": 0, "sep": "\n\n", "tc": False}
    texts = [
        "@article{k, a = \"x{\"}y\", b = {p{=,}q} # z ,}\n@string{s = {v}} @comment{c{}} t @preamble{\"p\"}",
        "@string{s = {v}}\n@a{k, t = s, u = {s}, w = \"s\", x = S, y = s # s, z = 12}",
        "% comment\n@a{k, t = {multi\nline {nested {deep}}}, month = jan}\n\ntrailing text",
        "@a{k, t = {a}}\n@a{k, t = {b}}",                      # duplicate key: written under a warning comment
        "@a{k, t = {v\\}}",                                      # value content ends in a backslash-brace
        "@a{k, t = x@y{z}}",                                     # K2-like inner block start
        "@a{k, f = {}, g = \"\", h = }",
        "@İ{k, f = 1}",
    ]
    out = [dict(base, t=t) for t in texts]
    out.append({"t": texts[1], "indent": "    ", "col": "auto", "sep": " \n", "tc": True})
    out.append({"t": texts[2], "indent": "", "col": 17, "sep": "", "tc": True})
    return out


def gen(tier, rng):
    n = 2500 if tier == "quick" else 40000
    made = 0
    while made < n:
        d = docgen.gen_doc(rng, max_blocks=5, keypool=None if rng.random() < 0.85 else ["k", "s1"],
                           distinct_block_keys=rng.random() < 0.9)
        if not docgen.sane(d):
            continue
        made += 1
        yield {"t": d.text(), "indent": rng.choice(INDENTS), "col": rng.choice(["auto", 0, 1, 5, 12, 20, 40, rng.randint(0, 40)]),
               "sep": rng.choice(SEPS), "tc": rng.random() < 0.5}


def request(case):
    t = case["t"]
    if not lean_representable(t):
        return None
    return rq("roundtrip", fmt_wire(case), t, chars_of=t)


def _rt(case):
    import bibtexparser
    f = fmt_of(case)
    lib1 = bibtexparser.parse_string(case["t"])
    sig1 = B.enc_blocks(lib1.blocks, prev=False)      # rendered before anything else touches the objects
    t1 = bibtexparser.write_string(lib1, bibtex_format=f)
    lib2 = bibtexparser.parse_string(t1)
    sig2 = B.enc_blocks(lib2.blocks, prev=False)
    t2 = bibtexparser.write_string(lib2, bibtex_format=f)
    return lib1, sig1, t1, lib2, sig2, t2


def impl(case):
    lib1, sig1, t1, lib2, sig2, t2 = _rt(case)
    return enc([Sym("ok"), sig1, t1, sig2, t2])


_AT = re.compile(r"@\w*[ \t]*\{")


def wf5(case, lib1):
    """the side conditions of the property's 'well-formed document' (DESIGN §6 C05): no failed block, keys
    distinct, no stripped key / bare value / comment ending in a backslash, entry types that stay \\w when
    lower-cased, no block-start sequence inside a value or comment, no adjacent free-text comments"""
    from bibtexparser import model as M
    prev_impl = False
    for b in lib1.blocks:
        if isinstance(b, M.ParsingFailedBlock):
            return False
        texts = []
        if isinstance(b, M.Entry):
            if not re.fullmatch(r"\w*", b.entry_type):
                return False
            texts = [b.key] + [f.key for f in b.fields] + [f.value for f in b.fields if isinstance(f.value, str)]
            if any(c in b.key or any(c in f.key for f in b.fields) for c in '{}",=@\n'):
                return False
        elif isinstance(b, M.String):
            texts = [b.key, b.value]
            if any(c in b.key for c in '{}",=@\n'):
                return False
        elif isinstance(b, M.Preamble):
            texts = [b.value]
        elif isinstance(b, M.ExplicitComment):
            texts = [b.comment]
        elif isinstance(b, M.ImplicitComment):
            if prev_impl:
                return False
            texts = [b.comment]
        prev_impl = isinstance(b, M.ImplicitComment)
        for t in texts:
            if t.endswith("\\") or _AT.search(t):
                return False
            if not isinstance(b, M.ImplicitComment):
                d = 0
                for i, ch in enumerate(t):
                    if i and t[i - 1] == "\\":
                        continue
                    if ch == "{":
                        d += 1
                    elif ch == "}":
                        d -= 1
                        if d < 0:
                            return False
                if d != 0:
                    return False
    return True


def content(blocks):
    from bibtexparser import model as M
    out = []
    for b in blocks:
        if isinstance(b, M.ParsingFailedBlock):
            out.append(("failed", type(b).__name__))
        elif isinstance(b, M.Entry):
            out.append(("entry", b.entry_type, b.key, [(f.key, f.value) for f in b.fields]))
        elif isinstance(b, M.String):
            out.append(("string", b.key, b.value))
        elif isinstance(b, M.Preamble):
            out.append(("preamble", b.value))
        elif isinstance(b, M.ExplicitComment):
            out.append(("expl", b.comment))
        else:
            out.append(("impl", b.comment))
    return out


def oracle(case):
    lib1, sig1, t1, lib2, sig2, t2 = _rt(case)
    if not wf5(case, lib1):
        return None
    c1, c2 = content(lib1.blocks), content(lib2.blocks)
    if c1 != c2:
        for i, (a, b) in enumerate(zip(c1, c2)):
            if a != b:
                return "content of block %d changed: %r -> %r" % (i, a, b)
        return "block count changed: %d -> %d" % (len(c1), len(c2))
    if t1 != t2:
        return "written text is not a fixpoint: %r vs %r" % (t1[:120], t2[:120])
    return None


def known_match(finding, case, failure):
    return False


def describe(cases, outs):
    kinds = collections.Counter()
    for o in outs:
        kinds.update(C.block_kinds(o[:20000]))
    return {"block_kinds_in_results": dict(kinds),
            "value_column": dict(collections.Counter(str(c["col"]) for c in cases)),
            "separators": dict(collections.Counter(repr(c["sep"]) for c in cases)),
            "indent": dict(collections.Counter(repr(c["indent"]) for c in cases)),
            "trailing_comma": dict(collections.Counter(c["tc"] for c in cases))}


def nontrivial(case, out):
    return "(f s" in out
