"""C05 - parse -> write -> parse preserves content; written text is a fixpoint."""
import collections
import re

from .. import common as C
from .. import blocks as B
from .. import docgen
from ..wire import Sym, enc, lean_representable, request as rq

ID = "C05"
LEAN_MODULE = "BibVerif.Props.C05"
RULE = ("documents well formed by construction (keys equal up to case, empty @comment between free-text comments, empty values, blanks before the brace); grammar-derived documents (resolved and unresolved @string references, chains of @string aliases, whitespace directly inside the enclosing (also after a backslash), digit-only values with leading zeros / non-ASCII digits in and outside the numeric fields, concatenations, numeric values, nested braces, "
        "multi-line values, comments between blocks, duplicate keys in a minority of documents) x BibtexFormat settings "
        "(indent in '', ' ', TAB, 4 spaces; value_column in 0..40 and 'auto'; trailing_comma; block_separator in '', NL, NLNL, ' NL'). "
        "Compared: the model of the whole default pipeline (splitter, Library.add, ResolveStringReferences, RemoveEnclosing, "
        "AddEnclosing, writer) run parse->write->parse->write vs the real parse_string/write_string: both libraries (complete "
        "attributes incl. metadata) and both texts. Non-trivial = at least one entry with a field.")
LEVEL_TEXT = ("Lean theorems (Props/C05.lean), for EVERY library / text, EVERY BibtexFormat whose indent is blanks/tabs and whose "
              "separator is blanks/tabs/newlines (any value_column incl. 'auto', any trailing_comma) and EVERY character table "
              "satisfying the per-character facts PrintOK: (1) written_text: the default write stack prints a writable library L "
              "(entries, @strings, @preambles, explicit and free-text comments; values of any brace-nesting depth, including "
              "concatenation-shaped values whose content is not brace-balanced such as 'A} # {B' from {A} # {B}, 'a}{b', "
              "'a} # \"b\" # {c') as render(L); (2) print_parse: parse_string of that text returns the same sequence of blocks "
              "with the same types, keys, field order, values and comment/preamble/@string content; (3) reparsed_writable + "
              "fixpoint: that library is writable again and write_string of it reproduces the text byte for byte; "
              "write_content_only; (4) parsed_writable: EVERY library parse_string returns has stripped keys, pairwise distinct "
              "live keys and field keys, string values and no two adjacent free-text comments (splitter + pipeline invariants), so "
              "if its blocks pass the content side conditions SideOK it is writable; (5) content_preserved: for such a document the "
              "whole parse->write->parse->write round trip succeeds with equal contents and equal texts; (6) "
              "content_preserved_grammar (= content_preserved_grammar_full, the property at the level of the dialect grammar): the same "
              "conclusion from the SOURCE document alone - for every derivation d of the dialect grammar (DESIGN section 5) with the "
              "side conditions Doc.WF5, whose tokens are canonical (= what the lexer produces) and spell the text s: parse_string(s) "
              "passes SideOK (parsed_grammar_sideOK), so the round trip of s succeeds with equal contents and equal texts; @string "
              "references are resolved on the way (the referenced value is a Value again); keys may contain escaped delimiters, "
              "backslashes, non-block-start '@' and newlines. "
              "Proof of (1)-(5): the written text is "
              "lexed block by block into a derivation of the dialect grammar (a field value {v} is a Value, an @string value {v} a "
              "Bal), C02's split_correct gives the blocks, Library.add is the identity on distinct keys, string resolution skips "
              "brace-enclosed values, RemoveEnclosing strips exactly the added pair. Proof of (6): C02's split_correct gives the blocks of s as stripped "
              "sub-texts of the token list; stripping white space off a canonical token sequence leaves a token sequence of the same "
              "grammar class (trim_lex); the three shapes of a stripped Value ({w}, \"w\", bare or concatenated) each yield a "
              "ValueOK content; the resolved value of a reference is the (Value) source of the @string. The models of the six modules are tied to "
              "/repo by differential execution of the full round trip on every run.")
LEVEL_NOTE = ("Trusted: Lean kernel + 3 standard axioms; the hand-written models (Lex, Split, Interpolate incl. its Library.add fold, "
              "Enclosing, Writer, Pipeline); the correspondence run; the PrintOK facts about CPython's \\w / isspace / lower, each "
              "checked over all 1,114,112 code points on every run. SideOK (Lemmas/ParsedWritable.lean) is the content part of the "
              "property's 'well-formed document'; the oracle's wf5 evaluates the same conditions on the real code, slightly more "
              "liberally: no failed block; entry types are \\w words fixed by lower(); entry/field/@string keys are KeyOK "
              "(Lemmas/KeyOK.lean; wf5's _key_ok is the same condition): the tokens of the key are text / newline tokens only, i.e. "
              "every delimiter { } \" , = in the key is escaped by a preceding backslash and there is no block-start sequence "
              "@\\w*[ \\t]*{, and the key does not end in a backslash - backslashes, escaped delimiters, any other '@' and newlines "
              "are fine (KeyText = no newline = one text token, and SimpleText are the special cases keyOK_of_keyText', "
              "keyText_of_simpleText); an entry field "
              "value v is ValueOK: the tokens of the ENCLOSED text {v} form a Value of the grammar (bare text, brace groups, quoted "
              "pieces; no top-level comma / equals sign, no block start) and v does not end in a backslash - the content itself "
              "need not be balanced; an @string value v is StrValOK: the tokens of {v} are brace-balanced, no trailing backslash; "
              "preambles and explicit comments (written without added braces) are TextOK: their own tokens are brace-balanced, no "
              "trailing backslash; free-text comments contain no block-start sequence @\\w*[ \\t]*{ (noStart; any other '@', "
              "e.g. a mail address, is fine - wf5 additionally excludes a trailing backslash there, the theorems do not need "
              "that). Documents outside SideOK but inside wf5 are exercised by the correspondence run and the oracle only. "
              "Doc.WF5 (Props/C05.lean), the hypothesis of the grammar-level theorem, on the source derivation: Doc.WF of C02, "
              "field keys distinct within an entry, entry keys and @string keys pairwise distinct, entry types \\w words after "
              "lower(), no stripped key / explicit comment ending in a backslash, no value CONTENT (stripped, one enclosing layer "
              "removed) ending in a backslash, @string values are Values of the grammar (not just brace-balanced). The last two "
              "conditions correct the WF5 of DESIGN, which is false without them in model and real code alike (both in the corpus): "
              "'@string{s = {a}, {b}}' + '@a{k, t = s}' - a Bal that is no Value, the entry is written as 't = {a}, {b}' and comes back "
              "as a ParsingFailedBlock; '@a{k, t = \"a\"b\\\"}' - the stripped source value ends in a quote, its content a\"b\\ in a "
              "backslash, the writer's closing brace is escaped and the block does not parse back. Outside WF5 but round-tripping "
              "correctly in the real code (corpus; not covered by the theorems): a value like '{a}b\\}' whose content ends in a "
              "backslash. LowerOK: three facts about str.lower, checked over all code points; the model lower-cases character by "
              "character.")
TECHNIQUE = "Lean 4 proof + differential correspondence of the whole default pipeline"
ASSUMPTIONS = ["PrintOK (per-character facts about \\w, str.isspace, str.lower; checked over all code points this run); "
               "LowerOK (lower() is idempotent per character, keeps \\w characters free of white space, fixes blank and tab; same "
               "check) for content_preserved_grammar only",
               "FormatOK: indent consists of blanks/tabs, block_separator of blanks/tabs/newlines",
               "Writable L resp. SideOK for the parsed library (see LEVEL_NOTE); EncVal / EncBal / CleanVal are the lexical "
               "conditions on field values / @string values / preambles and comments, KeyOK the one on keys",
               "content_preserved_grammar: Doc.WF5 d, Canon (tokens of d are the lexer's), s spelled by d (see LEVEL_NOTE)"]
PARTIAL = []
EXHAUSTIVE = {"quick": False, "thorough": False}

INDENTS = ["", " ", "\t", "    "]
SEPS = ["", "\n", "\n\n", " \n"]


def fmt_of(case):
    from bibtexparser.writer import BibtexFormat
    f = BibtexFormat()
    f.indent = case["indent"]
    f.value_column = case["col"]
    f.block_separator = case["sep"]
    f.trailing_comma = case["tc"]
    return f


def fmt_wire(case):
    col = Sym("auto") if case["col"] == "auto" else case["col"]
    return [Sym("fmt"), case["indent"], col, case["sep"], case["tc"], "% WARNING Parsing failed for the following {n} lines."]


def corpus():
    base = {"indent": "\t", "col": 0, "sep": "\n\n", "tc": False}
    texts = [
        "@article{k, a = \"x{\"}y\", b = {p{=,}q} # z ,}\n@string{s = {v}} @comment{c{}} t @preamble{\"p\"}",
        "@string{s = {v}}\n@a{k, t = s, u = {s}, w = \"s\", x = S, y = s # s, z = 12}",
        "% comment\n@a{k, t = {multi\nline {nested {deep}}}, month = jan}\n\ntrailing text",
        "@a{k, t = {a}}\n@a{k, t = {b}}",                      # duplicate key: written under a warning comment
        "@a{k, t = {v\\}}",                                      # value content ends in a backslash-brace
        "@a{k, t = x@y{z}}",                                     # K2-like inner block start
        "@a{k, f = {}, g = \"\", h = }",
        "@İ{k, f = 1}",
    ]
    texts += [
        # chains of @string aliases: resolution goes one level, so the parsed value is itself a macro name
        "@string{acm = \"ACM Press\"}\n@string{pub = acm}\n@a{k, publisher = pub, t = {x}}",
        "@string{a = {x{y}z}}@string{b = a}@string{c = b}\n@a{k, f = c, g = b, h = a}",
        "@a{k, f = b}\n@string{b = a}\n@string{a = 12}",
    ]
    out = [dict(base, t=t) for t in texts]
    # documents that are well formed BY CONSTRUCTION (keys different as written - also ones equal up to case; an empty
    # @comment between two free-text comments; empty values; blanks before the brace): if the parsed library is not
    # re-printable, parsing (or a middleware of the default stack) changed them
    for t in ("% group bibliography\n\n@string{lncs = \"LNCS\"}\n\n@article{Knuth84,\n a = \"x\",\n y = 1984\n}\n\n@book{knuth84,\n a = {y},\n s = lncs,\n}\n"
              "\n@string{LNCS = {other}}\n\n@string{S = {1}}\n\n@string{s = {2}}\n",
              "text one\n\n@comment{}\n\ntext two\n\n@a{k, f = {v}}\n\n@comment{ }\n\ntext three",
              "@a{k1, f = {}}\n@comment{}\n@preamble{}\n@string{e = {}}\n@a{k2,}",
              "@Article {K, F = {v}}\n@STRING {k = {w}}\n@a{k, f = k}",
              "text a\n\n\n\n\ntext b\n\n\n\n\n\n\ntext c\n\n@a{k, f = {v}}\n\nlast\n\n\n\nwords",
              "@a{Andre\u03012001, t = {x}}\n\n@a{Andr\u00e92001, t = {y}}\n\n@string{e\u0301 = {1}}\n\n@string{\u00e9 = {2}}\n\n@a{\ufb01, t = {z}}\n\n@a{fi, t = {w}}"):
        for f in (base, {"indent": "", "col": "auto", "sep": "", "tc": True}):
            out.append(dict(f, t=t, wfsrc=True))
    out.append({"t": texts[1], "indent": "    ", "col": "auto", "sep": " \n", "tc": True})
    out.append({"t": texts[2], "indent": "", "col": 17, "sep": "", "tc": True})
    # the non-vacuity example of Props/C05.lean (exLib written with exFormat) and its edge shapes:
    # empty entry key, zero fields with trailing comma, separator with blanks, free-text comment with delimiters
    ex = ("@article{k1,\n  title                = {x{y{z}}},\n  averyveryverylongkey = {2020},\n}\n\n \n@string{s = {v}}\n\n \n"
          "free text, with = and {\n\n \n@book{,\n  t                    = {w},\n}\n\n \n@preamble{x{y{z}}}\n\n \n@comment{2020}\n")
    out.append({"t": ex, "indent": "  ", "col": "auto", "sep": "\n \n", "tc": True})
    out.append({"t": ex, "indent": "", "col": 3, "sep": "", "tc": False})
    out.append({"t": "@a{,}\n@b{k,\n}\nx\n@string{s = {}}", "indent": "\t", "col": "auto", "sep": " \t\n", "tc": True})
    # concatenation-shaped values whose content (one layer stripped) is not brace-balanced: EncVal / EncBal
    cc = ('@string{j = {a} # {b}}\n@a{k, title = {A} # {B}, adj = {a}{b}, mix = {a} # "b" # {c}, q = "x{"}y" # {z}, r = {p} # j}\n'
          '@string{jj = {a}{b}}')
    out.append(dict(base, t=cc))
    out.append({"t": cc, "indent": "  ", "col": "auto", "sep": "\n \n", "tc": True})
    # keys with escaped delimiters, a backslash in the middle, a non-block-start '@' (KeyText)
    out.append(dict(base, t="@a{k\\,1@x, a\\=b@c = {v}, d\\{e\\} = 1, f\\g = {h}}\n@string{s\\\"t = {w}}"))
    out.append({"t": "@a{k\\,1@x, a\\=b@c = {v}, d\\{e\\} = 1}", "indent": "", "col": "auto", "sep": "", "tc": True})
    # the non-vacuity document of content_preserved_grammar (Lemmas/GrammarExample.lean: gText / gDoc)
    out.append(dict(base, t='@string{s = {x}}\n@a{k, t = {A} # {B}, u = "q", w = s}'))
    # counterexample to the grammar-level statement as DESIGN had it: an @string value that is a Bal but no Value
    # (comma at depth 0); through the reference the entry is written as text that does not parse back.  wf5 rejects it
    # (the parsed field value `a}, {b` is no ValueOK), the theorem's Doc.OK5 asks @string values to be Values.
    out.append(dict(base, t="@string{s = {a}, {b}}\n@a{k, t = s}"))
    out.append(dict(base, t="@string{s = {a} = {b}}\n@string{r = x, y}\n@a{k, t = {v}}"))
    # second counterexample to DESIGN's WF5: the stripped source value ends in a quote, its content in a backslash
    out.append(dict(base, t='@a{k, t = "a"b\\"}'))
    out.append(dict(base, t='@string{s = "a"b\\"}\n@a{k, t = {v}}'))
    # newline inside keys (KeyOK); a value that starts with '{' and ends in an escaped '\}' (content ends in a
    # backslash: outside WF5, round-trips all the same)
    out.append(dict(base, t="@a{k\nk, t\nu = {a}, w\\,\nx = 1}\n@string{s\nt = {w}}"))
    out.append({"t": "@a{k\nk, t\nu = {a}, long\n\nkey = {b}}", "indent": "  ", "col": "auto", "sep": "\n \n", "tc": True})
    out.append(dict(base, t="@a{j, t = {a}b\\}}"))
    # free-text comments with '@' that is not a block start (noStart)
    out.append(dict(base, t="% maintained by a@b.org, see @ home @x y\n@a{k, t = {v}}\nmail c@d.org @\n@string{s = {w}}\ntail @"))
    return out


def _alias_doc(rng):
    """@string aliases of aliases: after the (one-level) resolution a field holds a bare macro name"""
    names = rng.sample(["acm", "pub", "p2", "jx", "S"], 4)
    base = rng.choice(['"ACM Press"', "{x{y}z}", "12", '"a b"', "{}"])
    defs = ["@string{%s = %s}" % (names[0], base), "@string{%s = %s}" % (names[1], names[0])]
    if rng.random() < 0.5:
        defs.append("@string{%s = %s}" % (names[2], names[1]))
    refs = [rng.choice(names[:len(defs)]) for _ in range(rng.randint(1, 3))]
    ent = "@a{k%d, %s}" % (rng.randint(0, 9), ", ".join("f%d = %s" % (i, r) for i, r in enumerate(refs)))
    parts = defs + [ent]
    if rng.random() < 0.3:
        rng.shuffle(parts)
    return rng.choice(["\n", " ", "\n\n"]).join(parts)


def _numeric_doc(rng):
    """digit-only values (leading zeros, non-ASCII decimal digits, superscripts) in and outside the fields the
    enclosing middleware treats as potentially numeric, bare / braced / quoted"""
    keys = ["year", "month", "volume", "number", "pages", "edition", "chapter", "issue", "Year", "title", "eid"]
    vals = ["007", "03", "0", "2020", "\u0662\u0660\u0662\u0662", "\u00b2", "1\u0663", "12a", "1-2", "-5"]
    fs = []
    for k in rng.sample(keys, rng.randint(1, 4)):
        v = rng.choice(vals)
        fs.append("%s = %s" % (k, rng.choice(["%s", "{%s}", '"%s"']) % v))
    return "@a{k%d, %s}" % (rng.randint(0, 9), ", ".join(fs))


def _inner_ws_doc(rng):
    """whitespace directly inside the enclosing, also after a backslash (`Vol.\\ `): it is part of the content"""
    inner = ["Vol.\\ ", " x ", "\n  text\n", "a\\\n", "\t", " {x} ", "Proc.\\ \t", "a \\ b ", ""]
    fs = []
    for i in range(rng.randint(1, 3)):
        v = rng.choice(inner)
        fs.append("f%d = %s" % (i, rng.choice(["{%s}", '"%s"']) % v))
    pre = "@string{procs = %s}\n" % (rng.choice(["{%s}", '"%s"']) % rng.choice(inner)) if rng.random() < 0.5 else ""
    ref = ", g = procs" if pre and rng.random() < 0.7 else ""
    return pre + "@a{k%d, %s%s}" % (rng.randint(0, 9), ", ".join(fs), ref)


def _src_values(text):
    """the enclosed source values `= {...}` / `= "..."` of the hand-built families above (flat: no nested delimiter of
    the same kind inside), read off the SOURCE text - independent of what the parser makes of them"""
    return [m.group(1) if m.group(1) is not None else m.group(2)
            for m in re.finditer(r'=\s*(?:\{((?:[^{}]|\{[^{}]*\})*)\}|"([^"]*)")\s*(?=[,}])', text)]


def _content_reprintable(v):
    """the content of a source value can be written between braces again: it does not end in an (unescaped) backslash"""
    n = len(v) - len(v.rstrip("\\"))
    return n % 2 == 0


def gen(tier, rng):
    for _ in range(80 if tier == "quick" else 800):
        yield {"t": _inner_ws_doc(rng), "indent": rng.choice(INDENTS), "col": rng.choice(["auto", 0, 9]),
               "sep": rng.choice(SEPS), "tc": rng.random() < 0.5, "flat": True}
    for _ in range(80 if tier == "quick" else 800):
        yield {"t": _numeric_doc(rng), "indent": rng.choice(INDENTS), "col": rng.choice(["auto", 0, 9]),
               "sep": rng.choice(SEPS), "tc": rng.random() < 0.5}
    for _ in range(60 if tier == "quick" else 600):
        yield {"t": _alias_doc(rng), "indent": rng.choice(INDENTS), "col": rng.choice(["auto", 0, 7, 20]),
               "sep": rng.choice(SEPS), "tc": rng.random() < 0.5}
    n = 2500 if tier == "quick" else 40000
    made = 0
    while made < n:
        d = docgen.gen_doc(rng, max_blocks=5, keypool=None if rng.random() < 0.85 else ["k", "s1"],
                           distinct_block_keys=rng.random() < 0.9)
        if not docgen.sane(d):
            continue
        made += 1
        yield {"t": d.text(), "indent": rng.choice(INDENTS), "col": rng.choice(["auto", 0, 1, 5, 12, 20, 40, rng.randint(0, 40)]),
               "sep": rng.choice(SEPS), "tc": rng.random() < 0.5}


def request(case):
    t = case["t"]
    if not lean_representable(t):
        return None
    return rq("roundtrip", fmt_wire(case), t, chars_of=t)


def _rt(case):
    import bibtexparser
    f = fmt_of(case)
    lib1 = bibtexparser.parse_string(case["t"])
    sig1 = B.enc_blocks(lib1.blocks, prev=False)      # rendered before anything else touches the objects
    t1 = bibtexparser.write_string(lib1, bibtex_format=f)
    lib2 = bibtexparser.parse_string(t1)
    sig2 = B.enc_blocks(lib2.blocks, prev=False)
    t2 = bibtexparser.write_string(lib2, bibtex_format=f)
    return lib1, sig1, t1, lib2, sig2, t2


def impl(case):
    lib1, sig1, t1, lib2, sig2, t2 = _rt(case)
    return enc([Sym("ok"), sig1, t1, sig2, t2])


_AT = re.compile(r"@\w*[ \t]*\{")


def _balanced(t):
    """brace-balanced, counting braces that are not preceded by a backslash (Bal of the grammar)"""
    d = 0
    for i, ch in enumerate(t):
        if i and t[i - 1] == "\\":
            continue
        if ch == "{":
            d += 1
        elif ch == "}":
            d -= 1
            if d < 0:
                return False
    return d == 0


def _key_ok(k):
    """KeyOK (Lemmas/KeyOK.lean): every delimiter in the key other than a newline is escaped by a preceding backslash,
    no block-start sequence, no trailing backslash"""
    if k.endswith("\\") or _AT.search(k):
        return False
    return all(ch not in '{}",=' or (i > 0 and k[i - 1] == "\\") for i, ch in enumerate(k))


def _value_ok(t):
    """`t` is a Value of the dialect grammar (DESIGN section 5): bare text, brace groups `{Bal}` and quoted pieces
    `"QBody"` (braces balance inside quotes, a quote inside braces is ordinary); no top-level ',' or '='"""
    q, c, qc = False, 0, 0
    for i, ch in enumerate(t):
        if i and t[i - 1] == "\\":
            continue
        if ch == '"':
            if c == 0 and qc == 0:
                q = not q
        elif ch == "{":
            if q:
                qc += 1
            else:
                c += 1
        elif ch == "}":
            if q:
                if qc == 0:
                    return False
                qc -= 1
            else:
                if c == 0:
                    return False
                c -= 1
        elif ch in ",=" and not q and c == 0:
            return False
    return not q and c == 0 and qc == 0


def wf5(case, lib1):
    """the side conditions of the property's 'well-formed document' (DESIGN §6 C05): no failed block, keys
    distinct, no stripped key / value / comment ending in a backslash, entry types that stay \\w when
    lower-cased, no block-start sequence inside a value or comment, no adjacent free-text comments.
    Entry field values and @string values are written between braces, so it is the ENCLOSED text {v} that has to
    be a Value (resp. brace-balanced): the content of `{A} # {B}` is `A} # {B` and is fine.  Preambles and explicit
    comments are written as they are and must be balanced themselves.  (Lean: SideOK = ValueOK / StrValOK / TextOK.)"""
    from bibtexparser import model as M
    prev_impl = False
    for b in lib1.blocks:
        if isinstance(b, M.ParsingFailedBlock):
            return False
        texts, bal, values, svalues = [], [], [], []
        if isinstance(b, M.Entry):
            if not re.fullmatch(r"\w*", b.entry_type):
                return False
            values = [f.value for f in b.fields if isinstance(f.value, str)]
            texts = [b.key] + [f.key for f in b.fields] + values
            bal = [b.key] + [f.key for f in b.fields]
            if not all(_key_ok(k) for k in bal):
                return False
            bal = []
        elif isinstance(b, M.String):
            texts = [b.key, b.value]
            bal = [b.key]
            svalues = [b.value]
            if not _key_ok(b.key):
                return False
            bal = []
        elif isinstance(b, M.Preamble):
            texts = bal = [b.value]
        elif isinstance(b, M.ExplicitComment):
            texts = bal = [b.comment]
        elif isinstance(b, M.ImplicitComment):
            if prev_impl:
                return False
            texts = [b.comment]
        prev_impl = isinstance(b, M.ImplicitComment)
        for t in texts:
            if t.endswith("\\") or _AT.search(t):
                return False
        if not all(_balanced(t) for t in bal):
            return False
        if not all(_value_ok("{" + v + "}") for v in values):
            return False
        if not all(_balanced("{" + v + "}") for v in svalues):
            return False
    return True


def content(blocks):
    from bibtexparser import model as M
    out = []
    for b in blocks:
        if isinstance(b, M.ParsingFailedBlock):
            out.append(("failed", type(b).__name__))
        elif isinstance(b, M.Entry):
            out.append(("entry", b.entry_type, b.key, [(f.key, f.value) for f in b.fields]))
        elif isinstance(b, M.String):
            out.append(("string", b.key, b.value))
        elif isinstance(b, M.Preamble):
            out.append(("preamble", b.value))
        elif isinstance(b, M.ExplicitComment):
            out.append(("expl", b.comment))
        else:
            out.append(("impl", b.comment))
    return out


def oracle(case):
    lib1, sig1, t1, lib2, sig2, t2 = _rt(case)
    if not wf5(case, lib1):
        if case.get("wfsrc"):
            return ("the document is well formed by construction, but the library parsed from it is not one the property speaks "
                    "about (a failed block, adjacent free-text comments, ...): blocks %r" % [type(b).__name__ for b in lib1.blocks])
        if case.get("flat"):
            # a hand-built document with flat enclosed values: whether it is well formed is read off the SOURCE. If every
            # source value can be written between braces again but the parsed library cannot, parsing changed a value
            vals = _src_values(case["t"])
            if vals and all(_content_reprintable(v) for v in vals):
                got = [f.value for b in lib1.blocks if hasattr(b, "fields") for f in b.fields]
                return ("the document is well formed (source values %r) but the parsed library is not re-printable: "
                        "parsing turned the values into %r" % (vals, got))
        return None
    c1, c2 = content(lib1.blocks), content(lib2.blocks)
    if c1 != c2:
        for i, (a, b) in enumerate(zip(c1, c2)):
            if a != b:
                return "content of block %d changed: %r -> %r" % (i, a, b)
        return "block count changed: %d -> %d" % (len(c1), len(c2))
    if t1 != t2:
        return "written text is not a fixpoint: %r vs %r" % (t1[:120], t2[:120])
    return None


def known_match(finding, case, failure):
    return False


def extra_obligations(tier):
    """PrintOK (Lemmas/PrintParseDefs.lean) and LowerOK (Lemmas/GrammarType.lean, used by the grammar-level theorem only):
    every field is a per-character statement; each is evaluated on the running CPython for all 1,114,112 code points
    (the quantified ones) / the named characters."""
    import re as _re
    w = _re.compile(r"\w")
    blank_word, space_bad, n_blank, n_space = [], [], 0, 0
    low_idem, low_space, n_word = [], [], 0
    for cp in range(0x110000):
        c = chr(cp)
        if c in " \t":                       # isBlank
            n_blank += 1
            if w.match(c):
                blank_word.append(cp)
        if c.isspace():                      # PrintOK.space
            n_space += 1
            if not (c == "\n" or (c not in '{}",=\n@\\' and not w.match(c))):
                space_bad.append(cp)
        lc = c.lower()                       # LowerOK
        if any(d.lower() != d for d in lc):
            low_idem.append(cp)
        if w.match(c):
            n_word += 1
            if any(d.isspace() for d in lc):
                low_space.append(cp)
    kw = "stringpeamblco"
    res = [
        ("PrintOK.word.lbrace: \\w does not match '{'", not w.match("{"), ""),
        ("PrintOK.word.blank: no blank character (of all 1114112 code points, %d are blanks) matches \\w" % n_blank,
         not blank_word, "offending: %r" % blank_word[:5]),
        ("PrintOK.atWord: \\w does not match '@'", not w.match("@"), ""),
        ("PrintOK.rbWord: \\w does not match '}'", not w.match("}"), ""),
        ("PrintOK.nlWord: \\w does not match a newline", not w.match("\n"), ""),
        ("PrintOK.cmWord/eqWord: \\w matches neither ',' nor '='", not w.match(",") and not w.match("="), ""),
        ("PrintOK.qWord: \\w does not match '\"'", not w.match('"'), ""),
        ("PrintOK.space: every isspace() character (%d of all 1114112 code points) is a newline, or is none of "
         "{ } \" , = @ backslash and does not match \\w" % n_space, not space_bad, "offending: %r" % space_bad[:5]),
        ("LowerOK.idem: for all 1114112 code points c, every character d of c.lower() has d.lower() == d",
         not low_idem, "offending: %r" % low_idem[:5]),
        ("LowerOK.wordNoSpace: for every code point matching \\w (%d), c.lower() contains no isspace() character" % n_word,
         not low_space, "offending: %r" % low_space[:5]),
        ("LowerOK.blank: ' '.lower() == ' ' and TAB.lower() == TAB", " ".lower() == " " and "\t".lower() == "\t", ""),
        ("PrintOK.spSpace/tabSpace/nlSpace: ' ', TAB, NL are isspace()", all(c.isspace() for c in " \t\n"), ""),
        ("PrintOK.lbSpace/rbSpace: '{' and '}' are not isspace()", not "{".isspace() and not "}".isspace(), ""),
        ("PrintOK.atLower: '@'.lower() == '@'", "@".lower() == "@", ""),
        ("PrintOK.kw: the letters of string/preamble/comment match \\w and are their own lower()",
         all(w.match(c) and c.lower() == c for c in kw), "letters: %s" % kw),
    ]
    # (the model's ASCII table satisfies the same facts by a Lean proof: printOK_ascii, lowerOK_ascii)
    return res


def describe(cases, outs):
    kinds = collections.Counter()
    for o in outs:
        kinds.update(C.block_kinds(o[:20000]))
    return {"block_kinds_in_results": dict(kinds),
            "value_column": dict(collections.Counter(str(c["col"]) for c in cases)),
            "separators": dict(collections.Counter(repr(c["sep"]) for c in cases)),
            "indent": dict(collections.Counter(repr(c["indent"]) for c in cases)),
            "trailing_comma": dict(collections.Counter(c["tc"] for c in cases))}


def nontrivial(case, out):
    return "(f s" in out
