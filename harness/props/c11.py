"""C11 - @string references resolve exactly: bare matching identifiers only."""
import collections
import contextlib
import itertools

from .. import common as C
from .. import blocks as B
from ..wire import Sym, enc, request as wire_request, lean_representable
from . import wcommon as W

ID = "C11"
LEAN_MODULE = "BibVerif.Props.C11"
LEVEL_TEXT = ("Lean theorems about the model of ResolveStringReferencesMiddleware + the string index Library.add builds, for "
              "EVERY library: a field of a live entry is replaced iff its value is a str, fails the startswith/endswith test for "
              "braces and quotes, and equals case-sensitively a key of the string index - and then by the value of the FIRST "
              "@string with that key in the document (resolves_iff, first_definition_wins); all other fields, all @string blocks, "
              "the string index and every non-entry block are unchanged (strings_untouched); the entry's metadata lists exactly "
              "the resolved field keys, and is absent when there are none (metadata_lists_resolved); entries inside failed blocks "
              "are not live and are not touched; composed with RemoveEnclosing the field holds the one-layer-stripped resolved "
              "value (default_parse_value). DOCUMENT LEVEL, through the whole default stack Pipeline.parseDefault (splitter, "
              "Library.add, resolution, RemoveEnclosing in place, the Library(blocks) rebuilds), for EVERY text, in terms of the "
              "splitter's blocks bs of the source only: default_parse_fields / default_parse_fields_map (every source entry that is "
              "the first with its key is the live entry at its position, same type/key/lines/raw/field keys, and field i holds "
              "stripEnclosing(resolvedSrc bs src): for a bare value that is case-sensitively the key of an @string block anywhere "
              "in the document - before or after the use - the source value of the FIRST such block, else the value itself; "
              "resolvedSrc_reference / resolvedSrc_enclosed / resolvedSrc_undefined, first_string_is_first), "
              "default_parse_metadata (the source entry has no metadata; afterwards ResolveStringReferences -> keys of exactly the "
              "reference fields in field order, absent when none, followed by RemoveEnclosing's dict), default_parse_strings (the "
              "first @string with a key stays at its position with key/line/raw; the resolution stage leaves it exactly as it is; "
              "the stack's enclosing removal then strips one layer of its value as of every value, C10), default_parse_dup_entry / "
              "default_parse_dup_string (a later block with the same key is a duplicate-key block holding the duplicate EXACTLY as "
              "split - not resolved, not stripped - and as previous_block the very block that is live at the first one's "
              "position), default_parse_passive (duplicate-field blocks - inner entry not resolved, raw source values - failed "
              "blocks, preambles, comments are returned exactly as split). Tied to interpolate.py / library.py / parsestack.py by "
              "differential execution.")
LEVEL_NOTE = ("Trusted: Lean kernel + 3 standard axioms; the hand-written models Interpolate.lean (incl. the small addAll index "
              "model), Enclosing.lean, Lex/Split.lean; the correspondence run. Warnings are not modelled. Aliasing of a duplicate-key "
              "wrapper's previous_block with the live entry is modelled by applying the same function (compared on every case). "
              "The document-level theorems additionally rest on the composition Pipeline.parseDefault (compared with the real "
              "parse_string on every generated document of this module and of C01/C09) and on the C09 pipeline lemmas "
              "(models_agree, readd_skeleton). Note the statement's 'unchanged' for @string blocks is about resolution; in the "
              "default stack RemoveEnclosing strips their values too (default_parse_strings says exactly that). A concatenation "
              "keeps its content unless the WHOLE value text is itself an @string key (e.g. @string{abc # abc = ..}): the "
              "theorems quantify over that case as the code behaves.")
TECHNIQUE = "Lean 4 proof: algebraic characterisation of pure list functions + fold invariant for the index; differential correspondence"
RULE = ("corpus; every document of <= 3 items (quick; 4 sampled in thorough) over 6 @string definitions (brace/quote/int/bare value, "
        "other-case key, key 'abc # abc') and entries with keys e1/e2 whose field value is one of: bare defined key, other case, "
        "undefined, {key}, \"key\", key # key, concatenations, number, a lone quote; run through the middleware alone (in place "
        "and on a copy) and through parse_string with the default stack (also after a caller changed the list they got from "
        "default_parse_stack()); random larger documents with several fields, duplicate "
        "field keys, failed blocks, blank/newline padding; hand-built libraries with int values. Compared: all blocks with fields, "
        "values and parser_metadata, Library.strings, entries_dict keys. Non-trivial = at least one field was resolved.")
EXHAUSTIVE = {"quick": False, "thorough": False}
ASSUMPTIONS = ["the library is one built by Library.add from the splitter's blocks (no remove/replace history)"]
PARTIAL = []

STRING_DEFS = ["@string{abc = {V1}}", '@string{abc = "V2"}', "@string{ABC = {V3}}", "@string{xy = abc}", "@string{abc = 5}",
               "@string{abc # abc = {HASH}}", "@String \t{xy = {BLANK}}"]
FIELD_VALUES = ["abc", "ABC", "Abc", "{abc}", '"abc"', "abc # abc", "abc # xy", "undef", "12", "xy", '"abc" # abc', "{abc", '"',
                # names that BibTeX styles predefine as macros: without an @string in the document they are undefined names
                "jan", "mar", "dec", "acm"]
ENTRY_KEYS = ["e1", "e2"]


def _items():
    out = list(STRING_DEFS)
    for k in ENTRY_KEYS:
        for v in FIELD_VALUES:
            out.append("@a{%s, f = %s}" % (k, v))
    return out


def corpus():
    docs = [
        "@string{abc = {V}}\n@a{k, f = abc, g = {abc}, h = \"abc\", i = ABC, j = abc # abc, k = 12, l = nope}",
        "@a{k, f = abc}\n@string{abc = {late}}",                                    # definition after use
        "@string{abc = {first}}\n@string{abc = {second}}\n@a{k, f = abc}",          # duplicated: the first wins
        "@a{k, f = abc}",                                                           # absent
        "@string{abc = {V}}\n@a{k, f = abc}\n@a{k, f = abc}",                        # second entry is a duplicate-key block
        "@string{abc = {V}}\n@a{k, f = abc, f = abc}",                               # duplicate field keys: failed block
        "@string{abc = xy}\n@string{xy = {W}}\n@a{k, f = abc}",                      # string values are not resolved themselves
        "@string{abc # abc = {H}}\n@a{k, f = abc # abc}",
        "@string{a = \"}\n@a{k, f = a, g = \"}",
        "@string{\u00e9 = {accent}}\n@a{k, f = \u00e9, g = \u00c9}",
        "@STRING{Abc = {V}}@a{k,f=Abc,g=abc}",
    ]
    cs = []
    for d in docs:
        cs.append({"op": "parse", "t": d})
        cs.append({"op": "resolve", "t": d, "inplace": True})
        cs.append({"op": "resolve", "t": d, "inplace": False})
    cs.append({"op": "blocks", "inplace": True, "blocks": [
        ["string", "s", "{v}", "r"], ["string", "n", 7, "r"], ["string", "s", "{second}", "r"],
        ["entry", "a", "k", [["f", "s"], ["g", 5], ["h", "n"], ["i", "{s}"], ["f", "s"]], "r"],
        ["entry", "a", "k", [["f", "s"]], "r"], ["failed", "x"], ["dupfield", ["entry", "a", "d", [["f", "s"], ["f", "s"]], "r"]],
        ["mwerror", ["entry", "a", "m", [["f", "s"]], "r"]]]})
    cs.append({"op": "blocks", "inplace": False, "blocks": [
        ["entry", "a", "k", [["f", "s"]], "r", {"md": {"ResolveStringReferences": ["old"], "other": "x"}}],
        ["string", "s", "{v}", "r"]]})
    return cs


def _rand_doc(rng):
    parts = []
    for _ in range(rng.randint(1, 6)):
        r = rng.random()
        if r < 0.35:
            parts.append(rng.choice(STRING_DEFS + ["@string{ abc = {sp} }", "@string{xy = {X} # abc}", "@String{Z={z}}"]))
        elif r < 0.9:
            nf = rng.randint(0, 4)
            fs = []
            for i in range(nf):
                k = rng.choice(["f", "g", "year", "f"]) if rng.random() < 0.3 else "k%d" % i
                fs.append("%s%s =%s%s" % (rng.choice(["", " ", "\n  "]), k, rng.choice(["", " ", "\n"]),
                                          rng.choice(FIELD_VALUES + ["Z", "{x} # xy", " abc ", "abc\n"])))
            parts.append("@%s{%s%s%s}" % (rng.choice(["a", "Article"]), rng.choice(ENTRY_KEYS + ["e3"]),
                                         "," if nf or rng.random() < .5 else "", ",".join(fs)))
        elif r < 0.95:
            parts.append(rng.choice(["@comment{abc}", "@preamble{abc}", "abc", "% abc"]))
        else:
            parts.append(rng.choice(["@a{k, f = abc", "@string{abc {v}}", "@a{k f = abc}"]))
        parts.append(rng.choice(["\n", "\n\n", " ", ""]))
    return "".join(parts)


def gen(tier, rng):
    items = _items()
    quick = tier == "quick"
    for n in range(0, 4):
        for combo in itertools.product(items, repeat=n):
            if n == 3 and quick and rng.random() < 0.5:
                continue
            t = "\n".join(combo)
            yield {"op": "parse", "t": t, "items": 1}
            yield {"op": "resolve", "t": t, "inplace": (len(t) + n) % 2 == 0}
    # a list obtained from default_parse_stack() belongs to the caller: after they changed it, a default parse is the same
    for how in ("pop", "poplast", "clear", "reverse"):
        sel = STRING_DEFS[:4] + ["@a{e1, f = %s}" % v for v in ("abc", "ABC", "{abc}", '"abc"', "xy", "undef")]
        for combo in itertools.product(sel, repeat=2):
            yield {"op": "parse", "t": "\n".join(combo), "touch": how}
    if not quick:
        for _ in range(150000):
            t = "\n".join(rng.choice(items) for _ in range(4))
            yield {"op": "parse", "t": t}
            yield {"op": "resolve", "t": t, "inplace": rng.random() < 0.5}
    for _ in range(8000 if quick else 80000):
        t = _rand_doc(rng)
        yield {"op": "parse", "t": t}
        yield {"op": "resolve", "t": t, "inplace": rng.random() < 0.5}
    vals = ["s", "S", "{s}", '"s"', "n", "s # s", 3, "zz", "", "{", '"']
    for _ in range(3000 if quick else 30000):
        bl = []
        for _i in range(rng.randint(1, 5)):
            r = rng.random()
            if r < 0.3:
                bl.append(["string", rng.choice(["s", "n", "S"]), rng.choice(["{v}", '"w"', 9, "s", ""]), "r"])
            elif r < 0.85:
                e = ["entry", "a", rng.choice(["k1", "k2"]), [[rng.choice(["f", "g", "h"]), rng.choice(vals)]
                                                             for _j in range(rng.randint(0, 3))], "r"]
                if rng.random() < 0.1:
                    e.append({"md": {"ResolveStringReferences": ["stale"]}})
                bl.append(e)
            elif r < 0.9:
                bl.append(["dupfield", ["entry", "a", "d", [["f", "s"], ["f", "s"]], "r"]])
            elif r < 0.95:
                bl.append(["mwerror", ["entry", "a", "m", [["f", "s"]], "r"]])
            else:
                bl.append(rng.choice([["failed", "x"], ["expl", "s", "r"], ["preamble", "s", "r"], ["impl", "s", "r"]]))
        yield {"op": "blocks", "inplace": rng.random() < 0.5, "blocks": bl}


@contextlib.contextmanager
def _touched(how):
    """a caller obtained default_parse_stack() earlier and changed THEIR list (pop / clear / reverse): parse_string without
    a stack argument still applies the complete default stack, resolve before enclosing removal. Whatever was changed is
    put back afterwards (on the unchanged code the lists are the caller's own and nothing is shared)."""
    saved = []
    try:
        if how:
            from bibtexparser.middlewares.parsestack import default_parse_stack
            for kw in ({}, {"allow_inplace_modification": True}, {"allow_inplace_modification": False}):
                st = default_parse_stack(**kw)
                if isinstance(st, list):
                    saved.append((st, list(st)))
                    if how == "pop" and st:
                        st.pop(0)
                    elif how == "poplast" and st:
                        st.pop()
                    elif how == "clear":
                        del st[:]
                    elif how == "reverse":
                        st.reverse()
        yield
    finally:
        for st, was in reversed(saved):
            st[:] = was


def request(case):
    txt = W.all_text(case)
    if not lean_representable(txt):
        return None
    if case["op"] == "parse":
        return wire_request("c11.parse", case["t"], chars_of=txt)
    if case["op"] == "resolve":
        return wire_request("c11.resolve", case["t"], chars_of=txt)
    return wire_request("c11.resolveb", B.enc_blocks(W.build_blocks(case["blocks"])), chars_of=txt)


def _enc_lib(lib):
    return [Sym("lib"), B.enc_blocks(lib.blocks), [B.enc_live(s) for s in lib.strings], list(lib.entries_dict.keys())]


def impl(case):
    import bibtexparser
    from bibtexparser.middlewares import ResolveStringReferencesMiddleware
    op = case["op"]
    if op == "parse":
        with _touched(case.get("touch")):
            return enc([Sym("ok"), _enc_lib(bibtexparser.parse_string(case["t"]))])
    mw = ResolveStringReferencesMiddleware(allow_inplace_modification=case["inplace"])
    if op == "resolve":
        lib = bibtexparser.parse_string(case["t"], parse_stack=[])
        return enc([Sym("ok"), _enc_lib(mw.transform(lib))])
    return enc(_enc_lib(mw.transform(W.build_library(case["blocks"]))))


# ---------------------------------------------------------------------------------------------
# the property on the real code

def _own_content(v):
    """content of a source value once one enclosing layer is removed (C10's law)"""
    s = v.strip()
    if len(s) >= 2 and ((s[0] == "{" and s[-1] == "}") or (s[0] == '"' and s[-1] == '"')):
        return s[1:-1]
    return s


def _is_bare(v):
    return isinstance(v, str) and not (v.startswith("{") and v.endswith("}")) and not (v.startswith('"') and v.endswith('"'))


def _check(raw_blocks, out_lib, strip):
    """raw_blocks: library.blocks before the middleware(s) (source values); out_lib: the result"""
    from bibtexparser import model as M
    first = {}
    for b in raw_blocks:
        if isinstance(b, M.String) and b.key not in first:
            first[b.key] = b
    out = out_lib.blocks
    if len(out) != len(raw_blocks):
        return "block count changed: %d -> %d" % (len(raw_blocks), len(out))
    for i, (src, dst) in enumerate(zip(raw_blocks, out)):
        if type(src) is not type(dst):
            return "block %d changed class %s -> %s" % (i, type(src).__name__, type(dst).__name__)
        if isinstance(src, M.String):
            want = _own_content(src.value) if (strip and isinstance(src.value, str)) else src.value
            if dst.key != src.key or dst.value != want:
                return "@string block %d changed: %r = %r -> %r = %r" % (i, src.key, src.value, dst.key, dst.value)
        elif isinstance(src, M.Entry):
            if [f.key for f in src.fields] != [f.key for f in dst.fields]:
                return "entry %d: field keys changed" % i
            resolved = []
            for fs, fd in zip(src.fields, dst.fields):
                sv = fs.value
                if _is_bare(sv) and sv in first:
                    want = first[sv].value
                    resolved.append(fs.key)
                else:
                    want = sv
                if strip and isinstance(want, str):
                    want = _own_content(want)
                if fd.value != want:
                    return ("entry %d (%s) field %r: source value %r -> %r, expected %r (%s)" % (
                        i, src.key, fs.key, sv, fd.value, want,
                        "first @string %r" % sv if (_is_bare(sv) and sv in first) else "own content"))
            got = dst.parser_metadata.get("ResolveStringReferences")
            if (got or []) != resolved or (got is not None and not resolved):
                return "entry %d (%s): recorded resolved fields %r, expected %r" % (i, src.key, got, resolved)
        elif isinstance(src, M.ParsingFailedBlock):
            inner_s, inner_d = src.ignore_error_block, dst.ignore_error_block
            if isinstance(inner_s, M.Entry) and not isinstance(src, M.DuplicateBlockKeyBlock):
                if [(f.key, f.value) for f in inner_s.fields] != [(f.key, f.value) for f in inner_d.fields]:
                    return "entry inside failed block %d was modified" % i
    live = [b for b in out if isinstance(b, M.String)]
    if [id(s) for s in out_lib.strings] != [id(s) for s in live]:
        return "Library.strings is not the list of live @string blocks"
    return None


def oracle(case):
    import copy
    import bibtexparser
    from bibtexparser.middlewares import ResolveStringReferencesMiddleware
    op = case["op"]
    if op == "parse":
        raw = bibtexparser.parse_string(case["t"], parse_stack=[])
        with _touched(case.get("touch")):
            out = bibtexparser.parse_string(case["t"])
        # which @string is "the first with that key" is read off the SOURCE (exact, case-sensitive keys), not off what
        # Library.add made of the blocks: the live @string blocks are exactly the first definitions, in document order
        import re as _re
        from bibtexparser import model as M
        keys = [m.group(1).strip() for m in _re.finditer(r"@string[ \t]*\{([^={}@]*)=", case["t"], _re.I)]
        n_defs = sum(1 for b in raw.blocks if isinstance(b, M.String)
                     or (isinstance(b, M.DuplicateBlockKeyBlock) and isinstance(b.ignore_error_block, M.String)))
        if len(keys) != n_defs and case.get("items"):
            # a document made of whole items, each on its own line: every `@string{key =` in it is a definition
            return "the document holds %d @string definitions (%r), %d blocks were parsed as @string" % (len(keys), keys, n_defs)
        if len(keys) == n_defs:
            firsts = list(dict.fromkeys(keys))
            live = [b.key for b in out.strings]
            if live != firsts:
                return "Library.strings holds the keys %r, the first definitions in the document are %r" % (live, firsts)
        return _check(raw.blocks, out, True)
    mw = ResolveStringReferencesMiddleware(allow_inplace_modification=case["inplace"])
    if op == "resolve":
        raw = bibtexparser.parse_string(case["t"], parse_stack=[])
        lib = bibtexparser.parse_string(case["t"], parse_stack=[])
    else:
        if any(isinstance(d[-1], dict) for d in case["blocks"]):
            return None   # pre-existing metadata: outside the statement
        raw = W.build_library(case["blocks"])
        lib = W.build_library(case["blocks"])
    return _check(raw.blocks, mw.transform(lib), False)


def known_match(finding, case, failure):
    return False


def nontrivial(case, out):
    return "s52.65.73.6f.6c.76.65.53.74.72.69.6e.67.52.65.66.65.72.65.6e.63.65.73" in out


def describe(cases, outs):
    ops = collections.Counter()
    resolved = collections.Counter()
    kinds = collections.Counter()
    defs = collections.Counter()
    key_wire = "s52.65.73.6f.6c.76.65.53.74.72.69.6e.67.52.65.66.65.72.65.6e.63.65.73"
    for c, o in zip(cases, outs):
        ops[c["op"] + ("/in-place" if c.get("inplace") else "/copy" if "inplace" in c else "")] += 1
        resolved[W.bucket(o.count(key_wire), (0, 1, 2, 4))] += 1
        kinds.update(C.block_kinds(o))
        if "t" in c:
            n = c["t"].lower().count("@string")
            first_entry = c["t"].find("@a{")
            first_def = c["t"].lower().find("@string")
            defs["no definition" if n == 0 else ("definition after first use" if 0 <= first_entry < first_def else
                                                 "definition first")] += 1
            if c["t"].count("@string{abc =") >= 2:
                defs["key abc defined more than once"] += 1
    return {"operations": dict(ops), "entries_with_resolved_fields_per_case": dict(resolved), "block_kinds_in_results": dict(kinds),
            "definitions": dict(defs)}
