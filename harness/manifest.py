"""Regenerate MANIFEST.json from the property modules:  /venv/bin/python -m harness.manifest"""
import importlib
import json
import os

ROOT = os.path.dirname(os.path.dirname(os.path.abspath(__file__)))
ALL = ["C%02d" % i for i in range(1, 21)]

BASELINE_OFF = ("cd /repo && env -u BIBTEXPARSER_VERIF /venv/bin/python -m pytest -ra -q -p no:cacheprovider "
                "--timeout=900 --continue-on-collection-errors")


def main():
    checks, na = [], []
    for pid in ALL:
        try:
            mod = importlib.import_module("harness.props.%s" % pid.lower())
        except ModuleNotFoundError:
            na.append({"property_id": pid, "reason": "check under construction in this round (model and theorems "
                       "planned in DESIGN.md section 6); not claimed until its check exists"})
            continue
        if getattr(mod, "NOT_APPLICABLE", None):
            na.append({"property_id": pid, "reason": mod.NOT_APPLICABLE})
            continue
        checks.append({
            "property_id": pid,
            "quick_cmd": "./check %s quick" % pid,
            "thorough_cmd": "./check %s thorough" % pid,
            "evidence_file": "/verif/evidence/%s.json" % pid,
            "replay_cmd_template": "./check %s --replay {path}" % pid,
            "engine": "lean4-model+correspondence",
            "level_claimed": {
                "category": getattr(mod, "LEVEL", "proof"),
                "text": mod.LEVEL_TEXT,
                "design_ref": "DESIGN.md section 6 (%s), sections 2-4" % pid,
            },
            "level_note": mod.LEVEL_NOTE,
            "technique": getattr(mod, "TECHNIQUE", "Lean 4 theorems about a hand-written model, tied to the code by a "
                                                   "per-run differential correspondence check"),
        })
    man = {
        "version": 1,
        "setup_cmd": "cd lean && lake build",
        "hooks": {
            "guard": "BIBTEXPARSER_VERIF",
            "enable": "no source hooks are needed: every observation goes through the public API "
                      "(checks set BIBTEXPARSER_VERIF=1, which the repository never reads)",
            "baseline_off_cmd": BASELINE_OFF,
            "source_commits": [],
            "add_only": True,
        },
        "engines": [{
            "name": "lean4-model+correspondence",
            "path": "lean/ (model, theorems, driver) + harness/ (runner, generators, adapters, oracles)",
            "serves_properties": [c["property_id"] for c in checks],
            "kind_free_text": "machine-checked proof in Lean 4 about a hand-written executable model; the model is "
                              "tied to /repo on every run by differential execution (native model driver vs the real "
                              "code) and by constants regenerated from the source",
        }],
        "checks": checks,
        "not_applicable": na,
        "notes": "See DESIGN.md. known_findings.json lists recorded defects (known) and repaired ones (fixed).",
    }
    with open(os.path.join(ROOT, "MANIFEST.json"), "w") as f:
        json.dump(man, f, indent=1)
    print("MANIFEST.json: %d checks, %d not applicable/unclaimed" % (len(checks), len(na)))


if __name__ == "__main__":
    main()
