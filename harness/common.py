"""Helpers shared by the property modules."""
import itertools
import sys

from . import blocks as B
from .wire import Sym, enc, request, lean_representable


class Recorder:
    """Stands in for a Library in `Splitter.split(library=...)`: records the blocks handed to
    `add` *before* duplicate-key wrapping (the model's `split` is exactly that list)."""

    def __init__(self):
        self.blocks = []

    def add(self, block, fail_on_duplicate_key=False):
        if isinstance(block, list):
            self.blocks.extend(block)
        else:
            self.blocks.append(block)


def raw_split(text):
    from bibtexparser.splitter import Splitter
    rec = Recorder()
    Splitter(text).split(library=rec)
    return rec.blocks


def ok(x):
    return enc([Sym("ok"), x])


def token_strings(alphabet, max_len, prefixes=("",)):
    for n in range(max_len + 1):
        for t in itertools.product(alphabet, repeat=n):
            body = "".join(t)
            for p in prefixes:
                yield p + body


SPLIT_ALPHABET = ["{", "}", '"', ",", "=", "\n", "\\", "@a", "a", " "]
SPLIT_PREFIXES = ["", "@a{", "@a{k,", "@string{", "@comment{", '@a{k,x="']


def block_kinds(sx_answer):
    """crude distribution key: the constructor names at depth 2 of an `(ok (...))` answer"""
    import re
    return re.findall(r"\((entry|string|preamble|expl|impl|failed|dupfield|dupkey|mwerror) ", sx_answer)
