"""Helpers shared by the property modules."""
import itertools
import sys

from . import blocks as B
from .wire import Sym, enc, request, lean_representable


class Recorder:
    """Stands in for a Library in `Splitter.split(library=...)`: records the blocks handed to
    `add` *before* duplicate-key wrapping (the model's `split` is exactly that list)."""

    def __init__(self):
        self.blocks = []

    def add(self, block, fail_on_duplicate_key=False):
        if isinstance(block, list):
            self.blocks.extend(block)
        else:
            self.blocks.append(block)


def raw_split(text):
    from bibtexparser.splitter import Splitter
    rec = Recorder()
    Splitter(text).split(library=rec)
    return rec.blocks


def entry_points_agree(text):
    """The properties about the splitter are stated for "parsing": what the public entry point returns. None if
    parse_string(text, parse_stack=[]) holds exactly the splitter's blocks (duplicates wrapped, content verbatim) and
    parse_string(text) - the default stack - holds the same blocks at the same places with the same raw text, start
    lines, field keys and field lines; otherwise a description of the first difference."""
    import bibtexparser
    from bibtexparser import model as M

    def inner(b):
        return b.ignore_error_block if isinstance(b, M.DuplicateBlockKeyBlock) else b

    def sk(b, values):
        b = inner(b)
        out = [type(b).__name__, b.raw, b.start_line]
        e = b.ignore_error_block if isinstance(b, M.ParsingFailedBlock) else b
        if isinstance(e, M.Entry):
            out += [e.entry_type, e.key, [(f.key, f.start_line) + ((f.value,) if values else ()) for f in e.fields]]
        elif isinstance(e, M.String):
            out += [e.key] + ([e.value] if values else [])
        elif isinstance(e, M.Preamble) and values:
            out += [e.value]
        elif isinstance(e, (M.ExplicitComment, M.ImplicitComment)):
            out += [e.comment]
        return out

    src = raw_split(text)
    for name, kw, values in (("parse_string(text, parse_stack=[])", {"parse_stack": []}, True), ("parse_string(text)", {}, False)):
        got = bibtexparser.parse_string(text, **kw).blocks
        if len(got) != len(src):
            return "%s returns %d blocks, the splitter %d" % (name, len(got), len(src))
        for i, (a, b) in enumerate(zip(src, got)):
            if sk(a, values) != sk(b, values):
                return "%s: block %d is %r, the splitter's block is %r" % (name, i, sk(b, values), sk(a, values))
    return None


def ok(x):
    return enc([Sym("ok"), x])


def token_strings(alphabet, max_len, prefixes=("",)):
    for n in range(max_len + 1):
        for t in itertools.product(alphabet, repeat=n):
            body = "".join(t)
            for p in prefixes:
                yield p + body


SPLIT_ALPHABET = ["{", "}", '"', ",", "=", "\n", "\\", "@a", "a", " "]
SPLIT_PREFIXES = ["", "@a{", "@a{k,", "@string{", "@comment{", '@a{k,x="']


def block_kinds(sx_answer):
    """crude distribution key: the constructor names at depth 2 of an `(ok (...))` answer"""
    import re
    return re.findall(r"\((entry|string|preamble|expl|impl|failed|dupfield|dupkey|mwerror) ", sx_answer)
