"""Grammar-directed generator of BibTeX documents with constructive ground truth.

A document is built as an AST (DESIGN.md §5: Doc ::= Junk (Block Junk)*), so the blocks a correct
parser must return are known without parsing: `Doc.text()` is the source, `Doc.expected()` the list
of expected blocks as plain dicts

    {"kind": "entry", "type": .., "key": .., "fields": [(key, value, line)], "line": .., "raw": ..}
    {"kind": "string", "key", "value", "line", "raw"} / "preamble" ("value") / "expl" / "impl" ("comment")

All randomness comes from the `rng` passed in.  The terminal alphabet is adversarial on purpose:
quotes inside braces inside quotes, `=`/`,`/`@` inside nested braces, escaped delimiters, `#`
concatenations, CRLF, several blocks on one line, empty keys and values, non-ASCII whitespace.
"""

WS = ["", "", " ", " ", "\n", "  ", "\t", "\r\n", " \n ", " ", "\n\n"]
KEYWORDS = ["k", "key1", "Key-2", "a.b", "x_y", "K", "über", "", "a b", "1", "k:2"]
TYPES = ["article", "Article", "BOOK", "misc", "a", "inProceedings", "x1", "", "İ", "mycomment", "xstring"]
FIELDKEYS = ["title", "author", "year", "Title", "a", "b", "c", "month", "note", "x-y", "ü"]
# text terminals that are safe anywhere inside braces / quotes (no unescaped delimiter, no block start)
WORDS = ["a", "b", "word", "1", "42", "x y", "ä", "#", " # ", "%", "\\{", "\\}", "\\\"", "\\,", "\\=", "\\\\ ",
         "@.", "@ ,", "@", "\\@", "~", "\\'e", "$x$", "and", "-", "\n", " ", "\r\n", "\t", "\\\n"]


def _ws(rng):
    return rng.choice(WS)


def gen_bal(rng, depth=0):
    """Bal ::= (T | NL | Q | CM | EQ | LB Bal RB)*  as source text"""
    out = []
    for _ in range(rng.randint(0, 4)):
        r = rng.random()
        if r < 0.5:
            out.append(rng.choice(WORDS))
        elif r < 0.6:
            out.append(rng.choice(['"', ",", "=", ", ", " = "]))
        elif depth < 3:
            out.append("{" + gen_bal(rng, depth + 1) + "}")
    return _fix_at("".join(out))


def gen_qbody(rng):
    """QBody ::= (T | NL | CM | EQ | LB Bal RB)*  (no bare quote at depth 0)"""
    out = []
    for _ in range(rng.randint(0, 4)):
        r = rng.random()
        if r < 0.55:
            out.append(rng.choice([w for w in WORDS]))
        elif r < 0.65:
            out.append(rng.choice([",", "=", ", "]))
        else:
            out.append("{" + gen_bal(rng, 1) + "}")
    return _fix_at("".join(out))


def _fix_at(s):
    """make sure no `@\\w*[ \\t]*{` arises from juxtaposition (that would be a block start)"""
    import re
    while True:
        m = re.search(r"@\w*[ \t]*\{", s)
        if not m:
            return s
        s = s[:m.end() - 1] + "." + s[m.end() - 1:]


def _no_trailing_backslash(s):
    # a piece ending in a backslash would escape the delimiter that follows it
    return s + " " if s.endswith("\\") else s


def gen_value(rng):
    """Value ::= (T | NL | Braced | Quoted)*"""
    parts = []
    n = rng.choice([1, 1, 1, 2, 3, 0])
    for i in range(n):
        r = rng.random()
        if r < 0.45:
            parts.append("{" + gen_bal(rng, 1) + "}")
        elif r < 0.75:
            parts.append('"' + _no_trailing_backslash(gen_qbody(rng)) + '"')
        else:
            parts.append(rng.choice(["abc", "1999", "jan", "s1", "a-b", "x.y", "12", "ä"]))
        if i < n - 1:
            parts.append(rng.choice([" # ", "#", " #\n ", " "]))
    return "".join(parts)


class Block:
    def __init__(self, kind, **kw):
        self.kind = kind
        self.__dict__.update(kw)


def gen_block(rng, keypool=None, fieldpool=None):
    r = rng.random()
    if r < 0.55:
        ty = rng.choice(TYPES)
        blanks = rng.choice(["", "", " ", "\t", "  "])
        key = _ws(rng) + (rng.choice(keypool) if keypool else rng.choice(KEYWORDS)) + _ws(rng)
        fields = []
        nf = rng.choice([0, 1, 1, 2, 2, 3, 5])
        pool = list(fieldpool or FIELDKEYS)
        rng.shuffle(pool)
        for i in range(nf):
            fk = _ws(rng) + (pool[i % len(pool)] if fieldpool is None else rng.choice(fieldpool)) + _ws(rng)
            fv = _ws(rng) + gen_value(rng) + _ws(rng)
            fields.append((fk, fv))
        if nf == 0:
            trailing = rng.choice([None, None, "", " ", "\n"])
        else:
            trailing = rng.choice([None, None, "", "\n", " "])
        return Block("entry", type=ty, blanks=blanks, key=key, fields=fields, trailing=trailing)
    if r < 0.7:
        key = _ws(rng) + rng.choice(keypool or ["s1", "S", "jan", "str"]) + _ws(rng)
        return Block("string", lit=rng.choice(["string", "String", "STRING", "stringx"]), blanks=rng.choice(["", " "]),
                     key=key, value=_ws(rng) + rng.choice(["{" + gen_bal(rng, 1) + "}", '"' + gen_bal(rng, 1) + '"', "{v}", "abc", gen_bal(rng, 1)]) + _ws(rng))
    if r < 0.82:
        return Block("preamble", lit=rng.choice(["preamble", "Preamble", "PREAMBLE"]), blanks=rng.choice(["", " "]),
                     value=gen_bal(rng))
    return Block("expl", lit=rng.choice(["comment", "Comment", "COMMENT", "commentary"]), blanks=rng.choice(["", "\t"]),
                 value=gen_bal(rng))


JUNK = ["", "", "\n", "\n\n", " ", "% a comment\n", "free text", "text, with = marks \"and\" } braces {\n",
        "\n  indented\n", "a\\\nb", "\r\n", "x@y.z", "é", "   ", "trailing\\ "]


def gen_junk(rng):
    j = "".join(rng.choice(JUNK) for _ in range(rng.choice([1, 1, 2])))
    return _fix_at(j)


class Doc:
    def __init__(self, head, items):
        self.head = head          # junk text
        self.items = items        # [(Block, junk text)]

    def block_text(self, b):
        if b.kind == "entry":
            s = "@" + b.type + b.blanks + "{" + b.key
            for fk, fv in b.fields:
                s += "," + fk + "=" + fv
            if b.trailing is not None:
                s += "," + b.trailing
            return s + "}"
        if b.kind == "string":
            return "@" + b.lit + b.blanks + "{" + b.key + "=" + b.value + "}"
        return "@" + b.lit + b.blanks + "{" + b.value + "}"

    def text(self):
        return self.head + "".join(self.block_text(b) + j for b, j in self.items)

    def expected(self):
        out = []
        pos_text = ""

        def junk(j, before):
            c = j.strip()
            if c:
                lead = j[:len(j) - len(j.lstrip())]
                out.append({"kind": "impl", "comment": c, "line": before.count("\n") + lead.count("\n"), "raw": c})

        junk(self.head, "")
        pos_text = self.head
        for b, j in self.items:
            raw = self.block_text(b)
            line = pos_text.count("\n")
            if b.kind == "entry":
                fields = []
                cur = "@" + b.type + b.blanks + "{" + b.key
                for fk, fv in b.fields:
                    cur += "," + fk
                    fields.append((fk.strip(), fv.strip(), line + cur.count("\n")))
                    cur += "=" + fv
                out.append({"kind": "entry", "type": b.type.lower(), "key": b.key.strip(), "fields": fields,
                            "line": line, "raw": raw})
            elif b.kind == "string":
                out.append({"kind": "string", "key": b.key.strip(), "value": b.value.strip(), "line": line, "raw": raw})
            elif b.kind == "preamble":
                out.append({"kind": "preamble", "value": b.value, "line": line, "raw": raw})
            else:
                out.append({"kind": "expl", "comment": b.value.strip(), "line": line, "raw": raw})
            pos_text += raw
            junk(j, pos_text)
            pos_text += j
        return out


def gen_doc(rng, max_blocks=6, keypool=None, fieldpool=None, distinct_field_keys=True, distinct_block_keys=True):
    items = []
    seen_keys = {"entry": set(), "string": set()}
    for _ in range(rng.randint(0, max_blocks)):
        b = gen_block(rng, keypool, fieldpool)
        if b.kind == "entry" and distinct_field_keys:
            seen, fs = set(), []
            for fk, fv in b.fields:
                if fk.strip() not in seen:
                    seen.add(fk.strip())
                    fs.append((fk, fv))
            b.fields = fs
        if distinct_block_keys and b.kind in seen_keys:
            n = 0
            while b.key.strip() in seen_keys[b.kind]:
                n += 1
                lead = b.key[:len(b.key) - len(b.key.lstrip())]
                b.key = lead + b.key.strip() + "_%d" % n + b.key[len(b.key.rstrip()):]
            seen_keys[b.kind].add(b.key.strip())
        items.append((b, gen_junk(rng)))
    head = gen_junk(rng)
    d = Doc(head, items)
    return d


def classify_lit(lit_lower):
    """what `split` dispatches on"""
    if lit_lower.startswith("comment"):
        return "expl"
    if lit_lower.startswith("preamble"):
        return "preamble"
    if lit_lower.startswith("string"):
        return "string"
    return "entry"


def sane(doc):
    """The generator may pick an entry type that starts with 'comment'/'string'/'preamble' (e.g.
    'comment_like', 'strings') - those are dispatched as such by the splitter; keep only documents whose
    block kinds are what the AST says, and whose @string/@comment literals dispatch as intended."""
    for b, _ in doc.items:
        if b.kind == "entry":
            if classify_lit(b.type.lower()) != "entry":
                return False
        else:
            want = b.kind
            if classify_lit(b.lit.lower()) != want:
                return False
    return True


def real_as_expected(blocks):
    """render real blocks in the shape of Doc.expected()"""
    from bibtexparser import model as M
    out = []
    for b in blocks:
        if isinstance(b, M.ParsingFailedBlock):
            out.append({"kind": "failed:" + type(b).__name__, "line": b.start_line, "raw": b.raw})
        elif isinstance(b, M.Entry):
            out.append({"kind": "entry", "type": b.entry_type, "key": b.key,
                        "fields": [(f.key, f.value, f.start_line) for f in b.fields], "line": b.start_line, "raw": b.raw})
        elif isinstance(b, M.String):
            out.append({"kind": "string", "key": b.key, "value": b.value, "line": b.start_line, "raw": b.raw})
        elif isinstance(b, M.Preamble):
            out.append({"kind": "preamble", "value": b.value, "line": b.start_line, "raw": b.raw})
        elif isinstance(b, M.ExplicitComment):
            out.append({"kind": "expl", "comment": b.comment, "line": b.start_line, "raw": b.raw})
        elif isinstance(b, M.ImplicitComment):
            out.append({"kind": "impl", "comment": b.comment, "line": b.start_line, "raw": b.raw})
        else:
            out.append({"kind": "other:" + type(b).__name__})
    return out
