#!/usr/bin/env python3
"""prints the markdown tables that DESIGN.md embeds (seeded changes, theorem index)"""
import glob, json, os, re, sys
ROOT = os.path.dirname(os.path.dirname(os.path.abspath(__file__)))

def seeds():
    out = ["| seed | property | change (site) | what it needs to manifest | detected by `./check <id> quick` |", "|---|---|---|---|---|"]
    for d in sorted(glob.glob(os.path.join(ROOT, "seeded", "*"))):
        m = json.load(open(os.path.join(d, "meta.json")))
        files = ", ".join(os.path.basename(f) for f in m.get("files", []))
        det = m["detected_by_check"]
        note = m.get("detection_note", "")
        det_txt = "yes" if det == "yes" else "after strengthening: " + note.split(";")[-1].strip() if det == "after-fix" else det
        if m.get("status") == "neutralised":
            det_txt = "was detected; no longer a fault since repo fix 4482c7b (superseded by C20-7)"
        out.append("| %s | %s | %s (%s) | %s | %s |" % (
            os.path.basename(d), m["property"], m.get("title", "").replace("|", "/"), files,
            (m.get("needs", "")[:160] + ("…" if len(m.get("needs", "")) > 160 else "")).replace("|", "/").replace("\n", " "),
            det_txt.replace("|", "/")))
    return "\n".join(out)

def theorems():
    out = []
    for f in sorted(glob.glob(os.path.join(ROOT, "lean", "BibVerif", "Props", "C*.lean"))):
        s = open(f).read()
        names = re.findall(r"^theorem\s+(\S+)", s, re.M)
        ex = len(re.findall(r"^example\b", s, re.M))
        out.append("* **%s** (%d theorems, %d kernel-checked examples): %s" % (os.path.basename(f)[:-5], len(names), ex, ", ".join("`%s`" % n for n in names)))
    return "\n".join(out)



def update():
    """rewrites the regions of DESIGN.md between <!--BEGIN x--> and <!--END x-->"""
    p = os.path.join(ROOT, "DESIGN.md")
    s = open(p).read()
    for name, fn in (("SEEDS", seeds), ("THEOREMS", theorems)):
        a, b = "<!--BEGIN %s-->" % name, "<!--END %s-->" % name
        i, j = s.index(a) + len(a), s.index(b)
        s = s[:i] + "\n" + fn() + "\n" + s[j:]
    open(p, "w").write(s)


if __name__ == "__main__":
    if sys.argv[1] == "update":
        update()
    else:
        print({"seeds": seeds, "theorems": theorems}[sys.argv[1]]())
