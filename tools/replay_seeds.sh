#!/bin/sh
# tools/replay_seeds.sh [Cxx ...]  - re-runs the quick check of every kept seeded change against a scratch
# worktree of /repo with the patch applied (never /repo itself) and reports whether it is still detected
# (exit 1 + VIOLATION line).  Sequential on purpose: the runs share lean/BibVerif/Generated and the driver.
cd "$(dirname "$0")/.." || exit 2
SEL="$*"
FAIL=0
for D in seeded/*/; do
  ID=$(basename "$D"); PID=${ID%-*}
  if [ -n "$SEL" ]; then case " $SEL " in *" $PID "*) ;; *) continue;; esac; fi
  if grep -q '"status": "neutralised"' "$D/meta.json"; then echo "$ID skipped (no longer a fault on the current tree, see meta.json)"; continue; fi
  WT="/tmp/rs_$$"
  git -C /repo worktree add -q "$WT" HEAD || exit 2
  if git -C "$WT" apply "$PWD/$D/patch.diff" 2>/dev/null; then
    OUT=$(VERIF_REPO="$WT" ./check "$PID" quick 2>&1); RC=$?
    V=$(echo "$OUT" | grep -c '^VIOLATION')
    NF=$(echo "$OUT" | grep -c 'no-failing-input-found')
    if [ $RC -eq 1 ] && [ "$V" -ge 1 ] && [ "$NF" -eq 0 ]; then echo "$ID detected (failing input)";
    elif [ $RC -eq 1 ]; then echo "$ID detected (no-failing-input-found)"; FAIL=1;
    elif grep -q '"detected_by_check": "no"' "$D/meta.json"; then echo "$ID not detected (recorded as a known miss in meta.json)";
    else echo "$ID MISSED rc=$RC"; FAIL=1; fi
  else
    echo "$ID patch does not apply any more"; FAIL=1
  fi
  git -C /repo worktree remove --force "$WT" >/dev/null 2>&1
done
# leave the generated constants in the state of the unchanged tree
for P in C10 C15; do ./check $P quick >/dev/null 2>&1; done
exit $FAIL
