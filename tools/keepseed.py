#!/usr/bin/env python3
"""tools/keepseed.py <Cxx> <n> <src dir> <caught:yes|no|after-fix> <note...>  - store a confirmed seeded change"""
import json, os, shutil, sys
pid, n, src, caught = sys.argv[1:5]
note = " ".join(sys.argv[5:])
dst = os.path.join(os.path.dirname(os.path.dirname(os.path.abspath(__file__))), "seeded", "%s-%s" % (pid, n))
os.makedirs(dst, exist_ok=True)
for f in ("patch.diff", "demo.py"):
    shutil.copy(os.path.join(src, f), os.path.join(dst, f))
meta = json.load(open(os.path.join(src, "meta.json")))
meta.update({
    "property": pid,
    "origin": "written by a fresh sub-agent that saw only the property text and a scratch worktree of /repo",
    "confirmed": "tools/seedtest.sh %s <dir>: demo exits 0 on the unchanged tree; with the patch the unedited test suite "
                 "stays at 2431 passed and the demo exits non-zero" % pid,
    "check_run": "VERIF_REPO=<scratch worktree with the patch> ./check %s quick" % pid,
    "detected_by_check": caught,
    "detection_note": note,
})
json.dump(meta, open(os.path.join(dst, "meta.json"), "w"), indent=1)
print("kept", dst)
