#!/bin/sh
# tools/seedtest.sh <Cxx> <dir with patch.diff demo.py meta.json> [tier]
# Confirms a seeded change in a scratch worktree of /repo (demo passes without, tests pass with, demo
# fails with) and runs the property's check against the changed tree (VERIF_REPO), never touching /repo.
PID="$1"; DIR="$2"; TIER="${3:-quick}"
WT="/tmp/st_$$"
git -C /repo worktree add -q "$WT" HEAD || exit 2
cleanup() { git -C /repo worktree remove --force "$WT" >/dev/null 2>&1; }
trap cleanup EXIT
cd "$WT" || exit 2
cp "$DIR/demo.py" "$WT/_demo.py"
PYTHONPATH="$WT" /venv/bin/python _demo.py >/dev/null 2>&1; D0=$?
git apply "$DIR/patch.diff" || { echo "patch does not apply"; exit 2; }
T=$(/venv/bin/python -m pytest -q -p no:cacheprovider 2>&1 | tail -1)
PYTHONPATH="$WT" /venv/bin/python _demo.py >/dev/null 2>&1; D1=$?
rm -f "$WT/_demo.py"
cd /verif || exit 2
OUT=$(VERIF_REPO="$WT" ./check "$PID" "$TIER" 2>&1); RC=$?
echo "seed=$DIR demo_without=$D0 tests_with='$T' demo_with=$D1 check_rc=$RC"
echo "$OUT" | grep -E "^VIOLATION|^$PID " | head -3
echo "$OUT" | grep -E "failing input|failure  " | cut -c1-220 | head -2
