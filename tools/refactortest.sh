#!/bin/sh
# tools/refactortest.sh <dir with patch.diff> [Cxx ...]
# A behaviour-preserving change of /repo must NOT raise an alarm: applies the patch in a scratch worktree
# (never /repo), confirms the unedited suite passes, and runs the quick checks against it.  Prints one
# line per check; exit 1 if any check exits non-zero.
DIR="$1"; shift
PROPS="$*"; [ -z "$PROPS" ] && PROPS="C01 C02 C03 C04 C05 C06 C07 C08 C09 C10 C11 C12 C13 C14 C15 C16 C17 C18 C19 C20"
WT="/tmp/rt_$$"
git -C /repo worktree add -q "$WT" HEAD || exit 2
trap 'git -C /repo worktree remove --force "$WT" >/dev/null 2>&1' EXIT
git -C "$WT" apply "$DIR/patch.diff" || { echo "patch does not apply"; exit 2; }
T=$(cd "$WT" && /venv/bin/python -m pytest -q -p no:cacheprovider 2>&1 | tail -1)
echo "refactor=$DIR tests='$T'"
cd /verif || exit 2
BAD=0
for P in $PROPS; do
  OUT=$(VERIF_REPO="$WT" ./check "$P" quick 2>&1); RC=$?
  echo "  $P rc=$RC $(echo "$OUT" | grep -E '^VIOLATION' | cut -c1-160)"
  if [ $RC -ne 0 ]; then BAD=1; echo "$OUT" | grep -E "failing input|failure  |broken|disagree" | cut -c1-300 | head -4; fi
done
exit $BAD
