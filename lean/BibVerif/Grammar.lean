/-
  The dialect grammar G of DESIGN.md §5 at the token level, with the blocks a derivation is
  expected to yield.  A derivation is given by its components (token lists) plus the
  well-formedness predicate `WF`; `toks` and `expected` are its two projections.

      Doc      ::= Junk (Block Junk)*
      Block    ::= AT[comment] LB Bal RB | AT[preamble] LB Bal RB | AT[string] LB Key EQ Bal RB
                 | AT[other] LB Key (CM Key EQ Value)* (CM Ws)? RB
-/
import BibVerif.Split
import BibVerif.Lemmas.Scan
namespace Bib

def LB : Tok := .mark .lbrace ['{']
def RB : Tok := .mark .rbrace ['}']
def CM : Tok := .mark .comma [',']
def EQ : Tok := .mark .eq ['=']
def AT (lit : Str) : Tok := .mark .at lit

structure FieldSrc where
  key : List Tok
  val : List Tok
deriving Repr

inductive BlockSrc
  | comment (lit : Str) (body : List Tok)
  | preamble (lit : Str) (body : List Tok)
  | string (lit : Str) (key val : List Tok)
  | entry (lit : Str) (key : List Tok) (fields : List FieldSrc) (trailing : Option (List Tok))
deriving Repr

/-- the tokens after an entry key: `(CM Key EQ Value)* (CM Ws)? RB` -/
def afterFields : List FieldSrc → Option (List Tok) → List Tok
  | [], none => [RB]
  | [], some w => CM :: (w ++ [RB])
  | f :: fs, tr => CM :: (f.key ++ EQ :: (f.val ++ afterFields fs tr))

def BlockSrc.toks : BlockSrc → List Tok
  | .comment lit body => AT lit :: LB :: (body ++ [RB])
  | .preamble lit body => AT lit :: LB :: (body ++ [RB])
  | .string lit key val => AT lit :: LB :: (key ++ EQ :: (val ++ [RB]))
  | .entry lit key fields tr => AT lit :: LB :: (key ++ afterFields fields tr)

variable (P : PyChars)

/-- expected fields: key and value are the stripped source texts, the line is that of the `=` -/
def expFields (line : Int) : List FieldSrc → List Field
  | [] => []
  | f :: fs =>
    ⟨strip P (flatten f.key), .str (strip P (flatten f.val)), line + nlCount f.key⟩ ::
      expFields (line + nlCount f.key + nlCount f.val) fs

/-- the block a source block is expected to yield when it starts on line `line` -/
def BlockSrc.expected (line : Int) (b : BlockSrc) : Block :=
  match b with
  | .comment _ body => .live (.expl (strip P (flatten body)) line (flatten b.toks) [])
  | .preamble _ body => .live (.preamble (flatten body) line (flatten b.toks) [])
  | .string _ key val =>
    .live (.string (strip P (flatten key)) (.str (strip P (flatten val))) line (flatten b.toks) [])
  | .entry lit key fields _ =>
    -- an entry; a `DuplicateFieldKeyBlock` around it if a field key repeats (C09)
    mkEntry (classify P lit).2 (strip P (flatten key)) (expFields P (line + nlCount key) fields)
      line (flatten b.toks)

def allPlain (ts : List Tok) : Prop := ts.all isPlainTok = true

instance (ts : List Tok) : Decidable (allPlain ts) := by unfold allPlain; infer_instance

/-- well-formedness of a source block -/
def BlockSrc.WF : BlockSrc → Prop
  | .comment lit body => (classify P lit).1 = .comment ∧ IsBal body
  | .preamble lit body => (classify P lit).1 = .preamble ∧ IsBal body
  | .string lit key val => (classify P lit).1 = .string ∧ allPlain key ∧ IsBal val
  | .entry lit key fields tr =>
    (classify P lit).1 = .entry ∧ allPlain key ∧
    (∀ f ∈ fields, allPlain f.key ∧ IsValue f.val) ∧
    (∀ w, tr = some w → allPlain w)

/-- C02's side condition: the field keys within one entry are pairwise distinct -/
def BlockSrc.DistinctFields : BlockSrc → Prop
  | .entry _ _ fields _ => (fields.map fun f => strip P (flatten f.key)).Nodup
  | _ => True

def isAtTok : Tok → Bool
  | .mark .at _ => true
  | _ => false

/-- `Junk`: any tokens but block starts -/
def IsJunk (ts : List Tok) : Prop := ts.all (fun t => !isAtTok t) = true

instance (ts : List Tok) : Decidable (IsJunk ts) := by unfold IsJunk; infer_instance

structure Doc where
  head : List Tok
  items : List (BlockSrc × List Tok)

def Doc.toks (d : Doc) : List Tok :=
  d.head ++ d.items.flatMap fun (b, j) => b.toks ++ j

def Doc.WF (d : Doc) : Prop :=
  IsJunk d.head ∧ ∀ bj ∈ d.items, bj.1.WF P ∧ IsJunk bj.2

def Doc.DistinctFields (d : Doc) : Prop := ∀ bj ∈ d.items, bj.1.DistinctFields P

/-- expected implicit comment of a junk region that starts on line `line`: its stripped text, on
the line of its first non-blank character -/
def expJunk (line : Int) (junk : List Tok) : List Block :=
  let t := flatten junk
  let c := strip P t
  if c.isEmpty then [] else [.live (.impl c (line + nlc (t.takeWhile P.isSpace)) c [])]

/-- expected blocks of `(Block Junk)*` when the first block starts on line `line` -/
def expItems (line : Int) : List (BlockSrc × List Tok) → List Block
  | [] => []
  | (b, j) :: rest =>
    b.expected P line :: (expJunk P (line + nlCount b.toks) j ++
      expItems (line + nlCount b.toks + nlCount j) rest)

/-- expected blocks of a document whose first token is on line `line` -/
def Doc.expected (line : Int) (d : Doc) : List Block :=
  expJunk P line d.head ++ expItems P (line + nlCount d.head) d.items

end Bib
