/-
  C08: what each primitive step of `add` / `remove` / `replace` does to a library satisfying the
  invariant.  Helper lemmas only; the property statements are in `Props/C08.lean`.
-/
import BibVerif.Lemmas.Library
set_option linter.unusedSectionVars false
namespace Bib
namespace Lib
open PyDict
variable {β : Type} [DecidableEq β] (S : Sig β)

/-! ### `_add_to_dicts` -/

theorem addToDicts_blocks {L L' : Lib β} {b x : β} {w : Bool}
    (h : addToDicts S L b = .ok (L', x, w)) : L'.blocks = L.blocks := by
  unfold addToDicts at h
  split at h
  · split at h
    · split at h
      · cases h; rfl
      · cases h
    · cases h; rfl
  · split at h
    · split at h
      · cases h; rfl
      · cases h
    · cases h; rfl
  · cases h; rfl

theorem addToDicts_entry_new {L : Lib β} {b : β} {k : Str} (hk : S.kind b = .entry k)
    (hg : get L.eidx k = none) :
    addToDicts S L b = .ok ({ L with eidx := set L.eidx k b }, b, false) := by
  simp [addToDicts, hk, hg]

theorem addToDicts_string_new {L : Lib β} {b : β} {k : Str} (hk : S.kind b = .string k)
    (hg : get L.sidx k = none) :
    addToDicts S L b = .ok ({ L with sidx := set L.sidx k b }, b, false) := by
  simp [addToDicts, hk, hg]

theorem addToDicts_entry_dup {L : Lib β} {b p : β} {k : Str} (hL : Inv S L) (hk : S.kind b = .entry k)
    (hg : get L.eidx k = some p) :
    addToDicts S L b = .ok ({ L with next := L.next + 1 }, S.wrap L.next k p b, true) := by
  have hp : S.kind p = .entry k := (ekey_some_iff S).mp (hL.1.of_get hg).2
  simp [addToDicts, hk, hg, castToDuplicate, hp, Kind.cls, Kind.key?]

theorem addToDicts_string_dup {L : Lib β} {b p : β} {k : Str} (hL : Inv S L) (hk : S.kind b = .string k)
    (hg : get L.sidx k = some p) :
    addToDicts S L b = .ok ({ L with next := L.next + 1 }, S.wrap L.next k p b, true) := by
  have hp : S.kind p = .string k := (skey_some_iff S).mp (hL.2.of_get hg).2
  simp [addToDicts, hk, hg, castToDuplicate, hp, Kind.cls, Kind.key?]

theorem addToDicts_other {L : Lib β} {b : β} (h1 : ∀ k, S.kind b ≠ .entry k) (h2 : ∀ k, S.kind b ≠ .string k) :
    addToDicts S L b = .ok (L, b, false) := by
  unfold addToDicts
  split
  · rename_i k hk; exact (h1 k hk).elim
  · rename_i k hk; exact (h2 k hk).elim
  · rfl

/-- the three ways `_add_to_dicts` can end when the invariant holds (it never raises) -/
theorem addToDicts_cases (hL : Inv S L) (b : β) :
    (∃ k, addToDicts S L b = .ok ({ L with eidx := set L.eidx k b }, b, false) ∧
        S.kind b = .entry k ∧ get L.eidx k = none) ∨
    (∃ k, addToDicts S L b = .ok ({ L with sidx := set L.sidx k b }, b, false) ∧
        S.kind b = .string k ∧ get L.sidx k = none) ∨
    (addToDicts S L b = .ok (L, b, false) ∧ ekey S b = none ∧ skey S b = none) ∨
    (∃ k p, addToDicts S L b = .ok ({ L with next := L.next + 1 }, S.wrap L.next k p b, true) ∧
        (S.kind b).key? = some k) := by
  cases hk : S.kind b with
  | entry k =>
    cases hg : get L.eidx k with
    | none => exact Or.inl ⟨k, addToDicts_entry_new S hk hg, rfl, hg⟩
    | some p => exact Or.inr (Or.inr (Or.inr ⟨k, p, addToDicts_entry_dup S hL hk hg, rfl⟩))
  | string k =>
    cases hg : get L.sidx k with
    | none => exact Or.inr (Or.inl ⟨k, addToDicts_string_new S hk hg, rfl, hg⟩)
    | some p => exact Or.inr (Or.inr (Or.inr ⟨k, p, addToDicts_string_dup S hL hk hg, rfl⟩))
  | preamble =>
    refine Or.inr (Or.inr (Or.inl ⟨addToDicts_other S (by simp [hk]) (by simp [hk]), ?_⟩))
    exact keys_none_of_kind S (by simp [hk]) (by simp [hk])
  | comment =>
    refine Or.inr (Or.inr (Or.inl ⟨addToDicts_other S (by simp [hk]) (by simp [hk]), ?_⟩))
    exact keys_none_of_kind S (by simp [hk]) (by simp [hk])
  | failed =>
    refine Or.inr (Or.inr (Or.inl ⟨addToDicts_other S (by simp [hk]) (by simp [hk]), ?_⟩))
    exact keys_none_of_kind S (by simp [hk]) (by simp [hk])

theorem wrap_keys (hS : S.Laws) (n : Nat) (k : Str) (p d : β) :
    ekey S (S.wrap n k p d) = none ∧ skey S (S.wrap n k p d) = none :=
  keys_none_of_kind S (by simp [hS.wrap_failed]) (by simp [hS.wrap_failed])

/-- putting the block returned by `_add_to_dicts` anywhere into the block list keeps the invariant -/
theorem addToDicts_inv (hS : S.Laws) {L L' : Lib β} {b x : β} {w : Bool} (hL : Inv S L)
    (h : addToDicts S L b = .ok (L', x, w)) (bl : List β) (hp : bl.Perm (x :: L.blocks)) :
    Inv S { L' with blocks := bl } := by
  rcases addToDicts_cases S hL b with ⟨k, h', hk, hg⟩ | ⟨k, h', hk, hg⟩ | ⟨h', he, hs⟩ | ⟨k, p, h', _⟩ <;>
    (rw [h'] at h; cases h)
  · exact ⟨(hL.1.cons_some (ekey_of_kind S hk).1 hg).perm hp.symm,
      (hL.2.cons_none (ekey_of_kind S hk).2).perm hp.symm⟩
  · exact ⟨(hL.1.cons_none (skey_of_kind S hk).2).perm hp.symm,
      (hL.2.cons_some (skey_of_kind S hk).1 hg).perm hp.symm⟩
  · exact ⟨(hL.1.cons_none he).perm hp.symm, (hL.2.cons_none hs).perm hp.symm⟩
  · obtain ⟨he, hs⟩ := wrap_keys S hS L.next k p b
    exact ⟨(hL.1.cons_none he).perm hp.symm, (hL.2.cons_none hs).perm hp.symm⟩

theorem addToDicts_total (hL : Inv S L) (b : β) : ∃ L' x w, addToDicts S L b = .ok (L', x, w) := by
  rcases addToDicts_cases S hL b with ⟨k, h', _⟩ | ⟨k, h', _⟩ | ⟨h', _⟩ | ⟨k, p, h', _⟩ <;>
    exact ⟨_, _, _, h'⟩

/-- the returned block is the argument or a wrapper of it -/
theorem addToDicts_result (hL : Inv S L) {L' : Lib β} {b x : β} {w : Bool}
    (h : addToDicts S L b = .ok (L', x, w)) :
    (w = false ∧ x = b ∧ L'.next = L.next) ∨
    (w = true ∧ ∃ k p, x = S.wrap L.next k p b ∧ L'.next = L.next + 1) := by
  rcases addToDicts_cases S hL b with ⟨k, h', _⟩ | ⟨k, h', _⟩ | ⟨h', _⟩ | ⟨k, p, h', _⟩ <;>
    (rw [h'] at h; cases h)
  · exact Or.inl ⟨rfl, rfl, rfl⟩
  · exact Or.inl ⟨rfl, rfl, rfl⟩
  · exact Or.inl ⟨rfl, rfl, rfl⟩
  · exact Or.inr ⟨rfl, k, p, rfl, rfl⟩

/-! ### `add` -/

/-- the argument itself or its `DuplicateBlockKeyBlock` -/
def IsAdded (b x : β) : Prop := x = b ∨ ∃ n k p, x = S.wrap n k p b

/-- position by position: one block per argument, the argument itself or its wrapper -/
inductive AllAdded : List β → List β → Prop
  | nil : AllAdded [] []
  | cons {b x : β} {bs xs : List β} : IsAdded S b x → AllAdded bs xs → AllAdded (b :: bs) (x :: xs)

theorem addLoop_spec (hS : S.Laws) (bs : List β) (L : Lib β) (d : Bool) (hL : Inv S L) :
    ∃ L' d' xs, addLoop S L bs d = (L', .ok d') ∧ Inv S L' ∧ L'.blocks = L.blocks ++ xs ∧
      AllAdded S bs xs ∧ L.next ≤ L'.next := by
  induction bs generalizing L d with
  | nil => exact ⟨L, d, [], rfl, hL, by simp, .nil, Nat.le_refl _⟩
  | cons b rest ih =>
    obtain ⟨L1, x, w, h1⟩ := addToDicts_total S hL b
    have hb := addToDicts_blocks S h1
    have hinv : Inv S { L1 with blocks := L1.blocks ++ [x] } :=
      addToDicts_inv S hS hL h1 _ (by rw [hb]; exact List.perm_append_comm)
    obtain ⟨L', d', xs, h2, h3, h4, h5, h6⟩ := ih { L1 with blocks := L1.blocks ++ [x] } (d || w) hinv
    refine ⟨L', d', x :: xs, ?_, h3, ?_, ?_, ?_⟩
    · simp only [addLoop, h1]; exact h2
    · rw [h4, hb]; simp
    · refine .cons ?_ h5
      rcases addToDicts_result S hL h1 with ⟨_, hx, _⟩ | ⟨_, k, p, hx, _⟩
      · exact Or.inl hx
      · exact Or.inr ⟨_, k, p, hx⟩
    · rcases addToDicts_result S hL h1 with ⟨_, _, hn⟩ | ⟨_, _, _, _, hn⟩ <;>
        (simp only at h6; omega)

/-! ### `remove` -/

/-- the library without (the first occurrence of) `b` and without its index entry -/
def removed (L : Lib β) (b : β) : Lib β :=
  { blocks := L.blocks.erase b
    eidx := match ekey S b with | some k => del L.eidx k | none => L.eidx
    sidx := match skey S b with | some k => del L.sidx k | none => L.sidx
    next := L.next }

theorem removed_inv {L : Lib β} {b : β} (hL : Inv S L) (hb : b ∈ L.blocks) : Inv S (removed S L b) := by
  unfold removed
  constructor
  · cases he : ekey S b with
    | none => exact hL.1.erase_none hb he
    | some k => exact hL.1.erase_some hb he
  · cases hs : skey S b with
    | none => exact hL.2.erase_none hb hs
    | some k => exact hL.2.erase_some hb hs

theorem removeOne_mem {L : Lib β} {b : β} (hL : Inv S L) (hb : b ∈ L.blocks) :
    removeOne S L b = (removed S L b, .ok) := by
  unfold removeOne removed
  rw [if_pos hb]
  cases hk : S.kind b with
  | entry k =>
    have he := ekey_of_kind S hk
    have : has L.eidx k = true := by
      unfold has; rw [hL.1.get_of_mem hb he.1]; rfl
    simp [this, he.1, he.2]
  | string k =>
    have hs := skey_of_kind S hk
    have : has L.sidx k = true := by
      unfold has; rw [hL.2.get_of_mem hb hs.1]; rfl
    simp [this, hs.1, hs.2]
  | preamble =>
    obtain ⟨he, hs⟩ := keys_none_of_kind S (b := b) (by simp [hk]) (by simp [hk])
    simp [he, hs]
  | comment =>
    obtain ⟨he, hs⟩ := keys_none_of_kind S (b := b) (by simp [hk]) (by simp [hk])
    simp [he, hs]
  | failed =>
    obtain ⟨he, hs⟩ := keys_none_of_kind S (b := b) (by simp [hk]) (by simp [hk])
    simp [he, hs]

theorem removeOne_not_mem {L : Lib β} {b : β} (hb : b ∉ L.blocks) :
    removeOne S L b = (L, .raise .valueError) := by
  unfold removeOne; rw [if_neg hb]

theorem removeLoop_ok (bs : List β) (L : Lib β) (hL : Inv S L) (hc : preCheck L.blocks bs = true) :
    ∃ L', removeLoop S L bs = (L', .ok) ∧ Inv S L' ∧ L'.blocks = bs.foldl List.erase L.blocks ∧
      L'.next = L.next := by
  induction bs generalizing L with
  | nil => exact ⟨L, rfl, hL, rfl, rfl⟩
  | cons b rest ih =>
    simp only [preCheck] at hc
    split at hc
    · rename_i hb
      obtain ⟨L', h1, h2, h3, h4⟩ := ih (removed S L b) (removed_inv S hL hb) (by simpa [removed] using hc)
      refine ⟨L', ?_, h2, ?_, ?_⟩
      · simp only [removeLoop, removeOne_mem S hL hb]; exact h1
      · simpa [removed] using h3
      · simpa [removed] using h4
    · cases hc

/-- `remove` either removes everything asked for, or raises `ValueError` and changes nothing -/
theorem remove_spec (L : Lib β) (bs : List β) (hL : Inv S L) :
    (∃ L', remove S L bs = (L', .ok) ∧ Inv S L' ∧ L'.blocks = bs.foldl List.erase L.blocks ∧
        L'.next = L.next ∧ preCheck L.blocks bs = true) ∨
    (remove S L bs = (L, .raise .valueError) ∧ preCheck L.blocks bs = false) := by
  unfold remove
  cases hc : preCheck L.blocks bs with
  | true =>
    obtain ⟨L', h1, h2, h3, h4⟩ := removeLoop_ok S bs L hL hc
    exact Or.inl ⟨L', by simpa using h1, h2, h3, h4, rfl⟩
  | false => exact Or.inr ⟨by simp, rfl⟩

theorem remove_single {L : Lib β} {b : β} (hL : Inv S L) (hb : b ∈ L.blocks) :
    remove S L [b] = (removed S L b, .ok) := by
  simp [remove, preCheck, hb, removeLoop, removeOne_mem S hL hb]

/-! ### `replace` -/

theorem replaceStep_not_mem {L : Lib β} {old new : β} (h : old ∉ L.blocks) :
    replaceStep S L old new = (L, .error .valueError) := by
  simp [replaceStep, listIndex_none.mpr h]

/-- `replace` up to the insertion, for a held `old`: the state afterwards in full -/
theorem replaceStep_mem (hS : S.Laws) {L : Lib β} {old new : β} {pre post : List β} (hL : Inv S L)
    (hb : L.blocks = pre ++ old :: post) (hpre : old ∉ pre) :
    ∃ L2 x w, addToDicts S (removed S L old) new = .ok (L2, x, w) ∧
      replaceStep S L old new = ({ L2 with blocks := pre ++ x :: post }, .ok (x, w)) ∧
      Inv S { L2 with blocks := pre ++ x :: post } := by
  have hmem : old ∈ L.blocks := by rw [hb]; simp
  have hR := removed_inv S hL hmem
  obtain ⟨L2, x, w, h2⟩ := addToDicts_total S hR new
  have hb2 := addToDicts_blocks S h2
  have hRb : (removed S L old).blocks = pre ++ post := by
    simp only [removed, hb]; exact erase_append_head hpre
  refine ⟨L2, x, w, h2, ?_, ?_⟩
  · simp only [replaceStep, hb, listIndex_append hpre]
    rw [remove_single S hL hmem]
    simp only [h2, hb2, hRb, listInsert_append]
  · exact addToDicts_inv S hS hR h2 _ (by rw [hRb]; exact List.perm_middle)

end Lib
end Bib
