/-
  C10 re-parse law, character level: lexing `"@a{k, f = {" ++ v ++ "}}"` gives the fixed prefix tokens,
  the tokens of `v`, and the two closing marks - provided `v` does not end in a backslash (which
  would escape the closing delimiter).
-/
import BibVerif.Lex
import BibVerif.Lemmas.Reparse
namespace Bib.Reparse
open Bib

variable (P : PyChars)

/-- CPython's `str.isspace`, regex `\w` and `str.lower` on ASCII characters are those of the model's
ASCII table (checked against the running CPython by the harness; true by construction for the
tables the driver builds) -/
def AsciiOK (P : PyChars) : Prop :=
  ∀ c : Char, c.toNat < 128 →
    P.isSpace c = asciiChars.isSpace c ∧ P.isWord c = asciiChars.isWord c ∧ P.lowerC c = asciiChars.lowerC c

/-! ### unfolding `lexFrom` -/

theorem lexFrom_mark (b : Bool) (c : Char) (k : Kind) (rest : Str) (hk : delimKind c = some k)
    (hb : b = false ∨ c = '\n') : lexFrom P b (c :: rest) = .mark k [c] :: lexFrom P false rest := by
  rw [lexFrom]
  have : (if (b && decide (c ≠ '\n')) = true then none else delimKind c) = some k := by
    rcases hb with h | h
    · simp [h, hk]
    · subst h; simp [hk]
  simp only [this]

theorem lexFrom_text (b : Bool) (c : Char) (rest : Str)
    (hk : (if (b && decide (c ≠ '\n')) = true then none else delimKind c) = none) (hc : c ≠ '@') :
    lexFrom P b (c :: rest) = pushText c (lexFrom P (decide (c = '\\')) rest) := by
  rw [lexFrom]
  simp only [hk, hc, ↓reduceIte]

theorem lexFrom_at_none (b : Bool) (rest : Str) (h : atMatch P rest = none) :
    lexFrom P b ('@' :: rest) = pushText '@' (lexFrom P false rest) := by
  rw [lexFrom]
  have hk : (if (b && decide ('@' ≠ '\n')) = true then none else delimKind '@') = none := by
    cases b <;> simp [delimKind]
  simp only [hk, ↓reduceIte]
  split
  · rename_i lit r2 h'; rw [h] at h'; cases h'
  · rfl

theorem lexFrom_at_some (b : Bool) (rest lit r2 : Str) (h : atMatch P rest = some (lit, r2)) :
    lexFrom P b ('@' :: rest) = .mark .at ('@' :: lit) :: lexFrom P false r2 := by
  rw [lexFrom]
  have hk : (if (b && decide ('@' ≠ '\n')) = true then none else delimKind '@') = none := by
    cases b <;> simp [delimKind]
  simp only [hk, ↓reduceIte]
  split
  · rename_i lit' r2' h'; rw [h] at h'; injection h' with h'; injection h' with h1 h2; subst h1 h2; rfl
  · rename_i h'; rw [h] at h'; cases h'

/-! ### takeWhile / dropWhile across an append -/

theorem takeWhile_append_stop {α} (p : α → Bool) (l X : List α) (h : l.dropWhile p ≠ []) :
    (l ++ X).takeWhile p = l.takeWhile p ∧ (l ++ X).dropWhile p = l.dropWhile p ++ X := by
  induction l with
  | nil => simp at h
  | cons a t ih =>
    by_cases ha : p a = true
    · simp only [List.dropWhile_cons, ha, ↓reduceIte] at h
      simp [ha, ih h]
    · simp [ha]

theorem takeWhile_append_run {α} (p : α → Bool) (l : List α) (x : α) (X : List α) (h : l.dropWhile p = [])
    (hx : p x = false) :
    (l ++ x :: X).takeWhile p = l.takeWhile p ∧ (l ++ x :: X).dropWhile p = x :: X := by
  induction l with
  | nil => simp [hx]
  | cons a t ih =>
    by_cases ha : p a = true
    · simp only [List.dropWhile_cons, ha, ↓reduceIte] at h
      simp [ha, ih h]
    · simp [ha] at h

theorem atMatch_append_some (rest lit r2 X : Str) (h : atMatch P rest = some (lit, r2)) :
    atMatch P (rest ++ X) = some (lit, r2 ++ X) := by
  unfold atMatch at h ⊢
  simp only at h ⊢
  split at h
  · rename_i tl heq
    injection h with h; injection h with h1 h2
    have hb : (rest.dropWhile P.isWord).dropWhile isBlank ≠ [] := by rw [heq]; simp
    have hw : rest.dropWhile P.isWord ≠ [] := by
      intro h0; rw [h0] at hb; simp at hb
    obtain ⟨w1, w2⟩ := takeWhile_append_stop P.isWord rest X hw
    obtain ⟨b1, b2⟩ := takeWhile_append_stop isBlank (rest.dropWhile P.isWord) X hb
    rw [w1, w2, b1, b2, heq]
    simp [← h1, ← h2, heq]
  · cases h

theorem atMatch_append_none (rest : Str) (x : Char) (X : Str) (h : atMatch P rest = none)
    (hw : P.isWord x = false) (hbl : isBlank x = false) (hx : x ≠ '{') :
    atMatch P (rest ++ x :: X) = none := by
  unfold atMatch at h ⊢
  simp only at h ⊢
  by_cases h1 : rest.dropWhile P.isWord = []
  · obtain ⟨_, w2⟩ := takeWhile_append_run P.isWord rest x X h1 hw
    rw [w2]
    simp [hbl]
    split
    · rename_i tl heq; injection heq with h3 _; exact absurd h3 hx
    · rfl
  · obtain ⟨_, w2⟩ := takeWhile_append_stop P.isWord rest (x :: X) h1
    rw [w2]
    by_cases h2 : (rest.dropWhile P.isWord).dropWhile isBlank = []
    · obtain ⟨_, b2⟩ := takeWhile_append_run isBlank (rest.dropWhile P.isWord) x X h2 hbl
      rw [b2]
      split
      · rename_i tl heq; injection heq with h3 _; exact absurd h3 hx
      · rfl
    · obtain ⟨_, b2⟩ := takeWhile_append_stop isBlank (rest.dropWhile P.isWord) (x :: X) h2
      rw [b2]
      split at h
      · cases h
      · rename_i hne
        split
        · rename_i tl heq
          cases hd : (rest.dropWhile P.isWord).dropWhile isBlank with
          | nil => exact absurd hd h2
          | cons y ys =>
            rw [hd] at heq
            injection heq with h3 h4
            subst h3
            exact absurd hd (hne ys)
        · rfl

/-! ### lexing `v ++ "}" ...` -/

/-- does the text end in a backslash (so that a following delimiter would be escaped)? `b` is the
state for the empty text -/
def endBS (b : Bool) (v : Str) : Bool :=
  match v.getLast? with
  | none => b
  | some c => decide (c = '\\')

theorem endBS_cons_cons (b b' : Bool) (c d : Char) (r : Str) : endBS b (c :: d :: r) = endBS b' (d :: r) := by
  simp only [endBS, List.getLast?_cons_cons]
  cases h : (d :: r).getLast? with
  | none => simp at h
  | some z => rfl

theorem endBS_tail_false {b : Bool} {c : Char} {rest : Str} (h : endBS b (c :: rest) = false) :
    endBS false rest = false := by
  cases rest with
  | nil => rfl
  | cons d r => rw [endBS_cons_cons b false] at h; exact h

theorem endBS_tail_text {b : Bool} {c : Char} {rest : Str} (h : endBS b (c :: rest) = false) :
    endBS (decide (c = '\\')) rest = false := by
  cases rest with
  | nil => simpa [endBS] using h
  | cons d r => rw [endBS_cons_cons b (decide (c = '\\'))] at h; exact h

theorem pushText_append_mark (c : Char) (A B : List Tok) (hB : ∃ k l B', B = .mark k l :: B') :
    pushText c (A ++ B) = pushText c A ++ B := by
  obtain ⟨k, l, B', rfl⟩ := hB
  cases A with
  | nil => simp [pushText]
  | cons a t => cases a <;> simp [pushText]

/-- a closing brace after `v` is lexed as a mark of its own, and `v` as if it stood alone -/
theorem lexFrom_append_rbrace (hw : P.isWord '}' = false) (r : Str) (b : Bool) (v : Str)
    (he : endBS b v = false) :
    lexFrom P b (v ++ '}' :: r) = lexFrom P b v ++ .mark .rbrace ['}'] :: lexFrom P false r := by
  have hmark : ∀ X : List Tok, ∃ k l B', (Tok.mark Kind.rbrace ['}'] :: X) = .mark k l :: B' :=
    fun X => ⟨_, _, _, rfl⟩
  fun_induction lexFrom P b v with
  | case1 b =>
    have hb : b = false := by simpa [endBS] using he
    subst hb
    simp only [List.nil_append]
    rw [lexFrom_mark P false '}' .rbrace r (by decide) (.inl rfl)] <;> simp [lexFrom]
  | case2 b c rest k hk ih =>
    have hd : delimKind c = some k ∧ (b = false ∨ c = '\n') := by
      split at hk
      · cases hk
      · rename_i hcond
        refine ⟨hk, ?_⟩
        cases b with
        | false => exact .inl rfl
        | true => right; simpa using hcond
    rw [List.cons_append, lexFrom_mark P b c k _ hd.1 hd.2, ih (endBS_tail_false he)]
    simp
  | case3 b rest lit r2 h hk ih =>
    have hlen := (atMatch_spec P rest lit r2 h).1
    -- `r2` is a suffix of `rest`: its last character is that of `rest`
    have he2 : endBS false r2 = false := by
      obtain ⟨r3, hr3⟩ := (atMatch_spec P rest lit r2 h).2.2
      have : endBS b ('@' :: (lit ++ r2)) = false := by rw [hlen]; exact he
      subst hr3
      cases hl : r3.getLast? with
      | none =>
        have : r3 = [] := by simpa using hl
        subst this; simp [endBS]
      | some z =>
        have h1 : ('@' :: (lit ++ '{' :: r3)).getLast? = some z := by
          have : ('@' :: (lit ++ '{' :: r3)) = ('@' :: lit ++ ['{']) ++ r3 := by simp
          rw [this, List.getLast?_append, hl]; rfl
        have h2 : ('{' :: r3).getLast? = some z := by
          have : ('{' :: r3) = ['{'] ++ r3 := rfl
          rw [this, List.getLast?_append, hl]; rfl
        simp only [endBS, h1] at this
        simp [endBS, h2, this]
    rw [List.cons_append, lexFrom_at_some P b _ lit (r2 ++ '}' :: r) (atMatch_append_some P rest lit r2 _ h),
      ih he2]
    simp
  | case4 b rest h hk ih =>
    rw [List.cons_append, lexFrom_at_none P b _ (atMatch_append_none P rest '}' r h hw (by decide) (by decide)),
      ih (endBS_tail_false he), pushText_append_mark _ _ _ (hmark _)]
  | case5 b c rest hk hc ih =>
    rw [List.cons_append, lexFrom_text P b c _ hk hc, ih (endBS_tail_text he),
      pushText_append_mark _ _ _ (hmark _)]

/-- likewise for a closing quote -/
theorem lexFrom_append_quote (hw : P.isWord '"' = false) (r : Str) (b : Bool) (v : Str)
    (he : endBS b v = false) :
    lexFrom P b (v ++ '"' :: r) = lexFrom P b v ++ .mark .quote ['"'] :: lexFrom P false r := by
  have hmark : ∀ X : List Tok, ∃ k l B', (Tok.mark Kind.quote ['"'] :: X) = .mark k l :: B' :=
    fun X => ⟨_, _, _, rfl⟩
  fun_induction lexFrom P b v with
  | case1 b =>
    have hb : b = false := by simpa [endBS] using he
    subst hb
    simp only [List.nil_append]
    rw [lexFrom_mark P false '"' .quote r (by decide) (.inl rfl)] <;> simp [lexFrom]
  | case2 b c rest k hk ih =>
    have hd : delimKind c = some k ∧ (b = false ∨ c = '\n') := by
      split at hk
      · cases hk
      · rename_i hcond
        refine ⟨hk, ?_⟩
        cases b with
        | false => exact .inl rfl
        | true => right; simpa using hcond
    rw [List.cons_append, lexFrom_mark P b c k _ hd.1 hd.2, ih (endBS_tail_false he)]
    simp
  | case3 b rest lit r2 h hk ih =>
    have hlen := (atMatch_spec P rest lit r2 h).1
    have he2 : endBS false r2 = false := by
      obtain ⟨r3, hr3⟩ := (atMatch_spec P rest lit r2 h).2.2
      have : endBS b ('@' :: (lit ++ r2)) = false := by rw [hlen]; exact he
      subst hr3
      cases hl : r3.getLast? with
      | none =>
        have : r3 = [] := by simpa using hl
        subst this; simp [endBS]
      | some z =>
        have h1 : ('@' :: (lit ++ '{' :: r3)).getLast? = some z := by
          have : ('@' :: (lit ++ '{' :: r3)) = ('@' :: lit ++ ['{']) ++ r3 := by simp
          rw [this, List.getLast?_append, hl]; rfl
        have h2 : ('{' :: r3).getLast? = some z := by
          have : ('{' :: r3) = ['{'] ++ r3 := rfl
          rw [this, List.getLast?_append, hl]; rfl
        simp only [endBS, h1] at this
        simp [endBS, h2, this]
    rw [List.cons_append, lexFrom_at_some P b _ lit (r2 ++ '"' :: r) (atMatch_append_some P rest lit r2 _ h),
      ih he2]
    simp
  | case4 b rest h hk ih =>
    rw [List.cons_append, lexFrom_at_none P b _ (atMatch_append_none P rest '"' r h hw (by decide) (by decide)),
      ih (endBS_tail_false he), pushText_append_mark _ _ _ (hmark _)]
  | case5 b c rest hk hc ih =>
    rw [List.cons_append, lexFrom_text P b c _ hk hc, ih (endBS_tail_text he),
      pushText_append_mark _ _ _ (hmark _)]

/-! ### the fixed prefix `"\n@a{k, f = "` and the two character-level theorems -/

theorem ascii_space {P : PyChars} (hP : AsciiOK P) (c : Char) (h : c.toNat < 128) :
    P.isSpace c = asciiChars.isSpace c := (hP c h).1
theorem ascii_word {P : PyChars} (hP : AsciiOK P) (c : Char) (h : c.toNat < 128) :
    P.isWord c = asciiChars.isWord c := (hP c h).2.1
theorem ascii_lower {P : PyChars} (hP : AsciiOK P) (c : Char) (h : c.toNat < 128) :
    P.lowerC c = asciiChars.lowerC c := (hP c h).2.2

theorem spaceOK_of_ascii {P : PyChars} (hP : AsciiOK P) : SpaceOK P where
  nl := by rw [ascii_space hP _ (by decide)]; decide
  lb := by rw [ascii_space hP _ (by decide)]; decide
  rb := by rw [ascii_space hP _ (by decide)]; decide
  qu := by rw [ascii_space hP _ (by decide)]; decide

theorem classify_a {P : PyChars} (hP : AsciiOK P) : classify P "@a".toList = (.entry, "a".toList) := by
  have h1 : P.lowerC '@' = ['@'] := by rw [ascii_lower hP _ (by decide)]; decide
  have h2 : P.lowerC 'a' = ['a'] := by rw [ascii_lower hP _ (by decide)]; decide
  have h3 : P.isSpace 'a' = false := by rw [ascii_space hP _ (by decide)]; decide
  have hl : lower P "@a".toList = "@a".toList := by simp [lower, h1, h2]
  unfold classify
  simp only [hl]
  simp [startsWith, strip, lstrip, rstrip, h3]

theorem atMatch_a {P : PyChars} (hP : AsciiOK P) (rest : Str) :
    atMatch P ('a' :: '{' :: rest) = some (['a'], '{' :: rest) := by
  have h1 : P.isWord 'a' = true := by rw [ascii_word hP _ (by decide)]; decide
  have h2 : P.isWord '{' = false := by rw [ascii_word hP _ (by decide)]; decide
  simp [atMatch, h1, h2, isBlank]

/-- tokens of `"\n@a{k, f = "` followed by an opening delimiter `d` (a `{` or a `"`) -/
theorem lex_prefix {P : PyChars} (hP : AsciiOK P) (d : Char) (kd : Kind) (hd : delimKind d = some kd) (rest : Str) :
    lex P ("@a{k, f = ".toList ++ d :: rest) =
      [.mark .nl ['\n'], .mark .at "@a".toList, .mark .lbrace ['{'], .text "k".toList, .mark .comma [','],
       .text " f ".toList, .mark .eq ['='], .text " ".toList, .mark kd [d]] ++ lexFrom P false rest := by
  show lexFrom P false ('\n' :: '@' :: 'a' :: '{' :: 'k' :: ',' :: ' ' :: 'f' :: ' ' :: '=' :: ' ' :: d :: rest) = _
  rw [lexFrom_mark P false '\n' .nl _ (by decide) (.inl rfl),
    lexFrom_at_some P false _ _ _ (atMatch_a hP _),
    lexFrom_mark P false '{' .lbrace _ (by decide) (.inl rfl),
    lexFrom_text P false 'k' _ (by decide) (by decide),
    lexFrom_mark P (decide ('k' = '\\')) ',' .comma _ (by decide) (.inl (by decide)),
    lexFrom_text P false ' ' _ (by decide) (by decide),
    lexFrom_text P (decide (' ' = '\\')) 'f' _ (by decide) (by decide),
    lexFrom_text P (decide ('f' = '\\')) ' ' _ (by decide) (by decide),
    lexFrom_mark P (decide (' ' = '\\')) '=' .eq _ (by decide) (.inl (by decide)),
    lexFrom_text P false ' ' _ (by decide) (by decide),
    lexFrom_mark P (decide (' ' = '\\')) d kd _ hd (.inl (by decide))]
  simp [pushText]

theorem strip_k {P : PyChars} (hP : AsciiOK P) : strip P (flatten [.text "k".toList]) = "k".toList := by
  have h : P.isSpace 'k' = false := by rw [ascii_space hP _ (by decide)]; decide
  simp [flatten, Tok.lit, strip, lstrip, rstrip, h]

theorem strip_f {P : PyChars} (hP : AsciiOK P) : strip P (flatten [.text " f ".toList]) = "f".toList := by
  have h : P.isSpace 'f' = false := by rw [ascii_space hP _ (by decide)]; decide
  have h2 : P.isSpace ' ' = true := by rw [ascii_space hP _ (by decide)]; decide
  simp [flatten, Tok.lit, strip, lstrip, rstrip, h, h2]

/-- the entry that `@a{k, f = <value>}` must parse to -/
def oneFieldEntry (value raw : Str) : Block :=
  .live (.entry { ty := "a".toList, key := "k".toList, fields := [⟨"f".toList, .str value, 0⟩], line := 0, raw := raw })

/-- **Re-parse of a brace-enclosed value, character level.** -/
theorem reparse_braces_chars {P : PyChars} (hP : AsciiOK P) (v : Str) (hb : IsBal (lexFrom P false v))
    (hn : NoAt (lexFrom P false v)) (he : endBS false v = false) :
    split P ("@a{k, f = {".toList ++ v ++ "}}".toList) =
      .ok [oneFieldEntry ('{' :: v ++ ['}']) ("@a{k, f = {".toList ++ v ++ "}}".toList)] := by
  have hw : P.isWord '}' = false := by rw [ascii_word hP _ (by decide)]; decide
  have hsp : allSpace P " ".toList := by
    intro c hc
    have : c = ' ' := by simpa using hc
    subst this; rw [ascii_space hP _ (by decide)]; decide
  have hlex : lex P ("@a{k, f = {".toList ++ v ++ "}}".toList) =
      entryToks "@a".toList "k".toList " f ".toList " ".toList (.mark .lbrace ['{']) (lexFrom P false v)
        (.mark .rbrace ['}']) := by
    have e1 : "@a{k, f = {".toList ++ v ++ "}}".toList = "@a{k, f = ".toList ++ '{' :: (v ++ '}' :: ['}']) := by
      simp
    rw [e1, lex_prefix hP '{' .lbrace (by decide), lexFrom_append_rbrace P hw ['}'] false v he,
      lexFrom_mark P false '}' .rbrace [] (by decide) (.inl rfl)]
    simp [entryToks, lexFrom]
  unfold split
  rw [hlex, reparse_braces_toks P (spaceOK_of_ascii hP) _ _ _ _ _ (classify_a hP) hsp _ hb hn]
  have hk := strip_k hP
  have hf := strip_f hP
  have := flatten_lexFrom P false v
  simp only [flatten, Tok.lit, String.toList, List.flatMap_cons, List.flatMap_nil, List.append_nil] at hk hf this
  simp [expectedEntry, oneFieldEntry, entryToks, flatten, Tok.lit, this]
  exact ⟨hk, hf⟩

/-- **Re-parse of a quote-enclosed value, character level.** -/
theorem reparse_quotes_chars {P : PyChars} (hP : AsciiOK P) (v : Str) (hb : IsQBody (lexFrom P false v))
    (hn : NoAt (lexFrom P false v)) (he : endBS false v = false) :
    split P ("@a{k, f = \"".toList ++ v ++ "\"}".toList) =
      .ok [oneFieldEntry ('"' :: v ++ ['"']) ("@a{k, f = \"".toList ++ v ++ "\"}".toList)] := by
  have hw : P.isWord '"' = false := by rw [ascii_word hP _ (by decide)]; decide
  have hsp : allSpace P " ".toList := by
    intro c hc
    have : c = ' ' := by simpa using hc
    subst this; rw [ascii_space hP _ (by decide)]; decide
  have hlex : lex P ("@a{k, f = \"".toList ++ v ++ "\"}".toList) =
      entryToks "@a".toList "k".toList " f ".toList " ".toList (.mark .quote ['"']) (lexFrom P false v)
        (.mark .quote ['"']) := by
    have e1 : "@a{k, f = \"".toList ++ v ++ "\"}".toList = "@a{k, f = ".toList ++ '"' :: (v ++ '"' :: ['}']) := by
      simp
    rw [e1, lex_prefix hP '"' .quote (by decide), lexFrom_append_quote P hw ['}'] false v he,
      lexFrom_mark P false '}' .rbrace [] (by decide) (.inl rfl)]
    simp [entryToks, lexFrom]
  unfold split
  rw [hlex, reparse_quotes_toks P (spaceOK_of_ascii hP) _ _ _ _ _ (classify_a hP) hsp _ hb hn]
  have hk := strip_k hP
  have hf := strip_f hP
  have := flatten_lexFrom P false v
  simp only [flatten, Tok.lit, String.toList, List.flatMap_cons, List.flatMap_nil, List.append_nil] at hk hf this
  simp [expectedEntry, oneFieldEntry, entryToks, flatten, Tok.lit, this]
  exact ⟨hk, hf⟩

/-! ### K2: a block-start sequence inside the value -/

theorem asciiOK_ascii : AsciiOK asciiChars := fun _ _ => ⟨rfl, rfl, rfl⟩

/-- the tokens of the value `x@y{z}`: text, a block start `@y`, `{`, text, `}` -/
theorem k2_value_tokens : lexFrom asciiChars false "x@y{z}".toList =
    [.text "x".toList, .mark .at "@y".toList, .mark .lbrace ['{'], .text "z".toList, .mark .rbrace ['}']] := by
  have hat : atMatch asciiChars "y{z}".toList = some ("y".toList, "{z}".toList) := by decide
  show lexFrom asciiChars false ('x' :: '@' :: "y{z}".toList) = _
  rw [lexFrom_text asciiChars false 'x' _ (by decide) (by decide),
    lexFrom_at_some asciiChars _ _ _ _ hat]
  show pushText 'x' (_ :: lexFrom asciiChars false ('{' :: 'z' :: '}' :: [])) = _
  rw [lexFrom_mark asciiChars false '{' .lbrace _ (by decide) (.inl rfl),
    lexFrom_text asciiChars false 'z' _ (by decide) (by decide),
    lexFrom_mark asciiChars (decide ('z' = '\\')) '}' .rbrace _ (by decide) (.inl (by decide))]
  simp [pushText, lexFrom]

theorem k2_value_balanced : IsBal (lexFrom asciiChars false "x@y{z}".toList) := by
  rw [k2_value_tokens]
  refine .ord trivial (.ord ⟨by decide, by decide⟩ ?_)
  exact IsBal.nest (a := [.text "z".toList]) (b := []) (.ord trivial .nil) .nil

/-- the whole entry text lexes to these tokens -/
theorem k2_tokens : lex asciiChars "@a{k, f = {x@y{z}}}".toList =
    [.mark .nl ['\n'], .mark .at "@a".toList, .mark .lbrace ['{'], .text "k".toList, .mark .comma [','],
     .text " f ".toList, .mark .eq ['='], .text " ".toList, .mark .lbrace ['{'],
     .text "x".toList, .mark .at "@y".toList, .mark .lbrace ['{'], .text "z".toList, .mark .rbrace ['}'],
     .mark .rbrace ['}'], .mark .rbrace ['}']] := by
  have e1 : "@a{k, f = {x@y{z}}}".toList = "@a{k, f = ".toList ++ '{' :: ("x@y{z}".toList ++ '}' :: ['}']) := by decide
  rw [e1, lex_prefix asciiOK_ascii '{' .lbrace (by decide),
    lexFrom_append_rbrace asciiChars (by decide) ['}'] false _ (by decide), k2_value_tokens,
    lexFrom_mark asciiChars false '}' .rbrace [] (by decide) (.inl rfl)]
  simp [lexFrom]

/-- ... and the automaton ends the entry at `@y{`: a failed block, the entry `@y{z}`, and `}}` as text -/
theorem k2_blocks :
    (splitToks asciiChars
      [.mark .nl ['\n'], .mark .at "@a".toList, .mark .lbrace ['{'], .text "k".toList, .mark .comma [','],
       .text " f ".toList, .mark .eq ['='], .text " ".toList, .mark .lbrace ['{'],
       .text "x".toList, .mark .at "@y".toList, .mark .lbrace ['{'], .text "z".toList, .mark .rbrace ['}'],
       .mark .rbrace ['}'], .mark .rbrace ['}']]).toOption.map
        (fun bs => bs.map fun b => (b.isFailed, String.ofList b.raw))
      = some [(true, "@a{k, f = {x"), (false, "@y{z}"), (false, "}}")] := by
  decide +kernel

/-! ### a concrete character-level instance: `x{"}y` (a quote inside braces) -/

theorem ex_value_tokens : lexFrom asciiChars false "x{\"}y".toList =
    [.text "x".toList, .mark .lbrace ['{'], .mark .quote ['"'], .mark .rbrace ['}'], .text "y".toList] := by
  show lexFrom asciiChars false ('x' :: '{' :: '"' :: '}' :: 'y' :: []) = _
  rw [lexFrom_text asciiChars false 'x' _ (by decide) (by decide),
    lexFrom_mark asciiChars (decide ('x' = '\\')) '{' .lbrace _ (by decide) (.inl (by decide)),
    lexFrom_mark asciiChars false '"' .quote _ (by decide) (.inl rfl),
    lexFrom_mark asciiChars false '}' .rbrace _ (by decide) (.inl rfl),
    lexFrom_text asciiChars false 'y' _ (by decide) (by decide)]
  simp [pushText, lexFrom]

theorem ex_value_ok : IsBal (lexFrom asciiChars false "x{\"}y".toList) ∧ IsQBody (lexFrom asciiChars false "x{\"}y".toList) ∧
    NoAt (lexFrom asciiChars false "x{\"}y".toList) ∧ endBS false "x{\"}y".toList = false := by
  rw [ex_value_tokens]
  refine ⟨?_, ?_, ?_, by decide⟩
  · exact .ord trivial (IsBal.nest (a := [.mark .quote ['"']]) (b := [.text "y".toList])
      (.ord ⟨by decide, by decide⟩ .nil) (.ord trivial .nil))
  · exact .ord trivial (by intro l h; cases h) (IsQBody.nest (a := [.mark .quote ['"']]) (b := [.text "y".toList])
      (.ord ⟨by decide, by decide⟩ .nil) (.ord trivial (by intro l h; cases h) .nil))
  · intro t ht l h
    subst h
    simp at ht

end Bib.Reparse
