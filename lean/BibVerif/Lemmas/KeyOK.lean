/-
  C05: keys, in general.  `KeyOK P k`: the tokens of the key are text / newline tokens only (every other
  delimiter in it is escaped by a backslash, no `@` in it starts a block) and it does not end in a
  backslash.  `KeyText` (one text token, no newline) is the special case.  A key written verbatim - with
  blanks before and after it - and followed by `,` or `=` is read back as these tokens.
-/
import BibVerif.Lemmas.TrimLex
namespace Bib.PrintParse
open Bib

variable {P : PyChars}

def KeyOK (P : PyChars) (k : Str) : Prop :=
  (lexFrom P false k).all isPlainTok = true ∧ lastIsBS false k = false

/-- a delimiter `d` (not `{`) after `v` is lexed as a mark of its own, and `v` as if it stood alone,
unless `v` ends in a backslash -/
theorem lex_append_delim (d : Char) (kd : Kind) (hkd : delimKind d = some kd) (hw : P.isWord d = false)
    (hbl : isBlank d = false) (hne : d ≠ '{') (r : Str) (b : Bool) (v : Str)
    (he : Reparse.endBS b v = false) :
    lexFrom P b (v ++ d :: r) = lexFrom P b v ++ .mark kd [d] :: lexFrom P false r := by
  have hmark : ∀ X : List Tok, ∃ k l B', (Tok.mark kd [d] :: X) = .mark k l :: B' :=
    fun X => ⟨_, _, _, rfl⟩
  fun_induction lexFrom P b v with
  | case1 b =>
    have hb : b = false := by simpa [Reparse.endBS] using he
    subst hb
    simp only [List.nil_append]
    rw [Reparse.lexFrom_mark P false d kd r hkd (.inl rfl)]
  | case2 b c rest k hk ih =>
    have hd : delimKind c = some k ∧ (b = false ∨ c = '\n') := by
      split at hk
      · cases hk
      · rename_i hcond
        refine ⟨hk, ?_⟩
        cases b with
        | false => exact .inl rfl
        | true => right; simpa using hcond
    rw [List.cons_append, Reparse.lexFrom_mark P b c k _ hd.1 hd.2, ih (Reparse.endBS_tail_false he)]
    simp
  | case3 b rest lit r2 h hk ih =>
    have hlen := (atMatch_spec P rest lit r2 h).1
    have he2 : Reparse.endBS false r2 = false := by
      obtain ⟨r3, hr3⟩ := (atMatch_spec P rest lit r2 h).2.2
      have : Reparse.endBS b ('@' :: (lit ++ r2)) = false := by rw [hlen]; exact he
      subst hr3
      cases hl : r3.getLast? with
      | none =>
        have : r3 = [] := by simpa using hl
        subst this; simp [Reparse.endBS]
      | some z =>
        have h1 : ('@' :: (lit ++ '{' :: r3)).getLast? = some z := by
          have : ('@' :: (lit ++ '{' :: r3)) = ('@' :: lit ++ ['{']) ++ r3 := by simp
          rw [this, List.getLast?_append, hl]; rfl
        have h2 : ('{' :: r3).getLast? = some z := by
          have : ('{' :: r3) = ['{'] ++ r3 := rfl
          rw [this, List.getLast?_append, hl]; rfl
        simp only [Reparse.endBS, h1] at this
        simp [Reparse.endBS, h2, this]
    rw [List.cons_append, Reparse.lexFrom_at_some P b _ lit (r2 ++ d :: r)
      (Reparse.atMatch_append_some P rest lit r2 _ h), ih he2]
    simp
  | case4 b rest h hk ih =>
    rw [List.cons_append, Reparse.lexFrom_at_none P b _ (Reparse.atMatch_append_none P rest d r h hw hbl hne),
      ih (Reparse.endBS_tail_false he), Reparse.pushText_append_mark _ _ _ (hmark _)]
  | case5 b c rest hk hc ih =>
    rw [List.cons_append, Reparse.lexFrom_text P b c _ hk hc, ih (Reparse.endBS_tail_text he),
      Reparse.pushText_append_mark _ _ _ (hmark _)]

/-! ### plain token lists and blanks around them -/

theorem plain_pushText (c : Char) (T : List Tok) (h : T.all isPlainTok = true) :
    (pushText c T).all isPlainTok = true := by
  match T, h with
  | [], _ => rfl
  | .text cs :: r, h => simpa [pushText, isPlainTok] using h
  | .mark k l :: r, h => simpa [pushText, isPlainTok] using h

theorem plain_snocText (T : List Tok) (c : Char) (h : T.all isPlainTok = true) :
    (snocText T c).all isPlainTok = true := by
  rcases snocText_shape T c with ⟨A, cs, h1, h2⟩ | h2
  · rw [h2]; rw [h1] at h
    simpa [isPlainTok] using h
  · rw [h2]; simp [h, isPlainTok]

theorem blank_harmless (hP : WordOK2 P) (c : Char) (hc : isBlank c = true) : Harmless P c := by
  refine ⟨?_, hP.blank c hc⟩
  simp only [isBlank, Bool.or_eq_true, decide_eq_true_eq] at hc
  rcases hc with rfl | rfl <;> decide

theorem plain_lead (hP : WordOK2 P) (pre s : Str) (hpre : ∀ x ∈ pre, isBlank x = true)
    (h : (lexFrom P false s).all isPlainTok = true) : (lexFrom P false (pre ++ s)).all isPlainTok = true := by
  induction pre with
  | nil => exact h
  | cons c r ih =>
    obtain ⟨hd, hat, hbs⟩ := simpleChar_spec (blank_harmless hP c (hpre c List.mem_cons_self)).simple
    have hk : (if (false && decide (c ≠ '\n')) = true then none else delimKind c) = none := by simpa using hd
    rw [List.cons_append, Reparse.lexFrom_text P false c _ hk hat]
    have hb : decide (c = '\\') = false := by simpa using hbs
    rw [hb]
    exact plain_pushText c _ (ih (fun x hx => hpre x (List.mem_cons_of_mem _ hx)))

theorem plain_trail (hP : WordOK2 P) (bl : Str) (hbl : ∀ x ∈ bl, isBlank x = true) :
    ∀ (b : Bool) (s : Str), (lexFrom P b s).all isPlainTok = true → (lexFrom P b (s ++ bl)).all isPlainTok = true := by
  induction bl with
  | nil => intro b s h; simpa using h
  | cons c r ih =>
    intro b s h
    have := ih (fun x hx => hbl x (List.mem_cons_of_mem _ hx)) b (s ++ [c])
      (by rw [lex_snoc_harmless hP c (blank_harmless hP c (hbl c List.mem_cons_self))]; exact plain_snocText _ c h)
    simpa using this

theorem lastIsBS_blanks (b : Bool) (s : Str) (hs : ∀ x ∈ s, isBlank x = true) (hb : b = false) :
    lastIsBS b s = false := by
  induction s generalizing b with
  | nil => exact hb
  | cons c r ih =>
    rw [lastIsBS_cons]
    apply ih _ (fun x hx => hs x (List.mem_cons_of_mem _ hx))
    have := hs c List.mem_cons_self
    simp only [isBlank, Bool.or_eq_true, decide_eq_true_eq] at this
    rcases this with rfl | rfl <;> decide

/-- **a key in context**: `pre` and `bl` blanks, `c` the `,` or `=` after it -/
theorem lex_keyctx2 (hP : WordOK2 P) (pre k bl : Str) (c : Char) (kd : Kind) (X : Str)
    (hpre : ∀ x ∈ pre, isBlank x = true) (hk : KeyOK P k) (hbl : ∀ x ∈ bl, isBlank x = true)
    (hkd : delimKind c = some kd) (hw : P.isWord c = false) (hb : isBlank c = false) (hc : c ≠ '{') :
    lexFrom P false (pre ++ k ++ bl ++ c :: X) =
      lexFrom P false (pre ++ k ++ bl) ++ .mark kd [c] :: lexFrom P false X ∧
    (lexFrom P false (pre ++ k ++ bl)).all isPlainTok = true := by
  constructor
  · apply lex_append_delim c kd hkd hw hb hc
    show lastIsBS false (pre ++ k ++ bl) = false
    rw [lastIsBS_append, lastIsBS_append]
    apply lastIsBS_blanks _ bl hbl
    rw [lastIsBS_blanks false pre hpre rfl]
    exact hk.2
  · rw [List.append_assoc]
    exact plain_lead hP pre _ hpre (plain_trail hP bl hbl false k hk.1)

theorem keyOK_of_keyText (k : Str) (h : KeyText P k) : KeyOK P k := by
  refine ⟨?_, h.2⟩
  by_cases hk : k = []
  · subst hk; simp [lexFrom]
  · have := lex_text P false k [] hk h.1 [] (by simp [lexFrom]) trivial
    rw [List.append_nil] at this
    rw [this]; rfl

/-- the simplest keys: no delimiter, `@` or backslash at all -/
theorem keyOK_of_simple (k : Str) (h : SimpleText k) : KeyOK P k := keyOK_of_keyText k (keyText_of_simple k h)

theorem keyOK_nil : KeyOK P [] := ⟨by simp [lexFrom], rfl⟩

/-- keys may contain newlines: two keys joined by a newline form a key -/
theorem keyOK_nl (hw : P.isWord '\n' = false) (a b : Str) (ha : KeyOK P a) (hb : KeyOK P b) :
    KeyOK P (a ++ '\n' :: b) := by
  constructor
  · rw [lex_append_nl hw b false a]
    simp [ha.1, hb.1, isPlainTok]
  · rw [lastIsBS_append, lastIsBS_cons]
    exact hb.2

end Bib.PrintParse
