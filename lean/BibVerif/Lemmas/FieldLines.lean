/-
  C03, field lines: an invariant of the splitter automaton saying where the `=` of every field of an
  entry sits in the entry's raw text, and that the line recorded for the field is the line of that
  `=`.  Helper lemmas only; the property statement is in `Props/C03.lean`.
-/
import BibVerif.Lemmas.Tile
import BibVerif.Lemmas.LexNl
import BibVerif.Lemmas.Scan
namespace Bib

/-- an `=` mark consists of the character `=` (true of lexed input) -/
def EqLit (t : Tok) : Prop := ∀ l, t = .mark .eq l → l = ['=']

theorem eqLit_pushText (c : Char) (ts : List Tok) (h : ∀ t ∈ ts, EqLit t) :
    ∀ t ∈ pushText c ts, EqLit t := by
  intro t ht
  cases ts with
  | nil =>
    simp only [pushText, List.mem_singleton] at ht; subst ht
    intro l hl; cases hl
  | cons a r =>
    cases a with
    | text cs =>
      simp only [pushText, List.mem_cons] at ht
      rcases ht with rfl | ht
      · intro l hl; cases hl
      · exact h t (List.mem_cons_of_mem _ ht)
    | mark k l =>
      simp only [pushText, List.mem_cons] at ht
      rcases ht with rfl | ht
      · intro l hl; cases hl
      · exact h t (by simpa using ht)

theorem delimKind_eq (c : Char) (h : delimKind c = some .eq) : c = '=' := by
  unfold delimKind at h
  repeat' split at h
  all_goals first
    | (cases h; done)
    | assumption

theorem eqLit_lexFrom (P : PyChars) (b : Bool) (s : Str) : ∀ t ∈ lexFrom P b s, EqLit t := by
  fun_induction lexFrom P b s with
  | case1 => simp
  | case2 b c rest k hk ih =>
    intro t ht
    rcases List.mem_cons.mp ht with rfl | ht
    · intro l hl
      injection hl with hk' hl'
      subst hk' hl'
      have hd : delimKind c = some .eq := by
        split at hk
        · cases hk
        · exact hk
      rw [delimKind_eq c hd]
    · exact ih t ht
  | case3 b rest lit r2 h hk ih =>
    intro t ht
    rcases List.mem_cons.mp ht with rfl | ht
    · intro l hl; cases hl
    · exact ih t ht
  | case4 b rest h hk ih => exact eqLit_pushText _ _ ih
  | case5 b c rest hk hc ih => exact eqLit_pushText _ _ ih

variable (P : PyChars)

/-- keys and lines of a field list -/
def kl (fs : List Field) : List (Str × Int) := fs.map fun f => (f.key, f.line)

theorem kl_append (a b : List Field) : kl (a ++ b) = kl a ++ kl b := by simp [kl]

/-- the token list ends with a `,` mark (the separator in front of a field) -/
def EndsComma (ts : List Tok) : Prop := ∃ p c, ts = p ++ [Tok.mark .comma c]

/-- `FieldsAt bl raw kls`: reading the tokens `raw` of an entry that starts on line `bl` from the
left one finds, in order, for every `(key, line)` of `kls`: a `,` mark, then tokens `kt` that are text
or newlines only (no delimiter), then an `=` mark - where `key = strip (text of kt)` and `line` is
`bl` plus the number of newlines of `raw` in front of that `=`. -/
inductive FieldsAt (bl : Int) : List Tok → List (Str × Int) → Prop
  | head (hd : List Tok) : FieldsAt bl hd []
  | field (pre kt : List Tok) (l : Str) (kls : List (Str × Int)) :
      FieldsAt bl pre kls → EndsComma pre → kt.all isPlainTok = true →
      FieldsAt bl (pre ++ kt ++ [Tok.mark .eq l])
        (kls ++ [(strip P (flatten kt), bl + nlc (flatten (pre ++ kt)))])
  | more (pre x : List Tok) (kls : List (Str × Int)) : FieldsAt bl pre kls → FieldsAt bl (pre ++ x) kls

/-- the entry a block carries: a live entry, or the entry inside a duplicate-field wrapper -/
def entryOf : Block → Option Entry
  | .live (.entry e) => some e
  | .dupField _ e => some e
  | _ => none

/-- where an emitted entry sits in the consumed tokens `cs`, with its fields -/
def Placed (cs : List Tok) (b : Block) : Prop :=
  ∀ e, entryOf b = some e →
    ∃ preT rawT postT, cs = preT ++ rawT ++ postT ∧ e.raw = flatten rawT ∧
      e.line = nlc (flatten preT) - 1 ∧ FieldsAt P e.line rawT (kl e.fields)

def Outs (cs : List Tok) (out : List Block) : Prop := ∀ b ∈ out, Placed P cs b

def ModeOK (s : St) : Prop :=
  match s.mode with
  | .fldKey _ _ fs fk =>
    fk.all isPlainTok = true ∧
      ∃ pre, s.raw.reverse = pre ++ fk.reverse ∧ EndsComma pre ∧ FieldsAt P s.blockLine pre (kl fs)
  | .fldVal _ _ fs fk el _ _ _ _ => FieldsAt P s.blockLine s.raw.reverse (kl fs ++ [(fk, el)])
  | _ => True

/-- inside a block, the consumed tokens end with the tokens of the block -/
def TokPos (s : St) (cs : List Tok) : Prop :=
  match s.mode with
  | .top _ _ => True
  | _ => ∃ preT, cs = preT ++ s.raw.reverse

def FInv (s : St) (cs : List Tok) : Prop :=
  Outs P cs s.out ∧ (s.err = none → ModeOK P s) ∧ (s.err = none → TokPos s cs)

/-- inside a block the line counter is the block's line plus the newlines of its text so far, and
the block's line is the number of newlines before it (minus the prepended one) -/
def LineOK (s : St) (cs : List Tok) : Prop :=
  s.err = none → (∀ impl il, s.mode = .top impl il → False) →
    s.line = s.blockLine + nlc (rflat s.raw) ∧
    ∀ preT, cs = preT ++ s.raw.reverse → s.blockLine = nlc (flatten preT) - 1

theorem lineOK_of_inv {s : St} {cs : List Tok} (h : Inv P s cs) : LineOK s cs := by
  intro he hnt
  obtain ⟨pre, carry, _, _, hf, hln, hst⟩ := h he
  rw [pending_of_not_top hnt] at hf
  rw [startLine_of_not_top hnt] at hst
  refine ⟨?_, ?_⟩
  · rw [hln, hst, hf]
    simp only [nlc_append]
    omega
  · intro preT hcs
    have : flatten preT = pre ++ carry := by
      have h1 : flatten cs = flatten preT ++ rflat s.raw := by rw [hcs, flatten_append]; rfl
      rw [h1] at hf
      exact List.append_cancel_right hf
    rw [hst, this]

theorem placed_mono {cs : List Tok} (x : List Tok) {b : Block} (h : Placed P cs b) :
    Placed P (cs ++ x) b := by
  intro e he
  obtain ⟨preT, rawT, postT, h1, h2, h3, h4⟩ := h e he
  exact ⟨preT, rawT, postT ++ x, by rw [h1]; simp, h2, h3, h4⟩

theorem outs_mono {cs : List Tok} (x : List Tok) {out : List Block} (h : Outs P cs out) :
    Outs P (cs ++ x) out := fun b hb => placed_mono P x (h b hb)

theorem placed_of_not_entry {cs : List Tok} {b : Block} (h : entryOf b = none) : Placed P cs b := by
  intro e he; rw [h] at he; cases he

theorem placed_mkEntry (cs preT rawT : List Tok) (ty key : Str) (fs : List Field) (l : Int)
    (hcs : cs = preT ++ rawT) (hl : l = nlc (flatten preT) - 1) (h : FieldsAt P l rawT (kl fs)) :
    Placed P cs (mkEntry ty key fs l (flatten rawT)) := by
  intro e he
  have : e = { ty := ty, key := key, fields := fs, line := l, raw := flatten rawT } := by
    simp only [mkEntry] at he
    split at he <;> simp [entryOf] at he <;> exact he.symm
  subst this
  exact ⟨preT, rawT, [], by simp [hcs], rfl, hl, h⟩

theorem outs_cons {cs : List Tok} {out : List Block} {b : Block} (hb : Placed P cs b)
    (h : Outs P cs out) : Outs P cs (b :: out) := by
  intro x hx
  rcases List.mem_cons.mp hx with rfl | hx
  · exact hb
  · exact h x hx

theorem outs_endImplicit {cs : List Tok} {out : List Block} (impl : List Tok) (il : Int)
    (h : Outs P cs out) : Outs P cs ((endImplicit P impl il).reverse ++ out) := by
  intro x hx
  rcases List.mem_append.mp hx with hx | hx
  · have hx' : x ∈ endImplicit P impl il := by simpa using hx
    simp only [endImplicit] at hx'
    split at hx'
    · cases hx'
    · simp only [List.mem_singleton] at hx'; subst hx'; exact placed_of_not_entry P rfl
  · exact h x hx

theorem finv_stepTop (s : St) (cs : List Tok) (impl : List Tok) (il : Int) (t : Tok)
    (h : Outs P cs s.out) : FInv P (stepTop P s impl il t) (cs ++ [t]) := by
  unfold stepTop
  split
  · refine ⟨outs_endImplicit P impl il (outs_mono P _ h), fun _ => ?_, fun _ => ?_⟩
    · simp only [ModeOK]
    · exact ⟨cs, by simp⟩
  · exact ⟨outs_mono P _ h, fun _ => by simp only [ModeOK], fun _ => by simp only [TokPos]⟩
  · exact ⟨outs_mono P _ h, fun _ => by simp only [ModeOK], fun _ => by simp only [TokPos]⟩

theorem finv_redo (s : St) (cs : List Tok) (t : Tok) (why : Fail) (h : Outs P cs s.out) :
    FInv P (match (abort s why).mode with
            | .top impl il => stepTop P (abort s why) impl il t
            | _ => abort s why) (cs ++ [t]) := by
  have hm : (abort s why).mode = .top [] s.line := by simp [abort, toTop]
  rw [hm]
  exact finv_stepTop P _ _ _ _ _ (by
    simp only [abort, toTop]
    exact outs_cons P (placed_of_not_entry P rfl) h)

theorem finv_toTop (s : St) (cs : List Tok) (t : Tok) (b : Block) (hb : Placed P (cs ++ [t]) b)
    (h : Outs P cs s.out) : FInv P (toTop s b) (cs ++ [t]) :=
  ⟨by simpa [toTop] using outs_cons P hb (outs_mono P _ h), fun _ => by simp only [toTop, ModeOK],
   fun _ => by simp only [toTop, TokPos]⟩

theorem tokpos_push {cs preT raw : List Tok} (t : Tok) (h : cs = preT ++ raw.reverse) :
    ∃ p, cs ++ [t] = p ++ (t :: raw).reverse := ⟨preT, by simp [h]⟩

theorem placed_emit (cs preT raw : List Tok) (t : Tok) (ty key : Str) (fs : List Field) (l : Int)
    (hcs : cs = preT ++ raw.reverse) (hl : l = nlc (flatten preT) - 1)
    (h : FieldsAt P l (raw.reverse ++ [t]) (kl fs)) :
    Placed P (cs ++ [t]) (mkEntry ty key fs l (rflat (t :: raw))) := by
  have : rflat (t :: raw) = flatten (raw.reverse ++ [t]) := by simp [rflat]
  rw [this]
  exact placed_mkEntry P _ preT _ _ _ _ _ (by simp [hcs]) hl h

/-- closes the cases in which no field is involved -/
local macro "fl_close" : tactic => `(tactic|
  first
  | (refine ⟨outs_mono _ _ (by assumption), ?_, ?_⟩ <;>
      first
        | (intro hh; simp at hh; done)
        | (intro _; simp [ModeOK]; done)
        | (intro _; simp only [TokPos]; exact tokpos_push _ (by assumption)))
  | exact finv_redo _ _ _ _ _ (by assumption)
  | (refine finv_toTop _ _ _ _ _ (placed_of_not_entry _ ?_) (by assumption)
     first | rfl | (split <;> rfl)))

theorem step_finv (s : St) (cs : List Tok) (t : Tok) (ht : EqLit t) (hl : LineOK s cs)
    (h : FInv P s cs) : FInv P (step P s t) (cs ++ [t]) := by
  cases s with
  | mk out line bl raw mode err =>
  cases err with
  | some e =>
    obtain ⟨ho, _, _⟩ := h
    exact ⟨by simpa [step] using outs_mono P _ ho, fun hh => by simp [step] at hh,
      fun hh => by simp [step] at hh⟩
  | none =>
    obtain ⟨ho, hm, hp⟩ := h
    have hm := hm rfl
    have hp := hp rfl
    have hl := hl rfl
    simp only at ho
    cases mode with
    | top impl il => simp only [step]; exact finv_stepTop P _ _ _ _ _ ho
    | afterAt k ty =>
      obtain ⟨preT, hcs⟩ := hp
      simp only at hcs
      cases t with
      | text cs => simp [step, absorb]; fl_close
      | mark k' l => cases k' <;> simp [step, absorb] <;> first | fl_close | (split <;> fl_close)
    | bracket k d b =>
      obtain ⟨preT, hcs⟩ := hp
      simp only at hcs
      cases t with
      | text cs => simp [step, absorb]; fl_close
      | mark k' l => cases k' <;> simp [step, absorb] <;> first | fl_close | (split <;> fl_close)
    | strKey key =>
      obtain ⟨preT, hcs⟩ := hp
      simp only at hcs
      cases t with
      | text cs => simp [step, absorb]; fl_close
      | mark k' l => cases k' <;> simp [step, absorb] <;> first | fl_close | (split <;> fl_close)
    | strVal key d v =>
      obtain ⟨preT, hcs⟩ := hp
      simp only at hcs
      cases t with
      | text cs => simp [step, absorb]; fl_close
      | mark k' l => cases k' <;> simp [step, absorb] <;> first | fl_close | (split <;> fl_close)
    | entKey ty key =>
      obtain ⟨preT, hcs⟩ := hp
      simp only at hcs
      have hbl : bl = nlc (flatten preT) - 1 := by
        have := (hl (by intro a b hh; cases hh)).2 preT hcs
        simpa using this
      cases t with
      | text cs => simp [step, absorb]; fl_close
      | mark k' l =>
        cases k' <;> simp [step, absorb] <;> first
          | fl_close
          | exact finv_toTop P _ _ _ _ (placed_emit P _ preT _ _ _ _ _ _ hcs hbl (FieldsAt.head _)) ho
          | exact ⟨outs_mono P _ ho,
              fun _ => ⟨rfl, (Tok.mark Kind.comma l :: raw).reverse, by simp, ⟨raw.reverse, l, by simp⟩,
                FieldsAt.head _⟩,
              fun _ => tokpos_push _ hcs⟩
    | fldKey ty key fs fk =>
      obtain ⟨preT, hcs⟩ := hp
      simp only at hcs
      have hbl : bl = nlc (flatten preT) - 1 := by
        have := (hl (by intro a b hh; cases hh)).2 preT hcs
        simpa using this
      have hl' : line = bl + nlc (rflat raw) := by
        have := (hl (by intro a b hh; cases hh)).1
        simpa using this
      simp only [ModeOK] at hm
      obtain ⟨hpl, pre, hraw, hec, hfa⟩ := hm
      cases t with
      | text cs =>
        simp [step, absorb]
        exact ⟨outs_mono P _ ho,
          fun _ => ⟨by simp [hpl, isPlainTok], pre, by simp [hraw], hec, hfa⟩, fun _ => tokpos_push _ hcs⟩
      | mark k' l =>
        cases k' <;> simp [step, absorb] <;> first
          | fl_close
          | exact ⟨outs_mono P _ ho,
              fun _ => ⟨by simp [hpl, isPlainTok], pre, by simp [hraw], hec, hfa⟩, fun _ => tokpos_push _ hcs⟩
          | (refine finv_toTop P _ _ _ _ (placed_emit P _ preT _ _ _ _ _ _ hcs hbl ?_) ho
             rw [hraw]
             exact FieldsAt.more _ _ _ (FieldsAt.more _ _ _ hfa))
          | (refine ⟨outs_mono P _ ho, fun _ => ?_, fun _ => tokpos_push _ hcs⟩
             have := FieldsAt.field (P := P) (bl := bl) pre fk.reverse l (kl fs) hfa hec (by simpa using hpl)
             simp only [ModeOK, List.reverse_cons, hraw, hl', rflat]
             simpa [flatten_append] using this)
    | fldVal ty key fs fk el q c qc v =>
      obtain ⟨preT, hcs⟩ := hp
      simp only at hcs
      have hbl : bl = nlc (flatten preT) - 1 := by
        have := (hl (by intro a b hh; cases hh)).2 preT hcs
        simpa using this
      simp only [ModeOK] at hm
      have hmore : ∀ x, FieldsAt P bl (raw.reverse ++ x) (kl fs ++ [(fk, el)]) :=
        fun x => FieldsAt.more _ _ _ hm
      cases t with
      | text cs =>
        simp [step, absorb]
        exact ⟨outs_mono P _ ho, fun _ => by simpa [ModeOK] using hmore _, fun _ => tokpos_push _ hcs⟩
      | mark k' l =>
        cases k' <;> simp [step, absorb] <;> first
          | fl_close
          | ((repeat' split) <;> first
              | (refine ⟨outs_mono P _ ho, fun _ => ?_, fun _ => tokpos_push _ hcs⟩
                 (simpa [ModeOK] using hmore _))
              | (refine finv_toTop P _ _ _ _ (placed_emit P _ preT _ _ _ _ _ _ hcs hbl ?_) ho
                 (simpa [kl_append, kl] using hmore _))
              | (refine ⟨outs_mono P _ ho,
                   fun _ => ⟨rfl, (Tok.mark Kind.comma l :: raw).reverse, by simp, ⟨raw.reverse, l, by simp⟩, ?_⟩,
                   fun _ => tokpos_push _ hcs⟩
                 (simpa [kl_append, kl] using hmore _)))

theorem run_finv (ts : List Tok) (hts : ∀ t ∈ ts, NlTok t) (heq : ∀ t ∈ ts, EqLit t) :
    ∀ (s : St) (cs : List Tok), Inv P s cs → FInv P s cs → FInv P (run P s ts) (cs ++ ts) := by
  induction ts with
  | nil => intro s cs _ h; simpa [run] using h
  | cons t ts ih =>
    intro s cs hi h
    rw [run_cons]
    have := ih (fun x hx => hts x (List.mem_cons_of_mem _ hx)) (fun x hx => heq x (List.mem_cons_of_mem _ hx))
      (step P s t) (cs ++ [t]) (step_inv P s cs t (hts t List.mem_cons_self) hi)
      (step_finv P s cs t (heq t List.mem_cons_self) (lineOK_of_inv P hi) h)
    simpa using this

theorem init_finv : FInv P init [] :=
  ⟨by intro b hb; simp [init] at hb, fun _ => by simp [ModeOK, init], fun _ => by simp [TokPos, init]⟩

/-- every entry among the blocks the splitter returns sits in the token list where `Placed` says,
with its fields where `FieldsAt` says -/
theorem splitToks_placed (ts : List Tok) (hts : ∀ t ∈ ts, NlTok t) (heq : ∀ t ∈ ts, EqLit t)
    (bs : List Block) (h : splitToks P ts = .ok bs) : ∀ b ∈ bs, Placed P ts b := by
  have hf := run_finv P ts hts heq init [] (init_inv P) (init_finv P)
  simp only [List.nil_append] at hf
  unfold splitToks finish at h
  generalize run P init ts = s at h hf
  split at h
  · cases h
  · split at h
    · rename_i impl il _
      injection h with h; subst h
      intro b hb
      exact outs_endImplicit P impl il hf.1 b (List.mem_reverse.mp hb)
    · injection h with h; subst h
      intro b hb
      exact outs_cons P (placed_of_not_entry P rfl) hf.1 b (List.mem_reverse.mp hb)

/-- `FieldsAt` unfolded at one field -/
theorem fieldsAt_mem {bl : Int} {raw : List Tok} {kls : List (Str × Int)} (h : FieldsAt P bl raw kls) :
    ∀ key line, (key, line) ∈ kls →
      ∃ r1 c kt l r2, raw = r1 ++ Tok.mark .comma c :: kt ++ Tok.mark .eq l :: r2 ∧
        kt.all isPlainTok = true ∧ key = strip P (flatten kt) ∧
        line = bl + nlc (flatten (r1 ++ Tok.mark .comma c :: kt)) := by
  induction h with
  | head hd => intro key line hm; cases hm
  | field pre kt l kls _ hec hpl ih =>
    intro key line hm
    rcases List.mem_append.mp hm with hm | hm
    · obtain ⟨r1, c, kt', l', r2, h1, h2, h3, h4⟩ := ih key line hm
      exact ⟨r1, c, kt', l', r2 ++ kt ++ [Tok.mark .eq l], by rw [h1]; simp, h2, h3, h4⟩
    · simp only [List.mem_singleton, Prod.mk.injEq] at hm
      obtain ⟨hk, hl⟩ := hm
      obtain ⟨p, c, hp⟩ := hec
      subst hp
      exact ⟨p, c, kt, l, [], by simp, hpl, hk, by rw [hl]; simp⟩
  | more pre x kls _ ih =>
    intro key line hm
    obtain ⟨r1, c, kt', l', r2, h1, h2, h3, h4⟩ := ih key line hm
    exact ⟨r1, c, kt', l', r2 ++ x, by rw [h1]; simp, h2, h3, h4⟩

end Bib
