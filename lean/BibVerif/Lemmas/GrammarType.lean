/-
  C05 (grammar level): what canonicity of the token list says about a block start `@type{` and about the
  text before a closing brace; the entry type of a canonical block start is a fixed point of `lower` and
  does not start with comment / preamble / string (needs three facts about `str.lower`, `LowerOK`).
-/
import BibVerif.Lemmas.GrammarPipe
import BibVerif.Lemmas.PrintParseDoc
namespace Bib.PrintParse
open Bib

variable {P : PyChars}

/-- facts about `str.lower` (checked against CPython over all code points): lower-casing a lower-cased
character changes nothing; the lower-case form of a `\w` character contains no whitespace; blank and tab
are their own lower-case forms -/
structure LowerOK (P : PyChars) : Prop where
  idem : ∀ c, ∀ d ∈ P.lowerC c, P.lowerC d = [d]
  wordNoSpace : ∀ c, P.isWord c = true → ∀ d ∈ P.lowerC c, P.isSpace d = false
  blank : ∀ c, isBlank c = true → P.lowerC c = [c]

/-! ### canonical token lists -/

theorem canon_suffix (a : List Tok) : ∀ (b : Bool) (c : List Tok), Canon P b (a ++ c) → ∃ b', Canon P b' c := by
  induction a with
  | nil => intro b c h; exact ⟨b, h⟩
  | cons t a ih =>
    intro b c h
    rcases canon_cons_inv (rest := a ++ c) h with ⟨_, _, _, hc, _⟩ | ⟨_, _, _, _, _, hc⟩
    · exact ih _ c hc
    · exact ih _ c hc

/-- a block-start token of a canonical list is `@`, `\w*`, blanks -/
theorem canon_at_inv {b : Bool} {lit : Str} {rest : List Tok} (h : Canon P b (AT lit :: rest)) :
    ∃ w bl, lit = '@' :: (w ++ bl) ∧ (∀ x ∈ w, P.isWord x = true) ∧ (∀ x ∈ bl, isBlank x = true) := by
  generalize ht : AT lit :: rest = T at h
  cases h with
  | nil => cases ht
  | delim _ ch k ts hk hb hc =>
    injection ht with h1 _
    injection h1 with hk' _
    subst hk'
    exact absurd rfl (delimKind_ne_at hk)
  | atm _ w bl ts hw hbl hc =>
    injection ht with h1 _
    injection h1 with _ h2
    exact ⟨w, bl, h2, hw, hbl⟩
  | text _ cs ts hcs hclean hm hc =>
    injection ht with h1 _
    cases h1

/-- in a canonical list the text before a delimiter mark other than a newline does not end in a
backslash (or the delimiter would have been escaped) -/
theorem canon_flag_end (ts : List Tok) : ∀ (b : Bool) (k : Kind) (c : Char) (rest : List Tok), NoAtTok ts →
    c ≠ '\n' → k ≠ .at → Canon P b (ts ++ .mark k [c] :: rest) → lastIsBS b (flatten ts) = false := by
  induction ts with
  | nil =>
    intro b k c rest _ hc hk h
    rcases canon_cons_inv (rest := rest) h with ⟨k', l', h0, _, hd⟩ | ⟨cs, h0, _⟩
    · injection h0 with hk' hl'
      subst hk' hl'
      obtain ⟨ch, hch, _, hb⟩ := hd (by cases k <;> simp_all [isAtTok])
      injection hch with hch _
      subst hch
      rcases hb with hb | hb
      · simpa [flatten, lastIsBS] using hb
      · exact absurd hb hc
    · cases h0
  | cons t ts ih =>
    intro b k c rest hna hc hk h
    have hna' : NoAtTok ts := fun x hx => hna x (List.mem_cons_of_mem _ hx)
    rcases canon_cons_inv (rest := ts ++ .mark k [c] :: rest) h with ⟨k', l', rfl, hcan, hd⟩ | ⟨cs, rfl, hcs, _, _, hcan⟩
    · obtain ⟨ch, rfl, hk', _⟩ := hd (hna _ List.mem_cons_self)
      have hbs : ch ≠ '\\' := by intro e; subst e; simp [delimKind] at hk'
      rw [flatten_cons_mark, List.singleton_append, lastIsBS_cons]
      simpa [hbs] using ih false k c rest hna' hc hk hcan
    · rw [flatten_cons, show (Tok.text cs).lit = cs from rfl, lastIsBS_append]
      exact ih _ k c rest hna' hc hk hcan

/-! ### `lower` and `strip` -/

theorem lower_append (a b : Str) : lower P (a ++ b) = lower P a ++ lower P b := by
  simp [lower]

theorem lower_fix (u : Str) (h : ∀ d ∈ u, P.lowerC d = [d]) : lower P u = u := by
  induction u with
  | nil => rfl
  | cons c r ih =>
    rw [lower_cons, h c List.mem_cons_self, ih (fun d hd => h d (List.mem_cons_of_mem _ hd))]
    rfl

theorem mem_lower {d : Char} {w : Str} (h : d ∈ lower P w) : ∃ c ∈ w, d ∈ P.lowerC c := by
  simpa [lower, List.mem_flatMap] using h

theorem dropWhile_none {α} (p : α → Bool) (u : List α) (h : ∀ c ∈ u, p c = false) : u.dropWhile p = u := by
  cases u with
  | nil => rfl
  | cons c r => simp [h c List.mem_cons_self]

theorem strip_nospace (u : Str) (h : ∀ c ∈ u, P.isSpace c = false) : strip P u = u := by
  unfold strip lstrip rstrip
  rw [dropWhile_none _ u h, dropWhile_none _ u.reverse (fun c hc => h c (List.mem_reverse.mp hc)),
    List.reverse_reverse]

theorem startsWith_append (p u v : Str) (h : startsWith p u = true) : startsWith p (u ++ v) = true := by
  unfold startsWith at h ⊢
  rw [List.isPrefixOf_iff_prefix] at h ⊢
  exact h.trans (List.prefix_append u v)

/-- **the entry type of a canonical block start**: it is `lower w`, a fixed point of `lower`, and does
not start with a keyword -/
theorem type_facts (hP : PrintOK P) (hL : LowerOK P) (w bl : Str) (hw : ∀ x ∈ w, P.isWord x = true)
    (hbl : ∀ x ∈ bl, isBlank x = true) (he : (classify P ('@' :: (w ++ bl))).1 = .entry) :
    lower P (classify P ('@' :: (w ++ bl))).2 = (classify P ('@' :: (w ++ bl))).2 ∧
    startsWith "comment".toList (classify P ('@' :: (w ++ bl))).2 = false ∧
    startsWith "preamble".toList (classify P ('@' :: (w ++ bl))).2 = false ∧
    startsWith "string".toList (classify P ('@' :: (w ++ bl))).2 = false := by
  have hlb : lower P bl = bl := lower_fix bl (fun d hd => hL.blank d (hbl d hd))
  have hl : lower P ('@' :: (w ++ bl)) = '@' :: (lower P w ++ bl) := by
    rw [lower_cons, hP.atLower, lower_append, hlb]; rfl
  have hns : ∀ d ∈ lower P w, P.isSpace d = false := by
    intro d hd
    obtain ⟨c, hc, hdc⟩ := mem_lower hd
    exact hL.wordNoSpace c (hw c hc) d hdc
  have hsp : allSpace P bl := by
    intro c hc
    have := hbl c hc
    simp only [isBlank, Bool.or_eq_true, decide_eq_true_eq] at this
    rcases this with rfl | rfl
    · exact hP.spSpace
    · exact hP.tabSpace
  have hstrip : strip P (lower P w ++ bl) = lower P w := by
    have := strip_sandwich (P := P) [] (lower P w) bl (allSpace_nil P) hsp (strip_nospace _ hns)
    simpa using this
  have hfix : lower P (lower P w) = lower P w := by
    apply lower_fix
    intro d hd
    obtain ⟨c, _, hdc⟩ := mem_lower hd
    exact hL.idem c d hdc
  rw [classify_of_lower _ _ hl] at he ⊢
  have key : ∀ (kw : Str), startsWith ('@' :: kw) ('@' :: (lower P w ++ bl)) = false →
      startsWith kw (lower P w) = false := by
    intro kw h
    cases hh : startsWith kw (lower P w) with
    | false => rfl
    | true =>
      rw [startsWith_cons_cons, startsWith_append _ _ _ hh] at h
      cases h
  cases h1 : startsWith "@comment".toList ('@' :: (lower P w ++ bl)) with
  | true => rw [h1] at he; simp at he
  | false =>
    cases h2 : startsWith "@preamble".toList ('@' :: (lower P w ++ bl)) with
    | true => rw [h1, h2] at he; simp at he
    | false =>
      cases h3 : startsWith "@string".toList ('@' :: (lower P w ++ bl)) with
      | true => rw [h1, h2, h3] at he; simp at he
      | false =>
        simp only [Bool.false_eq_true, ↓reduceIte, List.drop_succ_cons, List.drop_zero, hstrip]
        exact ⟨hfix, key _ h1, key _ h2, key _ h3⟩

end Bib.PrintParse
