/-
  C13 helper lemmas, part 1: the First/von/Last/Jr partition function `assign`.
-/
import BibVerif.Names.Parse
namespace Bib.NameP

/-! ### list facts -/

theorem rstripBy_decomp {α} (p : α → Bool) (l : List α) :
    l = rstripBy p l ++ (l.reverse.takeWhile p).reverse := by
  unfold rstripBy
  rw [← List.reverse_append, List.takeWhile_append_dropWhile, List.reverse_reverse]

theorem rstripBy_getLast {α} (p : α → Bool) (l : List α) (w : α)
    (h : (rstripBy p l).getLast? = some w) : p w = false := by
  unfold rstripBy at h
  rw [List.getLast?_reverse] at h
  have := List.head?_dropWhile_not p l.reverse
  rw [h] at this
  exact this

theorem rstripBy_trail {α} (p : α → Bool) (l : List α) :
    ∀ w ∈ (l.reverse.takeWhile p).reverse, p w = true := by
  intro w hw
  exact mem_takeWhile_imp (List.mem_reverse.mp hw)

theorem rstripBy_ne_nil {α} (p : α → Bool) (l : List α) (x : α) (hx : x ∈ l) (hp : p x = false) :
    rstripBy p l ≠ [] := by
  intro h
  have hd := rstripBy_decomp p l
  rw [h, List.nil_append] at hd
  have := rstripBy_trail p l x (by rw [← hd]; exact hx)
  rw [hp] at this
  cases this

theorem snoc_of_ne_nil {α} (l : List α) (h : l ≠ []) : ∃ i x, l = i ++ [x] ∧ l.dropLast = i := by
  rcases List.eq_nil_or_concat l with hn | ⟨i, x, hl⟩
  · exact absurd hn h
  · rw [List.concat_eq_append] at hl
    exact ⟨i, x, hl, by rw [hl, List.dropLast_concat]⟩

theorem notLower_true {w : Word} (h : notLower w = true) : isLowerW w = false := by
  simpa [notLower] using h

theorem notLower_false {w : Word} (h : notLower w = false) : isLowerW w = true := by
  simpa [notLower] using h

/-! ### the rule, as the property states it -/

/-- Comma-free form with at least three words: `p0 = First ++ von ++ Last` where First are the
leading non-lower-case words, von (if any) begins with the first lower-case word and ends with the
last lower-case word that is not the final word, Last is the rest, keeps at least the final word,
and is exactly the final word when there is no von. -/
structure Rule1 (p0 F V L : List Word) : Prop where
  split : p0 = F ++ V ++ L
  first_nonlower : ∀ w ∈ F, isLowerW w = false
  von_head : ∀ w, V.head? = some w → isLowerW w = true
  von_last : ∀ w, V.getLast? = some w → isLowerW w = true
  last_ne : L ≠ []
  last_init : ∀ w ∈ L.dropLast, isLowerW w = false
  no_von : V = [] → L.length = 1

/-- Comma forms: the first section is `von ++ Last`; von (if any) begins at the section start and
ends with the last lower-case word that is not the final word of the section; Last is the rest and
keeps at least the final word. -/
structure Rule23 (p0 V L : List Word) : Prop where
  split : p0 = V ++ L
  von_last : ∀ w, V.getLast? = some w → isLowerW w = true
  last_ne : p0 ≠ [] → L ≠ []
  last_init : ∀ w ∈ L.dropLast, isLowerW w = false

theorem assignW_one (w : Word) : assignW [[w]] = { last := [w] } := by
  simp [assignW]

theorem assignW_two (a b : Word) : assignW [[a, b]] = { first := [a], last := [b] } := by
  simp [assignW]

theorem assign_one (w : Word) : assign [[w]] = { last := [w.1] } := by
  simp [assign, assignW_one, WParts.toNameParts, words]

theorem assign_two (a b : Word) : assign [[a, b]] = { first := [a.1], last := [b.1] } := by
  simp [assign, assignW_two, WParts.toNameParts, words]

theorem assignW_form1 (p0 : List Word) (h : 3 ≤ p0.length) :
    ∃ F V L, Rule1 p0 F V L ∧ assignW [p0] = { first := F, von := V, last := L, jr := [] } := by
  have hne : p0 ≠ [] := by intro h0; rw [h0] at h; simp at h
  obtain ⟨ini, x, hp0, hdl⟩ := snoc_of_ne_nil p0 hne
  have h1 : ¬ p0.length = 1 := by omega
  have h2 : ¬ p0.length = 2 := by omega
  unfold assignW
  simp only [h1, h2, if_false, hdl]
  by_cases hany : ini.any isLowerW = true
  · rw [if_pos hany]
    obtain ⟨y, hy, hyl⟩ := List.any_eq_true.mp hany
    have hve : rstripBy notLower ini ≠ [] := rstripBy_ne_nil notLower ini y hy (by simp [notLower, hyl])
    have hdec := rstripBy_decomp notLower ini
    generalize hV : rstripBy notLower ini = vonEnd at hve hdec
    generalize hT : (ini.reverse.takeWhile notLower).reverse = trail at hdec
    have htrail : ∀ w ∈ trail, notLower w = true := by
      rw [← hT]; exact rstripBy_trail notLower ini
    have hlast : ∀ w, vonEnd.getLast? = some w → notLower w = false := by
      rw [← hV]; exact rstripBy_getLast notLower ini
    have hvd : vonEnd.dropWhile notLower ≠ [] := by
      intro hnil
      obtain ⟨i2, z, hz, _⟩ := snoc_of_ne_nil vonEnd hve
      have hzl : notLower z = false := hlast z (by rw [hz]; simp)
      have : ∀ w ∈ vonEnd, notLower w = true := all_of_dropWhile_nil hnil
      have := this z (by rw [hz]; simp)
      rw [hzl] at this; cases this
    refine ⟨vonEnd.takeWhile notLower, vonEnd.dropWhile notLower, trail ++ [x], ?_, ?_⟩
    · refine ⟨?_, ?_, ?_, ?_, by simp, ?_, fun h => absurd h hvd⟩
      · rw [List.takeWhile_append_dropWhile, hp0, hdec]; simp
      · intro w hw; exact notLower_true (mem_takeWhile_imp hw)
      · intro w hw
        have := List.head?_dropWhile_not notLower vonEnd
        rw [hw] at this
        exact notLower_false this
      · intro w hw
        apply notLower_false
        apply hlast
        have : vonEnd = vonEnd.takeWhile notLower ++ vonEnd.dropWhile notLower :=
          List.takeWhile_append_dropWhile.symm
        rw [this, List.getLast?_append, hw]; rfl
      · intro w hw
        rw [List.dropLast_concat] at hw
        exact notLower_true (htrail w hw)
    · have : p0.drop vonEnd.length = trail ++ [x] := by
        rw [hp0, hdec, List.append_assoc, List.drop_left]
      rw [this]
  · rw [if_neg hany]
    have hnone : ∀ w ∈ ini, isLowerW w = false := by
      intro w hw
      cases hl : isLowerW w with
      | false => rfl
      | true => exact absurd (List.any_eq_true.mpr ⟨w, hw, hl⟩) hany
    refine ⟨ini, [], [x], ⟨by simp [hp0], hnone, by simp, by simp, by simp, by simp, fun _ => rfl⟩, ?_⟩
    have : p0.drop ini.length = [x] := by rw [hp0, List.drop_left]
    rw [this]

theorem assign_form1 (p0 : List Word) (h : 3 ≤ p0.length) :
    ∃ F V L, Rule1 p0 F V L ∧
      assign [p0] = { first := words F, von := words V, last := words L, jr := [] } := by
  obtain ⟨F, V, L, hr, he⟩ := assignW_form1 p0 h
  exact ⟨F, V, L, hr, by simp [assign, he, WParts.toNameParts, words]⟩

/-- `von`/`last` of the comma forms -/
theorem rule23_of (p0 : List Word) :
    ∃ V L, Rule23 p0 V L ∧ ∀ (f j : List Word),
      (if p0.length = 1 then ({ first := f, jr := j, last := p0 } : WParts)
       else if p0.any isLowerW then
         { first := f, jr := j, von := p0.take (rstripBy notLower p0.dropLast).length,
           last := p0.drop (rstripBy notLower p0.dropLast).length }
       else { first := f, jr := j, last := p0 })
      = { first := f, jr := j, von := V, last := L } := by
  by_cases hne : p0 = []
  · subst hne
    exact ⟨[], [], ⟨rfl, by simp, by simp, by simp⟩, by intro f j; simp⟩
  obtain ⟨ini, x, hp0, hdl⟩ := snoc_of_ne_nil p0 hne
  by_cases h1 : p0.length = 1
  · have hini : ini = [] := by
      have := congrArg List.length hp0
      rw [h1] at this
      simp only [List.length_append, List.length_cons, List.length_nil] at this
      exact List.eq_nil_of_length_eq_zero (by omega)
    refine ⟨[], p0, ⟨by simp, by simp, fun _ => hne, ?_⟩, by intro f j; simp [h1]⟩
    rw [hdl, hini]; simp
  · by_cases hany : p0.any isLowerW = true
    · have hdec := rstripBy_decomp notLower ini
      generalize hV : rstripBy notLower ini = vonEnd at hdec
      generalize hT : (ini.reverse.takeWhile notLower).reverse = trail at hdec
      have htrail : ∀ w ∈ trail, notLower w = true := by
        rw [← hT]; exact rstripBy_trail notLower ini
      have hlast : ∀ w, vonEnd.getLast? = some w → notLower w = false := by
        rw [← hV]; exact rstripBy_getLast notLower ini
      refine ⟨vonEnd, trail ++ [x], ⟨by rw [hp0, hdec]; simp, fun w hw => notLower_false (hlast w hw),
        fun _ => by simp, ?_⟩, ?_⟩
      · intro w hw
        rw [List.dropLast_concat] at hw
        exact notLower_true (htrail w hw)
      · intro f j
        simp only [h1, hany, if_false, if_true, hdl, hV]
        have e1 : p0.take vonEnd.length = vonEnd := by
          rw [hp0, hdec, List.append_assoc, List.take_left]
        have e2 : p0.drop vonEnd.length = trail ++ [x] := by
          rw [hp0, hdec, List.append_assoc, List.drop_left]
        rw [e1, e2]
    · have hnone : ∀ w ∈ p0, isLowerW w = false := by
        intro w hw
        cases hl : isLowerW w with
        | false => rfl
        | true => exact absurd (List.any_eq_true.mpr ⟨w, hw, hl⟩) hany
      refine ⟨[], p0, ⟨by simp, by simp, fun _ => hne, ?_⟩, by intro f j; simp [h1, hany]⟩
      intro w hw
      exact hnone w (List.dropLast_subset p0 hw)

/-- sections whose words are all non-empty strings are used as they are -/
theorem sectionIfContent_eq (sec : List Word) (h : ∀ w ∈ sec, w.1 ≠ []) :
    sectionIfContent sec = sec := by
  cases sec with
  | nil => simp [sectionIfContent]
  | cons w r =>
    have : w.1 ≠ [] := h w (by simp)
    simp [sectionIfContent, this]

theorem assign23W_rule (p0 jr first : List Word) (three : Bool)
    (hf : ∀ w ∈ first, w.1 ≠ []) (hj : ∀ w ∈ jr, w.1 ≠ []) :
    ∃ V L, Rule23 p0 V L ∧
      assign23 p0 jr first three =
        { first := first, jr := if three then jr else [], von := V, last := L } := by
  obtain ⟨V, L, hr, he⟩ := rule23_of p0
  refine ⟨V, L, hr, ?_⟩
  unfold assign23
  simp only [sectionIfContent_eq first hf, sectionIfContent_eq jr hj]
  exact he _ _

theorem assign23_rule (p0 jr first : List Word) (three : Bool)
    (hf : ∀ w ∈ first, w.1 ≠ []) (hj : ∀ w ∈ jr, w.1 ≠ []) :
    ∃ V L, Rule23 p0 V L ∧
      (assign23 p0 jr first three).toNameParts =
        { first := words first, jr := if three then words jr else [], von := words V, last := words L } := by
  obtain ⟨V, L, hr, he⟩ := assign23W_rule p0 jr first three hf hj
  refine ⟨V, L, hr, ?_⟩
  rw [he]
  cases three <;> simp [WParts.toNameParts, words]

end Bib.NameP
