/-
  C05 (print → parse), document level: the derivation `srcOf` of every written block is well formed
  and denotes the block with brace-enclosed values; the whole written text lexes to a document of
  the grammar, so the splitter returns blocks with exactly that content.
-/
import BibVerif.Lemmas.PrintParseLex
import BibVerif.Lemmas.Doc
namespace Bib.PrintParse
open Bib Bib.Writer Bib.Enclosing Bib.Pipeline

variable {P : PyChars}

/-! ### `strip` -/

theorem lstrip_allSpace_append (a x : Str) (ha : allSpace P a) : lstrip P (a ++ x) = lstrip P x := by
  induction a with
  | nil => rfl
  | cons c r ih =>
    have hc : P.isSpace c = true := ha c List.mem_cons_self
    simp only [lstrip, List.cons_append, List.dropWhile_cons, hc, ↓reduceIte]
    exact ih (fun y hy => ha y (List.mem_cons_of_mem _ hy))

theorem lstrip_allSpace (a : Str) (ha : allSpace P a) : lstrip P a = [] := by
  have := lstrip_allSpace_append a [] ha
  simpa [lstrip] using this

theorem rstrip_append_allSpace (x b : Str) (hb : allSpace P b) : rstrip P (x ++ b) = rstrip P x := by
  unfold rstrip
  rw [List.reverse_append]
  have : allSpace P b.reverse := fun c hc => hb c (List.mem_reverse.mp hc)
  have := lstrip_allSpace_append b.reverse x.reverse this
  simp only [lstrip] at this
  rw [this]

theorem strip_fix_parts {m : Str} (h : strip P m = m) : lstrip P m = m ∧ rstrip P (lstrip P m) = lstrip P m := by
  have h1 : (lstrip P m).length ≤ m.length := (List.dropWhile_sublist _).length_le
  have h2 : (rstrip P (lstrip P m)).length ≤ (lstrip P m).length := by
    unfold rstrip
    rw [List.length_reverse]
    have := (List.dropWhile_sublist (l := (lstrip P m).reverse) P.isSpace).length_le
    simpa using this
  have hl : (lstrip P m).length = m.length := by
    have : (strip P m).length = m.length := by rw [h]
    unfold strip at this; omega
  have hlm : lstrip P m = m := (List.dropWhile_sublist _).eq_of_length hl
  refine ⟨hlm, ?_⟩
  unfold strip at h
  rw [hlm] at h ⊢; exact h

theorem lstrip_fix_append {m : Str} (h : lstrip P m = m) (hne : m ≠ []) (b : Str) :
    lstrip P (m ++ b) = m ++ b := by
  cases m with
  | nil => exact absurd rfl hne
  | cons c r =>
    have hc : P.isSpace c = false := by
      cases hcs : P.isSpace c with
      | false => rfl
      | true =>
        have hlen : (lstrip P (c :: r)).length ≤ r.length := by
          simp only [lstrip, List.dropWhile_cons, hcs, ↓reduceIte]
          exact (List.dropWhile_sublist _).length_le
        rw [h] at hlen; simp at hlen; omega
    simp [lstrip, hc]

/-- whitespace around a text that is its own `strip` is stripped away, and only that -/
theorem strip_sandwich (a m b : Str) (ha : allSpace P a) (hb : allSpace P b) (hm : strip P m = m) :
    strip P (a ++ (m ++ b)) = m := by
  obtain ⟨h1, h2⟩ := strip_fix_parts hm
  unfold strip
  rw [lstrip_allSpace_append a _ ha]
  by_cases hne : m = []
  · subst hne
    simp only [List.nil_append]
    rw [lstrip_allSpace b hb]; rfl
  · rw [lstrip_fix_append h1 hne b, rstrip_append_allSpace m b hb]
    rw [h1] at h2; exact h2

theorem strip_allSpace (a : Str) (ha : allSpace P a) : strip P a = [] := by
  have := strip_sandwich a [] [] ha (allSpace_nil P) (by simp [strip, lstrip, rstrip])
  simpa using this

theorem strip_braced (hP : PrintOK P) (v : Str) : strip P ('{' :: (v ++ ['}'])) = '{' :: (v ++ ['}']) := by
  simp [strip, lstrip, rstrip, hP.lbSpace, hP.rbSpace]

theorem allSpace_blank (hP : PrintOK P) {s : Str} (h : ∀ c ∈ s, isBlank c = true) : allSpace P s := by
  intro c hc
  have := h c hc
  simp only [isBlank, Bool.or_eq_true, decide_eq_true_eq] at this
  rcases this with rfl | rfl
  · exact hP.spSpace
  · exact hP.tabSpace

theorem allSpace_sep (hP : PrintOK P) {s : Str} (h : ∀ c ∈ s, c = ' ' ∨ c = '\t' ∨ c = '\n') : allSpace P s := by
  intro c hc
  rcases h c hc with rfl | rfl | rfl
  · exact hP.spSpace
  · exact hP.tabSpace
  · exact hP.nlSpace

theorem allSpace_replicate_space (hP : PrintOK P) (n : Nat) : allSpace P (List.replicate n ' ') := by
  intro c hc
  have := List.eq_of_mem_replicate hc
  subst this; exact hP.spSpace

theorem allSpace_single {c : Char} (h : P.isSpace c = true) : allSpace P [c] := by
  intro x hx; simp at hx; subst hx; exact h

/-- the stripped text before the `=` of a field line is the field key -/
theorem strip_lineHead (hP : PrintOK P) (F : BibtexFormat) (hF : FormatOK F) (col : Nat) (key : Str)
    (hk : strip P key = key) : strip P ('\n' :: lineHead F col key) = key := by
  have : '\n' :: lineHead F col key = ('\n' :: F.indent) ++ (key ++ (padding col key ++ [' '])) := by
    simp [lineHead]
  rw [this]
  refine strip_sandwich _ _ _ ?_ ?_ hk
  · exact allSpace_append P (allSpace_single hP.nlSpace) (allSpace_blank hP hF.indent)
  · exact allSpace_append P (allSpace_replicate_space hP _) (allSpace_single hP.spSpace)

theorem flatten_valToks (v : Str) (hv : EncBal P v) : flatten (valToks P v) = ' ' :: '{' :: (v ++ ['}']) := by
  have := (sevtOf_spec hv).2.1
  simp [valToks, SPt, flatten, Tok.lit] at this ⊢
  exact this

theorem strip_valToks (hP : PrintOK P) (v : Str) (hv : EncBal P v) (extra : List Tok)
    (he : extra = [] ∨ extra = [NLt]) :
    strip P (flatten (valToks P v ++ extra)) = '{' :: (v ++ ['}']) := by
  rw [flatten_append, flatten_valToks v hv]
  have hx : allSpace P (flatten extra) := by
    rcases he with rfl | rfl
    · simp [flatten, allSpace]
    · simpa [flatten, NLt, Tok.lit] using allSpace_single hP.nlSpace
  have := strip_sandwich [' '] ('{' :: (v ++ ['}'])) (flatten extra) (allSpace_single hP.spSpace) hx
    (strip_braced hP v)
  simpa using this

theorem flatten_fvalToks (v : Str) (hv : EncVal P v) : flatten (fvalToks P v) = ' ' :: '{' :: (v ++ ['}']) := by
  have := (evtOf_spec hv).2.1
  simp [fvalToks, SPt, flatten, Tok.lit] at this ⊢
  exact this

theorem strip_fvalToks (hP : PrintOK P) (v : Str) (hv : EncVal P v) (extra : List Tok)
    (he : extra = [] ∨ extra = [NLt]) :
    strip P (flatten (fvalToks P v ++ extra)) = '{' :: (v ++ ['}']) := by
  rw [flatten_append, flatten_fvalToks v hv]
  have hx : allSpace P (flatten extra) := by
    rcases he with rfl | rfl
    · simp [flatten, allSpace]
    · simpa [flatten, NLt, Tok.lit] using allSpace_single hP.nlSpace
  have := strip_sandwich [' '] ('{' :: (v ++ ['}'])) (flatten extra) (allSpace_single hP.spSpace) hx
    (strip_braced hP v)
  simpa using this

theorem isValue_append {a b : List Tok} (ha : IsValue a) (hb : IsValue b) : IsValue (a ++ b) := by
  induction ha with
  | nil => simpa using hb
  | plain t ts ht _ ih => exact IsValue.plain t _ ht ih
  | braced l r x y hx _ ih =>
    have := IsValue.braced l r x (y ++ b) hx ih
    simpa using this
  | quoted l r x y hx _ ih =>
    have := IsValue.quoted l r x (y ++ b) hx ih
    simpa using this

theorem isValue_fvalToks (v : Str) (hv : EncVal P v) (extra : List Tok) (he : extra = [] ∨ extra = [NLt]) :
    IsValue (fvalToks P v ++ extra) := by
  have hx : IsValue extra := by
    rcases he with rfl | rfl
    · exact IsValue.nil
    · exact IsValue.plain NLt [] rfl IsValue.nil
  exact IsValue.plain SPt _ rfl (isValue_append (evtOf_spec hv).1 hx)

/-! ### the derivation of a block is well formed -/

theorem lower_cons (c : Char) (s : Str) : lower P (c :: s) = P.lowerC c ++ lower P s := by
  simp [lower]

theorem lower_kw (hP : PrintOK P) (w : Str) (hw : ∀ c ∈ w, c ∈ kwLetters) : lower P w = w := by
  induction w with
  | nil => rfl
  | cons c r ih =>
    rw [lower_cons, (hP.kw c (hw c List.mem_cons_self)).2, ih (fun x hx => hw x (List.mem_cons_of_mem _ hx))]
    rfl

theorem startsWith_cons_cons (c : Char) (a b : Str) : startsWith (c :: a) (c :: b) = startsWith a b := by
  simp [startsWith]

theorem classify_of_lower (lit l : Str) (hl : lower P lit = l) :
    classify P lit =
      if startsWith "@comment".toList l then (.comment, [])
      else if startsWith "@preamble".toList l then (.preamble, [])
      else if startsWith "@string".toList l then (.string, [])
      else (.entry, strip P (l.drop 1)) := by
  unfold classify; simp only [hl]

theorem classify_entry (hP : PrintOK P) (e : Entry) (he : EntryOK P e) :
    classify P ('@' :: e.ty) = (.entry, e.ty) := by
  have hl : lower P ('@' :: e.ty) = '@' :: e.ty := by rw [lower_cons, hP.atLower, he.tyLower]; rfl
  have h1 : startsWith "@comment".toList ('@' :: e.ty) = false := by
    rw [show "@comment".toList = '@' :: "comment".toList from rfl, startsWith_cons_cons]; exact he.tyNotComment
  have h2 : startsWith "@preamble".toList ('@' :: e.ty) = false := by
    rw [show "@preamble".toList = '@' :: "preamble".toList from rfl, startsWith_cons_cons]; exact he.tyNotPreamble
  have h3 : startsWith "@string".toList ('@' :: e.ty) = false := by
    rw [show "@string".toList = '@' :: "string".toList from rfl, startsWith_cons_cons]; exact he.tyNotString
  rw [classify_of_lower _ _ hl, h1, h2, h3]
  simp only [Bool.false_eq_true, ↓reduceIte, List.drop_succ_cons, List.drop_zero, he.tyStrip]

theorem lower_at_kw (hP : PrintOK P) (w : Str) (hw : ∀ c ∈ w, c ∈ kwLetters) :
    lower P ('@' :: w) = '@' :: w := by
  rw [lower_cons, hP.atLower, lower_kw hP _ hw]; rfl

theorem classify_string (hP : PrintOK P) : (classify P "@string".toList).1 = .string := by
  have hl : lower P "@string".toList = "@string".toList := lower_at_kw hP "string".toList (by decide)
  have h1 : startsWith "@comment".toList "@string".toList = false := by decide
  have h2 : startsWith "@preamble".toList "@string".toList = false := by decide
  have h3 : startsWith "@string".toList "@string".toList = true := by decide
  rw [classify_of_lower _ _ hl, h1, h2, h3]; rfl

theorem classify_preamble (hP : PrintOK P) : (classify P "@preamble".toList).1 = .preamble := by
  have hl : lower P "@preamble".toList = "@preamble".toList := lower_at_kw hP "preamble".toList (by decide)
  have h1 : startsWith "@comment".toList "@preamble".toList = false := by decide
  have h2 : startsWith "@preamble".toList "@preamble".toList = true := by decide
  rw [classify_of_lower _ _ hl, h1, h2]; rfl

theorem classify_comment (hP : PrintOK P) : (classify P "@comment".toList).1 = .comment := by
  have hl : lower P "@comment".toList = "@comment".toList := lower_at_kw hP "comment".toList (by decide)
  have h1 : startsWith "@comment".toList "@comment".toList = true := by decide
  rw [classify_of_lower _ _ hl, h1]; rfl

theorem isBal_valToks (v : Str) (hv : EncBal P v) : IsBal (valToks P v) :=
  IsBal.plain SPt _ rfl (sevtOf_spec hv).1

theorem fieldSrcs_wf (hP : PrintOK P) (F : BibtexFormat) (hF : FormatOK F) (col : Nat) (fs : List Field)
    (hfs : ∀ f ∈ fs, FieldOK P f) :
    ∀ s ∈ fieldSrcs P F col fs, allPlain s.key ∧ IsValue s.val := by
  induction fs with
  | nil => intro s hs; simp [fieldSrcs] at hs
  | cons f fs ih =>
    intro s hs
    simp only [fieldSrcs, List.mem_cons] at hs
    rcases hs with rfl | hs
    · obtain ⟨v, hv, hclean⟩ := (hfs f List.mem_cons_self).value
      refine ⟨?_, ?_⟩
      · have := lineHead_plain hP F hF col f.key (hfs f List.mem_cons_self).keyOK
        simpa [allPlain, NLt, isPlainTok] using this
      simp only [hv, strOf]
      apply isValue_fvalToks v hclean
      by_cases h : (fs.isEmpty && !F.trailingComma) = true <;> simp [h]
    · exact ih (fun g hg => hfs g (List.mem_cons_of_mem _ hg)) s hs

theorem fieldSrcs_keys (hP : PrintOK P) (F : BibtexFormat) (hF : FormatOK F) (col : Nat) (fs : List Field)
    (hfs : ∀ f ∈ fs, FieldOK P f) :
    (fieldSrcs P F col fs).map (fun s => strip P (flatten s.key)) = fs.map (·.key) := by
  induction fs with
  | nil => rfl
  | cons f fs ih =>
    have hk : strip P (flatten (NLt :: lexFrom P false (lineHead F col f.key))) = f.key := by
      have : flatten (NLt :: lexFrom P false (lineHead F col f.key)) = '\n' :: lineHead F col f.key := by
        rw [NLt, flatten_cons_mark, flatten_lexFrom]; rfl
      rw [this]; exact strip_lineHead hP F hF col f.key (hfs f List.mem_cons_self).keyStrip
    simp only [fieldSrcs, List.map_cons, hk, ih (fun g hg => hfs g (List.mem_cons_of_mem _ hg))]

theorem srcOf_wf (hP : PrintOK P) (F : BibtexFormat) (hF : FormatOK F) (col : Nat) (blk : Block)
    (hb : BlockOK P blk) (hni : isImpl blk = false) :
    (srcOf P F col blk).WF P ∧ (srcOf P F col blk).DistinctFields P := by
  match blk, hb, hni with
  | .live (.entry e), hb, _ =>
    refine ⟨⟨by rw [classify_entry hP e hb], ?_, fieldSrcs_wf hP F hF col e.fields hb.fields, ?_⟩, ?_⟩
    · exact hb.keyOK.1
    · intro w hw
      simp only [trailingOf] at hw
      split at hw
      · injection hw with hw; subst hw; simp [allPlain, NLt, isPlainTok]
      · cases hw
    · simp only [srcOf, BlockSrc.DistinctFields]
      rw [fieldSrcs_keys hP F hF col e.fields hb.fields]; exact hb.fieldKeys
  | .live (.string k v l r m), hb, _ =>
    obtain ⟨hko, _, s, rfl, hv⟩ := hb
    have hpl : allPlain (lexFrom P false (k ++ [' '])) := by
      have := (lex_keyctx2 hP.word [] k [' '] '=' .eq [] (by intro c hc; cases hc) hko
        (by intro c hc; simp at hc; subst hc; decide) (by decide) hP.eqWord (by decide) (by decide)).2
      rw [List.nil_append] at this
      exact this
    exact ⟨⟨classify_string hP, hpl, isBal_valToks s hv⟩, trivial⟩
  | .live (.preamble v l r m), hb, _ => exact ⟨⟨classify_preamble hP, (vtOf_spec hb).1⟩, trivial⟩
  | .live (.expl c l r m), hb, _ => exact ⟨⟨classify_comment hP, (vtOf_spec hb.1).1⟩, trivial⟩
  | .live (.impl c l r m), _, hni => simp [isImpl] at hni

/-! ### ... and denotes the block with enclosed values -/

theorem expFields_content (hP : PrintOK P) (F : BibtexFormat) (hF : FormatOK F) (col : Nat) (fs : List Field)
    (hfs : ∀ f ∈ fs, FieldOK P f) (line : Int) :
    (expFields P line (fieldSrcs P F col fs)).map (fun f => (f.key, f.value)) =
      (encFields fs).map (fun f => (f.key, f.value)) := by
  induction fs generalizing line with
  | nil => rfl
  | cons f fs ih =>
    obtain ⟨v, hv, hclean⟩ := (hfs f List.mem_cons_self).value
    have hk : strip P (flatten (NLt :: lexFrom P false (lineHead F col f.key))) = f.key := by
      have : flatten (NLt :: lexFrom P false (lineHead F col f.key)) = '\n' :: lineHead F col f.key := by
        rw [NLt, flatten_cons_mark, flatten_lexFrom]; rfl
      rw [this]; exact strip_lineHead hP F hF col f.key (hfs f List.mem_cons_self).keyStrip
    have hval : strip P (flatten (fvalToks P v ++ (if (fs.isEmpty && !F.trailingComma) = true then [NLt] else []))) =
        '{' :: (v ++ ['}']) := by
      apply strip_fvalToks hP v hclean
      by_cases h : (fs.isEmpty && !F.trailingComma) = true <;> simp [h]
    have hs : strOf f.value = v := by rw [hv]; rfl
    have hcons : encFields (f :: fs) = { f with value := .str ('{' :: strOf f.value ++ ['}']) } :: encFields fs := rfl
    simp only [fieldSrcs, expFields, hcons, List.map_cons, hk, hs, hval,
      ih (fun g hg => hfs g (List.mem_cons_of_mem _ hg))]
    simp

theorem srcOf_content (hP : PrintOK P) (F : BibtexFormat) (hF : FormatOK F) (col : Nat) (blk : Block)
    (hb : BlockOK P blk) (hni : isImpl blk = false) (line : Int) :
    contentOf ((srcOf P F col blk).expected P line) = encContent blk := by
  match blk, hb, hni with
  | .live (.entry e), hb, _ =>
    have hd := (srcOf_wf hP F hF col _ hb rfl).2
    simp only [srcOf] at hd ⊢
    simp only [BlockSrc.expected]
    rw [mkEntry_of_nodup _ _ _ _ _ (by rw [expFields_keys]; exact hd)]
    simp only [contentOf, encContent, encBlock, classify_entry hP e hb]
    rw [expFields_content hP F hF col e.fields hb.fields]
    congr 1
    rw [flatten_lexFrom]; exact hb.keyStrip
  | .live (.string k v l r m), hb, _ =>
    obtain ⟨_, hks, s, rfl, hv⟩ := hb
    have h1 : strip P (flatten (lexFrom P false (k ++ [' ']))) = k := by
      have : flatten (lexFrom P false (k ++ [' '])) = [] ++ (k ++ [' ']) := by rw [flatten_lexFrom]; rfl
      rw [this]; exact strip_sandwich [] k [' '] (allSpace_nil P) (allSpace_single hP.spSpace) hks
    have h2 := strip_valToks hP s hv [] (Or.inl rfl)
    simp only [List.append_nil] at h2
    simp [srcOf, BlockSrc.expected, contentOf, encContent, encBlock, strOf, h1, h2]
  | .live (.preamble v l r m), hb, _ =>
    simp [srcOf, BlockSrc.expected, contentOf, encContent, encBlock, (vtOf_spec hb).2.1]
  | .live (.expl c l r m), hb, _ =>
    simp [srcOf, BlockSrc.expected, contentOf, encContent, encBlock, (vtOf_spec hb.1).2.1, hb.2]
  | .live (.impl c l r m), _, hni => simp [isImpl] at hni

/-! ### the whole text -/

def sepIf (F : BibtexFormat) : List Block → Str
  | [] => []
  | _ :: _ => F.blockSeparator

theorem render_cons (F : BibtexFormat) (col : Nat) (b : Block) (r : List Block) :
    render F col (b :: r) = textOf F col b ++ (sepIf F r ++ render F col r) := by
  cases r <;> simp [render, sepIf]

/-- what the junk text collected since the last block denotes: nothing (white space), or one
free-text comment (and then the next block is not another free-text comment) -/
def JunkState (P : PyChars) (pre : Str) (L : List Block) (cs : List Content) : Prop :=
  (allSpace P pre ∧ '@' ∉ pre ∧ cs = []) ∨
  (strip P pre ≠ [] ∧ cs = [.impl (strip P pre)] ∧ ∀ b r, L = b :: r → isImpl b = false)

theorem junk_content (pre : Str) (L : List Block) (cs : List Content) (h : JunkState P pre L cs) (line : Int) :
    (expJunk P line (lexFrom P false pre)).map contentOf = cs := by
  simp only [expJunk, flatten_lexFrom]
  rcases h with ⟨hsp, _, rfl⟩ | ⟨hne, rfl, _⟩
  · simp [strip_allSpace pre hsp]
  · have : (strip P pre).isEmpty = false := by simpa using hne
    simp [this, contentOf]

theorem noAdjImpl_tail {b : Block} {r : List Block} (h : NoAdjImpl (b :: r)) : NoAdjImpl r := by
  cases r with
  | nil => trivial
  | cons b2 r2 => exact h.2

theorem not_at_sep (F : BibtexFormat) (hF : FormatOK F) (r : List Block) : '@' ∉ ('\n' :: sepIf F r) := by
  intro h
  rcases List.mem_cons.mp h with h | h
  · cases h
  · cases r with
    | nil => simp [sepIf] at h
    | cons b2 r2 =>
      rcases hF.sep '@' h with h | h | h <;> cases h

theorem allSpace_nl_sep (hP : PrintOK P) (F : BibtexFormat) (hF : FormatOK F) (r : List Block) :
    allSpace P ('\n' :: sepIf F r) := by
  have : allSpace P (sepIf F r) := by
    cases r with
    | nil => exact allSpace_nil P
    | cons b2 r2 => exact allSpace_sep hP hF.sep
  exact allSpace_append P (allSpace_single hP.nlSpace) this

/-- **The written text is a document of the grammar.**  With `pre` the junk text already pending,
`pre ++ render L` lexes to junk followed by one well-formed source block (and junk) per written
block, and the blocks this derivation denotes have the content of `L` with enclosed values. -/
theorem doc_claim (hP : PrintOK P) (F : BibtexFormat) (hF : FormatOK F) (col : Nat) (L : List Block) :
    ∀ (pre : Str) (cs : List Content), (∀ b ∈ L, BlockOK P b) → NoAdjImpl L → noStart P pre = true →
      JunkState P pre L cs →
      ∃ head items, IsJunk head ∧ (∀ bj ∈ items, bj.1.WF P ∧ IsJunk bj.2) ∧
        lexFrom P false (pre ++ render F col L) = head ++ itemsToks items ∧
        ∀ line line', (expJunk P line head ++ expItems P line' items).map contentOf =
          cs ++ L.map encContent := by
  induction L with
  | nil =>
    intro pre cs _ _ hat hst
    refine ⟨lexFrom P false pre, [], isJunk_lex_noStart false pre hat, (by intro bj hbj; cases hbj), (by simp [render, itemsToks]), ?_⟩
    intro line line'
    simp [expItems, junk_content pre [] cs hst line]
  | cons b rest ih =>
    intro pre cs hbs hadj hat hst
    have hb := hbs b List.mem_cons_self
    have hrest : ∀ x ∈ rest, BlockOK P x := fun x hx => hbs x (List.mem_cons_of_mem _ hx)
    have hadj' := noAdjImpl_tail hadj
    by_cases hi : isImpl b = true
    · -- a free-text comment joins the pending junk
      match b, hb, hi with
      | .live (.impl c l r m), hb, _ =>
        obtain ⟨hcne, hcs, hcat⟩ := hb
        have hst1 : allSpace P pre ∧ '@' ∉ pre ∧ cs = [] := by
          rcases hst with h | ⟨_, _, h⟩
          · exact h
          · have := h _ _ rfl; simp [isImpl] at this
        obtain ⟨hsp, hnat, rfl⟩ := hst1
        have hstrip : strip P (pre ++ (c ++ ('\n' :: sepIf F rest))) = c :=
          strip_sandwich pre c _ hsp (allSpace_nl_sep hP F hF rest) hcs
        have hat' : noStart P (pre ++ (c ++ ('\n' :: sepIf F rest))) = true := by
          rw [noStart_prefix pre _ hnat]
          refine noStart_append_nl hP.nlWord c (sepIf F rest) hcat (noStart_of_not_mem _ ?_)
          intro h
          exact not_at_sep F hF rest (List.mem_cons_of_mem _ h)
        have hnext : ∀ b2 r2, rest = b2 :: r2 → isImpl b2 = false := by
          intro b2 r2 hr
          subst hr
          have h1 : ¬(isImpl (.live (.impl c l r m)) = true ∧ isImpl b2 = true) := hadj.1
          cases h2 : isImpl b2 with
          | false => rfl
          | true => exact absurd ⟨rfl, h2⟩ h1
        obtain ⟨head, items, hj, hw, hlex, hcont⟩ := ih (pre ++ (c ++ ('\n' :: sepIf F rest))) [.impl c]
          hrest hadj' hat' (Or.inr ⟨by rw [hstrip]; exact hcne, by rw [hstrip], hnext⟩)
        refine ⟨head, items, hj, hw, ?_, ?_⟩
        · rw [← hlex, render_cons]; simp [textOf, coreOf]
        · intro line line'
          rw [hcont line line']
          simp [encContent, encBlock, contentOf]
    · -- a block: the pending junk ends here, new junk starts after its closing brace
      have hni : isImpl b = false := by simpa using hi
      obtain ⟨head2, items2, hj2, hw2, hlex2, hcont2⟩ := ih ('\n' :: sepIf F rest) [] hrest hadj'
        (noStart_of_not_mem _ (not_at_sep F hF rest))
        (Or.inl ⟨allSpace_nl_sep hP F hF rest, not_at_sep F hF rest, rfl⟩)
      obtain ⟨hwf, _⟩ := srcOf_wf hP F hF col b hb hni
      refine ⟨lexFrom P false pre, (srcOf P F col b, head2) :: items2, isJunk_lex_noStart false pre hat, ?_, ?_, ?_⟩
      · intro bj hbj
        rcases List.mem_cons.mp hbj with rfl | hbj
        · exact ⟨hwf, hj2⟩
        · exact hw2 bj hbj
      · have htext : pre ++ render F col (b :: rest) =
            pre ++ (coreOf F col b ++ (('\n' :: sepIf F rest) ++ render F col rest)) := by
          rw [render_cons]; simp [textOf]
        obtain ⟨rr, lit, r2, hcore, hatm⟩ := core_starts_at hP F col b hb hni
          (('\n' :: sepIf F rest) ++ render F col rest)
        rw [htext, hcore, lex_append_at P hP.atWord rr lit r2 hatm false pre, ← hcore,
          lex_core hP F hF col b hb hni false, hlex2]
        simp [itemsToks]
      · intro line line'
        have hjc := junk_content pre (b :: rest) cs hst line
        simp only [expItems, List.map_append, List.map_cons, hjc, srcOf_content hP F hF col b hb hni]
        have := hcont2 (line' + nlCount (srcOf P F col b).toks)
          (line' + nlCount (srcOf P F col b).toks + nlCount head2)
        simp only [List.map_append, List.nil_append] at this
        rw [this]

/-- **`split` on the written text** returns blocks whose content is that of `L` with every value
enclosed in braces. -/
theorem split_render (hP : PrintOK P) (F : BibtexFormat) (hF : FormatOK F) (col : Nat) (L : List Block)
    (hbs : ∀ b ∈ L, BlockOK P b) (hadj : NoAdjImpl L) :
    ∃ E, split P (render F col L) = .ok E ∧ E.map contentOf = L.map encContent := by
  obtain ⟨head, items, hj, hw, hlex, hcont⟩ := doc_claim hP F hF col L ['\n'] [] hbs hadj
    (noStart_of_not_mem _ (by intro h; simp at h))
    (Or.inl ⟨allSpace_single hP.nlSpace, by intro h; simp at h, rfl⟩)
  let d : Doc := ⟨head, items⟩
  refine ⟨d.expected P (-1), ?_, ?_⟩
  · unfold split lex
    rw [show ('\n' :: render F col L) = ['\n'] ++ render F col L from rfl, hlex]
    exact splitToks_doc P d ⟨hj, hw⟩
  · have := hcont (-1) (-1 + nlCount head)
    simpa [Doc.expected, d] using this

end Bib.PrintParse
