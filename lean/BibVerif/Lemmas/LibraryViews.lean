/-
  C08: the views of a library satisfying the invariant; freshness of identity tokens; the
  rollback inside `replace`.  Helper lemmas only; the statements are in `Props/C08.lean`.
-/
import BibVerif.Lemmas.LibrarySteps
set_option linter.unusedSectionVars false
namespace Bib
namespace Lib
open PyDict
variable {β : Type} [DecidableEq β] (S : Sig β)

/-! ### views -/

theorem nodup_filter_of_filterMap {kf : β → Option Str} (l : List β) (h : (l.filterMap kf).Nodup) :
    (l.filter fun b => (kf b).isSome).Nodup := by
  induction l with
  | nil => simp
  | cons a r ih =>
    cases hk : kf a with
    | none =>
      simp only [List.filterMap_cons, hk] at h
      simpa [List.filter_cons, hk] using ih h
    | some k =>
      simp only [List.filterMap_cons, hk, List.nodup_cons] at h
      simp only [List.filter_cons, hk, Option.isSome_some, if_true, List.nodup_cons]
      refine ⟨?_, ih h.2⟩
      intro hm
      exact h.1 (List.mem_filterMap.mpr ⟨a, (List.mem_filter.mp hm).1, hk⟩)

theorem nodup_values {kf : β → Option Str} (idx : List (Str × β)) (hn : (keys idx).Nodup)
    (hk : ∀ k b, (k, b) ∈ idx → kf b = some k) : (values idx).Nodup := by
  induction idx with
  | nil => simp [values]
  | cons p r ih =>
    obtain ⟨k, b⟩ := p
    simp only [keys, List.map_cons, List.nodup_cons] at hn
    simp only [values, List.map_cons, List.nodup_cons]
    refine ⟨?_, ih (by simpa [keys] using hn.2) (fun k' b' hm => hk k' b' (List.mem_cons_of_mem _ hm))⟩
    intro hm
    obtain ⟨⟨k', b'⟩, hm', rfl⟩ := List.mem_map.mp hm
    have h1 := hk k' b' (List.mem_cons_of_mem _ hm')
    have h2 := hk k b' (by simp)
    rw [h1] at h2; cases h2
    exact hn.1 (List.mem_map.mpr ⟨_, hm', rfl⟩)

/-- the values of an index are the held blocks with a key, in some order -/
theorem idx_values_perm {kf : β → Option Str} {l : List β} {idx : List (Str × β)} (h : IdxOK kf l idx) :
    (values idx).Perm (l.filter fun b => (kf b).isSome) := by
  refine (List.perm_ext_iff_of_nodup ?_ (nodup_filter_of_filterMap l h.2.2)).mpr ?_
  · exact nodup_values idx h.2.1 (fun k b hm => ((h.1 k b).mp hm).2)
  · intro b
    simp only [values, List.mem_map, List.mem_filter]
    constructor
    · rintro ⟨⟨k, b'⟩, hm, rfl⟩
      have := (h.1 k b').mp hm
      exact ⟨this.1, by simp [this.2]⟩
    · rintro ⟨hm, hk⟩
      cases hkb : kf b with
      | none => simp [hkb] at hk
      | some k => exact ⟨(k, b), (h.1 k b).mpr ⟨hm, hkb⟩, rfl⟩

theorem isString_eq (b : β) : isString S b = (skey S b).isSome := by
  unfold isString skey; split <;> simp_all

theorem isEntry_eq (b : β) : isEntry S b = (ekey S b).isSome := by
  unfold isEntry ekey; split <;> simp_all

/-- every block belongs to exactly one of the five classes -/
theorem five_way (l : List β) :
    (l.filter (isEntry S) ++ l.filter (isString S) ++ l.filter (isPreamble S) ++ l.filter (isComment S) ++
      l.filter (isFailed S)).Perm l := by
  induction l with
  | nil => simp
  | cons a r ih =>
    have ih' : (r.filter (isEntry S) ++ (r.filter (isString S) ++ (r.filter (isPreamble S) ++
        (r.filter (isComment S) ++ r.filter (isFailed S))))).Perm r := by
      simpa [List.append_assoc] using ih
    have mid : ∀ (X Y : List β), (X ++ a :: Y).Perm (a :: (X ++ Y)) := fun _ _ => List.perm_middle
    cases hk : S.kind a <;>
      simp only [List.filter_cons, isEntry, isString, isPreamble, isComment, isFailed, hk, if_true,
        Bool.false_eq_true, if_false, List.cons_append, List.append_assoc]
    · exact List.Perm.cons _ ih'
    · exact (mid _ _).trans (List.Perm.cons _ ih')
    · refine List.Perm.trans ?_ (List.Perm.cons _ ih')
      simpa [List.append_assoc] using mid (r.filter (isEntry S) ++ r.filter (isString S)) _
    · refine List.Perm.trans ?_ (List.Perm.cons _ ih')
      simpa [List.append_assoc] using
        mid (r.filter (isEntry S) ++ r.filter (isString S) ++ r.filter (isPreamble S)) _
    · refine List.Perm.trans ?_ (List.Perm.cons _ ih')
      simpa [List.append_assoc] using
        mid (r.filter (isEntry S) ++ r.filter (isString S) ++ r.filter (isPreamble S) ++
          r.filter (isComment S)) _

/-! ### identity tokens stay fresh -/

theorem addToDicts_fresh (hS : S.Laws) {L L' : Lib β} {b x : β} {w : Bool} (hL : Inv S L)
    (h : addToDicts S L b = .ok (L', x, w)) (hb : S.bound b ≤ L.next) :
    S.bound x ≤ L'.next ∧ L.next ≤ L'.next := by
  rcases addToDicts_result S hL h with ⟨_, hx, hn⟩ | ⟨_, k, p, hx, hn⟩
  · subst hx; omega
  · subst hx; have := hS.wrap_bound L.next k p b; omega

theorem addLoop_fresh (hS : S.Laws) (bs : List β) (L : Lib β) (d : Bool) (hL : Inv S L)
    (hF : Fresh S L) (hb : ∀ b ∈ bs, S.bound b ≤ L.next) :
    Fresh S (addLoop S L bs d).1 ∧ L.next ≤ (addLoop S L bs d).1.next := by
  induction bs generalizing L d with
  | nil => exact ⟨hF, Nat.le_refl _⟩
  | cons b rest ih =>
    obtain ⟨L1, x, w, h1⟩ := addToDicts_total S hL b
    have hbl := addToDicts_blocks S h1
    have hinv : Inv S { L1 with blocks := L1.blocks ++ [x] } :=
      addToDicts_inv S hS hL h1 _ (by rw [hbl]; exact List.perm_append_comm)
    obtain ⟨hx, hn⟩ := addToDicts_fresh S hS hL h1 (hb b (by simp))
    have hF1 : Fresh S { L1 with blocks := L1.blocks ++ [x] } := by
      intro c hc
      simp only [List.mem_append, List.mem_singleton] at hc
      rcases hc with hc | hc
      · rw [hbl] at hc; exact Nat.le_trans (hF c hc) hn
      · subst hc; exact hx
    obtain ⟨h2, h3⟩ := ih { L1 with blocks := L1.blocks ++ [x] } (d || w) hinv hF1
      (fun c hc => Nat.le_trans (hb c (List.mem_cons_of_mem _ hc)) hn)
    simp only [addLoop, h1]
    exact ⟨h2, Nat.le_trans hn h3⟩

theorem fresh_of_sublist {L L' : Lib β} (hF : Fresh S L) (hs : ∀ b ∈ L'.blocks, b ∈ L.blocks)
    (hn : L.next ≤ L'.next) : Fresh S L' :=
  fun b hb => Nat.le_trans (hF b (hs b hb)) hn

theorem mem_foldl_erase (bs : List β) (l : List β) (b : β) (h : b ∈ bs.foldl List.erase l) : b ∈ l := by
  induction bs generalizing l with
  | nil => exact h
  | cons a r ih => exact List.mem_of_mem_erase (ih _ h)

/-! ### `replace` in full -/

/-- `replace` up to the insertion -/
theorem replaceStep_spec (hS : S.Laws) (L : Lib β) (old new : β) (hL : Inv S L) :
    (old ∉ L.blocks ∧ replaceStep S L old new = (L, .error .valueError)) ∨
    (∃ pre post L2 x w, L.blocks = pre ++ old :: post ∧ old ∉ pre ∧
      addToDicts S (removed S L old) new = .ok (L2, x, w) ∧
      replaceStep S L old new = ({ L2 with blocks := pre ++ x :: post }, .ok (x, w)) ∧
      Inv S { L2 with blocks := pre ++ x :: post }) := by
  cases hi : listIndex L.blocks old with
  | none =>
    have := listIndex_none.mp hi
    exact Or.inl ⟨this, replaceStep_not_mem S this⟩
  | some i =>
    obtain ⟨pre, post, h1, h2, _⟩ := listIndex_some hi
    obtain ⟨L2, x, w, h3, h4, h5⟩ := replaceStep_mem S hS hL h1 h2 (new := new)
    exact Or.inr ⟨pre, post, L2, x, w, h1, h2, h3, h4, h5⟩

/-- the rollback: replacing the fresh wrapper by `old` again restores the block list and both
indexes (as mappings) -/
theorem rollback (hS : S.Laws) {L L2 : Lib β} {old new x : β} {pre post : List β} (hL : Inv S L)
    (hF : Fresh S L) (hb : L.blocks = pre ++ old :: post) (hpre : old ∉ pre)
    (h2 : addToDicts S (removed S L old) new = .ok (L2, x, true)) :
    ∃ L5 y w, replaceStep S { L2 with blocks := pre ++ x :: post } x old = (L5, .ok (y, w)) ∧
      L5.blocks = L.blocks ∧ MapEq L5.eidx L.eidx ∧ MapEq L5.sidx L.sidx ∧ Inv S L5 ∧
      L5.next = L.next + 1 := by
  have hmem : old ∈ L.blocks := by rw [hb]; simp
  have hR := removed_inv S hL hmem
  have hRb : (removed S L old).blocks = pre ++ post := by
    simp only [removed, hb]; exact erase_append_head hpre
  -- the wrapper
  rcases addToDicts_result S hR h2 with ⟨hw, _⟩ | ⟨_, k, p, hx, hn⟩
  · cases hw
  have hL2 : L2 = { removed S L old with next := L.next + 1 } := by
    rcases addToDicts_cases S hR new with ⟨k, h', _⟩ | ⟨k, h', _⟩ | ⟨h', _⟩ | ⟨k, p, h', _⟩ <;>
      (rw [h'] at h2; cases h2)
    rfl
  have hxk := wrap_keys S hS (removed S L old).next k p new
  rw [← hx] at hxk
  have hxpre : x ∉ pre := by
    intro hm
    have : S.bound x ≤ L.next := hF x (by rw [hb]; simp [hm])
    rw [hx] at this
    exact hS.wrap_fresh _ k p new _ this rfl
  have hL3 : Inv S { L2 with blocks := pre ++ x :: post } :=
    addToDicts_inv S hS hR h2 _ (by rw [hRb]; exact List.perm_middle)
  obtain ⟨L4, y, w, h4, h5, h6⟩ :=
    replaceStep_mem S hS (L := { L2 with blocks := pre ++ x :: post }) (new := old) hL3 rfl hxpre
  refine ⟨_, y, w, h5, ?_⟩
  -- the state after removing the wrapper again
  have hrem : removed S { L2 with blocks := pre ++ x :: post } x =
      { removed S L old with next := L.next + 1 } := by
    subst hL2
    simp only [removed, hxk.1, hxk.2, erase_append_head hxpre]
    simp only [removed] at hRb
    simp [hRb]
  rw [hrem] at h4
  -- `old` goes back in without a wrapper: its key was deleted from the index
  cases hk : S.kind old with
  | entry ko =>
    obtain ⟨he, hs⟩ := ekey_of_kind S hk
    have hg : get L.eidx ko = some old := hL.1.get_of_mem hmem he
    have hnone : get (del L.eidx ko) ko = none := get_del_same _ _ hL.1.2.1
    have := addToDicts_entry_new S (L := { removed S L old with next := L.next + 1 }) hk
      (by simpa [removed, he] using hnone)
    rw [this] at h4; cases h4
    refine ⟨hb.symm, ?_, ?_, h6, rfl⟩
    · simpa [removed, he] using mapEq_set_del L.eidx ko old hg
    · simpa [removed, hs] using MapEq.refl L.sidx
  | string ko =>
    obtain ⟨hs, he⟩ := skey_of_kind S hk
    have hg : get L.sidx ko = some old := hL.2.get_of_mem hmem hs
    have hnone : get (del L.sidx ko) ko = none := get_del_same _ _ hL.2.2.1
    have := addToDicts_string_new S (L := { removed S L old with next := L.next + 1 }) hk
      (by simpa [removed, hs] using hnone)
    rw [this] at h4; cases h4
    refine ⟨hb.symm, ?_, ?_, h6, rfl⟩
    · simpa [removed, he] using MapEq.refl L.eidx
    · simpa [removed, hs] using mapEq_set_del L.sidx ko old hg
  | preamble =>
    obtain ⟨he, hs⟩ := keys_none_of_kind S (b := old) (by simp [hk]) (by simp [hk])
    rw [addToDicts_other S (by simp [hk]) (by simp [hk])] at h4; cases h4
    exact ⟨hb.symm, by simpa [removed, he] using MapEq.refl L.eidx,
      by simpa [removed, hs] using MapEq.refl L.sidx, h6, rfl⟩
  | comment =>
    obtain ⟨he, hs⟩ := keys_none_of_kind S (b := old) (by simp [hk]) (by simp [hk])
    rw [addToDicts_other S (by simp [hk]) (by simp [hk])] at h4; cases h4
    exact ⟨hb.symm, by simpa [removed, he] using MapEq.refl L.eidx,
      by simpa [removed, hs] using MapEq.refl L.sidx, h6, rfl⟩
  | failed =>
    obtain ⟨he, hs⟩ := keys_none_of_kind S (b := old) (by simp [hk]) (by simp [hk])
    rw [addToDicts_other S (by simp [hk]) (by simp [hk])] at h4; cases h4
    exact ⟨hb.symm, by simpa [removed, he] using MapEq.refl L.eidx,
      by simpa [removed, hs] using MapEq.refl L.sidx, h6, rfl⟩

/-- the three ways a `replace` can go when the invariant holds -/
theorem replace_cases (hS : S.Laws) {L : Lib β} (hL : Inv S L) (old new : β) (f : Bool) :
    (old ∉ L.blocks ∧ replace S L old new f = (L, .raise .valueError)) ∨
    (∃ pre post L2 x w, L.blocks = pre ++ old :: post ∧ old ∉ pre ∧
      addToDicts S (removed S L old) new = .ok (L2, x, w) ∧ (w && f) = false ∧
      replace S L old new f = ({ L2 with blocks := pre ++ x :: post }, .ok) ∧
      Inv S { L2 with blocks := pre ++ x :: post }) ∨
    (∃ pre post L2 x L5, L.blocks = pre ++ old :: post ∧ old ∉ pre ∧
      addToDicts S (removed S L old) new = .ok (L2, x, true) ∧ f = true ∧
      replace S L old new f = (L5, .raise .valueError) ∧ Inv S L5 ∧
      (Fresh S L → L5.blocks = L.blocks ∧ MapEq L5.eidx L.eidx ∧ MapEq L5.sidx L.sidx ∧
        L5.next = L.next + 1)) := by
  rcases replaceStep_spec S hS L old new hL with ⟨hn, h⟩ | ⟨pre, post, L2, x, w, h1, h2, h3, h, hI⟩
  · exact Or.inl ⟨hn, by simp [replace, h]⟩
  · cases hwf : (w && f) with
    | false =>
      exact Or.inr (Or.inl ⟨pre, post, L2, x, w, h1, h2, h3, hwf, by simp [replace, h, hwf], hI⟩)
    | true =>
      have hw : w = true := by cases w <;> simp_all
      have hf : f = true := by cases f <;> simp_all
      subst hw
      refine Or.inr (Or.inr ?_)
      -- the nested `replace(block_after_add, old_block, fail_on_duplicate_key=False)`
      rcases replaceStep_spec S hS _ x old hI with ⟨hn', h'⟩ | ⟨_, _, L4, y, w', _, _, _, h', hI'⟩
      · exact (hn' (by simp)).elim
      · refine ⟨pre, post, L2, x, _, h1, h2, h3, hf, by simp [replace, h, hwf, h'], hI', ?_⟩
        intro hF
        obtain ⟨L5, y', w'', h5, hb, he, hs, _, hn5⟩ := rollback S hS hL hF h1 h2 h3
        rw [h5] at h'
        cases h'
        exact ⟨hb, he, hs, hn5⟩

/-! ### `step` unfolded -/

theorem step_add_some {L : Lib β} {as : List (Arg β)} {bs : List β} (f : Bool)
    (h : as.mapM (Arg.resolve L) = some bs) : step S L (.add as f) = (add S L bs f).1 := by
  simp [step, applyOp, h]

theorem step_add_none {L : Lib β} {as : List (Arg β)} (f : Bool)
    (h : as.mapM (Arg.resolve L) = none) : step S L (.add as f) = L := by
  simp [step, applyOp, h]

theorem step_remove_some {L : Lib β} {as : List (Arg β)} {bs : List β}
    (h : as.mapM (Arg.resolve L) = some bs) : step S L (.remove as) = (remove S L bs).1 := by
  simp [step, applyOp, h]

theorem step_remove_none {L : Lib β} {as : List (Arg β)}
    (h : as.mapM (Arg.resolve L) = none) : step S L (.remove as) = L := by
  simp [step, applyOp, h]

theorem step_replace_some {L : Lib β} {a n : Arg β} {old new : β} (f : Bool)
    (h1 : Arg.resolve L a = some old) (h2 : Arg.resolve L n = some new) :
    step S L (.replace a n f) = (replace S L old new f).1 := by
  simp [step, applyOp, h1, h2]

theorem step_replace_none {L : Lib β} {a n : Arg β} (f : Bool)
    (h : Arg.resolve L a = none ∨ Arg.resolve L n = none) : step S L (.replace a n f) = L := by
  rcases h with h | h
  · simp [step, applyOp, h]
  · cases h1 : Arg.resolve L a <;> simp [step, applyOp, h, h1]

/-! ### histories: which blocks a caller may pass -/

/-- a block the caller brings along holds no identity token the library could hand out later
(it was made before); positions always denote held blocks -/
def Arg.Bounded (n : Nat) : Arg β → Prop
  | .blk b => S.bound b ≤ n
  | .pos _ => True

def Op.Bounded (n : Nat) : Op β → Prop
  | .add as _ => ∀ a ∈ as, Arg.Bounded S n a
  | .remove as => ∀ a ∈ as, Arg.Bounded S n a
  | .replace o nw _ => Arg.Bounded S n o ∧ Arg.Bounded S n nw

theorem Arg.Bounded.mono {n m : Nat} {a : Arg β} (h : Arg.Bounded S n a) (hnm : n ≤ m) :
    Arg.Bounded S m a := by
  cases a with
  | blk b => exact Nat.le_trans h hnm
  | pos i => trivial

theorem Op.Bounded.mono {n m : Nat} {op : Op β} (h : Op.Bounded S n op) (hnm : n ≤ m) :
    Op.Bounded S m op := by
  cases op with
  | add as f => exact fun a ha => (h a ha).mono S hnm
  | remove as => exact fun a ha => (h a ha).mono S hnm
  | replace o nw f => exact ⟨h.1.mono S hnm, h.2.mono S hnm⟩

theorem resolve_bounded {L : Lib β} (hF : Fresh S L) {a : Arg β} {b : β}
    (ha : Arg.Bounded S L.next a) (hr : Arg.resolve L a = some b) : S.bound b ≤ L.next := by
  cases a with
  | blk c => simp [Arg.resolve] at hr; subst hr; exact ha
  | pos i =>
    simp only [Arg.resolve] at hr
    exact hF b (List.mem_of_getElem? hr)

theorem mapM_resolve_bounded {L : Lib β} (hF : Fresh S L) (as : List (Arg β)) (bs : List β)
    (ha : ∀ a ∈ as, Arg.Bounded S L.next a) (hr : as.mapM (Arg.resolve L) = some bs) :
    ∀ b ∈ bs, S.bound b ≤ L.next := by
  induction as generalizing bs with
  | nil => simp at hr; subst hr; simp
  | cons a r ih =>
    simp only [List.mapM_cons, Option.bind_eq_bind] at hr
    cases h1 : Arg.resolve L a with
    | none => simp [h1] at hr
    | some c =>
      cases h2 : r.mapM (Arg.resolve L) with
      | none => simp [h1, h2] at hr
      | some cs =>
        simp [h1, h2] at hr; subst hr
        intro b hb
        rcases List.mem_cons.mp hb with rfl | hb
        · exact resolve_bounded S hF (ha a (by simp)) h1
        · exact ih cs (fun x hx => ha x (List.mem_cons_of_mem _ hx)) h2 b hb

end Lib
end Bib
