/-
  C13 helper lemmas, part 2: the one-pass scanner.

  `K` is the scanner state with the case bookkeeping erased (sections and words only, brace level,
  pending escape); `kstep` is the scanner on that projection.  `proj_run`/`proj_scan` show that the
  projection commutes with the real model (`NameP.stepc`), so that everything that concerns
  sections, words and errors is proved once on the small machine, for every `PyChars`.
-/
import BibVerif.Names.Parse
import BibVerif.Lemmas.NamesSpec
namespace Bib.NameP

structure K where
  done : List (List Str) := []
  cur : List Str := []
  word : Str := []
  level : Nat := 0
  esc : Bool := false
deriving Repr, DecidableEq

def proj (s : S) : K :=
  { done := s.done.map words, cur := words s.cur, word := s.word, level := s.level, esc := s.esc }

def kpush (k : K) : K :=
  if k.word.isEmpty then k else { k with cur := k.cur ++ [k.word], word := [] }

def kplain (k : K) (c : Char) : Except NameErr K :=
  if c = '{' then .ok { k with level := k.level + 1, word := k.word ++ [c] }
  else if c = '}' then
    if k.level = 0 then .error .unmatchedClose
    else .ok { k with level := k.level - 1, word := k.word ++ [c] }
  else if k.level > 0 then .ok { k with word := k.word ++ [c] }
  else if c = ',' || isWs c then
    let k := kpush k
    if c = ',' then
      if k.done.length + 1 < 3 then .ok { k with done := k.done ++ [k.cur], cur := [] }
      else .error .tooManyCommas
    else .ok k
  else .ok { k with word := k.word ++ [c] }

def kstep (k : K) (c : Char) : Except NameErr K :=
  if k.esc then
    if isWs c then kplain { k with esc := false, word := k.word ++ ['\\'] } c
    else .ok { k with esc := false, word := k.word ++ ['\\', c] }
  else if c = '\\' then .ok { k with esc := true }
  else kplain k c

def krun (k : K) : Str → Except NameErr K
  | [] => .ok k
  | c :: r =>
    match kstep k c with
    | .error e => .error e
    | .ok k' => krun k' r

def kfinish (k : K) : Except NameErr (List (List Str)) :=
  let word := if k.esc then k.word ++ ['\\'] else k.word
  if k.level > 0 then .error .unterminated
  else
    let cur := if word.isEmpty then k.cur else k.cur ++ [word]
    if cur.isEmpty then
      if k.done.length + 1 > 1 then .error .trailingComma else .ok []
    else .ok (k.done ++ [cur])

def kscan (name : Str) : Except NameErr (List (List Str)) :=
  match krun {} name with
  | .error e => .error e
  | .ok k => kfinish k

variable (P : PyChars)

theorem proj_pushWord (s : S) : proj (pushWord s) = kpush (proj s) := by
  unfold pushWord kpush proj
  by_cases h : s.word.isEmpty = true
  · simp [h]
  · simp [h, words]

theorem proj_plain (s : S) (c : Char) : (plain P s c).map proj = kplain (proj s) c := by
  unfold plain kplain
  by_cases h1 : c = '{'
  · simp [h1, proj, Except.map]
  · simp only [h1, if_false]
    by_cases h2 : c = '}'
    · by_cases h3 : s.level = 0 <;> simp [h2, h3, proj, Except.map]
    · simp only [h2, if_false]
      by_cases h3 : s.level > 0
      · have h3' : (proj s).level > 0 := h3
        simp only [h3, h3', if_true]
        by_cases h4 : s.controlseq = true
        · simp [h4, proj, Except.map]
        · by_cases h5 : s.specialchar = true <;> simp [h4, h5, proj, Except.map]
      · have h3' : ¬ (proj s).level > 0 := h3
        simp only [h3, h3', if_false]
        by_cases h4 : (c = ',' || isWs c) = true
        · simp only [h4, if_true]
          have hp := proj_pushWord { s with bracestart := false }
          have hpe : proj { s with bracestart := false } = proj s := rfl
          rw [hpe] at hp
          by_cases h5 : c = ','
          · simp only [h5, if_true]
            rw [← hp]
            by_cases h6 : (pushWord { s with bracestart := false }).done.length + 1 < 3
            · have h6' : (proj (pushWord { s with bracestart := false })).done.length + 1 < 3 := by
                simpa [proj] using h6
              simp [h6, h6', proj, Except.map, words]
            · have h6' : ¬ (proj (pushWord { s with bracestart := false })).done.length + 1 < 3 := by
                simpa [proj] using h6
              simp [h6, h6', Except.map]
          · simp only [h5, if_false]
            rw [← hp]; rfl
        · simp [h4, proj, Except.map]

theorem proj_stepc (s : S) (c : Char) : (stepc P s c).map proj = kstep (proj s) c := by
  unfold stepc kstep
  by_cases he : s.esc = true
  · have he' : (proj s).esc = true := he
    simp only [he, he', if_true]
    by_cases hw : isWs c = true
    · simp only [hw, if_true]
      exact proj_plain P _ c
    · simp only [hw, if_false]
      by_cases hb : s.bracestart = true <;> simp [hb, proj, Except.map]
  · have he' : ¬ (proj s).esc = true := he
    simp only [he, he', if_false]
    by_cases hc : c = '\\'
    · simp [hc, proj, Except.map]
    · simp only [hc, if_false]
      exact proj_plain P s c

theorem proj_run (r : Str) : ∀ s : S, (run P s r).map proj = krun (proj s) r := by
  induction r with
  | nil => intro s; rfl
  | cons c r ih =>
    intro s
    have h := proj_stepc P s c
    unfold run krun
    cases hs : stepc P s c with
    | error e => rw [hs] at h; simp only [Except.map] at h; rw [← h]; rfl
    | ok s' =>
      rw [hs] at h; simp only [Except.map] at h; rw [← h]
      exact ih s'

theorem proj_finish (s : S) : (finish s).map (fun secs => secs.map words) = kfinish (proj s) := by
  unfold finish kfinish
  simp only [proj]
  by_cases hl : s.level > 0
  · simp [hl, Except.map]
  · simp only [hl, if_false]
    by_cases he : s.esc = true <;> by_cases hw : s.word.isEmpty = true <;>
      by_cases hc : s.cur.isEmpty = true <;> by_cases hd : s.done.length + 1 > 1 <;>
      simp_all [Except.map, words]

/-- the sections of the real scanner, cases erased, are the sections of the small machine -/
theorem proj_scan (n : Str) : (scan P n).map (fun secs => secs.map words) = kscan n := by
  unfold scan kscan
  have h := proj_run P n init
  have hi : proj init = {} := rfl
  rw [hi] at h
  cases hr : run P init n with
  | error e => rw [hr] at h; simp only [Except.map] at h; rw [← h]; rfl
  | ok s =>
    rw [hr] at h; simp only [Except.map] at h; rw [← h]
    exact proj_finish s

theorem kscan_of_scan_ok {n : Str} {secs : List (List Word)} (h : scan P n = .ok secs) :
    kscan n = .ok (secs.map words) := by
  rw [← proj_scan P n, h]; rfl

theorem kscan_of_scan_error {n : Str} {e : NameErr} (h : scan P n = .error e) :
    kscan n = .error e := by
  rw [← proj_scan P n, h]; rfl


/-! ### the small machine against the independent reference functions -/

def blankK (k : K) : Bool := k.cur.isEmpty && k.word.isEmpty && !k.esc

/-- all characters stored so far, in order (a pending escape's backslash included) -/
def content (k : K) : Str :=
  k.done.flatten.flatten ++ k.cur.flatten ++ k.word ++ (if k.esc then ['\\'] else [])

theorem isWs_ne {c : Char} (h : isWs c = true) : c ≠ '{' ∧ c ≠ '}' ∧ c ≠ ',' ∧ c ≠ '\\' := by
  simp only [isWs, Bool.or_eq_true, decide_eq_true_eq] at h
  rcases h with (((h | h) | h) | h) | h <;> subst h <;> decide

theorem content_kpush (k : K) : content (kpush k) = content k := by
  unfold kpush content
  by_cases h : k.word.isEmpty = true
  · simp [h]
  · simp [h]

theorem kpush_fields (k : K) : (kpush k).done = k.done ∧ (kpush k).level = k.level ∧ (kpush k).esc = k.esc ∧
    (kpush k).word = [] ∧ ((kpush k).cur.isEmpty = (k.cur.isEmpty && k.word.isEmpty)) := by
  unfold kpush
  by_cases h : k.word.isEmpty = true
  · have : k.word = [] := by simpa using h
    simp [h, this]
  · simp [h]

theorem isEmpty_snoc {α} (w : List α) (c : α) : (w ++ [c]).isEmpty = false := by
  cases w <;> rfl

theorem isEmpty_append_cons {α} (w : List α) (c : α) (l : List α) : (w ++ c :: l).isEmpty = false := by
  cases w <;> rfl

/-- one successful step of the scanner, seen through each reference function -/
theorem kplain_spec {k k' : K} {c : Char} (he : k.esc = false) (hc : c ≠ '\\')
    (hlw : k.level > 0 → k.word ≠ [])
    (h : kplain k c = .ok k') (r : Str) :
    k'.esc = false ∧ (k'.level > 0 → k'.word ≠ []) ∧
    unmatchedClose false k.level (c :: r) = unmatchedClose false k'.level r ∧
    finalDepth false k.level (c :: r) = finalDepth false k'.level r ∧
    k.done.length + topCommas false k.level (c :: r) = k'.done.length + topCommas false k'.level r ∧
    blankTail false k.level (blankK k) (c :: r) = blankTail false k'.level (blankK k') r ∧
    content k ++ dropTopSeps false k.level (c :: r) = content k' ++ dropTopSeps false k'.level r := by
  unfold kplain at h
  by_cases h1 : c = '{'
  · rw [if_pos h1] at h
    injection h with h
    subst h
    simp [unmatchedClose, finalDepth, topCommas, blankTail, dropTopSeps, he, blankK, content, h1, isEmpty_snoc]
  · rw [if_neg h1] at h
    by_cases h2 : c = '}'
    · rw [if_pos h2] at h
      by_cases h3 : k.level = 0
      · rw [if_pos h3] at h; cases h
      · rw [if_neg h3] at h
        injection h with h
        subst h
        simp [unmatchedClose, finalDepth, topCommas, blankTail, dropTopSeps, he, blankK, content, h2, h3,
          isEmpty_snoc]
    · rw [if_neg h2] at h
      by_cases h3 : k.level > 0
      · rw [if_pos h3] at h
        injection h with h
        subst h
        have h3' : ¬ k.level = 0 := by omega
        have hw : k.word.isEmpty = false := by
          have := hlw h3
          cases hk : k.word with
          | nil => exact absurd hk this
          | cons _ _ => rfl
        simp [unmatchedClose, finalDepth, topCommas, blankTail, dropTopSeps, he, blankK, content, h1, h2, hc, h3',
          isEmpty_snoc, hw]
      · have h3' : k.level = 0 := by omega
        rw [if_neg h3] at h
        obtain ⟨p1, p2, p3, p4, p5⟩ := kpush_fields k
        have pc := content_kpush k
        by_cases h4 : (c = ',' || isWs c) = true
        · rw [if_pos h4] at h
          simp only at h
          by_cases h5 : c = ','
          · rw [if_pos h5] at h
            by_cases h6 : (kpush k).done.length + 1 < 3
            · rw [if_pos h6] at h
              injection h with h
              subst h
              simp only [unmatchedClose, finalDepth, topCommas, blankTail, dropTopSeps, he, blankK, h5, p1, p2, p3, p4,
                h3']
              simp
              refine ⟨by omega, ?_⟩
              rw [← pc]
              simp [content, p3, he, p4, p1]
            · rw [if_neg h6] at h; cases h
          · rw [if_neg h5] at h
            injection h with h
            subst h
            have hw : isWs c = true := by simpa [h5] using h4
            simp only [unmatchedClose, finalDepth, topCommas, blankTail, dropTopSeps, he, blankK, h5, p1, p2, p3, p4,
              p5, h3', hw, h1, h2, hc, pc]
            simp [he]
        · rw [if_neg h4] at h
          injection h with h
          subst h
          have h4' : c ≠ ',' ∧ isWs c = false := by simpa using h4
          simp [unmatchedClose, finalDepth, topCommas, blankTail, dropTopSeps, he, blankK, content, h1, h2, hc, h3',
            h4'.1, h4'.2, isEmpty_snoc]

/-- the invariant "inside braces the current word is not empty", and every reference function,
across one successful step -/
theorem kstep_spec {k k' : K} {c : Char} (hlw : k.level > 0 → k.word ≠ [])
    (h : kstep k c = .ok k') (r : Str) :
    (k'.level > 0 → k'.word ≠ []) ∧
    unmatchedClose k.esc k.level (c :: r) = unmatchedClose k'.esc k'.level r ∧
    finalDepth k.esc k.level (c :: r) = finalDepth k'.esc k'.level r ∧
    k.done.length + topCommas k.esc k.level (c :: r) = k'.done.length + topCommas k'.esc k'.level r ∧
    blankTail k.esc k.level (blankK k) (c :: r) = blankTail k'.esc k'.level (blankK k') r ∧
    content k ++ dropTopSeps k.esc k.level (c :: r) = content k' ++ dropTopSeps k'.esc k'.level r := by
  unfold kstep at h
  by_cases he : k.esc = true
  · rw [if_pos he] at h
    by_cases hw : isWs c = true
    · rw [if_pos hw] at h
      obtain ⟨n1, n2, n3, n4⟩ := isWs_ne hw
      obtain ⟨q0, q1, q2, q3, q4, q5, q6⟩ :=
        kplain_spec (k := { k with esc := false, word := k.word ++ ['\\'] }) rfl n4 (by simp) h r
      refine ⟨q1, ?_, ?_, ?_, ?_, ?_⟩
      · rw [q0, ← q2]; simp [unmatchedClose, he, n1, n2, n4]
      · rw [q0, ← q3]; simp [finalDepth, he, n1, n2, n4]
      · rw [q0, ← q4]; simp [topCommas, he, n1, n2, n3, n4]
      · rw [q0, ← q5]; simp [blankTail, he, n1, n2, n3, n4, blankK, isEmpty_snoc, hw]
      · rw [q0, ← q6]
        simp only [content, he, if_true]
        by_cases hd : k.level = 0 <;> simp [dropTopSeps, hw, n1, n2, n4, hd]
    · rw [if_neg hw] at h
      injection h with h
      subst h
      have hw' : isWs c = false := by simpa using hw
      simp [unmatchedClose, finalDepth, topCommas, blankTail, dropTopSeps, he, blankK, content, hw', isEmpty_append_cons]
  · have he' : k.esc = false := by simpa using he
    rw [if_neg he] at h
    by_cases hc : c = '\\'
    · rw [if_pos hc] at h
      injection h with h
      subst h
      simp only [unmatchedClose, finalDepth, topCommas, blankTail, dropTopSeps, he', blankK, content, hc]
      simp
      exact hlw
    · rw [if_neg hc] at h
      obtain ⟨q0, q1, q2, q3, q4, q5, q6⟩ := kplain_spec he' hc hlw h r
      rw [he', q0]
      exact ⟨q1, q2, q3, q4, q5, q6⟩

/-- a successful run, seen through each reference function -/
theorem krun_spec (r : Str) : ∀ {k k' : K}, (k.level > 0 → k.word ≠ []) → krun k r = .ok k' →
    unmatchedClose k.esc k.level r = false ∧
    finalDepth k.esc k.level r = k'.level ∧
    k.done.length + topCommas k.esc k.level r = k'.done.length ∧
    blankTail k.esc k.level (blankK k) r = blankK k' ∧
    content k ++ dropTopSeps k.esc k.level r = content k' := by
  induction r with
  | nil =>
    intro k k' _ h
    simp only [krun] at h
    injection h with h
    subst h
    simp [unmatchedClose, finalDepth, topCommas, blankTail, dropTopSeps]
  | cons c r ih =>
    intro k k' hlw h
    unfold krun at h
    cases hs : kstep k c with
    | error e => rw [hs] at h; cases h
    | ok k1 =>
      rw [hs] at h
      obtain ⟨q1, q2, q3, q4, q5, q6⟩ := kstep_spec hlw hs r
      obtain ⟨i1, i2, i3, i4, i5⟩ := ih q1 h
      exact ⟨by rw [q2, i1], by rw [q3, i2], by rw [q4, i3], by rw [q5, i4], by rw [q6, i5]⟩

/-- a failing step -/
theorem kstep_error {k : K} {c : Char} {e : NameErr} (h : kstep k c = .error e) (r : Str) :
    unmatchedClose k.esc k.level (c :: r) = true ∨ k.done.length + topCommas k.esc k.level (c :: r) > 2 := by
  unfold kstep at h
  by_cases he : k.esc = true
  · rw [if_pos he] at h
    by_cases hw : isWs c = true
    · rw [if_pos hw] at h
      obtain ⟨n1, n2, n3, n4⟩ := isWs_ne hw
      unfold kplain at h
      simp only [n1, n2, n3, if_false] at h
      split at h
      · cases h
      · simp [hw] at h
    · rw [if_neg hw] at h; cases h
  · have he' : k.esc = false := by simpa using he
    rw [if_neg he] at h
    by_cases hc : c = '\\'
    · rw [if_pos hc] at h; cases h
    · rw [if_neg hc] at h
      unfold kplain at h
      by_cases h1 : c = '{'
      · rw [if_pos h1] at h; cases h
      · rw [if_neg h1] at h
        by_cases h2 : c = '}'
        · rw [if_pos h2] at h
          by_cases h3 : k.level = 0
          · left; simp [unmatchedClose, he', h2, h3]
          · rw [if_neg h3] at h; cases h
        · rw [if_neg h2] at h
          by_cases h3 : k.level > 0
          · rw [if_pos h3] at h; cases h
          · rw [if_neg h3] at h
            have h3' : k.level = 0 := by omega
            by_cases h4 : (c = ',' || isWs c) = true
            · rw [if_pos h4] at h
              simp only at h
              by_cases h5 : c = ','
              · rw [if_pos h5] at h
                by_cases h6 : (kpush k).done.length + 1 < 3
                · rw [if_pos h6] at h; cases h
                · right
                  rw [(kpush_fields k).1] at h6
                  simp [topCommas, he', h5, h3']
                  omega
              · rw [if_neg h5] at h; cases h
            · rw [if_neg h4] at h; cases h

theorem topCommas_step_le {k k' : K} {c : Char} (hlw : k.level > 0 → k.word ≠ [])
    (h : kstep k c = .ok k') (r : Str) :
    k.done.length + topCommas k.esc k.level (c :: r) = k'.done.length + topCommas k'.esc k'.level r :=
  (kstep_spec hlw h r).2.2.2.1

/-- a failing run -/
theorem krun_error (r : Str) : ∀ {k : K} {e : NameErr}, (k.level > 0 → k.word ≠ []) → krun k r = .error e →
    unmatchedClose k.esc k.level r = true ∨ k.done.length + topCommas k.esc k.level r > 2 := by
  induction r with
  | nil => intro k e _ h; simp [krun] at h
  | cons c r ih =>
    intro k e hlw h
    unfold krun at h
    cases hs : kstep k c with
    | error e' => exact kstep_error hs r
    | ok k1 =>
      rw [hs] at h
      obtain ⟨q1, q2, _, q4, _, _⟩ := kstep_spec hlw hs r
      rcases ih q1 h with i | i
      · left; rw [q2, i]
      · right; rw [q4]; exact i

/-- number of sections stays ≤ 3 and no stored word is empty -/
def KInv (k : K) : Prop :=
  k.done.length ≤ 2 ∧ (∀ sec ∈ k.done, ∀ w ∈ sec, w ≠ []) ∧ (∀ w ∈ k.cur, w ≠ [])

theorem kinv_kpush {k : K} (h : KInv k) : KInv (kpush k) := by
  unfold kpush
  by_cases hw : k.word.isEmpty = true
  · simpa [hw] using h
  · simp only [hw]
    refine ⟨h.1, h.2.1, ?_⟩
    intro w hm
    rcases List.mem_append.mp hm with hm | hm
    · exact h.2.2 w hm
    · simp at hm; subst hm; intro h0; simp [h0] at hw

theorem kinv_kplain {k k' : K} {c : Char} (hi : KInv k) (h : kplain k c = .ok k') : KInv k' := by
  unfold kplain at h
  split at h
  · injection h with h; subst h; exact hi
  · split at h
    · split at h
      · cases h
      · injection h with h; subst h; exact hi
    · split at h
      · injection h with h; subst h; exact hi
      · split at h
        · simp only at h
          have hp := kinv_kpush hi
          split at h
          · split at h
            · injection h with h; subst h
              rename_i hlt
              refine ⟨by simp; omega, ?_, by simp⟩
              intro sec hs
              rcases List.mem_append.mp hs with hs | hs
              · exact hp.2.1 sec hs
              · simp at hs; subst hs; exact hp.2.2
            · cases h
          · injection h with h; subst h; exact hp
        · injection h with h; subst h; exact hi

theorem kinv_kstep {k k' : K} {c : Char} (hi : KInv k) (h : kstep k c = .ok k') : KInv k' := by
  unfold kstep at h
  split at h
  · split at h
    · exact kinv_kplain (k := { k with esc := false, word := k.word ++ ['\\'] }) hi h
    · injection h with h; subst h; exact hi
  · split at h
    · injection h with h; subst h; exact hi
    · exact kinv_kplain hi h

theorem kinv_krun (r : Str) : ∀ {k k' : K}, KInv k → krun k r = .ok k' → KInv k' := by
  induction r with
  | nil => intro k k' hi h; simp only [krun] at h; injection h with h; subst h; exact hi
  | cons c r ih =>
    intro k k' hi h
    unfold krun at h
    cases hs : kstep k c with
    | error e => rw [hs] at h; cases h
    | ok k1 => rw [hs] at h; exact ih (kinv_kstep hi hs) h

theorem kfinish_ok {k : K} {secs : List (List Str)} (hi : KInv k) (h : kfinish k = .ok secs) :
    k.level = 0 ∧ secs.flatten.flatten = content k ∧ (blankK k = true → k.done.length = 0) ∧
    secs.length ≤ 3 ∧ (∀ sec ∈ secs, ∀ w ∈ sec, w ≠ []) ∧ (∀ l, secs.getLast? = some l → l ≠ []) := by
  unfold kfinish at h
  simp only at h
  by_cases hl : k.level > 0
  · rw [if_pos hl] at h; cases h
  · rw [if_neg hl] at h
    have hl0 : k.level = 0 := by omega
    obtain ⟨hd, hdn, hcn⟩ := hi
    by_cases he : k.esc = true
    · -- the pending backslash is the (end of the) last word
      simp only [he, if_true, isEmpty_snoc, Bool.false_eq_true, if_false] at h
      injection h with h
      subst h
      refine ⟨hl0, by simp [content, he], by simp [blankK, he], by simp; omega, ?_, by simp⟩
      intro sec hs w hw
      rcases List.mem_append.mp hs with hs | hs
      · exact hdn sec hs w hw
      · simp at hs; subst hs
        rcases List.mem_append.mp hw with hw | hw
        · exact hcn w hw
        · simp at hw; subst hw; simp
    · have he' : k.esc = false := by simpa using he
      simp only [he', Bool.false_eq_true, if_false] at h
      by_cases hw : k.word.isEmpty = true
      · have hw0 : k.word = [] := by simpa using hw
        simp only [hw, if_true] at h
        by_cases hc : k.cur.isEmpty = true
        · have hc0 : k.cur = [] := by simpa using hc
          simp only [hc, if_true] at h
          by_cases hdl : k.done.length + 1 > 1
          · rw [if_pos hdl] at h; cases h
          · rw [if_neg hdl] at h
            injection h with h
            subst h
            have hd0 : k.done = [] := List.eq_nil_of_length_eq_zero (by omega)
            refine ⟨hl0, by simp [content, he', hw0, hc0, hd0], fun _ => by omega, by simp, by simp, by simp⟩
        · have hc' : k.cur.isEmpty = false := by simpa using hc
          simp only [hc', Bool.false_eq_true, if_false] at h
          injection h with h
          subst h
          refine ⟨hl0, by simp [content, he', hw0], by simp [blankK, hc'], by simp; omega, ?_, ?_⟩
          · intro sec hs w hw
            rcases List.mem_append.mp hs with hs | hs
            · exact hdn sec hs w hw
            · simp at hs; subst hs; exact hcn w hw
          · intro l hl
            simp at hl; subst hl
            intro h0; simp [h0] at hc'
      · have hw' : k.word.isEmpty = false := by simpa using hw
        simp only [hw', Bool.false_eq_true, if_false, isEmpty_snoc] at h
        injection h with h
        subst h
        refine ⟨hl0, by simp [content, he'], by simp [blankK, hw'], by simp; omega, ?_, by simp⟩
        intro sec hs w hm
        rcases List.mem_append.mp hs with hs | hs
        · exact hdn sec hs w hm
        · simp at hs; subst hs
          rcases List.mem_append.mp hm with hm | hm
          · exact hcn w hm
          · simp at hm; subst hm; intro h0; simp [h0] at hw'

theorem kfinish_error {k : K} {e : NameErr} (h : kfinish k = .error e) :
    k.level > 0 ∨ (blankK k = true ∧ k.done.length ≥ 1) := by
  unfold kfinish at h
  simp only at h
  by_cases hl : k.level > 0
  · exact Or.inl hl
  · rw [if_neg hl] at h
    right
    by_cases he : k.esc = true
    · simp only [he, if_true, isEmpty_snoc, Bool.false_eq_true, if_false] at h
      cases h
    · have he' : k.esc = false := by simpa using he
      simp only [he', Bool.false_eq_true, if_false] at h
      by_cases hw : k.word.isEmpty = true
      · simp only [hw, if_true] at h
        by_cases hc : k.cur.isEmpty = true
        · simp only [hc, if_true] at h
          by_cases hdl : k.done.length + 1 > 1
          · exact ⟨by simp [blankK, hw, hc, he'], by omega⟩
          · rw [if_neg hdl] at h; cases h
        · have hc' : k.cur.isEmpty = false := by simpa using hc
          simp [hc'] at h
      · have hw' : k.word.isEmpty = false := by simpa using hw
        simp [hw', isEmpty_snoc] at h

theorem kinv_init : KInv {} := by simp [KInv]

/-- **the scanner against the reference functions, success** -/
theorem kscan_ok_spec {n : Str} {secs : List (List Str)} (h : kscan n = .ok secs) :
    ¬ Invalid n ∧ secs.flatten.flatten = dropTopSeps false 0 n ∧ secs.length ≤ 3 ∧
    (∀ sec ∈ secs, ∀ w ∈ sec, w ≠ []) ∧ (∀ l, secs.getLast? = some l → l ≠ []) := by
  unfold kscan at h
  cases hr : krun {} n with
  | error e => rw [hr] at h; cases h
  | ok k =>
    rw [hr] at h
    have hi := kinv_krun n kinv_init hr
    obtain ⟨f1, f2, f3, f4, f5, f6⟩ := kfinish_ok hi h
    obtain ⟨r1, r2, r3, r4, r5⟩ := krun_spec n (k := {}) (by simp) hr
    simp only [List.length_nil, Nat.zero_add] at r3
    have r4' : blankTail false 0 true n = blankK k := r4
    have r5' : dropTopSeps false 0 n = content k := by simpa [content] using r5
    refine ⟨?_, by rw [f2, r5'], f4, f5, f6⟩
    unfold Invalid
    have r1' : unmatchedClose false 0 n = false := r1
    have r2' : finalDepth false 0 n = k.level := r2
    have r3' : topCommas false 0 n = k.done.length := r3
    rw [r1', r2', r3', r4', f1]
    intro hinv
    rcases hinv with hx | hx | hx | hx
    · cases hx
    · omega
    · have := hi.1; omega
    · have := f3 hx.2; omega

/-- **the scanner against the reference functions, failure** -/
theorem kscan_error_spec {n : Str} {e : NameErr} (h : kscan n = .error e) : Invalid n := by
  unfold kscan at h
  unfold Invalid
  cases hr : krun {} n with
  | error e' =>
    rcases krun_error n (k := {}) (by simp) hr with hx | hx
    · exact Or.inl hx
    · right; right; left
      simpa using hx
  | ok k =>
    rw [hr] at h
    obtain ⟨r1, r2, r3, r4, r5⟩ := krun_spec n (k := {}) (by simp) hr
    simp only [List.length_nil, Nat.zero_add] at r3
    have r4' : blankTail false 0 true n = blankK k := r4
    have r2' : finalDepth false 0 n = k.level := r2
    have r3' : topCommas false 0 n = k.done.length := r3
    rcases kfinish_error h with hx | hx
    · right; left; rw [r2']; exact hx
    · right; right; right
      rw [r3', r4']; exact ⟨hx.2, hx.1⟩

/-- what the scanner returns: at most three sections, no empty word, the last section non-empty -/
theorem scan_shape' (P : PyChars) (n : Str) (secs : List (List Word)) (h : scan P n = .ok secs) :
    secs.length ≤ 3 ∧ (∀ sec ∈ secs, ∀ w ∈ sec, w.1 ≠ []) ∧ (∀ l, secs.getLast? = some l → l ≠ []) := by
  obtain ⟨_, _, h3, h4, h5⟩ := kscan_ok_spec (kscan_of_scan_ok P h)
  refine ⟨by simpa using h3, ?_, ?_⟩
  · intro sec hs w hw
    exact h4 (words sec) (List.mem_map.mpr ⟨sec, hs, rfl⟩) w.1 (List.mem_map.mpr ⟨w, hw, rfl⟩)
  · intro l hl h0
    have := h5 (words l) (by simp [List.getLast?_map, hl])
    apply this; simp [h0, words]

end Bib.NameP
