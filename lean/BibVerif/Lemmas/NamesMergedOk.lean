/-
  C14 helper lemmas: the text `merge_last_name_first` writes for parsed parts is non-empty,
  trimmed, brace-balanced and does not end in an unescaped backslash (`merged_ok`).
-/
import BibVerif.Lemmas.NamesMergeText
import BibVerif.Lemmas.NamesJoin
namespace Bib.NameP
open Bib.Names

variable (P : PyChars)

theorem run_esc (u : Str) : ∀ {s t : S}, run P s u = .ok t → t.esc = CoAuth.endsEscaped s.esc u := by
  induction u with
  | nil => intro s t h; simp only [run] at h; injection h with h; subst h; rfl
  | cons c r ih =>
    intro s t h
    simp only [run] at h
    cases hs : stepc P s c with
    | error e => rw [hs] at h; cases h
    | ok s1 =>
      rw [hs] at h
      rw [ih h, esc_step P hs]
      rfl

def pendLen (s : S) : Nat := if s.esc then 1 else 0

theorem word_len_step {s s' : S} {c : Char} (hwc : s.word = [] → s.case = none) (h : stepc P s c = .ok s') :
    s'.word.length + pendLen s' ≤ s.word.length + pendLen s + 1 ∧ (s'.word = [] → s'.case = none) := by
  by_cases hp : pushes s c = true
  · obtain ⟨hf, _, _⟩ := step_push P hp hwc h
    obtain ⟨f1, f2, _, f4, _⟩ := hf
    exact ⟨by simp [f1, pendLen, f4], fun _ => f2⟩
  · have hp' : pushes s c = false := by simpa using hp
    obtain ⟨_, _, _, _, _, _, _, sw, swc⟩ := step_live P (t := s) rfl hp' h
    have := congrArg List.length sw
    simp only [List.length_append, List.length_cons, List.length_nil] at this
    have e1 : (pend s').length = pendLen s' := by unfold pend pendLen; split <;> rfl
    have e2 : (pend s).length = pendLen s := by unfold pend pendLen; split <;> rfl
    exact ⟨by omega, swc hwc⟩

theorem word_len_run (u : Str) : ∀ {s t : S}, (s.word = [] → s.case = none) → run P s u = .ok t →
    t.word.length + pendLen t ≤ s.word.length + pendLen s + u.length := by
  induction u with
  | nil => intro s t _ h; simp only [run] at h; injection h with h; subst h; simp
  | cons c r ih =>
    intro s t hwc h
    simp only [run] at h
    cases hs : stepc P s c with
    | error e => rw [hs] at h; cases h
    | ok s1 =>
      rw [hs] at h
      obtain ⟨h1, h2⟩ := word_len_step P hwc hs
      have := ih h2 h
      simp only [List.length_cons]
      omega

/-- whitespace never changes the brace level -/
theorem level_ws {s s' : S} {c : Char} (h : stepc P s c = .ok s') (hw : isWs c = true) : s'.level = s.level := by
  have hp := proj_stepc P s c
  rw [h] at hp
  simp only [Except.map] at hp
  have he : (proj s').level = s'.level := rfl
  have he0 : (proj s).level = s.level := rfl
  rw [← he, ← he0]
  generalize proj s = k at hp
  generalize proj s' = k' at hp
  have hk := hp.symm
  obtain ⟨n1, n2, n3, n4⟩ := isWs_ne hw
  have hpl : ∀ (k0 : K), kplain k0 c = .ok k' → k'.level = k0.level := by
    intro k0 hk0
    unfold kplain at hk0
    rw [if_neg n1, if_neg n2] at hk0
    by_cases hl : k0.level > 0
    · rw [if_pos hl] at hk0
      injection hk0 with hk0; subst hk0; rfl
    · rw [if_neg hl] at hk0
      have hsep : (c = ',' || isWs c) = true := by simp [hw]
      rw [if_pos hsep] at hk0
      simp only at hk0
      rw [if_neg n3] at hk0
      injection hk0 with hk0; subst hk0
      unfold kpush; split <;> rfl
  unfold kstep at hk
  by_cases he1 : k.esc = true
  · rw [if_pos he1, if_pos hw] at hk
    exact hpl { k with esc := false, word := k.word ++ ['\\'] } hk
  · rw [if_neg he1, if_neg n4] at hk
    exact hpl _ hk

/-- a replayable word does not start with whitespace -/
theorem replay_head {a : Char} {r : Str} {c : Case} (h : Replay P (a :: r) c) : isWs a = false := by
  cases hw : isWs a with
  | false => rfl
  | true =>
    exfalso
    obtain ⟨t, ht, hword, _⟩ := h init fresh_init
    simp only [run] at ht
    cases hs : stepc P init a with
    | error e => rw [hs] at ht; cases ht
    | ok s1 =>
      rw [hs] at ht
      have hp : pushes init a = true := by simp [pushes, init, hw]
      obtain ⟨hf, _, _⟩ := step_push P hp (fun _ => rfl) hs
      have := word_len_run P r (fun _ => hf.2.1) ht
      rw [hword, hf.1] at this
      simp [pendLen, hf.2.2.2.1] at this
      omega

/-- a replayable word does not end with whitespace -/
theorem replay_last {a : Char} {r : Str} {c : Case} (h : Replay P (r ++ [a]) c) : isWs a = false := by
  cases hw : isWs a with
  | false => rfl
  | true =>
    exfalso
    obtain ⟨t, ht, hword, _, hlev, _⟩ := h init fresh_init
    rw [run_append'] at ht
    cases h1 : run P init r with
    | error e => rw [h1] at ht; cases ht
    | ok t1 =>
      rw [h1] at ht
      simp only [run] at ht
      cases hs : stepc P t1 a with
      | error e => rw [hs] at ht; cases ht
      | ok t2 =>
        rw [hs] at ht
        injection ht with ht; subst ht
        have hwg := wg_run P r (wg_init P) h1
        by_cases hp : pushes t1 a = true
        · obtain ⟨hf, _, _⟩ := step_push P hp hwg.2.2.2 hs
          rw [hf.1] at hword
          simp at hword
        · have hl1 : t1.level ≠ 0 := by
            intro h0
            apply hp
            by_cases he : t1.esc = true <;> simp [pushes, h0, he, hw]
          have := level_ws P hs hw
          omega

theorem coWs_imp {c : Char} (h : CoAuth.isWs c = true) : isWs c = true := by
  simp only [CoAuth.isWs, Bool.or_eq_true, decide_eq_true_eq] at h
  simp only [isWs, Bool.or_eq_true, decide_eq_true_eq]
  rcases h with ((h | h) | h) | h
  · exact Or.inl (Or.inl (Or.inl (Or.inl h)))
  · exact Or.inl (Or.inl (Or.inr h))
  · exact Or.inl (Or.inr h)
  · exact Or.inr h

theorem joinWith_snoc (sep : Str) (ini : List Str) (x : Str) :
    ∃ pre, joinWith sep (ini ++ [x]) = pre ++ x := by
  by_cases h : ini = []
  · subst h; exact ⟨[], by simp [joinWith]⟩
  · exact ⟨joinWith sep ini ++ sep, by rw [joinWith_append sep ini [x] h (by simp)]; simp [joinWith]⟩

theorem joinWith_head (sep : Str) (x : Str) (r : List Str) : ∃ rest, joinWith sep (x :: r) = x ++ rest := by
  cases r with
  | nil => exact ⟨[], by simp [joinWith]⟩
  | cons y r' => exact ⟨sep ++ joinWith sep (y :: r'), by simp [joinWith]⟩

/-- **the merged form of parsed parts** (non-empty last name, no word ending in an odd number of
backslashes) is non-empty, trimmed, brace-balanced and does not end in an unescaped backslash -/
theorem merged_ok_thm (n : Str) (p : NameParts) (h : parse P n = .ok p) (hl : p.last ≠ [])
    (hb : NoOddBS p) :
    mergeLastFirst p ≠ [] ∧ CoAuth.Trimmed (mergeLastFirst p) ∧ CoAuth.Balanced (mergeLastFirst p) ∧
      CoAuth.endsEscaped false (mergeLastFirst p) = false := by
  -- as in `merge_parse_thm`: the merged text is `secText` of replayable sections
  unfold parse at h
  cases hs : scan P n with
  | error e => rw [hs] at h; cases h
  | ok secs =>
    rw [hs] at h
    simp only at h
    injection h with h
    obtain ⟨hlen, hne, hlast⟩ := scan_shape' P n secs hs
    have hgood := scan_good P hs
    have hmem := assignW_mem secs hlen hne hlast
    have hp : p = (assignW secs).toNameParts := h.symm
    generalize hW : assignW secs = W at hmem hp
    subst hp
    have hWl : W.last ≠ [] := by
      intro h0; apply hl; simp [WParts.toNameParts, words, h0]
    have hwne : ∀ x ∈ W.first ++ W.von ++ W.last ++ W.jr, x.1 ≠ [] := by
      intro x hx
      obtain ⟨sec, hsec, hxs⟩ := hmem x hx
      exact hne sec hsec x hxs
    have hrep : ∀ x ∈ W.first ++ W.von ++ W.last ++ W.jr, Replay P x.1 x.2 := by
      intro x hx
      obtain ⟨sec, hsec, hxs⟩ := hmem x hx
      rcases hgood sec hsec x hxs with hr | ho
      · exact hr
      · exfalso
        apply hb x.1 _ ho
        simp only [WParts.toNameParts, words, List.mem_append, List.mem_map] at hx ⊢
        rcases hx with ((hx | hx) | hx) | hx
        · exact Or.inl (Or.inl (Or.inl ⟨x, hx, rfl⟩))
        · exact Or.inl (Or.inl (Or.inr ⟨x, hx, rfl⟩))
        · exact Or.inl (Or.inr ⟨x, hx, rfl⟩)
        · exact Or.inr ⟨x, hx, rfl⟩
    have htext := mergeLastFirst_eq W hWl hwne hb
    have hS : ∀ s ∈ mergeSecs W, s ≠ [] ∧ ∀ w ∈ s, Replay P w.1 w.2 ∧ w.1 ≠ [] := by
      intro s hs'
      have hsub : ∀ w ∈ s, w ∈ W.first ++ W.von ++ W.last ++ W.jr := by
        intro w hw
        unfold mergeSecs at hs'
        simp only [List.mem_append, List.mem_singleton] at hs'
        rcases hs' with (hs' | hs') | hs'
        · subst hs'; rcases List.mem_append.mp hw with hw | hw <;> simp [hw]
        · by_cases hj : W.jr = []
          · simp [hj] at hs'
          · simp only [hj, if_false, List.mem_singleton] at hs'; subst hs'; simp [hw]
        · by_cases hf : W.first = []
          · simp [hf] at hs'
          · simp only [hf, if_false, List.mem_singleton] at hs'; subst hs'; simp [hw]
      refine ⟨?_, fun w hw => ⟨hrep w (hsub w hw), hwne w (hsub w hw)⟩⟩
      unfold mergeSecs at hs'
      simp only [List.mem_append, List.mem_singleton] at hs'
      rcases hs' with (hs' | hs') | hs'
      · subst hs'; simp [hWl]
      · by_cases hj : W.jr = []
        · simp [hj] at hs'
        · simp only [hj, if_false, List.mem_singleton] at hs'; subst hs'; exact hj
      · by_cases hf : W.first = []
        · simp [hf] at hs'
        · simp only [hf, if_false, List.mem_singleton] at hs'; subst hs'; exact hf
    have hSlen : (mergeSecs W).length ≤ 3 := by
      unfold mergeSecs
      by_cases hj : W.jr = [] <;> by_cases hf : W.first = [] <;> simp [hj, hf]
    rw [htext]
    generalize hSdef : mergeSecs W = S' at hS hSlen
    have hSne : S' ≠ [] := by rw [← hSdef]; simp [mergeSecs]
    -- first section and first word
    obtain ⟨s0, R, hS0⟩ : ∃ s0 R, S' = s0 :: R := by
      cases S' with
      | nil => exact absurd rfl hSne
      | cons a r => exact ⟨a, r, rfl⟩
    subst hS0
    obtain ⟨x, sec, hx⟩ : ∃ x sec, s0 = x :: sec := by
      cases s0 with
      | nil => exact absurd rfl (hS [] (by simp)).1
      | cons a r => exact ⟨a, r, rfl⟩
    subst hx
    obtain ⟨t, r1, r2, r3, r4, r5⟩ := scan_secs P R init x sec fresh_init rfl
      (by simp [init] at hSlen ⊢; omega) hS
    have hscan := rescan P ((x :: sec) :: R) hSne hSlen hS
    obtain ⟨hinv, _⟩ := kscan_ok_spec (kscan_of_scan_ok P hscan)
    have hbal : CoAuth.Balanced (secText ((x :: sec) :: R)) := by
      unfold CoAuth.Balanced
      unfold Invalid at hinv
      constructor
      · cases hu : unmatchedClose false 0 (secText ((x :: sec) :: R)) with
        | false => rfl
        | true => exact absurd (Or.inl hu) hinv
      · cases hd : finalDepth false 0 (secText ((x :: sec) :: R)) with
        | zero => rfl
        | succ k => exact absurd (Or.inr (Or.inl (by rw [hd]; omega))) hinv
    have hesc : CoAuth.endsEscaped false (secText ((x :: sec) :: R)) = false := by
      have := run_esc P _ r1
      rw [r3] at this
      exact this.symm
    -- the first character
    obtain ⟨hxr, hxne⟩ := (hS (x :: sec) (by simp)).2 x (by simp)
    obtain ⟨a0, w0r, hxw⟩ : ∃ a0 w0r, x.1 = a0 :: w0r := by
      cases hx1 : x.1 with
      | nil => exact absurd hx1 hxne
      | cons a r => exact ⟨a, r, rfl⟩
    have ha0 : isWs a0 = false := by rw [hxw] at hxr; exact replay_head P hxr
    have hhead : ∃ rest, secText ((x :: sec) :: R) = a0 :: rest := by
      unfold secText
      simp only [List.map_cons, words]
      obtain ⟨rest1, h1⟩ := joinWith_head ", ".toList (joinSp (x.1 :: sec.map Prod.fst)) (R.map fun s => joinSp (s.map Prod.fst))
      obtain ⟨rest2, h2⟩ := joinWith_head [' '] x.1 (sec.map Prod.fst)
      refine ⟨w0r ++ rest2 ++ rest1, ?_⟩
      rw [h1]
      unfold joinSp
      rw [h2, hxw]; simp
    -- the last character
    have hlastc : ∀ c, (secText ((x :: sec) :: R)).getLast? = some c → CoAuth.isWs c = false := by
      intro c hc
      obtain ⟨Sini, slast, hSl, _⟩ := snoc_of_ne_nil ((x :: sec) :: R) hSne
      have hsl := hS slast (by rw [hSl]; simp)
      obtain ⟨wini, wlast, hwl, _⟩ := snoc_of_ne_nil slast hsl.1
      obtain ⟨hwr, hwne⟩ := hsl.2 wlast (by rw [hwl]; simp)
      obtain ⟨cini, clast, hcl, _⟩ := snoc_of_ne_nil wlast.1 hwne
      have : ∃ pre, secText ((x :: sec) :: R) = pre ++ wlast.1 := by
        unfold secText
        rw [hSl, List.map_append, List.map_cons, List.map_nil]
        obtain ⟨pre1, h1⟩ := joinWith_snoc ", ".toList (Sini.map fun s => joinSp (words s)) (joinSp (words slast))
        rw [h1, hwl]
        have : words (wini ++ [wlast]) = words wini ++ [wlast.1] := by simp [words]
        rw [this]
        obtain ⟨pre2, h2⟩ := joinWith_snoc [' '] (words wini) wlast.1
        unfold joinSp
        rw [h2]
        exact ⟨pre1 ++ pre2, by simp⟩
      obtain ⟨pre, hpre⟩ := this
      rw [hpre, hcl] at hc
      simp at hc
      subst hc
      rw [hcl] at hwr
      have := replay_last P hwr
      cases hco : CoAuth.isWs clast with
      | false => rfl
      | true => rw [coWs_imp hco] at this; cases this
    obtain ⟨rest, hrest⟩ := hhead
    have ha0' : CoAuth.isWs a0 = false := by
      cases hco : CoAuth.isWs a0 with
      | false => rfl
      | true => rw [coWs_imp hco] at ha0; cases ha0
    refine ⟨by rw [hrest]; simp, ?_, hbal, hesc⟩
    exact CoAuth.stripWs_id _ a0 rest hrest ha0' hlastc

end Bib.NameP
