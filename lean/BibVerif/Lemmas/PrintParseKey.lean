/-
  C05: keys.  `KeyText P k` is the weakest condition under which a key written verbatim is read back
  as one text token: every delimiter in it is escaped (preceded by a backslash) and is not a newline,
  no `@` in it starts a block, and it does not end in a backslash.  `SimpleText` is a special case.
-/
import BibVerif.Lemmas.LexPieces
namespace Bib.PrintParse
open Bib

variable {P : PyChars}

/-- a key the lexer keeps as one text token, whatever harmless text follows: `CleanText` on its own
and no trailing backslash (which would escape the `,` / `=` after it) -/
def KeyText (P : PyChars) (k : Str) : Prop := CleanText P false k [] ∧ lastIsBS false k = false

theorem keyText_of_simple (k : Str) (h : SimpleText k) : KeyText P k := by
  refine ⟨cleanText_simple P false k [] h, ?_⟩
  by_cases hne : k = []
  · subst hne; rfl
  · exact lastIsBS_simple false k h hne

theorem lastIsBS_append (b : Bool) (a c : Str) : lastIsBS b (a ++ c) = lastIsBS (lastIsBS b a) c := by
  induction a generalizing b with
  | nil => rfl
  | cons x a ih => rw [List.cons_append, lastIsBS_cons, ih, ← lastIsBS_cons]

theorem cleanText_append (b : Bool) (a c rest : Str) (ha : CleanText P b a (c ++ rest))
    (hc : CleanText P (lastIsBS b a) c rest) : CleanText P b (a ++ c) rest := by
  intro u x v huv
  rcases List.append_eq_append_iff.mp huv with ⟨a', hu, hcx⟩ | ⟨c', hau, hxv⟩
  · -- the position is inside `c`
    have := hc a' x v hcx
    subst hu
    refine ⟨fun hd => ⟨(this.1 hd).1, ?_⟩, this.2⟩
    rw [lastIsBS_append]; exact (this.1 hd).2
  · cases c' with
    | nil =>
      simp only [List.nil_append] at hxv
      simp only [List.append_nil] at hau
      have := hc [] x v hxv.symm
      subst hau
      refine ⟨fun hd => ⟨(this.1 hd).1, ?_⟩, this.2⟩
      have h2 := (this.1 hd).2
      simpa [lastIsBS_nil] using h2
    | cons y c'' =>
      simp only [List.cons_append, List.cons.injEq] at hxv
      obtain ⟨rfl, rfl⟩ := hxv
      have := ha u x c'' hau
      refine ⟨this.1, fun hx => ?_⟩
      have h2 := this.2 hx
      simpa [List.append_assoc] using h2

theorem dropWhile_append_all {α} (p : α → Bool) (w bl : List α) (hbl : ∀ x ∈ bl, p x = true) :
    (w ++ bl).dropWhile p = if w.dropWhile p = [] then [] else w.dropWhile p ++ bl := by
  induction w with
  | nil =>
    simp only [List.nil_append, List.dropWhile_nil, ↓reduceIte]
    induction bl with
    | nil => rfl
    | cons x r ih =>
      simp only [List.dropWhile_cons, hbl x List.mem_cons_self, ↓reduceIte]
      exact ih (fun y hy => hbl y (List.mem_cons_of_mem _ hy))
  | cons a w ih =>
    by_cases ha : p a = true
    · simp only [List.cons_append, List.dropWhile_cons, ha, ↓reduceIte]; exact ih
    · simp [ha]

/-- a failed `@type` look-ahead stays failed when blanks and then a character that is neither `\w`, a
blank nor `{` follow -/
theorem atMatch_none_extend (hP : WordOK2 P) (v bl : Str) (c : Char) (X : Str) (hv : atMatch P v = none)
    (hbl : ∀ x ∈ bl, isBlank x = true) (hw : P.isWord c = false) (hb : isBlank c = false) (hc : c ≠ '{') :
    atMatch P (v ++ (bl ++ c :: X)) = none := by
  rw [atMatch_eq] at hv ⊢
  -- the first appended character is not a word character
  have hfirst : ∃ x t, bl ++ c :: X = x :: t ∧ P.isWord x = false := by
    cases bl with
    | nil => exact ⟨c, X, rfl, hw⟩
    | cons x r => exact ⟨x, r ++ c :: X, rfl, hP.blank x (hbl x List.mem_cons_self)⟩
  obtain ⟨x, t, hxt, hx⟩ := hfirst
  have hd1 : (v ++ (bl ++ c :: X)).dropWhile P.isWord = v.dropWhile P.isWord ++ (bl ++ c :: X) := by
    rw [hxt]; exact dropWhile_append_stop P.isWord v x t hx
  have hd2 : ((v.dropWhile P.isWord ++ bl) ++ c :: X).dropWhile isBlank =
      (v.dropWhile P.isWord ++ bl).dropWhile isBlank ++ c :: X :=
    dropWhile_append_stop isBlank _ c X hb
  have hd3 := dropWhile_append_all isBlank (v.dropWhile P.isWord) bl hbl
  rw [hd1, show v.dropWhile P.isWord ++ (bl ++ c :: X) = (v.dropWhile P.isWord ++ bl) ++ c :: X by simp, hd2, hd3]
  by_cases hnil : (v.dropWhile P.isWord).dropWhile isBlank = []
  · simp [hnil, hc]
  · simp only [hnil, ↓reduceIte]
    cases hr : (v.dropWhile P.isWord).dropWhile isBlank with
    | nil => exact absurd hr hnil
    | cons y ys =>
      rw [hr] at hv
      by_cases hy : y = '{'
      · subst hy; simp at hv
      · simp [hy]

theorem cleanText_extend (b : Bool) (k rest : Str) (h : CleanText P b k [])
    (hext : ∀ v, atMatch P v = none → atMatch P (v ++ rest) = none) : CleanText P b k rest := by
  intro u x v huv
  have := h u x v huv
  refine ⟨this.1, fun hx => hext v ?_⟩
  simpa using this.2 hx

theorem lastIsBS_simple' (b : Bool) (t : Str) (ht : SimpleText t) (hb : b = false) : lastIsBS b t = false := by
  by_cases hne : t = []
  · subst hne; exact hb
  · exact lastIsBS_simple b t ht hne

/-- **a key in its context**: `pre ++ key ++ blanks` (indent, key, padding) followed by the delimiter
`c` (a `,` or `=`) lexes to one text token and the mark -/
theorem lex_keyctx (hP : WordOK2 P) (pre k bl : Str) (c : Char) (kd : Kind) (X : Str)
    (hpre : SimpleText pre) (hk : KeyText P k) (hbl : ∀ x ∈ bl, isBlank x = true)
    (hne : pre ++ k ++ bl ≠ []) (hkd : delimKind c = some kd) (hw : P.isWord c = false)
    (hb : isBlank c = false) (hc : c ≠ '{') :
    lexFrom P false (pre ++ k ++ bl ++ c :: X) = .text (pre ++ k ++ bl) :: .mark kd [c] :: lexFrom P false X := by
  have hbls : SimpleText bl := by
    intro x hx
    have := hbl x hx
    simp only [isBlank, Bool.or_eq_true, decide_eq_true_eq] at this
    rcases this with rfl | rfl <;> decide
  have h1 : CleanText P false pre (k ++ (bl ++ c :: X)) := cleanText_simple P false pre _ hpre
  have hpb : lastIsBS false pre = false := lastIsBS_simple' false pre hpre rfl
  have h2 : CleanText P (lastIsBS false pre) k (bl ++ c :: X) := by
    rw [hpb]
    exact cleanText_extend false k _ hk.1 (fun v hv => atMatch_none_extend hP v bl c X hv hbl hw hb hc)
  have h3 : CleanText P (lastIsBS false (pre ++ k)) bl (c :: X) := cleanText_simple P _ bl _ hbls
  have h12 : CleanText P false (pre ++ k) (bl ++ c :: X) := cleanText_append false pre k _ h1 h2
  have hclean : CleanText P false (pre ++ k ++ bl) (c :: X) := cleanText_append false (pre ++ k) bl _ h12 h3
  have hlast : lastIsBS false (pre ++ k ++ bl) = false := by
    rw [lastIsBS_append, lastIsBS_append, hpb, hk.2]
    exact lastIsBS_simple' false bl hbls rfl
  have hstep := lex_delim P c kd X hkd
  have := lex_text P false (pre ++ k ++ bl) (c :: X) hne hclean _ (by rw [hlast]) (by rw [hstep]; trivial)
  rw [this, hstep]

/-! ### a decision procedure -/

/-- scan a key with the look-behind flag `b`: every delimiter must be escaped and not a newline, no `@`
may start a block -/
def keyScan (P : PyChars) : Bool → Str → Bool
  | _, [] => true
  | b, c :: r =>
    (if (delimKind c).isSome then (c != '\n' && b) else true) && (c != '@' || (atMatch P r).isNone) &&
      keyScan P (decide (c = '\\')) r

def keyTextB (P : PyChars) (k : Str) : Bool := keyScan P false k && !(lastIsBS false k)

theorem cleanText_nil (b : Bool) (rest : Str) : CleanText P b [] rest := by
  intro u c v h; cases u <;> simp at h

theorem cleanText_of_keyScan (k : Str) : ∀ b, keyScan P b k = true → CleanText P b k [] := by
  induction k with
  | nil => intro b _; exact cleanText_nil b []
  | cons c r ih =>
    intro b h
    simp only [keyScan, Bool.and_eq_true] at h
    obtain ⟨⟨h1, h2⟩, h3⟩ := h
    refine cleanText_cons P b c r [] ?_ ?_ (ih _ h3)
    · cases hd : delimKind c with
      | none => simp
      | some kd =>
        simp only [hd, Option.isSome_some, ↓reduceIte, Bool.and_eq_true, bne_iff_ne, ne_eq] at h1
        simp [h1.1, h1.2]
    · intro hc
      subst hc
      simpa using h2

theorem keyText_of_keyTextB (k : Str) (h : keyTextB P k = true) : KeyText P k := by
  simp only [keyTextB, Bool.and_eq_true, Bool.not_eq_true'] at h
  exact ⟨cleanText_of_keyScan k false h.1, h.2⟩

end Bib.PrintParse
