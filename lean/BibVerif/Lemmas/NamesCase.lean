/-
  C13 helper lemmas, part 3: the case the one-pass scanner records for a word is the per-word
  function `wordCase` (Names/Case.lean) of that word.

  Invariant of the scanner loop (`CaseInv`): every finished word carries `wordCaseC` of its text, and
  the scanner's running variables `case, level, bracestart, controlseq, specialchar` are the state
  of `wordCase`'s fold over the characters of the current word so far (`Match`; `controlseq` and
  `specialchar` are only compared inside braces - outside they are never read before the next
  opening brace resets them).
-/
import BibVerif.Names.Case
import BibVerif.Lemmas.NamesAssign
import BibVerif.Lemmas.NamesMerge
namespace Bib.NameP

variable (P : PyChars)

/-- the scanner's running variables agree with the state of the per-word fold -/
structure Match (s : S) (t : W) : Prop where
  case : t.case = s.case
  level : t.level = (s.level : Int)
  bs : t.bracestart = s.bracestart
  esc : t.esc = false
  inner : s.level = 0 ∨ (t.controlseq = s.controlseq ∧ t.special = s.specialchar)

/-- every word of the list carries the per-word case of its text -/
def WordsOK (l : List Word) : Prop := ∀ w ∈ l, w.2 = wordCaseC P w.1

structure CaseInv (s : S) : Prop where
  done : ∀ sec ∈ s.done, WordsOK P sec
  cur : WordsOK P s.cur
  word : Match s (wrun P s.word)

theorem wrun_snoc (w : Str) (c : Char) : wrun P (w ++ [c]) = wstep P (wrun P w) c := by
  simp [wrun, List.foldl_append]

theorem wordsOK_snoc {l : List Word} {w : Word} (hl : WordsOK P l) (hw : w.2 = wordCaseC P w.1) :
    WordsOK P (l ++ [w]) := by
  intro x hx
  rcases List.mem_append.mp hx with h | h
  · exact hl x h
  · simp at h; subst h; exact hw

theorem caseInv_init : CaseInv P init := by
  refine ⟨?_, ?_, ?_⟩
  · intro sec h; cases h
  · intro w h; cases h
  · refine ⟨rfl, rfl, rfl, rfl, Or.inl rfl⟩

/-- `pushWord` at a separator: the finished word gets the case of the fold over its text -/
theorem pushWord_case {s : S} (hc : WordsOK P s.cur) (hcase : (wrun P s.word).case = s.case) :
    (pushWord s).done = s.done ∧ WordsOK P (pushWord s).cur ∧ (pushWord s).word = [] ∧
      (pushWord s).case = none ∧ (pushWord s).level = s.level ∧
      (pushWord s).bracestart = s.bracestart := by
  unfold pushWord
  split
  · next he =>
    have hw : s.word = [] := by simpa using he
    rw [hw] at hcase
    exact ⟨rfl, hc, hw, hcase.symm, rfl, rfl⟩
  · exact ⟨rfl, wordsOK_snoc P hc hcase.symm, rfl, rfl, rfl, rfl⟩

theorem plain_caseInv {s s' : S} {t : W} {c : Char}
    (hd : ∀ sec ∈ s.done, WordsOK P sec) (hc : WordsOK P s.cur) (hm : Match s t)
    (hstep : wstep P (wrun P s.word) c = wplain P t c)
    (hcase : (wrun P s.word).case = s.case)
    (h : plain P s c = .ok s') : CaseInv P s' := by
  obtain ⟨m1, m2, m3, m4, m5⟩ := hm
  unfold plain at h
  split at h
  · -- `{`
    next hc1 =>
    cases h
    refine ⟨hd, hc, ?_⟩
    simp only [wrun_snoc, hstep]
    subst hc1
    refine ⟨?_, ?_, ?_, ?_, ?_⟩ <;> simp [wplain, m1, m2, m4]
  · next hc1 =>
    simp only at h
    split at h
    · -- `}`
      next hc2 =>
      split at h
      · cases h
      · next hl =>
        cases h
        refine ⟨hd, hc, ?_⟩
        simp only [wrun_snoc, hstep]
        subst hc2
        refine ⟨?_, ?_, ?_, ?_, ?_⟩ <;> simp [wplain, m1, m2, m4]
        omega
    · next hc2 =>
      split at h
      · -- inside braces
        next hl =>
        have hl0 : s.level ≠ 0 := by omega
        have ht : t.level > 0 := by omega
        obtain ⟨m5a, m5b⟩ := m5.resolve_left hl0
        split at h
        · next hcs =>
          cases h
          refine ⟨hd, hc, ?_⟩
          simp only [wrun_snoc, hstep]
          refine ⟨?_, ?_, ?_, ?_, ?_⟩ <;> simp [wplain, hc1, hc2, hl, m1, m2, m4, m5a, m5b, hcs]
        · next hcs =>
          split at h
          · next hsp =>
            cases h
            refine ⟨hd, hc, ?_⟩
            simp only [wrun_snoc, hstep]
            refine ⟨?_, ?_, ?_, ?_, ?_⟩ <;> simp [wplain, hc1, hc2, hl, m1, m2, m4, m5a, m5b, hcs, hsp]
          · next hsp =>
            cases h
            refine ⟨hd, hc, ?_⟩
            simp only [wrun_snoc, hstep]
            refine ⟨?_, ?_, ?_, ?_, ?_⟩ <;> simp [wplain, hc1, hc2, hl, m1, m2, m4, m5a, m5b, hcs, hsp]
      · next hl =>
        have hl0 : s.level = 0 := by omega
        have ht : ¬ t.level > 0 := by omega
        split at h
        · -- separator
          obtain ⟨p1, p2, p3, p4, p5, p6⟩ :=
            pushWord_case P (s := { s with bracestart := false }) hc hcase
          generalize pushWord { s with bracestart := false } = q at h p1 p2 p3 p4 p5 p6
          have hq : Match q (wrun P q.word) := by
            rw [p3]
            exact ⟨p4.symm, by simp [wrun, p5, hl0], p6.symm, rfl, Or.inl (by rw [p5]; exact hl0)⟩
          split at h
          · split at h
            · cases h
              refine ⟨?_, ?_, ⟨hq.case, hq.level, hq.bs, hq.esc, hq.inner⟩⟩
              · intro sec hs
                rcases List.mem_append.mp hs with h1 | h1
                · exact hd sec (p1 ▸ h1)
                · simp at h1; subst h1; exact p2
              · intro w hw; cases hw
            · cases h
          · cases h
            exact ⟨fun sec hs => hd sec (p1 ▸ hs), p2, hq⟩
        · -- regular character
          cases h
          refine ⟨hd, hc, ?_⟩
          simp only [wrun_snoc, hstep]
          refine ⟨?_, ?_, ?_, ?_, ?_⟩ <;> simp [wplain, hc1, hc2, m1, m2, m4, hl0]

/-- the fold after a backslash that stands at the end of the text read so far -/
theorem wrun_bs {w : Str} (he : (wrun P w).esc = false) :
    wrun P (w ++ ['\\']) = { wrun P w with esc := true } := by
  rw [wrun_snoc]; simp [wstep, he]

theorem wstep_bs_ws {t : W} {c : Char} (he : t.esc = false) (hw : isWs c = true) :
    wstep P { t with esc := true } c = wplain P t c := by
  have : ({ t with esc := false } : W) = t := by cases t; simp_all
  simp [wstep, hw, this]

theorem stepc_caseInv {s s' : S} {c : Char} (hg : CaseInv P s) (h : stepc P s c = .ok s') : CaseInv P s' := by
  obtain ⟨hd, hc, hm⟩ := hg
  unfold stepc at h
  split at h
  · next hesc =>
    simp only at h
    split at h
    · next hw =>
      -- a backslash in front of whitespace is a word character
      refine plain_caseInv P (s := { s with esc := false, word := s.word ++ ['\\'] })
        (t := wrun P s.word) hd hc ⟨hm.case, hm.level, hm.bs, hm.esc, hm.inner⟩ ?_ ?_ h
      · simp only [wrun_bs P hm.esc]; exact wstep_bs_ws P hm.esc hw
      · simp only [wrun_bs P hm.esc]; exact hm.case
    · next hw =>
      have happ : s.word ++ ['\\', c] = (s.word ++ ['\\']) ++ [c] := by simp
      have hrun := wrun_bs P hm.esc
      obtain ⟨m1, m2, m3, m4, m5⟩ := hm
      by_cases hb : s.bracestart = true
      · rw [if_pos hb] at h
        cases h
        refine ⟨hd, hc, ?_⟩
        simp only [happ, wrun_snoc P (s.word ++ ['\\']), hrun]
        refine ⟨?_, ?_, ?_, ?_, ?_⟩ <;> simp [wstep, hw, hb, m1, m2, m3]
      · rw [if_neg hb] at h
        cases h
        refine ⟨hd, hc, ?_⟩
        simp only [happ, wrun_snoc P (s.word ++ ['\\']), hrun]
        refine ⟨?_, ?_, ?_, ?_, ?_⟩ <;> simp [wstep, hw, hb, m1, m2, m3]
        exact m5
  · next hesc =>
    split at h
    · cases h; exact ⟨hd, hc, ⟨hm.case, hm.level, hm.bs, hm.esc, hm.inner⟩⟩
    · next hc1 =>
      refine plain_caseInv P (t := wrun P s.word) hd hc hm ?_ hm.case h
      simp [wstep, hm.esc, hc1]

theorem run_caseInv (r : Str) : ∀ {s s' : S}, CaseInv P s → run P s r = .ok s' → CaseInv P s' := by
  induction r with
  | nil => intro s s' hg h; cases h; exact hg
  | cons c r ih =>
    intro s s' hg h
    unfold run at h
    cases hs : stepc P s c with
    | error e => rw [hs] at h; cases h
    | ok s1 => rw [hs] at h; exact ih (stepc_caseInv P hg hs) h

theorem finish_caseInv {s : S} {secs : List (List Word)} (hg : CaseInv P s) (h : finish s = .ok secs) :
    ∀ sec ∈ secs, WordsOK P sec := by
  obtain ⟨hd, hc, hm⟩ := hg
  have hwc : s.case = wordCaseC P (if s.esc then s.word ++ ['\\'] else s.word) := by
    unfold wordCaseC
    split
    · rw [wrun_bs P hm.esc]; exact hm.case.symm
    · exact hm.case.symm
  unfold finish at h
  simp only at h
  generalize (if s.esc = true then s.word ++ ['\\'] else s.word) = word at h hwc
  by_cases hl : s.level > 0
  · rw [if_pos hl] at h; cases h
  · rw [if_neg hl] at h
    have hcur : WordsOK P (if word.isEmpty = true then s.cur else s.cur ++ [(word, s.case)]) := by
      split
      · exact hc
      · exact wordsOK_snoc P hc hwc
    generalize (if word.isEmpty = true then s.cur else s.cur ++ [(word, s.case)]) = cur at h hcur
    by_cases he : cur.isEmpty = true
    · rw [if_pos he] at h
      by_cases h1 : s.done.length + 1 > 1
      · rw [if_pos h1] at h; cases h
      · rw [if_neg h1] at h; cases h; intro sec hs; cases hs
    · rw [if_neg he] at h
      cases h
      intro sec hs
      rcases List.mem_append.mp hs with h1 | h1
      · exact hd sec h1
      · simp at h1; subst h1; exact hcur

/-- **the scanner's cases are the per-word cases**: every word of every section returned by `scan`
carries `wordCaseC` of its own text -/
theorem scan_cases {n : Str} {secs : List (List Word)} (h : scan P n = .ok secs) :
    ∀ sec ∈ secs, ∀ w ∈ sec, w.2 = wordCaseC P w.1 := by
  unfold scan at h
  cases hr : run P init n with
  | error e => rw [hr] at h; cases h
  | ok s =>
    rw [hr] at h
    exact finish_caseInv P (run_caseInv P n (caseInv_init P) hr) h

/-! ### the partition rule read on the texts of the words alone -/

theorem caseInt_eq_zero (c : Case) : caseInt c = 0 ↔ c = some false := by
  cases c with
  | none => simp [caseInt]
  | some b => cases b <;> simp [caseInt]

/-- for a word that carries its per-word case, "lower-case" is `wordCase = 0` -/
theorem isLowerW_iff {w : Word} (h : w.2 = wordCaseC P w.1) : isLowerW w = true ↔ wordCase P w.1 = 0 := by
  unfold isLowerW wordCase
  rw [caseInt_eq_zero, ← h]
  simp

theorem isLowerW_false_iff {w : Word} (h : w.2 = wordCaseC P w.1) :
    isLowerW w = false ↔ wordCase P w.1 ≠ 0 := by
  have := isLowerW_iff P h
  cases hl : isLowerW w <;> simp_all

/-- `Rule1` with "lower-case word" spelled out as `wordCase P w = 0`, on plain strings: First are
leading words that are not lower-case; von (if any) begins and ends with a lower-case word; Last is
not empty, none of its words but possibly the final one is lower-case, and it is the final word
alone when there is no von. -/
structure Rule1T (p0 F V L : List Str) : Prop where
  split : p0 = F ++ V ++ L
  first_nonlower : ∀ w ∈ F, wordCase P w ≠ 0
  von_head : ∀ w, V.head? = some w → wordCase P w = 0
  von_last : ∀ w, V.getLast? = some w → wordCase P w = 0
  last_ne : L ≠ []
  last_init : ∀ w ∈ L.dropLast, wordCase P w ≠ 0
  no_von : V = [] → L.length = 1

/-- `Rule23` with "lower-case word" spelled out as `wordCase P w = 0`, on plain strings -/
structure Rule23T (p0 V L : List Str) : Prop where
  split : p0 = V ++ L
  von_last : ∀ w, V.getLast? = some w → wordCase P w = 0
  last_ne : p0 ≠ [] → L ≠ []
  last_init : ∀ w ∈ L.dropLast, wordCase P w ≠ 0

theorem wordsOK_of_append_left {a b : List Word} (h : WordsOK P (a ++ b)) : WordsOK P a :=
  fun w hw => h w (List.mem_append_left _ hw)

theorem wordsOK_of_append_right {a b : List Word} (h : WordsOK P (a ++ b)) : WordsOK P b :=
  fun w hw => h w (List.mem_append_right _ hw)

theorem words_head? (l : List Word) (x : Str) (h : (words l).head? = some x) :
    ∃ w, l.head? = some w ∧ w.1 = x := by
  cases l with
  | nil => simp [words] at h
  | cons w r => simp [words] at h; exact ⟨w, rfl, h⟩

theorem words_getLast? (l : List Word) (x : Str) (h : (words l).getLast? = some x) :
    ∃ w, l.getLast? = some w ∧ w.1 = x := by
  unfold words at h
  rw [List.getLast?_map] at h
  cases hl : l.getLast? with
  | none => rw [hl] at h; cases h
  | some w => rw [hl] at h; simp at h; exact ⟨w, rfl, h⟩

theorem words_dropLast (l : List Word) : (words l).dropLast = words l.dropLast := by
  unfold words; simp [List.map_dropLast]

theorem mem_words {l : List Word} {x : Str} (h : x ∈ words l) : ∃ w ∈ l, w.1 = x := by
  unfold words at h
  obtain ⟨w, hw, he⟩ := List.mem_map.mp h
  exact ⟨w, hw, he⟩

theorem rule1_text {p0 F V L : List Word} (h : Rule1 p0 F V L) (hok : WordsOK P p0) :
    Rule1T P (words p0) (words F) (words V) (words L) := by
  have hsplit := h.split
  rw [hsplit] at hok
  have hF : WordsOK P F := wordsOK_of_append_left P (wordsOK_of_append_left P hok)
  have hV : WordsOK P V := wordsOK_of_append_right P (wordsOK_of_append_left P hok)
  have hL : WordsOK P L := wordsOK_of_append_right P hok
  refine ⟨by rw [hsplit]; simp [words], ?_, ?_, ?_, ?_, ?_, ?_⟩
  · intro x hx
    obtain ⟨w, hw, rfl⟩ := mem_words hx
    exact (isLowerW_false_iff P (hF w hw)).mp (h.first_nonlower w hw)
  · intro x hx
    obtain ⟨w, hw, rfl⟩ := words_head? V x hx
    exact (isLowerW_iff P (hV w (List.mem_of_mem_head? hw))).mp (h.von_head w hw)
  · intro x hx
    obtain ⟨w, hw, rfl⟩ := words_getLast? V x hx
    exact (isLowerW_iff P (hV w (List.mem_of_getLast? hw))).mp (h.von_last w hw)
  · intro h0; apply h.last_ne; simpa [words] using h0
  · intro x hx
    rw [words_dropLast] at hx
    obtain ⟨w, hw, rfl⟩ := mem_words hx
    exact (isLowerW_false_iff P (hL w (List.dropLast_subset L hw))).mp (h.last_init w hw)
  · intro h0
    have : V = [] := by simpa [words] using h0
    simpa [words] using h.no_von this

theorem rule23_text {p0 V L : List Word} (h : Rule23 p0 V L) (hok : WordsOK P p0) :
    Rule23T P (words p0) (words V) (words L) := by
  have hsplit := h.split
  rw [hsplit] at hok
  have hV : WordsOK P V := wordsOK_of_append_left P hok
  have hL : WordsOK P L := wordsOK_of_append_right P hok
  refine ⟨by rw [hsplit]; simp [words], ?_, ?_, ?_⟩
  · intro x hx
    obtain ⟨w, hw, rfl⟩ := words_getLast? V x hx
    exact (isLowerW_iff P (hV w (List.mem_of_getLast? hw))).mp (h.von_last w hw)
  · intro h0 h1
    apply h.last_ne
    · intro h2; apply h0; simp [h2, words]
    · simpa [words] using h1
  · intro x hx
    rw [words_dropLast] at hx
    obtain ⟨w, hw, rfl⟩ := mem_words hx
    exact (isLowerW_false_iff P (hL w (List.dropLast_subset L hw))).mp (h.last_init w hw)

/-! ### the text-level rule determines the partition -/

/-- every string with its per-word case -/
def tagW (l : List Str) : List Word := l.map fun w => (w, wordCaseC P w)

theorem words_tagW (l : List Str) : words (tagW P l) = l := by
  unfold words tagW
  induction l with
  | nil => rfl
  | cons a r ih => simp only [List.map_cons, List.map_map] at ih ⊢; rw [ih]

theorem wordsOK_tagW (l : List Str) : WordsOK P (tagW P l) := by
  intro w hw
  unfold tagW at hw
  obtain ⟨x, _, rfl⟩ := List.mem_map.mp hw
  rfl

theorem tagW_append (a b : List Str) : tagW P (a ++ b) = tagW P a ++ tagW P b := by
  unfold tagW; simp

theorem isLowerW_tag (x : Str) : isLowerW (x, wordCaseC P x) = true ↔ wordCase P x = 0 :=
  isLowerW_iff P (w := (x, wordCaseC P x)) rfl

theorem isLowerW_tag_false (x : Str) : isLowerW (x, wordCaseC P x) = false ↔ wordCase P x ≠ 0 :=
  isLowerW_false_iff P (w := (x, wordCaseC P x)) rfl

theorem rule1_of_text {p0 F V L : List Str} (h : Rule1T P p0 F V L) :
    Rule1 (tagW P p0) (tagW P F) (tagW P V) (tagW P L) := by
  refine ⟨by rw [h.split, tagW_append, tagW_append], ?_, ?_, ?_, ?_, ?_, ?_⟩
  · intro w hw
    obtain ⟨x, hx, rfl⟩ := List.mem_map.mp hw
    exact (isLowerW_tag_false P x).mpr (h.first_nonlower x hx)
  · intro w hw
    unfold tagW at hw
    rw [List.head?_map] at hw
    cases hv : V.head? with
    | none => rw [hv] at hw; cases hw
    | some x => rw [hv] at hw; simp at hw; subst hw; exact (isLowerW_tag P x).mpr (h.von_head x hv)
  · intro w hw
    unfold tagW at hw
    rw [List.getLast?_map] at hw
    cases hv : V.getLast? with
    | none => rw [hv] at hw; cases hw
    | some x => rw [hv] at hw; simp at hw; subst hw; exact (isLowerW_tag P x).mpr (h.von_last x hv)
  · intro h0; apply h.last_ne; simpa [tagW] using h0
  · intro w hw
    unfold tagW at hw
    rw [← List.map_dropLast] at hw
    obtain ⟨x, hx, rfl⟩ := List.mem_map.mp hw
    exact (isLowerW_tag_false P x).mpr (h.last_init x hx)
  · intro h0
    have : V = [] := by simpa [tagW] using h0
    simpa [tagW] using h.no_von this

theorem rule23_of_text {p0 V L : List Str} (h : Rule23T P p0 V L) :
    Rule23 (tagW P p0) (tagW P V) (tagW P L) := by
  refine ⟨by rw [h.split, tagW_append], ?_, ?_, ?_⟩
  · intro w hw
    unfold tagW at hw
    rw [List.getLast?_map] at hw
    cases hv : V.getLast? with
    | none => rw [hv] at hw; cases hw
    | some x => rw [hv] at hw; simp at hw; subst hw; exact (isLowerW_tag P x).mpr (h.von_last x hv)
  · intro h0 h1
    apply h.last_ne
    · intro h2; apply h0; simp [h2, tagW]
    · simpa [tagW] using h1
  · intro w hw
    unfold tagW at hw
    rw [← List.map_dropLast] at hw
    obtain ⟨x, hx, rfl⟩ := List.mem_map.mp hw
    exact (isLowerW_tag_false P x).mpr (h.last_init x hx)

theorem rule1T_unique {p0 F V L F' V' L' : List Str} (h : Rule1T P p0 F V L) (h' : Rule1T P p0 F' V' L') :
    F = F' ∧ V = V' ∧ L = L' := by
  obtain ⟨a, b, c⟩ := rule1_unique (rule1_of_text P h) (rule1_of_text P h')
  have a' := congrArg words a
  have b' := congrArg words b
  have c' := congrArg words c
  simp only [words_tagW] at a' b' c'
  exact ⟨a', b', c'⟩

theorem rule23T_unique {p0 V L V' L' : List Str} (h : Rule23T P p0 V L) (h' : Rule23T P p0 V' L')
    (hne : p0 ≠ []) : V = V' ∧ L = L' := by
  obtain ⟨a, b⟩ := rule23_eq (rule23_of_text P h) (rule23_of_text P h') (by simpa [tagW] using hne)
  have a' := congrArg words a
  have b' := congrArg words b
  simp only [words_tagW] at a' b'
  exact ⟨a', b'⟩

end Bib.NameP
