/-
  Document-level lemmas for C02: junk between blocks, induction over the block list.
-/
import BibVerif.Lemmas.Blocks
namespace Bib

variable (P : PyChars)

theorem step_junk (s : St) (impl : List Tok) (il : Int) (t : Tok) (he : s.err = none)
    (hm : s.mode = .top impl il) (ht : isAtTok t = false) :
    step P s t = { s with line := s.line + nlCount [t], mode := .top (t :: impl) il } := by
  cases s with
  | mk out line bl raw mode err =>
    simp only at he hm; subst he; subst hm
    cases t with
    | text cs => simp [step, stepTop, nlCount, isNlTok]
    | mark k l => cases k <;> simp_all [step, stepTop, nlCount, isNlTok, isAtTok]

/-- tokens between blocks are collected for the implicit comment -/
theorem run_junk (j : List Tok) : ∀ (s : St) (impl : List Tok) (il : Int), s.err = none →
    s.mode = .top impl il → IsJunk j →
    run P s j = { s with line := s.line + nlCount j, mode := .top (j.reverse ++ impl) il } := by
  induction j with
  | nil => intro s impl il _ hm _; simp [run_nil, nlCount_nil, ← hm]
  | cons t j ih =>
    intro s impl il he hm hj
    simp only [IsJunk, List.all_cons, Bool.and_eq_true, Bool.not_eq_eq_eq_not, Bool.not_true] at hj
    rw [run_cons, step_junk P s impl il t he hm hj.1,
      ih { s with line := s.line + nlCount [t], mode := .top (t :: impl) il } (t :: impl) il he rfl hj.2]
    simp [nlCount_cons t j, nlCount_cons t [], nlCount_nil, Int.add_assoc]

/-- the blocks produced for `(Block Junk)*` when the pending implicit comment is `impl` (started on
line `il`) and the next block starts on line `line`; stated with the code's `endImplicit` -/
def itemsOut (line : Int) (impl : List Tok) (il : Int) : List (BlockSrc × List Tok) → List Block
  | [] => endImplicit P impl il
  | (b, j) :: rest =>
    endImplicit P impl il ++ b.expected P line ::
      itemsOut (line + nlCount b.toks + nlCount j) j.reverse (line + nlCount b.toks) rest

def itemsToks (items : List (BlockSrc × List Tok)) : List Tok :=
  items.flatMap fun (b, j) => b.toks ++ j

theorem finish_run_items (items : List (BlockSrc × List Tok)) :
    ∀ (s : St) (impl : List Tok) (il : Int), s.err = none → s.mode = .top impl il →
      (∀ bj ∈ items, bj.1.WF P ∧ IsJunk bj.2) →
      finish P (run P s (itemsToks items)) = .ok (s.out.reverse ++ itemsOut P s.line impl il items) := by
  induction items with
  | nil =>
    intro s impl il he hm _
    simp [itemsToks, run_nil, finish, he, hm, itemsOut]
  | cons bj rest ih =>
    intro s impl il he hm hw
    obtain ⟨b, j⟩ := bj
    obtain ⟨hb, hj⟩ := hw (b, j) (List.mem_cons_self)
    have htoks : itemsToks ((b, j) :: rest) = b.toks ++ j ++ itemsToks rest := by
      simp [itemsToks]
    rw [htoks, run_append, run_append, run_block P s impl il b he hm hb]
    rw [run_junk P j _ [] _ rfl rfl hj]
    rw [ih _ (j.reverse ++ []) (s.line + nlCount b.toks) rfl rfl
      (fun x hx => hw x (List.mem_cons_of_mem _ hx))]
    simp [afterBlock, itemsOut]

theorem endImplicit_eq_expJunk (j : List Tok) (il : Int) :
    endImplicit P j.reverse il = expJunk P il j := by
  simp only [endImplicit, expJunk, rflat_reverse, strip, lstrip, nlc_filter]
  rfl

theorem itemsOut_eq (items : List (BlockSrc × List Tok)) : ∀ (line : Int) (j : List Tok) (il : Int),
    itemsOut P line j.reverse il items = expJunk P il j ++ expItems P line items := by
  induction items with
  | nil => intro line j il; simp [itemsOut, expItems, endImplicit_eq_expJunk]
  | cons bj rest ih =>
    intro line j il
    obtain ⟨b, j'⟩ := bj
    simp [itemsOut, expItems, endImplicit_eq_expJunk, ih]

/-- the document theorem (stated as the property theorem `C02.split_correct`) -/
theorem splitToks_doc (d : Doc) (h : d.WF P) : splitToks P d.toks = .ok (d.expected P (-1)) := by
  obtain ⟨hhead, hitems⟩ := h
  unfold splitToks Doc.toks
  rw [show (d.head ++ d.items.flatMap fun x => x.1.toks ++ x.2) = d.head ++ itemsToks d.items from rfl,
    run_append, run_junk P d.head init [] (-1) rfl rfl hhead,
    finish_run_items P d.items _ (d.head.reverse ++ []) (-1) rfl rfl hitems]
  simp only [init, List.reverse_nil, List.nil_append, List.append_nil, Doc.expected]
  rw [itemsOut_eq]

end Bib
