import BibVerif.Heap
namespace Bib.Heap

/-- an immutable value, or an object allocated at or after address `n0` -/
def Fresh (n0 : Nat) : V → Prop
  | .imm _ => True
  | .ref a => n0 ≤ a

/-- objects allocated from `n0` on only point to immutables and to such objects -/
def WellSep (n0 : Nat) (σ : Heap) : Prop :=
  ∀ a o, n0 ≤ a → σ[a]? = some o → ∀ kv ∈ o.slots, Fresh n0 kv.2

def MemoFresh (n0 : Nat) (m : Memo) : Prop := ∀ p ∈ m, n0 ≤ p.2

/-- every object that existed in `σ` is unchanged in `σ'` (which may have more objects) -/
def Keeps (σ σ' : Heap) : Prop := σ.length ≤ σ'.length ∧ ∀ a, a < σ.length → σ'[a]? = σ[a]?

theorem Keeps.refl (σ : Heap) : Keeps σ σ := ⟨Nat.le_refl _, fun _ _ => rfl⟩

theorem Keeps.trans {a b c : Heap} (h1 : Keeps a b) (h2 : Keeps b c) : Keeps a c :=
  ⟨Nat.le_trans h1.1 h2.1, fun i hi => by rw [h2.2 i (Nat.lt_of_lt_of_le hi h1.1), h1.2 i hi]⟩

theorem keeps_append (σ : Heap) (o : Obj) : Keeps σ (σ ++ [o]) :=
  ⟨by simp, fun a ha => by rw [List.getElem?_append_left ha]⟩

theorem lookup_mem {m : Memo} {a a' : Nat} (h : m.lookup a = some a') : (a, a') ∈ m := by
  induction m with
  | nil => simp [List.lookup] at h
  | cons p m ih =>
    obtain ⟨k, v⟩ := p
    simp only [List.lookup] at h
    split at h
    · rename_i hk
      injection h with h; subst h
      have : a = k := by simpa using hk
      subst this; exact List.mem_cons_self
    · exact List.mem_cons_of_mem _ (ih h)

/-- what one `copyV`-like step guarantees -/
def CopySpec (n0 : Nat) (f : Heap → Memo → V → Option (Heap × Memo × V)) : Prop :=
  ∀ σ m v σ' m' v', f σ m v = some (σ', m', v') → n0 ≤ σ.length → WellSep n0 σ → MemoFresh n0 m →
    Keeps σ σ' ∧ WellSep n0 σ' ∧ MemoFresh n0 m' ∧ Fresh n0 v'

theorem copySlotsWith_spec (n0 : Nat) (f) (hf : CopySpec n0 f) (slots : List (Nat × V)) :
    ∀ σ m σ' m' out, copySlotsWith f σ m slots = some (σ', m', out) → n0 ≤ σ.length →
      WellSep n0 σ → MemoFresh n0 m →
      Keeps σ σ' ∧ WellSep n0 σ' ∧ MemoFresh n0 m' ∧ ∀ kv ∈ out, Fresh n0 kv.2 := by
  induction slots with
  | nil =>
    intro σ m σ' m' out h hn hs hm
    simp only [copySlotsWith] at h
    injection h with h; injection h with h1 h2; injection h2 with h2 h3
    subst h1; subst h2; subst h3
    exact ⟨Keeps.refl _, hs, hm, by simp⟩
  | cons kv rest ih =>
    intro σ m σ' m' out h hn hs hm
    obtain ⟨k, v⟩ := kv
    simp only [copySlotsWith] at h
    cases h1 : f σ m v with
    | none => rw [h1] at h; cases h
    | some r1 =>
      obtain ⟨σ2, m2, v'⟩ := r1
      rw [h1] at h
      simp only at h
      cases h2 : copySlotsWith f σ2 m2 rest with
      | none => rw [h2] at h; cases h
      | some r2 =>
        obtain ⟨σ3, m3, rest'⟩ := r2
        rw [h2] at h
        simp only at h
        injection h with h; injection h with e1 e2; injection e2 with e2 e3
        subst e1; subst e2; subst e3
        obtain ⟨k1, s1, mm1, fr1⟩ := hf σ m v σ2 m2 v' h1 hn hs hm
        obtain ⟨k2, s2, mm2, fr2⟩ := ih σ2 m2 _ _ _ h2 (Nat.le_trans hn k1.1) s1 mm1
        refine ⟨k1.trans k2, s2, mm2, ?_⟩
        intro kv hkv
        rcases List.mem_cons.mp hkv with rfl | hkv
        · exact fr1
        · exact fr2 kv hkv

theorem wellSep_append_empty (n0 : Nat) (σ : Heap) (c : Nat) (hs : WellSep n0 σ) :
    WellSep n0 (σ ++ [{ cls := c, slots := [] }]) := by
  intro a o ha hget kv hkv
  by_cases hlt : a < σ.length
  · rw [List.getElem?_append_left hlt] at hget; exact hs a o ha hget kv hkv
  · have : a = σ.length ∨ σ.length < a := by omega
    rcases this with rfl | hgt
    · simp at hget; subst hget; simp at hkv
    · rw [List.getElem?_append_right (by omega)] at hget
      have : a - σ.length ≠ 0 := by omega
      cases hd : a - σ.length with
      | zero => exact absurd hd this
      | succ n => rw [hd] at hget; simp at hget

theorem wellSep_set (n0 : Nat) (σ : Heap) (i : Nat) (o : Obj) (hs : WellSep n0 σ)
    (ho : ∀ kv ∈ o.slots, Fresh n0 kv.2) : WellSep n0 (σ.set i o) := by
  intro a o' ha hget kv hkv
  rw [List.getElem?_set] at hget
  split at hget
  · split at hget
    · injection hget with hget; subst hget; exact ho kv hkv
    · cases hget
  · exact hs a o' ha hget kv hkv

theorem keeps_set_ge (σ σ2 : Heap) (i : Nat) (o : Obj) (h : Keeps σ σ2) (hi : σ.length ≤ i) :
    Keeps σ (σ2.set i o) :=
  ⟨by simpa using h.1, fun a ha => by
    rw [List.getElem?_set]
    have : i ≠ a := by omega
    simp [this, h.2 a ha]⟩

/-- **`copy.deepcopy` allocates, never writes to existing objects, and returns a fresh closed
copy** (for every recursion budget). -/
theorem copyV_spec (n0 : Nat) : ∀ fuel, CopySpec n0 (copyV fuel) := by
  intro fuel
  induction fuel with
  | zero =>
    intro σ m v σ' m' v' h hn hs hm
    cases v with
    | imm t =>
      simp only [copyV] at h
      injection h with h; injection h with e1 e2; injection e2 with e2 e3
      subst e1; subst e2; subst e3
      exact ⟨Keeps.refl _, hs, hm, trivial⟩
    | ref a => simp [copyV] at h
  | succ fuel ih =>
    intro σ m v σ' m' v' h hn hs hm
    cases v with
    | imm t =>
      simp only [copyV] at h
      injection h with h; injection h with e1 e2; injection e2 with e2 e3
      subst e1; subst e2; subst e3
      exact ⟨Keeps.refl _, hs, hm, trivial⟩
    | ref a =>
      simp only [copyV] at h
      cases hl : m.lookup a with
      | some a' =>
        rw [hl] at h
        simp only at h
        injection h with h; injection h with e1 e2; injection e2 with e2 e3
        subst e1; subst e2; subst e3
        exact ⟨Keeps.refl _, hs, hm, hm (a, a') (lookup_mem hl)⟩
      | none =>
        rw [hl] at h
        simp only at h
        cases ho : σ[a]? with
        | none => rw [ho] at h; cases h
        | some o =>
          rw [ho] at h
          simp only at h
          cases hc : copySlotsWith (copyV fuel) (σ ++ [{ cls := o.cls, slots := [] }]) ((a, σ.length) :: m) o.slots with
          | none => rw [hc] at h; cases h
          | some r =>
            obtain ⟨σ2, m2, slots'⟩ := r
            rw [hc] at h
            simp only at h
            injection h with h; injection h with e1 e2; injection e2 with e2 e3
            subst e1; subst e2; subst e3
            have hm1 : MemoFresh n0 ((a, σ.length) :: m) := by
              intro p hp
              rcases List.mem_cons.mp hp with rfl | hp
              · exact hn
              · exact hm p hp
            obtain ⟨k2, s2, mm2, fr2⟩ := copySlotsWith_spec n0 (copyV fuel) ih o.slots _ _ _ _ _ hc
              (by simp; omega) (wellSep_append_empty n0 σ o.cls hs) hm1
            refine ⟨keeps_set_ge σ σ2 σ.length _ ((keeps_append σ _).trans k2) (Nat.le_refl _),
              wellSep_set n0 σ2 σ.length _ s2 fr2, mm2, hn⟩

/-- anything reachable from a fresh value stays outside the caller's objects -/
inductive Reach (σ : Heap) : V → V → Prop
  | refl (v) : Reach σ v v
  | step (a o k w v) : σ[a]? = some o → (k, w) ∈ o.slots → Reach σ w v → Reach σ (.ref a) v

theorem reach_fresh (n0 : Nat) (σ : Heap) (hs : WellSep n0 σ) {u v : V} (h : Reach σ u v)
    (hu : Fresh n0 u) : Fresh n0 v := by
  induction h with
  | refl _ => exact hu
  | step a o k w v hget hmem _ ih => exact ih (hs a o hu hget (k, w) hmem)

end Bib.Heap

namespace Bib.Heap

/-- the invariant of a disciplined run started on a heap with `n0` objects -/
structure RunInv (n0 : Nat) (σ0 σ : Heap) (env : Env) (tys : List Ty) : Prop where
  len : n0 ≤ σ.length
  old : ∀ a, a < n0 → σ[a]? = σ0[a]?
  sep : WellSep n0 σ
  tylen : tys.length = env.length
  fresh : ∀ (r : Nat) (v : V), tys[r]? = some Ty.fresh → env[r]? = some v → Fresh n0 v

theorem regs_fresh (n0 : Nat) (env : Env) (tys : List Ty)
    (hf : ∀ (r : Nat) (v : V), tys[r]? = some Ty.fresh → env[r]? = some v → Fresh n0 v) :
    ∀ (slots : List (Nat × Nat)) (sl : List (Nat × V)), regs env slots = some sl →
      tyRegs tys slots = true → ∀ kv ∈ sl, Fresh n0 kv.2 := by
  intro slots
  induction slots with
  | nil => intro sl h _; simp [regs] at h; subst h; simp
  | cons p rest ih =>
    intro sl h ht
    obtain ⟨k, r⟩ := p
    simp only [regs] at h
    cases hv : env[r]? with
    | none => rw [hv] at h; simp at h
    | some v =>
      cases hr : regs env rest with
      | none => rw [hv, hr] at h; simp at h
      | some l =>
        rw [hv, hr] at h
        simp only at h
        injection h with h; subst h
        simp only [tyRegs, List.all_cons, Bool.and_eq_true, decide_eq_true_eq] at ht
        intro kv hkv
        rcases List.mem_cons.mp hkv with rfl | hkv
        · exact hf r v ht.1 hv
        · exact ih l hr (by simpa [tyRegs] using ht.2) kv hkv

theorem getElem?_append_single {α} (l : List α) (x : α) (r : Nat) :
    (l ++ [x])[r]? = if r < l.length then l[r]? else if r = l.length then some x else none := by
  by_cases h : r < l.length
  · simp [h, List.getElem?_append_left h]
  · by_cases h2 : r = l.length
    · subst h2; simp
    · have : l.length < r := by omega
      simp [h, h2, List.getElem?_append_right (Nat.le_of_lt this)]
      omega

theorem inv_push (n0 : Nat) (σ0 σ : Heap) (env : Env) (tys : List Ty) (v : V) (t : Ty)
    (h : RunInv n0 σ0 σ env tys) (hv : t = Ty.fresh → Fresh n0 v) :
    RunInv n0 σ0 σ (env ++ [v]) (tys ++ [t]) := by
  refine ⟨h.len, h.old, h.sep, by simp [h.tylen], ?_⟩
  intro r w ht hw
  rw [getElem?_append_single] at ht hw
  rw [h.tylen] at ht
  by_cases hr : r < env.length
  · simp only [hr, ↓reduceIte] at ht hw; exact h.fresh r w ht hw
  · by_cases hr2 : r = env.length
    · simp only [hr, hr2, ↓reduceIte, Nat.lt_irrefl] at ht hw
      injection ht with ht; injection hw with hw; subst hw
      exact hv ht
    · simp [hr, hr2] at ht

theorem setSlot_fresh (n0 : Nat) (o : Obj) (k : Nat) (v : V) (ho : ∀ kv ∈ o.slots, Fresh n0 kv.2)
    (hv : Fresh n0 v) : ∀ kv ∈ (setSlot o k v).slots, Fresh n0 kv.2 := by
  intro kv hkv
  unfold setSlot at hkv
  split at hkv
  · simp only [List.mem_map] at hkv
    obtain ⟨p, hp, hpe⟩ := hkv
    obtain ⟨k', v'⟩ := p
    split at hpe
    · subst hpe; exact hv
    · subst hpe; exact ho _ hp
  · simp only [List.mem_append, List.mem_singleton] at hkv
    rcases hkv with hkv | rfl
    · exact ho kv hkv
    · exact hv

/-- one disciplined instruction preserves the invariant -/
theorem execI_inv (n0 fuel : Nat) (σ0 σ σ' : Heap) (env env' : Env) (tys tys' : List Ty) (i : Instr)
    (hc : checkI tys i = some tys') (he : execI fuel σ env i = some (σ', env'))
    (h : RunInv n0 σ0 σ env tys) : RunInv n0 σ0 σ' env' tys' := by
  cases i with
  | const t =>
    simp only [checkI] at hc; simp only [execI] at he
    injection hc with hc; injection he with he; injection he with e1 e2
    subst hc; subst e1; subst e2
    exact inv_push n0 σ0 σ env tys _ _ h (fun _ => trivial)
  | load r k =>
    simp only [checkI] at hc; simp only [execI] at he
    cases ht : tys[r]? with
    | none => rw [ht] at hc; simp at hc
    | some t =>
      rw [ht] at hc; simp only [Option.map_some] at hc; injection hc with hc; subst hc
      cases hv : env[r]? with
      | none => rw [hv] at he; simp at he
      | some v =>
        rw [hv] at he
        cases v with
        | imm _ => simp at he
        | ref a =>
          simp only at he
          cases ho : σ[a]? with
          | none => rw [ho] at he; simp at he
          | some o =>
            rw [ho] at he
            simp only [Option.bind_some] at he
            cases hs : slotOf o k with
            | none => rw [hs] at he; simp at he
            | some w =>
              rw [hs] at he; simp only [Option.map_some] at he
              injection he with he; injection he with e1 e2; subst e1; subst e2
              refine inv_push n0 σ0 σ env tys w t h ?_
              intro htf; subst htf
              have ha : n0 ≤ a := h.fresh r (.ref a) ht hv
              have hmem : (k, w) ∈ o.slots := by
                unfold slotOf at hs
                have : ∀ (l : List (Nat × V)), l.lookup k = some w → (k, w) ∈ l := by
                  intro l
                  induction l with
                  | nil => simp [List.lookup]
                  | cons p l ih =>
                    obtain ⟨k', v'⟩ := p
                    simp only [List.lookup]
                    split
                    · rename_i hk; intro hh; injection hh with hh; subst hh
                      have : k = k' := by simpa using hk
                      subst this; exact List.mem_cons_self
                    · intro hh; exact List.mem_cons_of_mem _ (ih hh)
                exact this _ hs
              exact h.sep a o ha ho (k, w) hmem
  | deepcopy r =>
    simp only [checkI] at hc; simp only [execI] at he
    split at hc
    · injection hc with hc; subst hc
      cases hv : env[r]? with
      | none => rw [hv] at he; simp at he
      | some v =>
        rw [hv] at he
        simp only [deepcopy] at he
        cases hcp : copyV fuel σ [] v with
        | none => rw [hcp] at he; simp at he
        | some res =>
          obtain ⟨σ2, m2, v'⟩ := res
          rw [hcp] at he; simp only [Option.map_some] at he
          injection he with he; injection he with e1 e2; subst e1; subst e2
          obtain ⟨k1, s1, _, f1⟩ := copyV_spec n0 fuel σ [] v σ2 m2 v' hcp h.len h.sep (by intro p hp; cases hp)
          have base : RunInv n0 σ0 σ2 env tys :=
            ⟨Nat.le_trans h.len k1.1, fun a ha => by rw [k1.2 a (Nat.lt_of_lt_of_le ha h.len), h.old a ha],
              s1, h.tylen, h.fresh⟩
          exact inv_push n0 σ0 σ2 env tys v' Ty.fresh base (fun _ => f1)
    · cases hc
  | alloc cls slots =>
    simp only [checkI] at hc; simp only [execI] at he
    split at hc
    · rename_i hty
      injection hc with hc; subst hc
      cases hr : regs env slots with
      | none => rw [hr] at he; simp at he
      | some sl =>
        rw [hr] at he; simp only [Option.map_some] at he
        injection he with he; injection he with e1 e2; subst e1; subst e2
        have hfr := regs_fresh n0 env tys h.fresh slots sl hr hty
        have base : RunInv n0 σ0 (σ ++ [{ cls := cls, slots := sl }]) env tys := by
          refine ⟨by simp; exact Nat.le_trans h.len (Nat.le_add_right _ _), ?_, ?_, h.tylen, h.fresh⟩
          · intro a ha
            rw [List.getElem?_append_left (Nat.lt_of_lt_of_le ha h.len)]; exact h.old a ha
          · intro a o ha hget kv hkv
            rw [getElem?_append_single] at hget
            by_cases hlt : a < σ.length
            · simp only [hlt, ↓reduceIte] at hget; exact h.sep a o ha hget kv hkv
            · by_cases heq : a = σ.length
              · simp only [hlt, heq, ↓reduceIte, Nat.lt_irrefl] at hget
                injection hget with hget; subst hget; exact hfr kv hkv
              · simp [hlt, heq] at hget
        exact inv_push n0 σ0 _ env tys _ Ty.fresh base (fun _ => h.len)
    · cases hc
  | store r k rv =>
    simp only [checkI] at hc; simp only [execI] at he
    split at hc
    · rename_i hty
      injection hc with hc; subst hc
      cases hv : env[r]? with
      | none => rw [hv] at he; simp at he
      | some v =>
        cases hw : env[rv]? with
        | none => rw [hv, hw] at he; cases v <;> simp at he
        | some w =>
          rw [hv, hw] at he
          cases v with
          | imm _ => simp at he
          | ref a =>
            simp only at he
            cases ho : σ[a]? with
            | none => rw [ho] at he; simp at he
            | some o =>
              rw [ho] at he; simp only [Option.map_some] at he
              injection he with he; injection he with e1 e2; subst e1; subst e2
              have ha : n0 ≤ a := h.fresh r (.ref a) hty.1 hv
              have hwf : Fresh n0 w := h.fresh rv w hty.2 hw
              refine ⟨by simpa using h.len, ?_, ?_, h.tylen, h.fresh⟩
              · intro a' ha'
                rw [List.getElem?_set]
                have : a ≠ a' := by omega
                simp [this, h.old a' ha']
              · exact wellSep_set n0 σ a _ h.sep
                  (setSlot_fresh n0 o k w (fun kv hkv => h.sep a o ha ho kv hkv) hwf)
    · cases hc
  | setSlots r slots =>
    simp only [checkI] at hc; simp only [execI] at he
    split at hc
    · rename_i hty
      injection hc with hc; subst hc
      cases hv : env[r]? with
      | none => rw [hv] at he; simp at he
      | some v =>
        rw [hv] at he
        cases v with
        | imm _ => simp at he
        | ref a =>
          simp only at he
          cases ho : σ[a]? with
          | none => rw [ho] at he; simp at he
          | some o =>
            rw [ho] at he; simp only [Option.bind_some] at he
            cases hr : regs env slots with
            | none => rw [hr] at he; simp at he
            | some sl =>
              rw [hr] at he; simp only [Option.map_some] at he
              injection he with he; injection he with e1 e2; subst e1; subst e2
              have ha : n0 ≤ a := h.fresh r (.ref a) hty.1 hv
              refine ⟨by simpa using h.len, ?_, ?_, h.tylen, h.fresh⟩
              · intro a' ha'
                rw [List.getElem?_set]
                have : a ≠ a' := by omega
                simp [this, h.old a' ha']
              · exact wellSep_set n0 σ a _ h.sep (regs_fresh n0 env tys h.fresh slots sl hr hty.2)
    · cases hc

theorem exec_inv (n0 fuel : Nat) (σ0 : Heap) (p : List Instr) :
    ∀ (σ σ' : Heap) (env env' : Env) (tys tys' : List Ty),
      check tys p = some tys' → exec fuel σ env p = some (σ', env') →
      RunInv n0 σ0 σ env tys → RunInv n0 σ0 σ' env' tys' := by
  induction p with
  | nil =>
    intro σ σ' env env' tys tys' hc he h
    simp only [check] at hc; simp only [exec] at he
    injection hc with hc; injection he with he; injection he with e1 e2
    subst hc; subst e1; subst e2; exact h
  | cons i is ih =>
    intro σ σ' env env' tys tys' hc he h
    simp only [check] at hc; simp only [exec] at he
    cases hci : checkI tys i with
    | none => rw [hci] at hc; simp at hc
    | some tys1 =>
      rw [hci] at hc; simp only [Option.bind_some] at hc
      cases hei : execI fuel σ env i with
      | none => rw [hei] at he; simp at he
      | some r =>
        obtain ⟨σ1, env1⟩ := r
        rw [hei] at he; simp only [Option.bind_some] at he
        exact ih σ1 σ' env1 env' tys1 tys' hc he (execI_inv n0 fuel σ0 σ σ1 env env1 tys tys1 i hci hei h)

end Bib.Heap
