/-
  Helper lemmas for C17, sorting part (sorting_entry_fields.py).
-/
import BibVerif.SortFields
import BibVerif.Lemmas.Sort
namespace Bib.SortFields
open Bib

/-- the comparison of `sortAlpha` -/
def leKey (a b : Field) : Bool := keyLe a.key b.key

theorem sortAlpha_eq (fs : List Field) : sortAlpha fs = fs.mergeSort leKey := rfl

theorem leKey_trans : ∀ a b c : Field, leKey a b = true → leKey b c = true → leKey a c = true := by
  intro a b c h1 h2
  simp only [leKey, keyLe, decide_eq_true_eq] at *
  exact List.le_trans h1 h2

theorem leKey_total : ∀ a b : Field, (leKey a b || leKey b a) = true := by
  intro a b
  simp only [leKey, keyLe, Bool.or_eq_true, decide_eq_true_eq]
  exact List.le_total a.key b.key

/-- the key under which the custom sort looks a field up -/
def normKey (P : PyChars) (cs : Bool) (f : Field) : Str := if !cs then lower P f.key else f.key

/-- the order list as stored by the constructor -/
def folded (P : PyChars) (order : List Str) (cs : Bool) : List Str := if !cs then order.map (lower P) else order

theorem sortCustom_eq (P : PyChars) (o : List Str) (cs : Bool) (fs : List Field) :
    sortCustom P o cs fs = fs.mergeSort (Sort.leRank (rank P o cs)) := rfl

theorem distinct_length_le : ∀ l : List Str, (distinct l).length ≤ l.length
  | [] => Nat.le_refl _
  | a :: r => by
    have := distinct_length_le r
    unfold distinct
    split <;> simp <;> omega

theorem distinct_length_eq_iff : ∀ l : List Str, (distinct l).length = l.length ↔ l.Nodup
  | [] => by simp [distinct]
  | a :: r => by
    have ih := distinct_length_eq_iff r
    have hle := distinct_length_le r
    unfold distinct
    by_cases ha : a ∈ r
    · simp only [ha, if_true, List.nodup_cons, not_true_eq_false, false_and, iff_false, List.length_cons]
      omega
    · simp only [ha, if_false, List.nodup_cons, not_false_eq_true, true_and, List.length_cons]
      rw [← ih]; omega

theorem rank_of_mem (P : PyChars) (o : List Str) (cs : Bool) (f : Field) (h : normKey P cs f ∈ o) :
    rank P o cs f < o.length ∧ o[rank P o cs f]? = some (normKey P cs f) ∧
      ∀ j, j < rank P o cs f → o[j]? ≠ some (normKey P cs f) := by
  unfold rank
  have hk : (if !cs then lower P f.key else f.key) = normKey P cs f := rfl
  simp only [hk]
  cases hi : o.idxOf? (normKey P cs f) with
  | none => exact absurd h (List.idxOf?_eq_none_iff.mp hi)
  | some i =>
    obtain ⟨hlt, hget, hmin⟩ := List.idxOf?_eq_some_iff.mp hi
    refine ⟨hlt, ?_, ?_⟩
    · rw [List.getElem?_eq_getElem hlt, hget]
    · intro j hj hcontra
      have hjl : j < o.length := Nat.lt_trans hj hlt
      have := hmin j hj
      rw [List.getElem?_eq_getElem hjl] at hcontra
      exact this (by simpa using hcontra)

theorem rank_of_not_mem (P : PyChars) (o : List Str) (cs : Bool) (f : Field) (h : normKey P cs f ∉ o) :
    rank P o cs f = o.length := by
  unfold rank
  have hk : (if !cs then lower P f.key else f.key) = normKey P cs f := rfl
  simp only [hk]
  rw [List.idxOf?_eq_none_iff.mpr h]

theorem rank_le (P : PyChars) (o : List Str) (cs : Bool) (f : Field) : rank P o cs f ≤ o.length := by
  by_cases h : normKey P cs f ∈ o
  · exact Nat.le_of_lt (rank_of_mem P o cs f h).1
  · exact Nat.le_of_eq (rank_of_not_mem P o cs f h)

theorem rank_lt_iff (P : PyChars) (o : List Str) (cs : Bool) (f : Field) :
    rank P o cs f < o.length ↔ normKey P cs f ∈ o := by
  constructor
  · intro h
    by_cases hm : normKey P cs f ∈ o
    · exact hm
    · rw [rank_of_not_mem P o cs f hm] at h; omega
  · intro h; exact (rank_of_mem P o cs f h).1

end Bib.SortFields
