/-
  C12/C13/C14: the independent reference notions that the property statements use.
  Each is a plain structural recursion over the characters with the brace depth and a
  "previous character was an unescaped backslash" flag as parameters; none of them builds words,
  sections or cases, and none refers to the scanner models.
-/
import BibVerif.Names.Parse
import BibVerif.Names.CoAuthors
namespace Bib.NameP

/-- the name with its top-level separators (unescaped whitespace `" ~\r\n\t"` and commas at brace
depth 0) removed.  An escaped whitespace character is not escaped for BibTeX: its backslash stays
(as a word character) and the whitespace separates. -/
def dropTopSeps (esc : Bool) (d : Nat) : Str → Str
  | [] => []
  | c :: r =>
    if esc then
      if isWs c then (if d = 0 then dropTopSeps false d r else c :: dropTopSeps false d r)
      else c :: dropTopSeps false d r
    else if c = '\\' then c :: dropTopSeps true d r
    else if c = '{' then c :: dropTopSeps false (d + 1) r
    else if c = '}' then c :: dropTopSeps false (d - 1) r
    else if d = 0 && (c = ',' || isWs c) then dropTopSeps false d r
    else c :: dropTopSeps false d r

/-- some unescaped `}` stands at brace depth 0 -/
def unmatchedClose (esc : Bool) (d : Nat) : Str → Bool
  | [] => false
  | c :: r =>
    if esc then unmatchedClose false d r
    else if c = '\\' then unmatchedClose true d r
    else if c = '{' then unmatchedClose false (d + 1) r
    else if c = '}' then d = 0 || unmatchedClose false (d - 1) r
    else unmatchedClose false d r

/-- brace depth at the end -/
def finalDepth (esc : Bool) (d : Nat) : Str → Nat
  | [] => d
  | c :: r =>
    if esc then finalDepth false d r
    else if c = '\\' then finalDepth true d r
    else if c = '{' then finalDepth false (d + 1) r
    else if c = '}' then finalDepth false (d - 1) r
    else finalDepth false d r

/-- number of unescaped commas at brace depth 0 -/
def topCommas (esc : Bool) (d : Nat) : Str → Nat
  | [] => 0
  | c :: r =>
    if esc then topCommas false d r
    else if c = '\\' then topCommas true d r
    else if c = '{' then topCommas false (d + 1) r
    else if c = '}' then topCommas false (d - 1) r
    else if d = 0 && c = ',' then 1 + topCommas false d r
    else topCommas false d r

/-- `b` = nothing but top-level whitespace since the last top-level comma (or the start) -/
def blankTail (esc : Bool) (d : Nat) (b : Bool) : Str → Bool
  | [] => b
  | c :: r =>
    if esc then blankTail false d false r
    else if c = '\\' then blankTail true d false r
    else if c = '{' then blankTail false (d + 1) false r
    else if c = '}' then blankTail false (d - 1) false r
    else if d = 0 && c = ',' then blankTail false d true r
    else if d = 0 && isWs c then blankTail false d b r
    else blankTail false d false r

/-- the three ways a name is invalid: unbalanced braces (a closing brace without an opening one, or
an opening brace that is never closed), more than two top-level commas, a trailing comma (nothing
but whitespace after the last top-level comma) -/
def Invalid (n : Str) : Prop :=
  unmatchedClose false 0 n = true ∨ finalDepth false 0 n > 0 ∨ topCommas false 0 n > 2 ∨
    (topCommas false 0 n ≥ 1 ∧ blankTail false 0 true n = true)

instance (n : Str) : Decidable (Invalid n) := by unfold Invalid; infer_instance

end Bib.NameP

namespace Bib.CoAuth
open Bib.NameP (unmatchedClose finalDepth)

/-- brace-balanced (escaped braces do not count): no closing brace without an opening one, every
opening brace closed -/
def Balanced (s : Str) : Prop := unmatchedClose false 0 s = false ∧ finalDepth false 0 s = 0

instance (s : Str) : Decidable (Balanced s) := by unfold Balanced; infer_instance

/-- the text ends in an unescaped backslash (equivalently: in an odd number of backslashes), which
would escape whatever is appended -/
def endsEscaped (esc : Bool) : Str → Bool
  | [] => esc
  | c :: r => endsEscaped (!esc && c = '\\') r

/-- `s.strip(" \r\n\t") == s` -/
def Trimmed (s : Str) : Prop := stripWs s = s

/-- Cut a text into maximal runs of top-level whitespace (`true`) and of anything else (`false`,
the top-level words): a character is top-level whitespace when it is one of `" \r\n\t"`, is not
escaped by a backslash and stands at brace depth 0.  Plain structural recursion: the character is
put in front of the first run of the rest when it is of the same kind. -/
def cut (esc : Bool) (d : Nat) : Str → List (Bool × Str)
  | [] => []
  | c :: r =>
    let m : Bool := !esc && d = 0 && isWs c
    let rest :=
      if esc then cut false d r
      else if c = '\\' then cut true d r
      else if c = '{' then cut false (d + 1) r
      else if c = '}' then cut false (d - 1) r
      else cut false d r
    match rest with
    | (m', run) :: more => if m = m' then (m, c :: run) :: more else (m, [c]) :: rest
    | [] => [(m, [c])]

/-- the top-level words of a text -/
def topWords (s : Str) : List Str := ((cut false 0 s).filter fun x => !x.1).map Prod.snd

/-- the word `and` in any letter case -/
def isAndWord (w : Str) : Bool :=
  match w with
  | [a, n, d] => (a = 'a' || a = 'A') && (n = 'n' || n = 'N') && (d = 'd' || d = 'D')
  | _ => false

/-- no bare top-level word `and` -/
def NoAndWord (s : Str) : Prop := ∀ w ∈ topWords s, isAndWord w = false

instance (s : Str) : Decidable (NoAndWord s) := by unfold NoAndWord; infer_instance

/-- runs after the first word, as (whitespace, word) pairs -/
def pairUp : List (Bool × Str) → List (Str × Str)
  | (_, g) :: (_, w) :: rest => (g, w) :: pairUp rest
  | _ => []

/-- The word-level reference splitter.  `cur` is the current piece (never empty), `pend` a word
`and` (with the whitespace in front of it) seen after `cur` and not yet decided, the list holds the
following words, each with the whitespace in front of it.  A word `and` separates iff a word
follows it (the current piece is non-empty by construction: after a separator the next word starts
the new piece whatever it is); at the end of the text a pending `and` belongs to the piece. -/
def refGo (cur : Str) (pend : Option Str) : List (Str × Str) → List Str
  | [] =>
    match pend with
    | none => [cur]
    | some x => [cur ++ x]
  | (g, w) :: rest =>
    match pend with
    | some _ => cur :: refGo w none rest
    | none => if isAndWord w then refGo cur (some (g ++ w)) rest else refGo (cur ++ g ++ w) none rest

/-- the reference for `split_multiple_persons_names` -/
def splitWords (s : Str) : List Str :=
  match cut false 0 (stripWs s) with
  | [] => []
  | (_, w0) :: rest => refGo w0 none (pairUp rest)

end Bib.CoAuth

namespace Bib.Names

/-- the string ends in an odd number of backslashes -/
def OddBS (w : Str) : Prop := (w.reverse.takeWhile (· = '\\')).length % 2 = 1

instance (w : Str) : Decidable (OddBS w) := by unfold OddBS; infer_instance

/-- no word of the parts ends in an odd number of backslashes -/
def NoOddBS (p : NameParts) : Prop := ∀ w ∈ p.first ++ p.von ++ p.last ++ p.jr, ¬ OddBS w

instance (p : NameParts) : Decidable (NoOddBS p) := by unfold NoOddBS; infer_instance

end Bib.Names
