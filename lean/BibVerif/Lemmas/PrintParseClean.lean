/-
  C05: a sufficient condition for `CleanVal` in terms of the lexing of the value alone (from the C10
  re-lexing lemma), and the `PrintOK` facts for the model's ASCII table.
-/
import BibVerif.Lemmas.PrintParseDefs
import BibVerif.Lemmas.ReparseLex
namespace Bib.PrintParse
open Bib

variable {P : PyChars}

/-- A value whose own tokens are brace-balanced (hence contain no block start) and which does not end
in a backslash can be written between braces. -/
theorem cleanVal_of_lex (hw : P.isWord '}' = false) (v : Str) (hb : IsBal (lexFrom P false v))
    (he : Reparse.endBS false v = false) : CleanVal P v := by
  refine ⟨lexFrom P false v, hb, flatten_lexFrom P false v, fun rest => ?_⟩
  rw [Reparse.lexFrom_append_rbrace P hw rest false v he, lex_delim P '}' .rbrace rest (by decide)]

theorem printOK_ascii : PrintOK asciiChars where
  word := ⟨by decide, by
    intro c hc
    simp only [isBlank, Bool.or_eq_true, decide_eq_true_eq] at hc
    rcases hc with rfl | rfl <;> decide⟩
  atWord := by decide
  rbWord := by decide
  spSpace := by decide
  tabSpace := by decide
  nlSpace := by decide
  lbSpace := by decide
  rbSpace := by decide
  atLower := by decide
  kw := by decide

end Bib.PrintParse

namespace Bib.PrintParse
open Bib

/-- a value without delimiters, `@` or backslash is clean -/
theorem cleanVal_simple {P : PyChars} (v : Str) (hs : SimpleText v) : CleanVal P v := by
  by_cases hne : v = []
  · subst hne
    exact ⟨[], IsBal.nil, rfl, fun rest => by simp⟩
  · refine ⟨[.text v], IsBal.plain _ _ rfl IsBal.nil, by simp [flatten, Tok.lit], fun rest => ?_⟩
    rw [lex_simple_delim P false v '}' .rbrace rest hs hne (by decide), lex_delim P '}' .rbrace rest (by decide)]
    rfl

/-- the nested-brace value `x{y{z}}` is clean (for every character table) -/
theorem cleanVal_nested {P : PyChars} : CleanVal P "x{y{z}}".toList := by
  have hx : SimpleText ['x'] := by intro c hc; simp at hc; subst hc; decide
  have hy : SimpleText ['y'] := by intro c hc; simp at hc; subst hc; decide
  have hz : SimpleText ['z'] := by intro c hc; simp at hc; subst hc; decide
  let vt : List Tok := [.text ['x'], LB, .text ['y'], LB, .text ['z'], RB, RB]
  have hbal : IsBal vt := by
    have h3 : IsBal [Tok.text ['z']] := IsBal.plain _ _ rfl IsBal.nil
    have h2 : IsBal [Tok.text ['y'], LB, .text ['z'], RB] :=
      IsBal.plain _ _ rfl (by simpa [LB, RB] using IsBal.grp ['{'] ['}'] [Tok.text ['z']] [] h3 IsBal.nil)
    exact IsBal.plain _ _ rfl
      (by simpa [LB, RB] using IsBal.grp ['{'] ['}'] [Tok.text ['y'], LB, .text ['z'], RB] [] h2 IsBal.nil)
  refine ⟨vt, hbal, by decide, fun rest => ?_⟩
  show lexFrom P false (['x'] ++ '{' :: (['y'] ++ '{' :: (['z'] ++ '}' :: '}' :: '}' :: rest))) = _
  rw [lex_simple_delim P false ['x'] '{' .lbrace _ hx (by simp) (by decide),
    lex_simple_delim P false ['y'] '{' .lbrace _ hy (by simp) (by decide),
    lex_simple_delim P false ['z'] '}' .rbrace _ hz (by simp) (by decide),
    lex_delim P '}' .rbrace _ (by decide)]
  rfl

end Bib.PrintParse
