/-
  C05: a sufficient condition for `CleanVal` in terms of the lexing of the value alone (from the C10
  re-lexing lemma), and the `PrintOK` facts for the model's ASCII table.
-/
import BibVerif.Lemmas.PrintParseDefs
import BibVerif.Lemmas.ReparseLex
namespace Bib.PrintParse
open Bib

variable {P : PyChars}

/-- A value whose own tokens are brace-balanced (hence contain no block start) and which does not end
in a backslash can be written between braces. -/
theorem cleanVal_of_lex (hw : P.isWord '}' = false) (v : Str) (hb : IsBal (lexFrom P false v))
    (he : Reparse.endBS false v = false) : CleanVal P v := by
  refine ⟨lexFrom P false v, hb, flatten_lexFrom P false v, fun rest => ?_⟩
  rw [Reparse.lexFrom_append_rbrace P hw rest false v he, lex_delim P '}' .rbrace rest (by decide)]

/-- The same for entry field values, which only need the *enclosed* text `{v}` to lex to a `Value` of the
grammar: `A} # {B`, `a}{b`, `x} # "y" # {z` are fine. -/
theorem encVal_of_lex (hw : P.isWord '}' = false) (v : Str)
    (hb : IsValue (lexFrom P false ('{' :: (v ++ ['}'])))) (he : Reparse.endBS false v = false) :
    EncVal P v := by
  have h1 : ∀ rest, lexFrom P false ('{' :: (v ++ '}' :: rest)) =
      LB :: (lexFrom P false v ++ RB :: lexFrom P false rest) := by
    intro rest
    rw [lex_delim P '{' .lbrace _ (by decide), Reparse.lexFrom_append_rbrace P hw rest false v he]
    rfl
  have h0 : lexFrom P false ('{' :: (v ++ ['}'])) = LB :: (lexFrom P false v ++ [RB]) := by
    rw [h1 []]; simp [lexFrom]
  refine ⟨lexFrom P false ('{' :: (v ++ ['}'])), hb, flatten_lexFrom P false _, fun c r _ => ?_⟩
  rw [h1 (c :: r), h0]; simp

/-- ... and for @string values, whose enclosed text only has to be brace-balanced. -/
theorem encBal_of_lex (hw : P.isWord '}' = false) (v : Str)
    (hb : IsBal (lexFrom P false ('{' :: (v ++ ['}'])))) (he : Reparse.endBS false v = false) :
    EncBal P v := by
  have h1 : ∀ rest, lexFrom P false ('{' :: (v ++ '}' :: rest)) =
      LB :: (lexFrom P false v ++ RB :: lexFrom P false rest) := by
    intro rest
    rw [lex_delim P '{' .lbrace _ (by decide), Reparse.lexFrom_append_rbrace P hw rest false v he]
    rfl
  have h0 : lexFrom P false ('{' :: (v ++ ['}'])) = LB :: (lexFrom P false v ++ [RB]) := by
    rw [h1 []]; simp [lexFrom]
  refine ⟨lexFrom P false ('{' :: (v ++ ['}'])), hb, flatten_lexFrom P false _, fun rest => ?_⟩
  rw [h1 ('}' :: rest), h0]; simp

theorem printOK_ascii : PrintOK asciiChars where
  word := ⟨by decide, by
    intro c hc
    simp only [isBlank, Bool.or_eq_true, decide_eq_true_eq] at hc
    rcases hc with rfl | rfl <;> decide⟩
  atWord := by decide
  rbWord := by decide
  nlWord := by decide
  cmWord := by decide
  eqWord := by decide
  qWord := by decide
  space := by
    intro c h
    have hof : ∀ n, c.toNat = n → c = Char.ofNat n := fun n hn => by rw [← hn, Char.ofNat_toNat]
    simp only [asciiChars, Bool.or_eq_true, decide_eq_true_eq, Bool.and_eq_true] at h
    rcases h with (((((h | h) | h) | h) | h) | h) | h
    · subst h; exact Or.inr (by decide)
    · subst h; exact Or.inr (by decide)
    · exact Or.inl h
    · subst h; exact Or.inr (by decide)
    · rw [hof 11 h]; exact Or.inr (by decide)
    · rw [hof 12 h]; exact Or.inr (by decide)
    · have : c.toNat = 28 ∨ c.toNat = 29 ∨ c.toNat = 30 ∨ c.toNat = 31 := by omega
      rcases this with h' | h' | h' | h'
      · rw [hof 28 h']; exact Or.inr (by decide)
      · rw [hof 29 h']; exact Or.inr (by decide)
      · rw [hof 30 h']; exact Or.inr (by decide)
      · rw [hof 31 h']; exact Or.inr (by decide)
  spSpace := by decide
  tabSpace := by decide
  nlSpace := by decide
  lbSpace := by decide
  rbSpace := by decide
  atLower := by decide
  kw := by decide

end Bib.PrintParse

namespace Bib.PrintParse
open Bib

/-- a value without delimiters, `@` or backslash is clean -/
theorem cleanVal_simple {P : PyChars} (v : Str) (hs : SimpleText v) : CleanVal P v := by
  by_cases hne : v = []
  · subst hne
    exact ⟨[], IsBal.nil, rfl, fun rest => by simp⟩
  · refine ⟨[.text v], IsBal.plain _ _ rfl IsBal.nil, by simp [flatten, Tok.lit], fun rest => ?_⟩
    rw [lex_simple_delim P false v '}' .rbrace rest hs hne (by decide), lex_delim P '}' .rbrace rest (by decide)]
    rfl

/-- the nested-brace value `x{y{z}}` is clean (for every character table) -/
theorem cleanVal_nested {P : PyChars} : CleanVal P "x{y{z}}".toList := by
  have hx : SimpleText ['x'] := by intro c hc; simp at hc; subst hc; decide
  have hy : SimpleText ['y'] := by intro c hc; simp at hc; subst hc; decide
  have hz : SimpleText ['z'] := by intro c hc; simp at hc; subst hc; decide
  let vt : List Tok := [.text ['x'], LB, .text ['y'], LB, .text ['z'], RB, RB]
  have hbal : IsBal vt := by
    have h3 : IsBal [Tok.text ['z']] := IsBal.plain _ _ rfl IsBal.nil
    have h2 : IsBal [Tok.text ['y'], LB, .text ['z'], RB] :=
      IsBal.plain _ _ rfl (by simpa [LB, RB] using IsBal.grp ['{'] ['}'] [Tok.text ['z']] [] h3 IsBal.nil)
    exact IsBal.plain _ _ rfl
      (by simpa [LB, RB] using IsBal.grp ['{'] ['}'] [Tok.text ['y'], LB, .text ['z'], RB] [] h2 IsBal.nil)
  refine ⟨vt, hbal, by decide, fun rest => ?_⟩
  show lexFrom P false (['x'] ++ '{' :: (['y'] ++ '{' :: (['z'] ++ '}' :: '}' :: '}' :: rest))) = _
  rw [lex_simple_delim P false ['x'] '{' .lbrace _ hx (by simp) (by decide),
    lex_simple_delim P false ['y'] '{' .lbrace _ hy (by simp) (by decide),
    lex_simple_delim P false ['z'] '}' .rbrace _ hz (by simp) (by decide),
    lex_delim P '}' .rbrace _ (by decide)]
  rfl

/-! ### two concatenation-shaped field values whose content is not balanced -/

def concatToks : List Tok := [LB, .text ['A'], RB, .text [' ', '#', ' '], LB, .text ['B'], RB]
def adjToks : List Tok := [LB, .text ['a'], RB, LB, .text ['b'], RB]

/-- `{A} # {B}` lexes to two brace groups around the `#`, whatever follows -/
theorem lex_concat {P : PyChars} (rest : Str) :
    lexFrom P false ('{' :: ("A} # {B".toList ++ '}' :: rest)) = concatToks ++ lexFrom P false rest := by
  have hA : SimpleText ['A'] := by intro c hc; simp at hc; subst hc; decide
  have hB : SimpleText ['B'] := by intro c hc; simp at hc; subst hc; decide
  have hs : SimpleText [' ', '#', ' '] := by intro c hc; simp at hc; rcases hc with rfl | rfl | rfl <;> decide
  show lexFrom P false ('{' :: (['A'] ++ '}' :: ([' ', '#', ' '] ++ '{' :: (['B'] ++ '}' :: rest)))) = _
  rw [lex_delim P '{' .lbrace _ (by decide),
    lex_simple_delim P false ['A'] '}' .rbrace _ hA (by simp) (by decide),
    lex_simple_delim P false [' ', '#', ' '] '{' .lbrace _ hs (by simp) (by decide),
    lex_simple_delim P false ['B'] '}' .rbrace _ hB (by simp) (by decide)]
  rfl

/-- `{a}{b}` lexes to two adjacent brace groups -/
theorem lex_adj {P : PyChars} (rest : Str) :
    lexFrom P false ('{' :: ("a}{b".toList ++ '}' :: rest)) = adjToks ++ lexFrom P false rest := by
  have ha : SimpleText ['a'] := by intro c hc; simp at hc; subst hc; decide
  have hb : SimpleText ['b'] := by intro c hc; simp at hc; subst hc; decide
  show lexFrom P false ('{' :: (['a'] ++ '}' :: '{' :: (['b'] ++ '}' :: rest))) = _
  rw [lex_delim P '{' .lbrace _ (by decide),
    lex_simple_delim P false ['a'] '}' .rbrace _ ha (by simp) (by decide),
    lex_delim P '{' .lbrace _ (by decide),
    lex_simple_delim P false ['b'] '}' .rbrace _ hb (by simp) (by decide)]
  rfl

theorem isValue_concatToks : IsValue concatToks := by
  have hB : IsValue [LB, Tok.text ['B'], RB] := by
    simpa [LB, RB] using IsValue.braced ['{'] ['}'] [Tok.text ['B']] [] (IsBal.plain _ _ rfl IsBal.nil) IsValue.nil
  have hs : IsValue (Tok.text [' ', '#', ' '] :: [LB, Tok.text ['B'], RB]) := IsValue.plain _ _ rfl hB
  simpa [concatToks, LB, RB] using
    IsValue.braced ['{'] ['}'] [Tok.text ['A']] _ (IsBal.plain _ _ rfl IsBal.nil) hs

theorem isValue_adjToks : IsValue adjToks := by
  have hb : IsValue [LB, Tok.text ['b'], RB] := by
    simpa [LB, RB] using IsValue.braced ['{'] ['}'] [Tok.text ['b']] [] (IsBal.plain _ _ rfl IsBal.nil) IsValue.nil
  simpa [adjToks, LB, RB] using
    IsValue.braced ['{'] ['}'] [Tok.text ['a']] _ (IsBal.plain _ _ rfl IsBal.nil) hb

/-- the content `A} # {B` of the source value `{A} # {B}` is a good field value (it is not `CleanVal`) -/
theorem encVal_concat {P : PyChars} : EncVal P "A} # {B".toList :=
  ⟨concatToks, isValue_concatToks, by decide, fun c r _ => lex_concat (c :: r)⟩

theorem encVal_adj {P : PyChars} : EncVal P "a}{b".toList :=
  ⟨adjToks, isValue_adjToks, by decide, fun c r _ => lex_adj (c :: r)⟩

theorem isBal_adjToks : IsBal adjToks := by
  have hb : IsBal [LB, Tok.text ['b'], RB] := by
    simpa [LB, RB] using IsBal.grp ['{'] ['}'] [Tok.text ['b']] [] (IsBal.plain _ _ rfl IsBal.nil) IsBal.nil
  simpa [adjToks, LB, RB] using IsBal.grp ['{'] ['}'] [Tok.text ['a']] _ (IsBal.plain _ _ rfl IsBal.nil) hb

/-- `a}{b` (source `{a}{b}`) is a good @string value -/
theorem encBal_adj {P : PyChars} : EncBal P "a}{b".toList :=
  ⟨adjToks, isBal_adjToks, by decide, fun rest => lex_adj ('}' :: rest)⟩

end Bib.PrintParse
