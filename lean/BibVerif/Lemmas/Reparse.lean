/-
  C10 re-parse law, token level: the value scanner of the splitter automaton
  (`_move_to_comma_or_closing_curly_bracket`) consumes a brace-balanced token list without changing
  its counters, at every nesting depth (induction over the derivation of balancedness), and the
  whole entry `@a{k, f = {v}}` / `@a{k, f = "v"}` comes out as one entry with one field.
-/
import BibVerif.Split
namespace Bib.Reparse
open Bib

/-- tokens other than braces (text, newline, quote, comma, equals, block start) -/
def Ordinary : Tok → Prop
  | .text _ => True
  | .mark k _ => k ≠ .lbrace ∧ k ≠ .rbrace

/-- `Bal` of the dialect grammar (DESIGN §5) as a relation on token lists:
`Bal ::= (ordinary | LB Bal RB)*` -/
inductive IsBal : List Tok → Prop
  | nil : IsBal []
  | ord {t : Tok} {ts : List Tok} : Ordinary t → IsBal ts → IsBal (t :: ts)
  | nest {l1 l2 : Str} {a b : List Tok} : IsBal a → IsBal b →
      IsBal (.mark .lbrace l1 :: (a ++ .mark .rbrace l2 :: b))

/-- `QBody` of the grammar: like `Bal` but a quote may occur only inside braces -/
inductive IsQBody : List Tok → Prop
  | nil : IsQBody []
  | ord {t : Tok} {ts : List Tok} : Ordinary t → (∀ l, t ≠ .mark .quote l) → IsQBody ts → IsQBody (t :: ts)
  | nest {l1 l2 : Str} {a b : List Tok} : IsBal a → IsQBody b →
      IsQBody (.mark .lbrace l1 :: (a ++ .mark .rbrace l2 :: b))

/-- no block-start mark `@\w*[ \t]*(?={)` among the tokens -/
def NoAt (ts : List Tok) : Prop := ∀ t ∈ ts, ∀ l, t ≠ .mark .at l

def isNl : Tok → Bool
  | .mark .nl _ => true
  | _ => false

/-- number of newline marks -/
def nls : List Tok → Int
  | [] => 0
  | t :: r => (if isNl t then 1 else 0) + nls r

theorem nls_append (a b : List Tok) : nls (a ++ b) = nls a + nls b := by
  induction a with
  | nil => simp [nls]
  | cons t r ih => simp [nls, ih]; omega

theorem noAt_cons {t : Tok} {ts : List Tok} (h : NoAt (t :: ts)) : NoAt ts :=
  fun x hx l => h x (by simp [hx]) l

theorem noAt_append_left {a b : List Tok} (h : NoAt (a ++ b)) : NoAt a :=
  fun x hx l => h x (by simp [hx]) l

theorem noAt_append_right {a b : List Tok} (h : NoAt (a ++ b)) : NoAt b :=
  fun x hx l => h x (by simp [hx]) l

variable (P : PyChars)

/-- the state of the automaton while it scans a field value -/
def valState (out : List Block) (line bl : Int) (raw : List Tok) (ty key : Str) (fs : List Field) (fk : Str)
    (el : Int) (q : Bool) (c qc : Nat) (v : List Tok) : St :=
  { out := out, line := line, blockLine := bl, raw := raw,
    mode := .fldVal ty key fs fk el q c qc v, err := none }

/-- one ordinary token inside braces (`q = false`, `curls ≥ 1`) -/
theorem step_ord_braces (t : Tok) (ho : Ordinary t) (hat : ∀ l, t ≠ .mark .at l)
    (out : List Block) (line bl : Int) (raw : List Tok) (ty key : Str) (fs : List Field) (fk : Str)
    (el : Int) (c qc : Nat) (v : List Tok) :
    step P (valState out line bl raw ty key fs fk el false (c + 1) qc v) t =
      valState out (line + (if isNl t then 1 else 0)) bl (t :: raw) ty key fs fk el false (c + 1) qc (t :: v) := by
  cases t with
  | text cs => simp [step, valState, absorb, isNl]
  | mark k l =>
    cases k with
    | lbrace => exact absurd rfl ho.1
    | rbrace => exact absurd rfl ho.2
    | «at» => exact absurd rfl (hat l)
    | nl => simp [step, valState, absorb, isNl]
    | quote => simp [step, valState, isNl]
    | comma => simp [step, valState, isNl]
    | eq => simp [step, valState, isNl]

/-- one ordinary token inside braces inside quotes (`q = true`, `curls = 0`, `qcurls ≥ 1`) -/
theorem step_ord_qbraces (t : Tok) (ho : Ordinary t) (hat : ∀ l, t ≠ .mark .at l)
    (out : List Block) (line bl : Int) (raw : List Tok) (ty key : Str) (fs : List Field) (fk : Str)
    (el : Int) (qc : Nat) (v : List Tok) :
    step P (valState out line bl raw ty key fs fk el true 0 (qc + 1) v) t =
      valState out (line + (if isNl t then 1 else 0)) bl (t :: raw) ty key fs fk el true 0 (qc + 1) (t :: v) := by
  cases t with
  | text cs => simp [step, valState, absorb, isNl]
  | mark k l =>
    cases k with
    | lbrace => exact absurd rfl ho.1
    | rbrace => exact absurd rfl ho.2
    | «at» => exact absurd rfl (hat l)
    | nl => simp [step, valState, absorb, isNl]
    | quote => simp [step, valState, isNl]
    | comma => simp [step, valState, isNl]
    | eq => simp [step, valState, isNl]

/-- one ordinary non-quote token directly inside quotes (`q = true`, `curls = 0`, `qcurls = 0`) -/
theorem step_ord_quoted (t : Tok) (ho : Ordinary t) (hat : ∀ l, t ≠ .mark .at l) (hq : ∀ l, t ≠ .mark .quote l)
    (out : List Block) (line bl : Int) (raw : List Tok) (ty key : Str) (fs : List Field) (fk : Str)
    (el : Int) (v : List Tok) :
    step P (valState out line bl raw ty key fs fk el true 0 0 v) t =
      valState out (line + (if isNl t then 1 else 0)) bl (t :: raw) ty key fs fk el true 0 0 (t :: v) := by
  cases t with
  | text cs => simp [step, valState, absorb, isNl]
  | mark k l =>
    cases k with
    | lbrace => exact absurd rfl ho.1
    | rbrace => exact absurd rfl ho.2
    | «at» => exact absurd rfl (hat l)
    | quote => exact absurd rfl (hq l)
    | nl => simp [step, valState, absorb, isNl]
    | comma => simp [step, valState, isNl]
    | eq => simp [step, valState, isNl]

/-- **`bal_scan` (brace context).**  Inside braces the scanner consumes a balanced token list of any
nesting depth and returns to the same counters; the line counter advances by its newlines. -/
theorem bal_scan_braces {ts : List Tok} (h : IsBal ts) (hn : NoAt ts) :
    ∀ (out : List Block) (line bl : Int) (raw : List Tok) (ty key : Str) (fs : List Field) (fk : Str)
      (el : Int) (c qc : Nat) (v : List Tok),
    run P (valState out line bl raw ty key fs fk el false (c + 1) qc v) ts =
      valState out (line + nls ts) bl (ts.reverse ++ raw) ty key fs fk el false (c + 1) qc (ts.reverse ++ v) := by
  induction h with
  | nil => intros; simp [run, nls]
  | @ord t ts ho _ ih =>
    intro out line bl raw ty key fs fk el c qc v
    rw [run_cons, step_ord_braces P t ho (fun l => hn t (by simp) l), ih (noAt_cons hn)]
    simp [nls, Int.add_assoc]
  | @nest l1 l2 a b _ _ iha ihb =>
    intro out line bl raw ty key fs fk el c qc v
    have hna : NoAt a := noAt_append_left (noAt_cons hn)
    have hnb : NoAt b := noAt_cons (noAt_append_right (noAt_cons hn))
    have h1 : step P (valState out line bl raw ty key fs fk el false (c + 1) qc v) (.mark .lbrace l1) =
        valState out line bl (.mark .lbrace l1 :: raw) ty key fs fk el false (c + 1 + 1) qc (.mark .lbrace l1 :: v) := by
      simp [step, valState]
    rw [run_cons, h1, run_append, iha hna, run_cons]
    have h2 : step P (valState out (line + nls a) bl (a.reverse ++ .mark .lbrace l1 :: raw) ty key fs fk el false
          (c + 1 + 1) qc (a.reverse ++ .mark .lbrace l1 :: v)) (.mark .rbrace l2) =
        valState out (line + nls a) bl (.mark .rbrace l2 :: (a.reverse ++ .mark .lbrace l1 :: raw)) ty key fs fk el false
          (c + 1) qc (.mark .rbrace l2 :: (a.reverse ++ .mark .lbrace l1 :: v)) := by
      simp [step, valState]
    rw [h2, ihb hnb]
    simp [nls, nls_append, isNl, Int.add_assoc]

/-- **`bal_scan` (braces inside a quoted value).** -/
theorem bal_scan_qbraces {ts : List Tok} (h : IsBal ts) (hn : NoAt ts) :
    ∀ (out : List Block) (line bl : Int) (raw : List Tok) (ty key : Str) (fs : List Field) (fk : Str)
      (el : Int) (qc : Nat) (v : List Tok),
    run P (valState out line bl raw ty key fs fk el true 0 (qc + 1) v) ts =
      valState out (line + nls ts) bl (ts.reverse ++ raw) ty key fs fk el true 0 (qc + 1) (ts.reverse ++ v) := by
  induction h with
  | nil => intros; simp [run, nls]
  | @ord t ts ho _ ih =>
    intro out line bl raw ty key fs fk el qc v
    rw [run_cons, step_ord_qbraces P t ho (fun l => hn t (by simp) l), ih (noAt_cons hn)]
    simp [nls, Int.add_assoc]
  | @nest l1 l2 a b _ _ iha ihb =>
    intro out line bl raw ty key fs fk el qc v
    have hna : NoAt a := noAt_append_left (noAt_cons hn)
    have hnb : NoAt b := noAt_cons (noAt_append_right (noAt_cons hn))
    have h1 : step P (valState out line bl raw ty key fs fk el true 0 (qc + 1) v) (.mark .lbrace l1) =
        valState out line bl (.mark .lbrace l1 :: raw) ty key fs fk el true 0 (qc + 1 + 1) (.mark .lbrace l1 :: v) := by
      simp [step, valState]
    rw [run_cons, h1, run_append, iha hna, run_cons]
    have h2 : step P (valState out (line + nls a) bl (a.reverse ++ .mark .lbrace l1 :: raw) ty key fs fk el true 0
          (qc + 1 + 1) (a.reverse ++ .mark .lbrace l1 :: v)) (.mark .rbrace l2) =
        valState out (line + nls a) bl (.mark .rbrace l2 :: (a.reverse ++ .mark .lbrace l1 :: raw)) ty key fs fk el true 0
          (qc + 1) (.mark .rbrace l2 :: (a.reverse ++ .mark .lbrace l1 :: v)) := by
      simp [step, valState]
    rw [h2, ihb hnb]
    simp [nls, nls_append, isNl, Int.add_assoc]

/-- **`qbody_scan`.**  Directly inside quotes the scanner consumes a `QBody`. -/
theorem qbody_scan {ts : List Tok} (h : IsQBody ts) (hn : NoAt ts) :
    ∀ (out : List Block) (line bl : Int) (raw : List Tok) (ty key : Str) (fs : List Field) (fk : Str)
      (el : Int) (v : List Tok),
    run P (valState out line bl raw ty key fs fk el true 0 0 v) ts =
      valState out (line + nls ts) bl (ts.reverse ++ raw) ty key fs fk el true 0 0 (ts.reverse ++ v) := by
  induction h with
  | nil => intros; simp [run, nls]
  | @ord t ts ho hq _ ih =>
    intro out line bl raw ty key fs fk el v
    rw [run_cons, step_ord_quoted P t ho (fun l => hn t (by simp) l) hq, ih (noAt_cons hn)]
    simp [nls, Int.add_assoc]
  | @nest l1 l2 a b ha _ ihb =>
    intro out line bl raw ty key fs fk el v
    have hna : NoAt a := noAt_append_left (noAt_cons hn)
    have hnb : NoAt b := noAt_cons (noAt_append_right (noAt_cons hn))
    have h1 : step P (valState out line bl raw ty key fs fk el true 0 0 v) (.mark .lbrace l1) =
        valState out line bl (.mark .lbrace l1 :: raw) ty key fs fk el true 0 (0 + 1) (.mark .lbrace l1 :: v) := by
      simp [step, valState]
    rw [run_cons, h1, run_append, bal_scan_qbraces P ha hna, run_cons]
    have h2 : step P (valState out (line + nls a) bl (a.reverse ++ .mark .lbrace l1 :: raw) ty key fs fk el true 0
          (0 + 1) (a.reverse ++ .mark .lbrace l1 :: v)) (.mark .rbrace l2) =
        valState out (line + nls a) bl (.mark .rbrace l2 :: (a.reverse ++ .mark .lbrace l1 :: raw)) ty key fs fk el true 0
          0 (.mark .rbrace l2 :: (a.reverse ++ .mark .lbrace l1 :: v)) := by
      simp [step, valState]
    rw [h2, ihb hnb]
    simp [nls, nls_append, isNl, Int.add_assoc]

end Bib.Reparse

namespace Bib.Reparse
open Bib

variable (P : PyChars)

/-- the facts about `str.isspace` used by the final `strip` of the value and by the implicit-comment
check on the prepended newline -/
structure SpaceOK (P : PyChars) : Prop where
  nl : P.isSpace '\n' = true
  lb : P.isSpace '{' = false
  rb : P.isSpace '}' = false
  qu : P.isSpace '"' = false

/-- tokens of `"\n@type{k,f=sp" ++ open ++ v ++ close ++ "}"` -/
def entryToks (lit k f sp : Str) (op : Tok) (vtoks : List Tok) (cl : Tok) : List Tok :=
  [.mark .nl ['\n'], .mark .at lit, .mark .lbrace ['{'], .text k, .mark .comma [','], .text f,
    .mark .eq ['='], .text sp, op] ++ vtoks ++ [cl, .mark .rbrace ['}']]

theorem endImplicit_nl (hP : SpaceOK P) (il : Int) : endImplicit P [.mark .nl ['\n']] il = [] := by
  simp [endImplicit, rflat, flatten, Tok.lit, hP.nl, rstrip]

/-- the automaton after `"\n@type{k,f=sp"`: about to scan the value -/
theorem run_prefix (hP : SpaceOK P) (lit ty k f sp : Str) (hcl : classify P lit = (.entry, ty)) :
    run P init [.mark .nl ['\n'], .mark .at lit, .mark .lbrace ['{'], .text k, .mark .comma [','], .text f,
        .mark .eq ['='], .text sp] =
      valState [] 0 0 [.text sp, .mark .eq ['='], .text f, .mark .comma [','], .text k, .mark .lbrace ['{'],
        .mark .at lit] ty (strip P (flatten [.text k])) [] (strip P (flatten [.text f])) 0 false 0 0 [.text sp] := by
  simp [run, step, stepTop, init, hcl, absorb, endImplicit_nl P hP, valState, rflat]

theorem dropWhile_space_append (sp rest : Str) (a : Char) (ha : P.isSpace a = false) (hs : allSpace P sp) :
    (sp ++ a :: rest).dropWhile P.isSpace = a :: rest := by
  induction sp with
  | nil => simp [ha]
  | cons c r ih =>
    have hc : P.isSpace c = true := hs c (by simp)
    simp [hc, ih (fun x hx => hs x (by simp [hx]))]

/-- `strip` removes the leading blanks and nothing else from `sp ++ a…b` when `a`, `b` are not spaces -/
theorem strip_enclosed (sp inner : Str) (a b : Char) (ha : P.isSpace a = false) (hb : P.isSpace b = false)
    (hs : allSpace P sp) : strip P (sp ++ a :: (inner ++ [b])) = a :: (inner ++ [b]) := by
  unfold strip lstrip rstrip
  rw [dropWhile_space_append P sp (inner ++ [b]) a ha hs]
  simp [hb]

theorem flatten_reverse_snoc (ts : List Tok) : flatten ts.reverse.reverse = flatten ts := by simp

/-- the single-field entry the re-parse must produce -/
def expectedEntry (ty k f : Str) (value raw : Str) : Block :=
  .live (.entry { ty := ty, key := strip P k, fields := [⟨strip P f, .str value, 0⟩], line := 0, raw := raw })

theorem mkEntry_single (ty key fk : Str) (v : Val) (el line : Int) (raw : Str) :
    mkEntry ty key [⟨fk, v, el⟩] line raw =
      .live (.entry { ty := ty, key := key, fields := [⟨fk, v, el⟩], line := line, raw := raw }) := by
  simp [mkEntry, dupKeys, dupKeysGo]

/-- **Re-parse of a brace-enclosed balanced value (token level).** -/
theorem reparse_braces_toks (hP : SpaceOK P) (lit ty k f sp : Str) (hcl : classify P lit = (.entry, ty))
    (hs : allSpace P sp) (vtoks : List Tok) (hb : IsBal vtoks) (hn : NoAt vtoks) :
    splitToks P (entryToks lit k f sp (.mark .lbrace ['{']) vtoks (.mark .rbrace ['}'])) =
      .ok [expectedEntry P ty k f ('{' :: flatten vtoks ++ ['}'])
            (flatten (entryToks lit k f sp (.mark .lbrace ['{']) vtoks (.mark .rbrace ['}'])).tail)] := by
  have hsplit : entryToks lit k f sp (.mark .lbrace ['{']) vtoks (.mark .rbrace ['}']) =
      [.mark .nl ['\n'], .mark .at lit, .mark .lbrace ['{'], .text k, .mark .comma [','], .text f,
        .mark .eq ['='], .text sp] ++ (.mark .lbrace ['{'] :: (vtoks ++ [.mark .rbrace ['}'], .mark .rbrace ['}']])) := by
    simp [entryToks]
  unfold splitToks
  rw [hsplit, run_append, run_prefix P hP lit ty k f sp hcl, run_cons]
  have h1 : step P (valState [] 0 0 [.text sp, .mark .eq ['='], .text f, .mark .comma [','], .text k,
        .mark .lbrace ['{'], .mark .at lit] ty (strip P (flatten [.text k])) [] (strip P (flatten [.text f])) 0 false 0 0
        [.text sp]) (.mark .lbrace ['{']) =
      valState [] 0 0 (.mark .lbrace ['{'] :: [.text sp, .mark .eq ['='], .text f, .mark .comma [','], .text k,
        .mark .lbrace ['{'], .mark .at lit]) ty (strip P (flatten [.text k])) [] (strip P (flatten [.text f])) 0 false (0 + 1) 0
        (.mark .lbrace ['{'] :: [.text sp]) := by
    simp [step, valState]
  rw [h1, run_append, bal_scan_braces P hb hn]
  simp only [run, List.foldl_cons, List.foldl_nil]
  have hval := strip_enclosed P sp (flatten vtoks) '{' '}' hP.lb hP.rb hs
  simp [step, valState, finish, toTop, mkEntry_single, endImplicit, rflat, rstrip, expectedEntry, entryToks]
  simpa [flatten, Tok.lit] using hval

/-- **Re-parse of a quote-enclosed `QBody` value (token level).** -/
theorem reparse_quotes_toks (hP : SpaceOK P) (lit ty k f sp : Str) (hcl : classify P lit = (.entry, ty))
    (hs : allSpace P sp) (vtoks : List Tok) (hb : IsQBody vtoks) (hn : NoAt vtoks) :
    splitToks P (entryToks lit k f sp (.mark .quote ['"']) vtoks (.mark .quote ['"'])) =
      .ok [expectedEntry P ty k f ('"' :: flatten vtoks ++ ['"'])
            (flatten (entryToks lit k f sp (.mark .quote ['"']) vtoks (.mark .quote ['"'])).tail)] := by
  have hsplit : entryToks lit k f sp (.mark .quote ['"']) vtoks (.mark .quote ['"']) =
      [.mark .nl ['\n'], .mark .at lit, .mark .lbrace ['{'], .text k, .mark .comma [','], .text f,
        .mark .eq ['='], .text sp] ++ (.mark .quote ['"'] :: (vtoks ++ [.mark .quote ['"'], .mark .rbrace ['}']])) := by
    simp [entryToks]
  unfold splitToks
  rw [hsplit, run_append, run_prefix P hP lit ty k f sp hcl, run_cons]
  have h1 : step P (valState [] 0 0 [.text sp, .mark .eq ['='], .text f, .mark .comma [','], .text k,
        .mark .lbrace ['{'], .mark .at lit] ty (strip P (flatten [.text k])) [] (strip P (flatten [.text f])) 0 false 0 0
        [.text sp]) (.mark .quote ['"']) =
      valState [] 0 0 (.mark .quote ['"'] :: [.text sp, .mark .eq ['='], .text f, .mark .comma [','], .text k,
        .mark .lbrace ['{'], .mark .at lit]) ty (strip P (flatten [.text k])) [] (strip P (flatten [.text f])) 0 true 0 0
        (.mark .quote ['"'] :: [.text sp]) := by
    simp [step, valState]
  rw [h1, run_append, qbody_scan P hb hn]
  simp only [run, List.foldl_cons, List.foldl_nil]
  have hval := strip_enclosed P sp (flatten vtoks) '"' '"' hP.qu hP.qu hs
  simp [step, valState, finish, toTop, mkEntry_single, endImplicit, rflat, rstrip, expectedEntry, entryToks]
  simpa [flatten, Tok.lit] using hval

end Bib.Reparse
