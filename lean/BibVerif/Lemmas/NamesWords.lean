/-
  C12 helper lemmas for `exact_rule`: the six-step machine, seen run by run.

  `cut` (Lemmas/NamesSpec.lean) cuts the text into maximal runs of top-level whitespace and of
  other characters.  Here: (1) `cut` is correct (`RunsOK`), (2) what the machine does over one
  whitespace run and over one word run, (3) the induction over the (whitespace, word) pairs that
  ties the machine to the reference splitter `refGo`.
-/
import BibVerif.Lemmas.NamesCoAuth
import BibVerif.Lemmas.NamesSpec
import BibVerif.Lemmas.NamesAssign
namespace Bib.CoAuth

/-- escape flag and brace depth after reading `c` -/
def adv (e : Bool) (d : Nat) (c : Char) : Bool × Nat :=
  if e then (false, d)
  else if c = '\\' then (true, d)
  else if c = '{' then (false, d + 1)
  else if c = '}' then (false, d - 1)
  else (false, d)

/-- unescaped whitespace at brace depth 0 -/
def isTopWs (e : Bool) (d : Nat) (c : Char) : Bool := !e && d = 0 && isWs c

def endSt (e : Bool) (d : Nat) : Str → Bool × Nat
  | [] => (e, d)
  | c :: r => endSt (adv e d c).1 (adv e d c).2 r

/-- every character of `u`, read from the state `(e, d)`, is top-level whitespace (`m = true`) resp.
is not (`m = false`) -/
def AllMark (m : Bool) (e : Bool) (d : Nat) : Str → Prop
  | [] => True
  | c :: r => isTopWs e d c = m ∧ AllMark m (adv e d c).1 (adv e d c).2 r

def RunsOK (e : Bool) (d : Nat) : List (Bool × Str) → Prop
  | [] => True
  | (m, u) :: more =>
    u ≠ [] ∧ AllMark m e d u ∧ RunsOK (endSt e d u).1 (endSt e d u).2 more ∧
      (match more with
       | (m', _) :: _ => m' = !m
       | [] => True)

theorem cut_cons (e : Bool) (d : Nat) (c : Char) (r : Str) :
    cut e d (c :: r) =
      match cut (adv e d c).1 (adv e d c).2 r with
      | (m', run) :: more =>
        if isTopWs e d c = m' then (isTopWs e d c, c :: run) :: more
        else (isTopWs e d c, [c]) :: (m', run) :: more
      | [] => [(isTopWs e d c, [c])] := by
  unfold adv isTopWs
  rw [cut]
  by_cases he : e = true
  · simp only [he, if_true, Bool.not_true, Bool.false_and]
    generalize cut false d r = X
    rcases X with _ | ⟨⟨m', run⟩, more⟩ <;> rfl
  · have he' : e = false := by simpa using he
    by_cases h1 : c = '\\'
    · subst h1
      simp only [he', if_true, Bool.false_eq_true, if_false, Bool.not_false, Bool.true_and]
      generalize cut true d r = X
      rcases X with _ | ⟨⟨m', run⟩, more⟩ <;> rfl
    · by_cases h2 : c = '{'
      · subst h2
        simp [he']
        generalize cut false (d + 1) r = X
        rcases X with _ | ⟨⟨m', run⟩, more⟩ <;> simp
      · by_cases h3 : c = '}'
        · subst h3
          simp [he']
          generalize cut false (d - 1) r = X
          rcases X with _ | ⟨⟨m', run⟩, more⟩ <;> simp
        · simp only [he', h1, h2, h3, Bool.false_eq_true, if_false, Bool.not_false, Bool.true_and]
          generalize cut false d r = X
          rcases X with _ | ⟨⟨m', run⟩, more⟩ <;> rfl

theorem cut_ok (t : Str) : ∀ e d, RunsOK e d (cut e d t) ∧ ((cut e d t).map Prod.snd).flatten = t := by
  induction t with
  | nil => intro e d; simp [cut, RunsOK]
  | cons c r ih =>
    intro e d
    rw [cut_cons]
    obtain ⟨ih1, ih2⟩ := ih (adv e d c).1 (adv e d c).2
    cases hr : cut (adv e d c).1 (adv e d c).2 r with
    | nil =>
      rw [hr] at ih2
      simp at ih2
      simp [RunsOK, AllMark, ih2]
    | cons x more =>
      obtain ⟨m', run⟩ := x
      rw [hr] at ih1 ih2
      simp only [RunsOK] at ih1
      obtain ⟨a1, a2, a3, a4⟩ := ih1
      simp only
      by_cases hm : isTopWs e d c = m'
      · rw [if_pos hm]
        refine ⟨?_, ?_⟩
        · simp only [RunsOK]
          refine ⟨by simp, ⟨rfl, ?_⟩, ?_, ?_⟩
          · rw [hm]; exact a2
          · simpa [endSt] using a3
          · rw [hm]; exact a4
        · simp at ih2 ⊢; exact ih2
      · rw [if_neg hm]
        refine ⟨?_, ?_⟩
        · simp only [RunsOK]
          refine ⟨by simp, ⟨rfl, trivial⟩, ⟨a1, a2, by simpa [endSt] using a3, a4⟩, ?_⟩
          cases h1 : isTopWs e d c <;> cases h2 : m' <;> simp_all
        · simp at ih2 ⊢; exact ih2

/-! ### the machine follows `adv` -/

theorem stepc_adv (m : M) (c : Char) :
    ((stepc m c).esc, (stepc m c).level) = adv m.esc m.level c := by
  unfold stepc adv
  by_cases he : m.esc = true
  · simp [he]
  · have he' : m.esc = false := by simpa using he
    by_cases h1 : c = '\\'
    · by_cases hn : m.step = .nextWord <;> simp [he', h1, hn, M.newSpan]
    · by_cases h2 : c = '{'
      · by_cases hn : m.step = .nextWord <;> simp [he', h2, hn, M.newSpan]
      · by_cases h3 : c = '}'
        · simp [he', h3]
        · by_cases h4 : m.level > 0
          · simp [he', h1, h2, h3, h4]
          · simp only [he', h1, h2, h3, h4, if_false, Bool.false_eq_true]
            unfold plainStep
            cases m.step <;> simp only <;> (repeat' split) <;> simp [M.newSpan, he'] <;> omega

theorem stepc_pos (m : M) (c : Char) : (stepc m c).pos = m.pos + 1 := by
  unfold stepc
  simp only
  (repeat' split) <;> try rfl
  all_goals (unfold plainStep; cases m.step <;> simp only <;> (repeat' split) <;> rfl)

theorem run_pos (u : Str) : ∀ m : M, (run m u).pos = m.pos + u.length := by
  induction u with
  | nil => intro m; rfl
  | cons c r ih => intro m; simp only [run, List.foldl_cons] at ih ⊢; rw [ih, stepc_pos]; simp; omega

theorem run_adv (u : Str) : ∀ m : M, ((run m u).esc, (run m u).level) = endSt m.esc m.level u := by
  induction u with
  | nil => intro m; rfl
  | cons c r ih =>
    intro m
    simp only [run, List.foldl_cons, endSt] at ih ⊢
    rw [ih]
    have := stepc_adv m c
    rw [← this]

theorem run_append (m : M) (a b : Str) : run m (a ++ b) = run (run m a) b := by
  simp [run, List.foldl_append]

theorem run_cons (m : M) (c : Char) (r : Str) : run m (c :: r) = run (stepc m c) r := rfl

/-! ### one character that is not top-level whitespace, from START_WHITESPACE -/

theorem stepc_startWs {m : M} {c : Char} (hs : m.step = .startWs) (hm : isTopWs m.esc m.level c = false) :
    (stepc m c).step = .startWs ∧ (stepc m c).done = m.done ∧ (stepc m c).curStart = m.curStart ∧
      (stepc m c).possibleEnd = m.possibleEnd := by
  unfold stepc
  by_cases he : m.esc = true
  · simp [he, hs]
  · have he' : m.esc = false := by simpa using he
    by_cases h1 : c = '\\'
    · simp [he', h1, hs]
    · by_cases h2 : c = '{'
      · simp [he', h2, hs]
      · by_cases h3 : c = '}'
        · simp [he', h3]
        · by_cases h4 : m.level > 0
          · simp [he', h1, h2, h3, h4]
          · have h4' : m.level = 0 := by omega
            have hw : isWs c = false := by simpa [isTopWs, he', h4'] using hm
            simp [he', h1, h2, h3, h4, plainStep, hs, hw]

theorem run_startWs (u : Str) : ∀ {m : M}, m.step = .startWs → AllMark false m.esc m.level u →
    (run m u).step = .startWs ∧ (run m u).done = m.done ∧ (run m u).curStart = m.curStart ∧
      (run m u).possibleEnd = m.possibleEnd := by
  induction u with
  | nil => intro m hs _; exact ⟨hs, rfl, rfl, rfl⟩
  | cons c r ih =>
    intro m hs hm
    obtain ⟨h1, h2⟩ := hm
    obtain ⟨s1, s2, s3, s4⟩ := stepc_startWs hs h1
    have hadv := stepc_adv m c
    have : AllMark false (stepc m c).esc (stepc m c).level r := by
      have e1 : (stepc m c).esc = (adv m.esc m.level c).1 := by rw [← hadv]
      have e2 : (stepc m c).level = (adv m.esc m.level c).2 := by rw [← hadv]
      rw [e1, e2]; exact h2
    obtain ⟨i1, i2, i3, i4⟩ := ih s1 this
    rw [run_cons]
    exact ⟨i1, by rw [i2, s2], by rw [i3, s3], by rw [i4, s4]⟩

/-! ### a run of top-level whitespace -/

theorem topWs_state {e : Bool} {d : Nat} {c : Char} (h : isTopWs e d c = true) :
    e = false ∧ d = 0 ∧ isWs c = true := by
  have : (e = false ∧ d = 0) ∧ isWs c = true := by simpa [isTopWs] using h
  exact ⟨this.1.1, this.1.2, this.2⟩

theorem isWs_not_special {c : Char} (h : isWs c = true) : c ≠ '\\' ∧ c ≠ '{' ∧ c ≠ '}' := by
  simp only [isWs, Bool.or_eq_true, decide_eq_true_eq] at h
  rcases h with ((h | h) | h) | h <;> subst h <;> decide

theorem isWs_not_letter {c : Char} (h : isWs c = true) :
    c ≠ 'a' ∧ c ≠ 'A' ∧ c ≠ 'n' ∧ c ≠ 'N' ∧ c ≠ 'd' ∧ c ≠ 'D' := by
  simp only [isWs, Bool.or_eq_true, decide_eq_true_eq] at h
  rcases h with ((h | h) | h) | h <;> subst h <;> decide

theorem adv_topWs {e : Bool} {d : Nat} {c : Char} (h : isTopWs e d c = true) : adv e d c = (false, 0) := by
  obtain ⟨h1, h2, h3⟩ := topWs_state h
  obtain ⟨n1, n2, n3⟩ := isWs_not_special h3
  simp [adv, h1, h2, n1, n2, n3]

/-- what whitespace does to the step -/
def gapStep : Step → Step
  | .startWs | .findN | .findD | .findA => .findA
  | .endWs | .nextWord => .nextWord

/-- does whitespace in this step record `possible_end`? -/
def setsEnd : Step → Bool
  | .startWs | .findN | .findD => true
  | _ => false

theorem stepc_topWs {m : M} {c : Char} (h : isTopWs m.esc m.level c = true) :
    (stepc m c).step = gapStep m.step ∧ (stepc m c).done = m.done ∧ (stepc m c).curStart = m.curStart ∧
      (stepc m c).possibleEnd = (if setsEnd m.step then m.pos else m.possibleEnd) := by
  obtain ⟨h1, h2, h3⟩ := topWs_state h
  obtain ⟨n1, n2, n3⟩ := isWs_not_special h3
  unfold stepc
  have h2' : ¬ m.level > 0 := by omega
  simp only [h1, n1, n2, n3, h2', if_false, Bool.false_eq_true]
  obtain ⟨l1, l2, l3, l4, l5, l6⟩ := isWs_not_letter h3
  unfold plainStep
  cases hs : m.step <;> simp [h3, gapStep, setsEnd, l1, l2, l3, l4, l5, l6]

theorem run_gap (g : Str) : ∀ {m : M}, AllMark true m.esc m.level g → g ≠ [] →
    (run m g).step = gapStep m.step ∧ (run m g).done = m.done ∧ (run m g).curStart = m.curStart ∧
      (run m g).possibleEnd = (if setsEnd m.step then m.pos else m.possibleEnd) ∧
      (run m g).esc = false ∧ (run m g).level = 0 := by
  induction g with
  | nil => intro m _ h; exact absurd rfl h
  | cons c r ih =>
    intro m hm _
    obtain ⟨h1, h2⟩ := hm
    obtain ⟨s1, s2, s3, s4⟩ := stepc_topWs h1
    have hadv := stepc_adv m c
    rw [adv_topWs h1] at hadv
    have e1 : (stepc m c).esc = false := by have := congrArg Prod.fst hadv; simpa using this
    have e2 : (stepc m c).level = 0 := by have := congrArg Prod.snd hadv; simpa using this
    rw [run_cons]
    by_cases hr : r = []
    · subst hr
      exact ⟨s1, s2, s3, s4, e1, e2⟩
    · have hm' : AllMark true (stepc m c).esc (stepc m c).level r := by
        rw [e1, e2]; rw [adv_topWs h1] at h2; exact h2
      obtain ⟨i1, i2, i3, i4, i5, i6⟩ := ih hm' hr
      refine ⟨?_, by rw [i2, s2], by rw [i3, s3], ?_, i5, i6⟩
      · rw [i1, s1]; cases m.step <;> rfl
      · rw [i4, s1, s4]; cases m.step <;> rfl

/-! ### a word run -/

theorem notTopWs_plain {m : M} {c : Char} (h : isTopWs m.esc m.level c = false) (he : m.esc = false)
    (hl : m.level = 0) : isWs c = false := by
  simpa [isTopWs, he, hl] using h

/-- the first character of a word read in NEXT_WORD opens a new span (it is not `}`) -/
theorem stepc_nextWord {m : M} {c : Char} (hs : m.step = .nextWord) (he : m.esc = false) (hl : m.level = 0)
    (hm : isTopWs m.esc m.level c = false) (hc : c ≠ '}') :
    (stepc m c).step = .startWs ∧ (stepc m c).done = (m.curStart, m.possibleEnd) :: m.done ∧
      (stepc m c).curStart = m.pos := by
  have hw := notTopWs_plain hm he hl
  unfold stepc
  by_cases h1 : c = '\\'
  · simp [he, h1, hs, M.newSpan]
  · by_cases h2 : c = '{'
    · simp [he, h2, hs, M.newSpan]
    · simp [he, h1, h2, hc, hl, plainStep, hs, hw, M.newSpan]

/-- a whole word read from NEXT_WORD -/
theorem run_word_next {m : M} {c : Char} {u : Str} (hs : m.step = .nextWord) (he : m.esc = false)
    (hl : m.level = 0) (hm : AllMark false m.esc m.level (c :: u)) (hc : c ≠ '}') :
    (run m (c :: u)).step = .startWs ∧ (run m (c :: u)).done = (m.curStart, m.possibleEnd) :: m.done ∧
      (run m (c :: u)).curStart = m.pos := by
  obtain ⟨h1, h2⟩ := hm
  obtain ⟨s1, s2, s3⟩ := stepc_nextWord hs he hl h1 hc
  have hadv := stepc_adv m c
  have : AllMark false (stepc m c).esc (stepc m c).level u := by
    have e1 : (stepc m c).esc = (adv m.esc m.level c).1 := by rw [← hadv]
    have e2 : (stepc m c).level = (adv m.esc m.level c).2 := by rw [← hadv]
    rw [e1, e2]; exact h2
  obtain ⟨i1, i2, i3, _⟩ := run_startWs u s1 this
  rw [run_cons]
  exact ⟨i1, by rw [i2, s2], by rw [i3, s3]⟩

/-- a plain character at depth 0 keeps depth and escape flag -/
theorem stepc_plain_state {m : M} {c : Char} (he : m.esc = false) (hl : m.level = 0)
    (h1 : c ≠ '\\') (h2 : c ≠ '{') (h3 : c ≠ '}') :
    stepc m c = plainStep { m with pos := m.pos + 1 } m.pos c := by
  unfold stepc
  simp [he, hl, h1, h2, h3]

/-- one non-whitespace character read in a step other than NEXT_WORD: spans untouched -/
theorem stepc_word_quiet {m : M} {c : Char} (hs : m.step ≠ .nextWord)
    (hm : isTopWs m.esc m.level c = false) :
    (stepc m c).done = m.done ∧ (stepc m c).curStart = m.curStart ∧
      ((stepc m c).step ≠ .startWs → (stepc m c).possibleEnd = m.possibleEnd) := by
  unfold stepc
  by_cases he : m.esc = true
  · simp [he]
  · have he' : m.esc = false := by simpa using he
    by_cases h1 : c = '\\'
    · simp [he', h1, hs]
    · by_cases h2 : c = '{'
      · simp [he', h2, hs]
      · by_cases h3 : c = '}'
        · simp [he', h3]
        · by_cases h4 : m.level > 0
          · simp [he', h1, h2, h3, h4]
          · have h4' : m.level = 0 := by omega
            have hw : isWs c = false := by simpa [isTopWs, he', h4'] using hm
            simp only [he', h1, h2, h3, h4, if_false, Bool.false_eq_true]
            unfold plainStep
            cases hst : m.step <;> simp only [hw] <;> (repeat' split) <;> simp_all

theorem allMark_cons {b : Bool} {m : M} {c : Char} {r : Str} (h : AllMark b m.esc m.level (c :: r)) :
    isTopWs m.esc m.level c = b ∧ AllMark b (stepc m c).esc (stepc m c).level r := by
  obtain ⟨h1, h2⟩ := h
  have hadv := stepc_adv m c
  have e1 : (stepc m c).esc = (adv m.esc m.level c).1 := by rw [← hadv]
  have e2 : (stepc m c).level = (adv m.esc m.level c).2 := by rw [← hadv]
  exact ⟨h1, by rw [e1, e2]; exact h2⟩

/-- the letter FIND_A / FIND_N / FIND_D is waiting for -/
def expect : Step → Char → Bool
  | .findA, c => isA c
  | .findN, c => isN c
  | .findD, c => isD c
  | _, _ => false

def nextOf : Step → Step
  | .findA => .findN
  | .findN => .findD
  | .findD => .endWs
  | s => s

/-- a non-whitespace character read in FIND_A/N/D/END_WHITESPACE at depth 0 -/
theorem stepc_find {m : M} {c : Char} (hs : m.step ≠ .startWs ∧ m.step ≠ .nextWord) (he : m.esc = false)
    (hl : m.level = 0) (hm : isTopWs m.esc m.level c = false) :
    (stepc m c).done = m.done ∧ (stepc m c).curStart = m.curStart ∧
      (if expect m.step c then
        (stepc m c).step = nextOf m.step ∧ (stepc m c).esc = false ∧ (stepc m c).level = 0 ∧
          (stepc m c).possibleEnd = m.possibleEnd
       else (stepc m c).step = .startWs) := by
  have hw := notTopWs_plain hm he hl
  unfold stepc
  by_cases h1 : c = '\\'
  · subst h1
    have : expect m.step '\\' = false := by cases m.step <;> simp [expect, isA, isN, isD]
    simp [he, hs.2, this]
  · by_cases h2 : c = '{'
    · subst h2
      have : expect m.step '{' = false := by cases m.step <;> simp [expect, isA, isN, isD]
      simp [he, hs.2, this]
    · by_cases h3 : c = '}'
      · subst h3
        have : expect m.step '}' = false := by cases m.step <;> simp [expect, isA, isN, isD]
        simp [he, this]
      · simp only [he, h1, h2, h3, hl, if_false, Bool.false_eq_true, Nat.lt_irrefl]
        unfold plainStep
        cases hst : m.step
        · exact absurd hst hs.1
        · by_cases ha : (c = 'a' || c = 'A') = true
          · simp [expect, nextOf, isA, ha, he, hl]
          · have ha' : (c = 'a' || c = 'A') = false := by simpa using ha
            simp only [ha', hw]; simp [expect, isA, ha']
        · by_cases ha : (c = 'n' || c = 'N') = true
          · simp [expect, nextOf, isN, ha, he, hl]
          · have ha' : (c = 'n' || c = 'N') = false := by simpa using ha
            simp only [ha', hw]; simp [expect, isN, ha']
        · by_cases ha : (c = 'd' || c = 'D') = true
          · simp [expect, nextOf, isD, ha, he, hl]
          · have ha' : (c = 'd' || c = 'D') = false := by simpa using ha
            simp only [ha', hw]; simp [expect, isD, ha']
        · simp [expect, hw]
        · exact absurd hst hs.2

/-- if a character sends the machine to START_WHITESPACE, the rest of the word keeps it there -/
theorem run_word_reset {m : M} {c : Char} {r : Str} (hq : (stepc m c).done = m.done ∧ (stepc m c).curStart = m.curStart)
    (hs : (stepc m c).step = .startWs) (hm : AllMark false m.esc m.level (c :: r)) :
    (run m (c :: r)).step = .startWs ∧ (run m (c :: r)).done = m.done ∧ (run m (c :: r)).curStart = m.curStart := by
  obtain ⟨_, h2⟩ := allMark_cons hm
  obtain ⟨i1, i2, i3, _⟩ := run_startWs r hs h2
  rw [run_cons]
  exact ⟨i1, by rw [i2, hq.1], by rw [i3, hq.2]⟩

theorem isAndWord_three (a n d : Char) : isAndWord [a, n, d] = (isA a && isN n && isD d) := rfl

/-- **a whole word read from FIND_A**: the spans are untouched; the machine ends in END_WHITESPACE
(with `possible_end` unchanged) iff the word is `and` in some letter case, otherwise in one of
START_WHITESPACE / FIND_N / FIND_D -/
theorem run_word_findA {m : M} {w : Str} (hs : m.step = .findA) (he : m.esc = false) (hl : m.level = 0)
    (hm : AllMark false m.esc m.level w) (hw : w ≠ []) :
    (run m w).done = m.done ∧ (run m w).curStart = m.curStart ∧
      ((isAndWord w = true ∧ (run m w).step = .endWs ∧ (run m w).possibleEnd = m.possibleEnd) ∨
       (isAndWord w = false ∧ setsEnd (run m w).step = true)) := by
  match w, hw with
  | c1 :: r1, _ =>
    obtain ⟨m1, hm1⟩ := allMark_cons hm
    obtain ⟨q1, q2, q3⟩ := stepc_find (c := c1) (by simp [hs]) he hl m1
    rw [hs] at q3
    by_cases a1 : isA c1 = true
    · simp only [expect, a1, if_true, nextOf] at q3
      obtain ⟨s1, e1, l1, p1⟩ := q3
      match r1 with
      | [] =>
        refine ⟨q1, q2, Or.inr ⟨rfl, ?_⟩⟩
        show setsEnd (stepc m c1).step = true
        rw [s1]; rfl
      | c2 :: r2 =>
        obtain ⟨m2, hm2⟩ := allMark_cons hm1
        obtain ⟨u1, u2, u3⟩ := stepc_find (c := c2) (by simp [s1]) e1 l1 m2
        rw [s1] at u3
        by_cases a2 : isN c2 = true
        · simp only [expect, a2, if_true, nextOf] at u3
          obtain ⟨s2, e2, l2, p2⟩ := u3
          match r2 with
          | [] =>
            refine ⟨by rw [run_cons, run_cons]; exact u1.trans q1, by rw [run_cons, run_cons]; exact u2.trans q2,
              Or.inr ⟨rfl, ?_⟩⟩
            show setsEnd (stepc (stepc m c1) c2).step = true
            rw [s2]; rfl
          | c3 :: r3 =>
            obtain ⟨m3, hm3⟩ := allMark_cons hm2
            obtain ⟨v1, v2, v3⟩ := stepc_find (c := c3) (by simp [s2]) e2 l2 m3
            rw [s2] at v3
            by_cases a3 : isD c3 = true
            · simp only [expect, a3, if_true, nextOf] at v3
              obtain ⟨s3, e3, l3, p3⟩ := v3
              match r3 with
              | [] =>
                refine ⟨by rw [run_cons, run_cons, run_cons]; exact v1.trans (u1.trans q1),
                  by rw [run_cons, run_cons, run_cons]; exact v2.trans (u2.trans q2), Or.inl ⟨?_, ?_, ?_⟩⟩
                · rw [isAndWord_three]; simp [a1, a2, a3]
                · exact s3
                · show (stepc (stepc (stepc m c1) c2) c3).possibleEnd = m.possibleEnd
                  rw [p3, p2, p1]
              | c4 :: r4 =>
                obtain ⟨m4, _⟩ := allMark_cons hm3
                obtain ⟨x1, x2, x3⟩ := stepc_find (c := c4) (by simp [s3]) e3 l3 m4
                rw [s3] at x3
                simp only [expect, Bool.false_eq_true, if_false] at x3
                obtain ⟨y1, y2, y3⟩ := run_word_reset ⟨x1, x2⟩ x3 hm3
                rw [run_cons, run_cons, run_cons]
                refine ⟨y2.trans (v1.trans (u1.trans q1)), y3.trans (v2.trans (u2.trans q2)),
                  Or.inr ⟨rfl, by rw [y1]; rfl⟩⟩
            · have a3' : isD c3 = false := by simpa using a3
              simp only [expect, a3', Bool.false_eq_true, if_false] at v3
              obtain ⟨y1, y2, y3⟩ := run_word_reset ⟨v1, v2⟩ v3 hm2
              rw [run_cons, run_cons]
              refine ⟨y2.trans (u1.trans q1), y3.trans (u2.trans q2), Or.inr ⟨?_, by rw [y1]; rfl⟩⟩
              match r3 with
              | [] => rw [isAndWord_three]; simp [a3']
              | _ :: _ => rfl
        · have a2' : isN c2 = false := by simpa using a2
          simp only [expect, a2', Bool.false_eq_true, if_false] at u3
          obtain ⟨y1, y2, y3⟩ := run_word_reset ⟨u1, u2⟩ u3 hm1
          rw [run_cons]
          refine ⟨y2.trans q1, y3.trans q2, Or.inr ⟨?_, by rw [y1]; rfl⟩⟩
          match r2 with
          | [] => rfl
          | [c3] => rw [isAndWord_three]; simp [a2']
          | _ :: _ :: _ => rfl
    · have a1' : isA c1 = false := by simpa using a1
      simp only [expect, a1', Bool.false_eq_true, if_false] at q3
      obtain ⟨y1, y2, y3⟩ := run_word_reset ⟨q1, q2⟩ q3 hm
      refine ⟨y2, y3, Or.inr ⟨?_, by rw [y1]; rfl⟩⟩
      match r1 with
      | [] => rfl
      | [_] => rfl
      | [c2, c3] => rw [isAndWord_three]; simp [a1']
      | _ :: _ :: _ :: _ => rfl

/-! ### the machine and the reference splitter, pair by pair -/

/-- the spans of the machine describe the decomposition `cs = flat l ++ tail` -/
def Base (m : M) (cs : Str) (l : List (Str × Str)) (tail : Str) : Prop :=
  cs = flat l ++ tail ∧ m.pos = cs.length ∧ m.curStart = (flat l).length ∧ m.done.reverse = spansFrom 0 l

theorem base_quiet {m m' : M} {cs : Str} {l : List (Str × Str)} {tail : Str} (u : Str)
    (h : Base m cs l tail) (hd : m'.done = m.done) (hc : m'.curStart = m.curStart)
    (hp : m'.pos = m.pos + u.length) : Base m' (cs ++ u) l (tail ++ u) := by
  obtain ⟨h1, h2, h3, h4⟩ := h
  exact ⟨by rw [h1]; simp, by rw [hp, h2]; simp, by rw [hc, h3], by rw [hd, h4]⟩

theorem base_newSpan {m m' : M} {cs : Str} {l : List (Str × Str)} {piece sp : Str} (u : Str)
    (h : Base m cs l (piece ++ sp)) (hpe : m.possibleEnd = m.curStart + piece.length)
    (hd : m'.done = (m.curStart, m.possibleEnd) :: m.done) (hc : m'.curStart = m.pos)
    (hp : m'.pos = m.pos + u.length) : Base m' (cs ++ u) (l ++ [(piece, sp)]) u := by
  obtain ⟨h1, h2, h3, h4⟩ := h
  refine ⟨?_, by rw [hp, h2]; simp, ?_, ?_⟩
  · rw [h1, flat_append]; simp [flat]
  · rw [hc, h2, h1, flat_append]; simp [flat]
  · rw [hd, List.reverse_cons, h4, spansFrom_append]
    simp [spansFrom, h3, hpe]

/-- runs alternate whitespace / word, starting with whitespace and ending with a word -/
def GW (e : Bool) (d : Nat) : List (Bool × Str) → Prop
  | [] => True
  | [_] => False
  | (a, g) :: (b, w) :: rest =>
    a = true ∧ b = false ∧ g ≠ [] ∧ AllMark true e d g ∧ w ≠ [] ∧
      AllMark false (endSt e d g).1 (endSt e d g).2 w ∧
      GW (endSt (endSt e d g).1 (endSt e d g).2 w).1 (endSt (endSt e d g).1 (endSt e d g).2 w).2 rest

/-- the text of the runs -/
def runsText (R : List (Bool × Str)) : Str := (R.map Prod.snd).flatten

/-- where the reference splitter stands, and the machine with it: `emitted` pieces are closed, `cur`
is the open piece, `pend` a word `and` (with the whitespace before it) that may still turn out
to be a separator -/
def Macro (m : M) (cs : Str) (emitted : List Str) (cur : Str) (pend : Option Str) : Prop :=
  ∃ l tail, Base m cs l tail ∧ l.map Prod.fst = emitted ∧
    match pend with
    | none => tail = cur ∧ setsEnd m.step = true
    | some x => tail = cur ++ x ∧ m.step = .endWs ∧ m.possibleEnd = m.curStart + cur.length

theorem endSt_run (m : M) (u : Str) : endSt m.esc m.level u = ((run m u).esc, (run m u).level) :=
  (run_adv u m).symm

/-- no unescaped `}` at depth 0 in `u` read from `(e, d)` -/
def NoClose (e : Bool) (d : Nat) (u : Str) : Prop := NameP.unmatchedClose e d u = false

theorem noClose_append {e : Bool} {d : Nat} {a b : Str} (h : NoClose e d (a ++ b)) :
    NoClose e d a ∧ NoClose (endSt e d a).1 (endSt e d a).2 b := by
  induction a generalizing e d with
  | nil => exact ⟨rfl, h⟩
  | cons c r ih =>
    unfold NoClose at h ⊢
    simp only [List.cons_append, NameP.unmatchedClose, endSt, adv] at h ⊢
    by_cases he : e = true
    · simp only [he, if_true] at h ⊢
      exact ih h
    · simp only [he, if_false, Bool.false_eq_true] at h ⊢
      by_cases h1 : c = '\\'
      · simp only [h1, if_true] at h ⊢
        exact ih h
      · simp only [h1, if_false] at h ⊢
        by_cases h2 : c = '{'
        · simp only [h2, if_true] at h ⊢
          exact ih h
        · simp only [h2, if_false] at h ⊢
          by_cases h3 : c = '}'
          · simp only [h3, if_true, Bool.or_eq_false_iff] at h ⊢
            obtain ⟨i1, i2⟩ := ih h.2
            exact ⟨⟨h.1, i1⟩, i2⟩
          · simp only [h3, if_false] at h ⊢
            exact ih h

theorem noClose_head {c : Char} {r : Str} (h : NoClose false 0 (c :: r)) : c ≠ '}' := by
  intro hc
  subst hc
  simp [NoClose, NameP.unmatchedClose] at h

theorem setsEnd_gapStep {st : Step} (h : setsEnd st = true) : gapStep st = .findA := by
  cases st <;> simp_all [setsEnd, gapStep]

/-- the reference splitter as a state transformer over the pairs: (pieces closed, open piece,
pending `and`) -/
def refState (cur : Str) (pend : Option Str) : List (Str × Str) → List Str × Str × Option Str
  | [] => ([], cur, pend)
  | (g, w) :: rest =>
    match pend with
    | some _ => (cur :: (refState w none rest).1, (refState w none rest).2.1, (refState w none rest).2.2)
    | none => if isAndWord w then refState cur (some (g ++ w)) rest else refState (cur ++ g ++ w) none rest

def refFinish (cur : Str) (pend : Option Str) : List Str :=
  match pend with
  | none => [cur]
  | some x => [cur ++ x]

theorem refGo_eq (pairs : List (Str × Str)) : ∀ (cur : Str) (pend : Option Str),
    refGo cur pend pairs =
      (refState cur pend pairs).1 ++ refFinish (refState cur pend pairs).2.1 (refState cur pend pairs).2.2 := by
  induction pairs with
  | nil => intro cur pend; cases pend <;> simp [refGo, refState, refFinish]
  | cons x rest ih =>
    intro cur pend
    obtain ⟨g, w⟩ := x
    cases pend with
    | some y => simp [refGo, refState, ih]
    | none =>
      by_cases ha : isAndWord w = true
      · simp [refGo, refState, ha, ih]
      · simp [refGo, refState, ha, ih]

theorem refState_append (p1 : List (Str × Str)) : ∀ (cur : Str) (pend : Option Str) (p2 : List (Str × Str)),
    refState cur pend (p1 ++ p2) =
      ((refState cur pend p1).1 ++ (refState (refState cur pend p1).2.1 (refState cur pend p1).2.2 p2).1,
       (refState (refState cur pend p1).2.1 (refState cur pend p1).2.2 p2).2) := by
  induction p1 with
  | nil => intro cur pend p2; simp [refState]
  | cons x rest ih =>
    intro cur pend p2
    obtain ⟨g, w⟩ := x
    cases pend with
    | some y => simp [refState, ih]
    | none =>
      by_cases ha : isAndWord w = true
      · simp [refState, ha, ih]
      · simp [refState, ha, ih]

/-- **the machine against the reference splitter over the (whitespace, word) pairs** -/
theorem macro_run : ∀ (R : List (Bool × Str)) (m : M) (cs : Str) (emitted : List Str) (cur : Str)
    (pend : Option Str), Macro m cs emitted cur pend → GW m.esc m.level R →
    NoClose m.esc m.level (runsText R) →
    Macro (run m (runsText R)) (cs ++ runsText R) (emitted ++ (refState cur pend (pairUp R)).1)
      (refState cur pend (pairUp R)).2.1 (refState cur pend (pairUp R)).2.2
  | [], m, cs, emitted, cur, pend, hM, _, _ => by
    simpa [runsText, run, pairUp, refState] using hM
  | [_], _, _, _, _, _, _, hG, _ => by simp [GW] at hG
  | (a, g) :: (b, w) :: rest, m, cs, emitted, cur, pend, hM, hG, hN => by
    obtain ⟨ha, hb, hg, hgm, hw, hwm, hrest⟩ := hG
    subst ha; subst hb
    have htxt : runsText ((true, g) :: (false, w) :: rest) = g ++ (w ++ runsText rest) := by
      simp [runsText]
    rw [htxt] at hN ⊢
    -- the whitespace run
    obtain ⟨g1, g2, g3, g4, g5, g6⟩ := run_gap g hgm hg
    have hes : endSt m.esc m.level g = (false, 0) := by rw [endSt_run, g5, g6]
    rw [hes] at hwm hrest
    obtain ⟨_, hN2⟩ := noClose_append hN
    rw [hes] at hN2
    obtain ⟨hNw, hNr⟩ := noClose_append hN2
    have hwm1 : AllMark false (run m g).esc (run m g).level w := by rw [g5, g6]; exact hwm
    have hes2 : endSt false 0 w = ((run (run m g) w).esc, (run (run m g) w).level) := by
      have := endSt_run (run m g) w
      rw [g5, g6] at this; exact this
    have hrun : run m (g ++ (w ++ runsText rest)) = run (run (run m g) w) (runsText rest) := by
      rw [run_append, run_append]
    have hcs : cs ++ (g ++ (w ++ runsText rest)) = (cs ++ (g ++ w)) ++ runsText rest := by simp
    rw [hrun, hcs]
    have hpos2 : (run (run m g) w).pos = m.pos + (g ++ w).length := by
      rw [run_pos, run_pos]; simp; omega
    have hG' : GW (run (run m g) w).esc (run (run m g) w).level rest := by
      rw [hes2] at hrest; exact hrest
    have hN' : NoClose (run (run m g) w).esc (run (run m g) w).level (runsText rest) := by
      rw [hes2] at hNr; exact hNr
    obtain ⟨l, tail, hbase, hem, hp⟩ := hM
    cases pend with
    | none =>
      obtain ⟨ht, hse⟩ := hp
      have s1 : (run m g).step = .findA := by rw [g1]; exact setsEnd_gapStep hse
      have pe1 : (run m g).possibleEnd = m.pos := by rw [g4, hse]; rfl
      obtain ⟨w1, w2, w3⟩ := run_word_findA s1 g5 g6 hwm1 hw
      have hb2 : Base (run (run m g) w) (cs ++ (g ++ w)) l (tail ++ (g ++ w)) :=
        base_quiet (g ++ w) hbase (w1.trans g2) (w2.trans g3) hpos2
      rcases w3 with ⟨i1, i2, i3⟩ | ⟨i1, i2⟩
      · -- the word is `and`: pending
        have hM' : Macro (run (run m g) w) (cs ++ (g ++ w)) emitted cur (some (g ++ w)) := by
          refine ⟨l, tail ++ (g ++ w), hb2, hem, by rw [ht], i2, ?_⟩
          rw [i3, pe1, w2, g3]
          obtain ⟨b1, b2, b3, _⟩ := hbase
          rw [b2, b3, b1, ht]; simp
        have := macro_run rest _ _ _ _ _ hM' hG' hN'
        simpa [pairUp, refState, i1] using this
      · have hM' : Macro (run (run m g) w) (cs ++ (g ++ w)) emitted (cur ++ g ++ w) none := by
          refine ⟨l, tail ++ (g ++ w), hb2, hem, by rw [ht]; simp, i2⟩
        have := macro_run rest _ _ _ _ _ hM' hG' hN'
        simpa [pairUp, refState, i1] using this
    | some x =>
      obtain ⟨ht, hst, hpe⟩ := hp
      have s1 : (run m g).step = .nextWord := by rw [g1, hst]; rfl
      have pe1 : (run m g).possibleEnd = m.possibleEnd := by rw [g4, hst]; rfl
      match w, hw with
      | c :: u, _ =>
        have hc : c ≠ '}' := noClose_head hNw
        obtain ⟨w1, w2, w3⟩ := run_word_next s1 g5 g6 hwm1 hc
        have hb1 : Base (run m g) (cs ++ g) l ((cur) ++ (x ++ g)) := by
          have := base_quiet g hbase g2 g3 (run_pos g m)
          rw [ht] at this; simpa using this
        have hb2 : Base (run (run m g) (c :: u)) (cs ++ g ++ (c :: u)) (l ++ [(cur, x ++ g)]) (c :: u) :=
          base_newSpan (c :: u) hb1 (by rw [pe1, g3, hpe]) w2 w3 (run_pos _ _)
        have hM' : Macro (run (run m g) (c :: u)) (cs ++ (g ++ (c :: u))) (emitted ++ [cur]) (c :: u) none := by
          refine ⟨l ++ [(cur, x ++ g)], c :: u, by simpa using hb2, by simp [hem], rfl, by rw [w1]; rfl⟩
        have := macro_run rest _ _ _ _ _ hM' hG' hN'
        simpa [pairUp, refState] using this

/-- the pieces at the end of the text -/
theorem macro_final {m : M} {cs : Str} {emitted : List Str} {cur : Str} {pend : Option Str}
    (h : Macro m cs emitted cur pend) :
    ∃ l tail, Base m cs l tail ∧ l.map Prod.fst ++ [tail] = emitted ++ refFinish cur pend := by
  obtain ⟨l, tail, hb, he, hp⟩ := h
  refine ⟨l, tail, hb, ?_⟩
  cases pend with
  | none => simp [refFinish, he, hp.1]
  | some x => simp [refFinish, he, hp.1]

/-! ### from the runs of `cut` to the pairs -/

theorem allMark_true_ws {e : Bool} {d : Nat} {u : Str} (h : AllMark true e d u) : ∀ c ∈ u, isWs c = true := by
  induction u generalizing e d with
  | nil => intro c hc; simp at hc
  | cons a r ih =>
    intro c hc
    obtain ⟨h1, h2⟩ := h
    rcases List.mem_cons.mp hc with hc | hc
    · subst hc; exact (topWs_state h1).2.2
    · exact ih h2 c hc

/-- the flag of the last run -/
def lastFlag : List (Bool × Str) → Bool
  | [] => false
  | [(m, _)] => m
  | _ :: x :: r => lastFlag (x :: r)

theorem lastFlag_ws : ∀ (R : List (Bool × Str)) (e : Bool) (d : Nat), RunsOK e d R → lastFlag R = true →
    ∃ c, (runsText R).getLast? = some c ∧ isWs c = true
  | [], _, _, _, h => by simp [lastFlag] at h
  | [(m, u)], e, d, hR, h => by
    simp only [lastFlag] at h
    subst h
    simp only [RunsOK] at hR
    obtain ⟨hu, hm, _, _⟩ := hR
    obtain ⟨i, x, hx, _⟩ := NameP.snoc_of_ne_nil u hu
    exact ⟨x, by simp [runsText, hx], allMark_true_ws hm x (by rw [hx]; simp)⟩
  | (m, u) :: y :: r, e, d, hR, h => by
    simp only [lastFlag] at h
    simp only [RunsOK] at hR
    obtain ⟨_, _, hrest, _⟩ := hR
    obtain ⟨c, hc, hw⟩ := lastFlag_ws (y :: r) _ _ hrest h
    refine ⟨c, ?_, hw⟩
    have : runsText ((m, u) :: y :: r) = u ++ runsText (y :: r) := by simp [runsText]
    rw [this, List.getLast?_append, hc]; rfl

theorem gw_of_runsOK : ∀ (R : List (Bool × Str)) (e : Bool) (d : Nat) (w : Str),
    RunsOK e d ((false, w) :: R) → lastFlag ((false, w) :: R) = false →
    GW (endSt e d w).1 (endSt e d w).2 R
  | [], _, _, _, _, _ => by simp [GW]
  | [(f, g)], e, d, w, hR, hl => by
    simp only [RunsOK] at hR
    obtain ⟨_, _, _, ha⟩ := hR
    simp only [lastFlag] at hl
    simp at ha
    rw [ha] at hl; cases hl
  | (f, g) :: (f', w') :: R, e, d, w, hR, hl => by
    simp only [RunsOK] at hR
    obtain ⟨_, _, ⟨hg, hgm, ⟨hw', hwm', hrest, halt'⟩, halt2⟩, halt⟩ := hR
    simp at halt halt2
    subst halt
    simp at halt2
    subst halt2
    simp only [GW]
    refine ⟨trivial, trivial, hg, hgm, hw', hwm', ?_⟩
    have hl' : lastFlag ((false, w') :: R) = false := by
      simpa [lastFlag] using hl
    exact gw_of_runsOK R _ _ w' ⟨hw', hwm', hrest, halt'⟩ hl'

/-- **the machine equals the reference splitter on every text without an unmatched closing brace** -/
theorem split_eq_splitWords (s : Str) (h : NoClose false 0 (stripWs s)) : split s = splitWords s := by
  unfold split splitWords
  simp only
  cases ht : stripWs s with
  | nil => simp [cut]
  | cons c0 r0 =>
    simp only [List.isEmpty_cons, Bool.false_eq_true, if_false]
    rw [← ht]
    obtain ⟨hok, htext⟩ := cut_ok (stripWs s) false 0
    have hc0 : isWs c0 = false := stripWs_head s c0 r0 ht
    -- the first run is a word
    have hcut : ∃ w0 R, cut false 0 (stripWs s) = (false, w0) :: R := by
      rw [ht, cut_cons]
      have hf : isTopWs false 0 c0 = false := by simp [isTopWs, hc0]
      rw [hf]
      cases cut (adv false 0 c0).1 (adv false 0 c0).2 r0 with
      | nil => exact ⟨_, _, rfl⟩
      | cons x more =>
        obtain ⟨m', run'⟩ := x
        simp only
        by_cases hm : false = m'
        · rw [if_pos hm]; exact ⟨_, _, rfl⟩
        · rw [if_neg hm]; exact ⟨_, _, rfl⟩
    obtain ⟨w0, R, hcut⟩ := hcut
    rw [hcut] at hok htext ⊢
    simp only
    have htext' : stripWs s = w0 ++ runsText R := by
      rw [← htext]; simp [runsText]
    -- the last run is a word
    have hlast : lastFlag ((false, w0) :: R) = false := by
      cases hl : lastFlag ((false, w0) :: R) with
      | false => rfl
      | true =>
        obtain ⟨c, hc, hw⟩ := lastFlag_ws _ _ _ hok hl
        have : runsText ((false, w0) :: R) = stripWs s := by rw [htext']; simp [runsText]
        rw [this] at hc
        have := stripWs_last s c hc
        rw [hw] at this; cases this
    have hgw := gw_of_runsOK R false 0 w0 hok hlast
    simp only [RunsOK] at hok
    obtain ⟨hw0, hw0m, _, _⟩ := hok
    -- the first word: the machine stays in START_WHITESPACE
    obtain ⟨f1, f2, f3, _⟩ := run_startWs w0 (m := init) rfl hw0m
    have hes : endSt false 0 w0 = ((run init w0).esc, (run init w0).level) := endSt_run init w0
    rw [hes] at hgw
    rw [htext'] at h
    obtain ⟨_, hN⟩ := noClose_append h
    rw [hes] at hN
    have hM : Macro (run init w0) w0 [] w0 none := by
      refine ⟨[], w0, ⟨by simp [flat], by rw [run_pos]; simp [init], by rw [f3]; simp [flat, init],
        by rw [f2]; simp [spansFrom, init]⟩, rfl, rfl, by rw [f1]; rfl⟩
    obtain ⟨l, tail, hb, hres⟩ := macro_final (macro_run R _ _ _ _ _ hM hgw hN)
    rw [← run_append, ← htext'] at hb
    obtain ⟨b1, _, b3, b4⟩ := hb
    rw [spans_pieces b1 b3 b4, hres, refGo_eq]
    simp

theorem endSt_allWs {u : Str} (h : allWs u) : endSt false 0 u = (false, 0) := by
  induction u with
  | nil => rfl
  | cons c r ih =>
    have hc : isWs c = true := h c (by simp)
    have : adv false 0 c = (false, 0) := adv_topWs (by simp [isTopWs, hc])
    simp only [endSt, this]
    exact ih (fun x hx => h x (by simp [hx]))

theorem noClose_strip {s : Str} (h : NoClose false 0 s) : NoClose false 0 (stripWs s) := by
  obtain ⟨lead, trail, hl, _, hs⟩ := stripWs_decomp s
  rw [hs, List.append_assoc] at h
  obtain ⟨_, h2⟩ := noClose_append h
  rw [endSt_allWs hl] at h2
  exact (noClose_append h2).1

end Bib.CoAuth
