/-
  Lexing text assembled from pieces (for C05/C10): a *simple* piece (no delimiter, no `@`, no
  backslash) followed by a delimiter lexes to one text token and the mark; `@type{` lexes to the
  block-start mark and the brace.
-/
import BibVerif.Lemmas.Relex
import BibVerif.Lemmas.LexAppend
namespace Bib

variable (P : PyChars)

/-- a character that is plain text whatever surrounds it -/
def simpleChar (c : Char) : Bool := (delimKind c).isNone && c != '@' && c != '\\'

def SimpleText (t : Str) : Prop := ∀ c ∈ t, simpleChar c = true

theorem simpleChar_spec {c : Char} (h : simpleChar c = true) :
    delimKind c = none ∧ c ≠ '@' ∧ c ≠ '\\' := by
  simp only [simpleChar, Bool.and_eq_true, Option.isNone_iff_eq_none, bne_iff_ne, ne_eq] at h
  exact ⟨h.1.1, h.1.2, h.2⟩

theorem lastIsBS_simple (b : Bool) (t : Str) (ht : SimpleText t) (hne : t ≠ []) : lastIsBS b t = false := by
  unfold lastIsBS
  have := List.getLast?_eq_some_getLast hne
  rw [this]
  have hm : t.getLast hne ∈ t := List.getLast_mem hne
  have := (simpleChar_spec (ht _ hm)).2.2
  simp [this]

theorem cleanText_simple (b : Bool) (t rest : Str) (ht : SimpleText t) : CleanText P b t rest := by
  intro u c v huv
  have hc : c ∈ t := by rw [huv]; simp
  have hs := simpleChar_spec (ht c hc)
  refine ⟨fun hd => ?_, fun h => absurd h hs.2.1⟩
  rw [hs.1] at hd; simp at hd

/-- a simple piece followed by anything that lexes to tokens starting with a mark -/
theorem lex_simple (b : Bool) (t rest : Str) (ht : SimpleText t) (hne : t ≠ [])
    (hm : startsWithMark (lexFrom P false rest)) :
    lexFrom P b (t ++ rest) = .text t :: lexFrom P false rest :=
  lex_text P b t rest hne (cleanText_simple P b t rest ht) _ (by rw [lastIsBS_simple b t ht hne]) hm

/-- a delimiter character that is not escaped -/
theorem lex_delim (c : Char) (k : Kind) (rest : Str) (hk : delimKind c = some k) :
    lexFrom P false (c :: rest) = .mark k [c] :: lexFrom P false rest :=
  lexFrom_mark_step P false c k rest (by simpa using hk)

/-- a non-empty simple piece followed by a delimiter character: one text token, then the mark -/
theorem lex_simple_delim (b : Bool) (t : Str) (c : Char) (k : Kind) (rest : Str) (ht : SimpleText t)
    (hne : t ≠ []) (hk : delimKind c = some k) :
    lexFrom P b (t ++ c :: rest) = .text t :: .mark k [c] :: lexFrom P false rest := by
  have hstep := lex_delim P c k rest hk
  rw [lex_simple P b t (c :: rest) ht hne (by rw [hstep]; trivial), hstep]

/-- `@type{`: the block-start mark, then the brace -/
theorem lex_at_type (hP : WordOK2 P) (b : Bool) (ty rest : Str) (hty : ∀ x ∈ ty, P.isWord x = true) :
    lexFrom P b ('@' :: (ty ++ '{' :: rest)) =
      .mark .at ('@' :: ty) :: .mark .lbrace ['{'] :: lexFrom P false rest := by
  have hm := atMatch_word_blank P hP ty [] rest hty (by simp)
  simp only [List.append_nil] at hm
  rw [lexFrom_at_step P b _ _ _ hm, lexFrom_lbrace]

/-- a simple piece at the very end of the input -/
theorem lex_simple_end (b : Bool) (t : Str) (ht : SimpleText t) (hne : t ≠ []) :
    lexFrom P b t = [.text t] := by
  have := lex_simple P b t [] ht hne (by simp [lexFrom]; trivial)
  simpa [lexFrom] using this

theorem simpleText_append {a b : Str} (ha : SimpleText a) (hb : SimpleText b) : SimpleText (a ++ b) := by
  intro c hc
  rcases List.mem_append.mp hc with h | h
  · exact ha c h
  · exact hb c h

theorem simpleText_replicate_space (n : Nat) : SimpleText (List.replicate n ' ') := by
  intro c hc
  have := List.eq_of_mem_replicate hc
  subst this; decide

end Bib
