/-
  C05 (print → parse): the default parse stack on blocks whose values are all brace-enclosed, and
  the print–parse theorem assembled from the text, lexing, splitter and pipeline parts.
-/
import BibVerif.Lemmas.PrintParsePipe
namespace Bib.PrintParse
open Bib Bib.Writer Bib.Enclosing Bib.Pipeline Bib.Interpolate

variable {P : PyChars}

/-! ### contents with enclosed values -/

def IsEncVal (v : Val) : Prop := ∃ s, v = .str ('{' :: (s ++ ['}']))

/-- a live block all of whose values are brace-enclosed strings -/
def EncC : Content → Prop
  | .entry _ _ fs => ∀ kv ∈ fs, IsEncVal kv.2
  | .string _ v => IsEncVal v
  | .failed _ => False
  | _ => True

/-- what `RemoveEnclosingMiddleware` does to the values of a block -/
def unencVal (P : PyChars) : Val → Val
  | .str s => .str (stripEnclosing P s).1
  | v => v

def unencC (P : PyChars) : Content → Content
  | .entry ty k fs => .entry ty k (fs.map fun kv => (kv.1, unencVal P kv.2))
  | .string k v => .string k (unencVal P v)
  | c => c

theorem encC_encContent (b : Block) (hb : BlockOK P b) : EncC (encContent b) := by
  match b, hb with
  | .live (.entry e), _ =>
    intro kv hkv
    simp only [encContent, encBlock, contentOf, encFields, List.map_map, List.mem_map] at hkv
    obtain ⟨f, _, rfl⟩ := hkv
    exact ⟨_, rfl⟩
  | .live (.string k v l r m), _ => exact ⟨_, rfl⟩
  | .live (.preamble v l r m), _ => trivial
  | .live (.expl v l r m), _ => trivial
  | .live (.impl v l r m), _ => trivial

theorem stripEnclosing_braced (hP : PrintOK P) (v : Str) : (stripEnclosing P ('{' :: (v ++ ['}']))).1 = v := by
  have hs := strip_braced hP v
  rcases stripEnclosing_cases P ('{' :: (v ++ ['}'])) with ⟨i, hi, hr⟩ | ⟨i, hi, _⟩ | ⟨hn, _, _⟩
  · rw [hs] at hi
    have : v ++ ['}'] = i ++ ['}'] := by simpa using hi
    have : v = i := List.append_cancel_right this
    rw [hr, this]
  · rw [hs] at hi; simp at hi
  · exact absurd ⟨v, by rw [hs]; simp⟩ hn

theorem unencC_encContent (hP : PrintOK P) (b : Block) (hb : BlockOK P b) :
    unencC P (encContent b) = contentOf b := by
  match b, hb with
  | .live (.entry e), hb =>
    simp only [encContent, encBlock, contentOf, unencC, encFields, List.map_map]
    congr 1
    apply List.map_congr_left
    intro f hf
    obtain ⟨v, hv, _⟩ := (hb.fields f hf).value
    simp only [Function.comp, unencVal, hv, strOf]
    have := stripEnclosing_braced hP v
    simp only [List.cons_append] at this ⊢
    rw [this]
  | .live (.string k v l r m), hb =>
    obtain ⟨_, _, s, rfl, _⟩ := hb
    have := stripEnclosing_braced hP s
    simp only [encContent, encBlock, contentOf, unencC, unencVal, strOf]
    simp only [List.cons_append] at this ⊢
    rw [this]
  | .live (.preamble v l r m), _ => rfl
  | .live (.expl v l r m), _ => rfl
  | .live (.impl v l r m), _ => rfl

theorem unencC_keys (c : Content) :
    cEntryKey (unencC P c) = cEntryKey c ∧ cStringKey (unencC P c) = cStringKey c ∧
    cFailed (unencC P c) = cFailed c ∧ cImpl (unencC P c) = cImpl c := by
  cases c <;> exact ⟨rfl, rfl, rfl, rfl⟩

theorem filterMap_unenc_entry (l : List Content) :
    (l.map (unencC P)).filterMap cEntryKey = l.filterMap cEntryKey := by
  induction l with
  | nil => rfl
  | cons c r ih => simp only [List.map_cons, List.filterMap_cons, (unencC_keys (P := P) c).1, ih]

theorem filterMap_unenc_string (l : List Content) :
    (l.map (unencC P)).filterMap cStringKey = l.filterMap cStringKey := by
  induction l with
  | nil => rfl
  | cons c r ih => simp only [List.map_cons, List.filterMap_cons, (unencC_keys (P := P) c).2.1, ih]

theorem live_of_encC {x : Block} (h : EncC (contentOf x)) : x.isFailed = false := by
  rw [isFailed_content]
  cases hc : contentOf x <;> first | rfl | (rw [hc] at h; exact h.elim)

/-! ### string resolution skips enclosed values -/

theorem enclosed_not_bare (s : Str) : valueIsNonstringOrEnclosed (.str ('{' :: (s ++ ['}']))) = true := by
  have h1 : startsWith ['{'] ('{' :: (s ++ ['}'])) = true := by simp [startsWith]
  have h2 : endsWith ['}'] ('{' :: (s ++ ['}'])) = true := by
    simp only [endsWith, List.isSuffixOf_iff_suffix]
    exact ⟨'{' :: s, by simp⟩
  simp [valueIsNonstringOrEnclosed, h1, h2]

theorem resolveFields_enclosed (strings : List (Str × Live)) (fs : List Field)
    (h : ∀ f ∈ fs, IsEncVal f.value) : resolveFields strings fs = (fs, []) := by
  induction fs with
  | nil => rfl
  | cons f r ih =>
    obtain ⟨s, hs⟩ := h f List.mem_cons_self
    have hres : resolution strings f.value = none := by
      rw [hs]; simp [resolution, enclosed_not_bare]
    simp [resolveFields, hres, ih (fun g hg => h g (List.mem_cons_of_mem _ hg))]

theorem resolveBlock_enclosed (strings : List (Str × Live)) (x : Block) (h : EncC (contentOf x)) :
    resolveBlock strings x = x := by
  match x, h with
  | .live (.entry e), h =>
    have hf : ∀ f ∈ e.fields, IsEncVal f.value := by
      intro f hf
      exact h (f.key, f.value) (List.mem_map.mpr ⟨f, hf, rfl⟩)
    simp [resolveBlock, resolveEntry, resolveFields_enclosed strings e.fields hf]
  | .live (.string _ _ _ _ _), _ => rfl
  | .live (.preamble _ _ _ _), _ => rfl
  | .live (.expl _ _ _ _), _ => rfl
  | .live (.impl _ _ _ _), _ => rfl

/-! ### enclosing removal -/

theorem allStr_of_enc {fs : List Field} (h : ∀ f ∈ fs, IsEncVal f.value) : AllStr fs := by
  intro f hf
  obtain ⟨s, hs⟩ := h f hf
  exact ⟨_, hs⟩

theorem mapBlock_remove (x : Block) (h : EncC (contentOf x)) :
    ∃ x', mapBlock true (removeLive P) x = .ok x' ∧ contentOf x' = unencC P (contentOf x) ∧
      (∀ e, x' = .live (.entry e) → MdOK (.entry e)) := by
  match x, h with
  | .live (.entry e), h =>
    have hf : ∀ f ∈ e.fields, IsEncVal f.value := by
      intro f hf
      exact h (f.key, f.value) (List.mem_map.mpr ⟨f, hf, rfl⟩)
    obtain ⟨md', hmd⟩ := Interpolate.removeFields_allStr P e.fields (allStr_of_enc hf) []
    refine ⟨.live (.entry { e with
        fields := e.fields.map fun f => { f with value := .str (stripEnclosing P (strOf f.value)).1 },
        md := assocSet e.md REMOVED_ENCLOSING_KEY (.dict md') }), by simp [mapBlock, removeLive, removeEntry, hmd], ?_, ?_⟩
    · simp only [contentOf, unencC, List.map_map]
      congr 1
      apply List.map_congr_left
      intro f hf'
      obtain ⟨s, hs⟩ := hf f hf'
      simp [Function.comp, unencVal, hs, strOf]
    · intro e' he'
      injection he' with he'; injection he' with he'; subst he'
      exact Or.inr ⟨md', by simp [assocGet_set_same]⟩
  | .live (.string k v l r m), h =>
    obtain ⟨s, rfl⟩ := h
    exact ⟨_, rfl, rfl, by intro e he; cases he⟩
  | .live (.preamble _ _ _ _), _ => exact ⟨_, rfl, rfl, by intro e he; cases he⟩
  | .live (.expl _ _ _ _), _ => exact ⟨_, rfl, rfl, by intro e he; cases he⟩
  | .live (.impl _ _ _ _), _ => exact ⟨_, rfl, rfl, by intro e he; cases he⟩

theorem removeLib_enclosed (E : List Block) (h : ∀ x ∈ E, EncC (contentOf x)) :
    ∃ E', removeLib P true E = .ok E' ∧ E'.map contentOf = (E.map contentOf).map (unencC P) ∧
      (∀ e, Block.live (.entry e) ∈ E' → MdOK (.entry e)) := by
  induction E with
  | nil => exact ⟨[], rfl, rfl, by intro e he; cases he⟩
  | cons x r ih =>
    obtain ⟨r', hr, hc, hm⟩ := ih (fun y hy => h y (List.mem_cons_of_mem _ hy))
    obtain ⟨x', hx, hcx, hmx⟩ := mapBlock_remove (P := P) x (h x List.mem_cons_self)
    simp only [removeLib] at hr ⊢
    refine ⟨x' :: r', by simp [mapBlocks, hx, hr], by simp [hcx, hc], ?_⟩
    intro e he
    rcases List.mem_cons.mp he with he | he
    · exact hmx e he.symm
    · exact hm e he

/-- **the default parse stack on enclosed blocks**: nothing is resolved, nothing is wrapped as a
duplicate, exactly one brace layer is removed from every value -/
theorem parse_enclosed (t : Str) (E : List Block) (hsplit : split P t = .ok E)
    (hE : ∀ x ∈ E, EncC (contentOf x)) (he : (entryKeys E).Nodup) (hs : (stringKeys E).Nodup) :
    ∃ L', parseDefault P t = .ok L' ∧ L'.map contentOf = (E.map contentOf).map (unencC P) ∧
      (∀ e, Block.live (.entry e) ∈ L' → MdOK (.entry e)) := by
  have hlive : ∀ x ∈ E, x.isFailed = false := fun x hx => live_of_encC (hE x hx)
  have hid := addAll_id E hlive he hs
  have htr : (transform (addAll E)).blocks = E := by
    simp only [transform, hid]
    conv => rhs; rw [← List.map_id E]
    apply List.map_congr_left
    intro x hx
    exact resolveBlock_enclosed _ x (hE x hx)
  obtain ⟨E', hrm, hc, hm⟩ := removeLib_enclosed (P := P) E hE
  have hkeys : entryKeys E' = entryKeys E ∧ stringKeys E' = stringKeys E := by
    rw [entryKeys_content, entryKeys_content, stringKeys_content, stringKeys_content, hc]
    exact ⟨filterMap_unenc_entry _, filterMap_unenc_string _⟩
  have hlive' : ∀ x ∈ E', x.isFailed = false := by
    intro x hx
    have hmem : contentOf x ∈ (E.map contentOf).map (unencC P) := by rw [← hc]; exact List.mem_map_of_mem hx
    obtain ⟨c, hcm, hcx⟩ := List.mem_map.mp hmem
    obtain ⟨y, hy, rfl⟩ := List.mem_map.mp hcm
    rw [isFailed_content, ← hcx, (unencC_keys _).2.2.1, ← isFailed_content]
    exact hlive y hy
  have hid' := addAll_id E' hlive' (by rw [hkeys.1]; exact he) (by rw [hkeys.2]; exact hs)
  refine ⟨E', ?_, hc, hm⟩
  simp [parseDefault, defaultParse, hsplit, htr, hrm, hid', Except.map]

/-! ### print → parse -/

/-- **print_parse.**  The default write stack prints a writable library as `render …`; the default
parse stack reads that text back as a library with the same content, whose entries carry the
metadata `AddEnclosing` expects. -/
theorem print_parse_render (hP : PrintOK P) (F : BibtexFormat) (hF : FormatOK F) (L : List Block)
    (hw : Writable P L) :
    ∃ L', writeDefault P F L = .ok (render F (wcol F L) L) ∧
      parseDefault P (render F (wcol F L) L) = .ok L' ∧ L'.map contentOf = L.map contentOf ∧
      (∀ e, Block.live (.entry e) ∈ L' → MdOK (.entry e)) := by
  obtain ⟨E, hsplit, hcE⟩ := split_render hP F hF (wcol F L) L hw.blocks hw.noAdj
  have hE : ∀ x ∈ E, EncC (contentOf x) := by
    intro x hx
    have hmem : contentOf x ∈ L.map encContent := by rw [← hcE]; exact List.mem_map_of_mem hx
    obtain ⟨b, hb, hbx⟩ := List.mem_map.mp hmem
    rw [← hbx]; exact encC_encContent b (hw.blocks b hb)
  have hcE' : E.map contentOf = (L.map encBlock).map contentOf := by rw [hcE]; simp [encContent]
  have hke : entryKeys E = entryKeys L := by
    rw [entryKeys_content, hcE', ← entryKeys_content, (encBlock_keys L).1]
  have hks : stringKeys E = stringKeys L := by
    rw [stringKeys_content, hcE', ← stringKeys_content, (encBlock_keys L).2]
  obtain ⟨L', hparse, hc, hm⟩ := parse_enclosed _ E hsplit hE (by rw [hke]; exact hw.entryKeys)
    (by rw [hks]; exact hw.stringKeys)
  refine ⟨L', writeDefault_render F L hw, hparse, ?_, hm⟩
  rw [hc, hcE, List.map_map]
  apply List.map_congr_left
  intro b hb
  exact unencC_encContent hP b (hw.blocks b hb)

end Bib.PrintParse
