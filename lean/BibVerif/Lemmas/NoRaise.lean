/-
  C01 core: on lexed input the splitter automaton never reaches its "cannot happen" state
  (`ParserStateException` / `RegexMismatchException`), because the regex look-ahead guarantees
  that the mark after every `@type` mark is `{`.
-/
import BibVerif.Split
namespace Bib

variable (P : PyChars)

def Good (s : St) (rest : List Tok) : Prop :=
  s.err = none ∧ AtOK rest ∧
    (∀ k ty, s.mode = .afterAt k ty → ∃ l r, rest = .mark .lbrace l :: r)

theorem atOK_tail {t : Tok} {rest : List Tok} (h : AtOK (t :: rest)) : AtOK rest := by
  cases t with
  | text cs => simpa [AtOK] using h
  | mark k l => cases k <;> first | (simpa [AtOK] using h) | exact h.2

theorem atOK_at {l : Str} {rest : List Tok} (h : AtOK (.mark .at l :: rest)) :
    ∃ l' r, rest = .mark .lbrace l' :: r := by
  have := h.1
  split at this
  · rename_i l' r; exact ⟨l', r, rfl⟩
  · exact this.elim

theorem stepTop_spec (s : St) (impl : List Tok) (il : Int) (t : Tok) :
    (stepTop P s impl il t).err = s.err ∧
    (∀ k ty, (stepTop P s impl il t).mode = .afterAt k ty → ∃ lit, t = .mark .at lit) := by
  unfold stepTop
  split
  · exact ⟨rfl, fun _ _ _ => ⟨_, rfl⟩⟩
  · exact ⟨rfl, fun _ _ h => by simp at h⟩
  · exact ⟨rfl, fun _ _ h => by simp at h⟩

/-- from a state that is not waiting for `{`, a step raises nothing, and it waits for `{`
afterwards only if the token was an `@type` mark -/
theorem step_spec_other (s : St) (t : Tok) (he : s.err = none)
    (hm : ∀ k ty, s.mode ≠ .afterAt k ty) :
    (step P s t).err = none ∧
    (∀ k ty, (step P s t).mode = .afterAt k ty → ∃ lit, t = .mark .at lit) := by
  unfold step
  simp only [he, Option.isSome_none, Bool.false_eq_true, ↓reduceIte]
  split
  · rename_i impl il hmode
    have := stepTop_spec P s impl il t
    exact ⟨this.1.trans he, this.2⟩
  · rename_i m hnt
    have redo_ok : ∀ why : Fail,
        (match (abort s why).mode with
          | .top impl il => stepTop P (abort s why) impl il t
          | _ => abort s why).err = none ∧
        (∀ k ty, (match (abort s why).mode with
          | .top impl il => stepTop P (abort s why) impl il t
          | _ => abort s why).mode = .afterAt k ty → ∃ lit, t = .mark .at lit) := by
      intro why
      have hmode : (abort s why).mode = .top [] s.line := by simp [abort, toTop]
      rw [hmode]
      have := stepTop_spec P (abort s why) [] s.line t
      exact ⟨this.1.trans (by simp [abort, toTop, he]), this.2⟩
    split
    · refine ⟨?_, ?_⟩ <;> (unfold absorb; split <;> simp_all)
    · refine ⟨?_, ?_⟩ <;> (unfold absorb; split <;> simp_all)
    · repeat' first
        | exact redo_ok _
        | exact (hnt _ _ ‹_›).elim
        | exact (hm _ _ ‹_›).elim
        | (refine ⟨?_, ?_⟩ <;> (simp [toTop, he]; done))
        | split

theorem step_spec_afterAt (s : St) (k : BKind) (ty : Str) (l : Str) (he : s.err = none)
    (hm : s.mode = .afterAt k ty) :
    (step P s (.mark .lbrace l)).err = none ∧
    (∀ k' ty', (step P s (.mark .lbrace l)).mode ≠ .afterAt k' ty') := by
  unfold step
  simp only [he, Option.isSome_none, Bool.false_eq_true, ↓reduceIte, hm]
  cases k <;> simp

theorem step_good (s : St) (t : Tok) (rest : List Tok) (h : Good s (t :: rest)) :
    Good (step P s t) rest := by
  obtain ⟨he, hat, hm⟩ := h
  by_cases hA : ∃ k ty, s.mode = .afterAt k ty
  · obtain ⟨k, ty, hmode⟩ := hA
    obtain ⟨l, r, hr⟩ := hm k ty hmode
    injection hr with h1 h2
    subst h1
    have := step_spec_afterAt P s k ty l he hmode
    exact ⟨this.1, atOK_tail hat, fun k' ty' hh => (this.2 k' ty' hh).elim⟩
  · have hm' : ∀ k ty, s.mode ≠ .afterAt k ty := fun k ty hh => hA ⟨k, ty, hh⟩
    have := step_spec_other P s t he hm'
    refine ⟨this.1, atOK_tail hat, fun k ty hh => ?_⟩
    obtain ⟨lit, hl⟩ := this.2 k ty hh
    subst hl
    exact atOK_at hat

theorem run_good (ts : List Tok) : ∀ s, Good s ts → (run P s ts).err = none := by
  induction ts with
  | nil => intro s h; exact h.1
  | cons t ts ih => intro s h; exact ih _ (step_good P s t ts h)

/-- the automaton never raises on a token list in which `{` follows every `@type` mark -/
theorem run_no_error (ts : List Tok) (h : AtOK ts) : (run P init ts).err = none :=
  run_good P ts init ⟨rfl, h, fun k ty hh => by simp [init] at hh⟩

theorem splitToks_ok (ts : List Tok) (h : AtOK ts) : ∃ bs, splitToks P ts = .ok bs := by
  unfold splitToks finish
  rw [run_no_error P ts h]
  simp only []
  split <;> exact ⟨_, rfl⟩

/-- `Splitter(text).split()` never raises -/
theorem split_ok (s : Str) : ∃ bs, split P s = .ok bs :=
  splitToks_ok P _ (atOK_lexFrom P false _)

end Bib
