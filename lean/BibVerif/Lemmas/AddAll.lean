import BibVerif.AddAll
namespace Bib

theorem lookup_append_single {β} (l : List (Str × β)) (k k' : Str) (v : β) :
    (l ++ [(k', v)]).lookup k = match l.lookup k with
      | some x => some x
      | none => if k = k' then some v else none := by
  induction l with
  | nil =>
    by_cases h : k = k'
    · subst h; simp [List.lookup]
    · have : (k == k') = false := by simpa using h
      simp [List.lookup, this, h]
  | cons a l ih =>
    obtain ⟨ka, va⟩ := a
    by_cases h : k = ka
    · subst h; simp [List.lookup]
    · have : (k == ka) = false := by simpa using h
      simp [List.lookup, this, ih]

theorem firstEntry_append (k : Str) (a b : List Block) :
    firstEntry k (a ++ b) = match firstEntry k a with
      | some p => some p
      | none => firstEntry k b := by
  induction a with
  | nil => simp [firstEntry]
  | cons x a ih =>
    cases x with
    | live l =>
      cases l with
      | entry e =>
        simp only [List.cons_append, firstEntry]
        split
        · rfl
        · exact ih
      | _ => simpa [firstEntry] using ih
    | _ => simpa [firstEntry] using ih

theorem firstString_append (k : Str) (a b : List Block) :
    firstString k (a ++ b) = match firstString k a with
      | some p => some p
      | none => firstString k b := by
  induction a with
  | nil => simp [firstString]
  | cons x a ih =>
    cases x with
    | live l =>
      cases l with
      | string k' v li r m =>
        simp only [List.cons_append, firstString]
        split
        · rfl
        · exact ih
      | _ => simpa [firstString] using ih
    | _ => simpa [firstString] using ih

theorem firstEntry_key {k : Str} {bs : List Block} {p : Live} (h : firstEntry k bs = some p) :
    p.key? = some k ∧ ∃ e, p = .entry e := by
  induction bs with
  | nil => simp [firstEntry] at h
  | cons x bs ih =>
    cases x with
    | live l =>
      cases l with
      | entry e =>
        simp only [firstEntry] at h
        split at h
        · rename_i hk; injection h with h; subst h; exact ⟨by simp [Live.key?, hk], e, rfl⟩
        · exact ih h
      | _ => exact ih (by simpa [firstEntry] using h)
    | _ => exact ih (by simpa [firstEntry] using h)

theorem firstString_key {k : Str} {bs : List Block} {p : Live} (h : firstString k bs = some p) :
    p.key? = some k ∧ ∃ v l r m, p = .string k v l r m := by
  induction bs with
  | nil => simp [firstString] at h
  | cons x bs ih =>
    cases x with
    | live l =>
      cases l with
      | string k' v li r m =>
        simp only [firstString] at h
        split at h
        · rename_i hk; injection h with h; subst h; subst hk
          exact ⟨by simp [Live.key?], v, li, r, m, rfl⟩
        · exact ih h
      | _ => exact ih (by simpa [firstString] using h)
    | _ => exact ih (by simpa [firstString] using h)

/-- the indexes and the block list agree with the specification on the blocks added so far -/
structure LibInv (L : KLib) (pre : List Block) : Prop where
  eidx : ∀ k, L.eidx.lookup k = firstEntry k pre
  sidx : ∀ k, L.sidx.lookup k = firstString k pre
  blocks : L.blocks = addAllSpec [] pre

theorem addAllSpec_append (pre a b : List Block) :
    addAllSpec pre (a ++ b) = addAllSpec pre a ++ addAllSpec (pre ++ a) b := by
  induction a generalizing pre with
  | nil => simp [addAllSpec]
  | cons x a ih => simp [addAllSpec, ih, List.append_assoc]

theorem addAllSpec_snoc (pre : List Block) (b : Block) :
    addAllSpec [] (pre ++ [b]) = addAllSpec [] pre ++ [addSpec pre b] := by
  rw [addAllSpec_append]; simp [addAllSpec]

theorem addOne_inv (L : KLib) (pre : List Block) (b : Block) (h : LibInv L pre) :
    ∃ L', addOne L b = .ok L' ∧ LibInv L' (pre ++ [b]) := by
  cases b with
  | live l =>
    cases l with
    | entry e =>
      simp only [addOne]
      rw [h.eidx e.key]
      cases hf : firstEntry e.key pre with
      | none =>
        refine ⟨_, rfl, ?_, ?_, ?_⟩
        · intro k
          simp only [lookup_append_single, h.eidx k, firstEntry_append, firstEntry]
          cases firstEntry k pre with
          | some p => rfl
          | none =>
            by_cases hk : k = e.key
            · simp [hk]
            · have : ¬ e.key = k := fun hh => hk hh.symm
              simp [hk, this]
        · intro k; simp [h.sidx k, firstString_append, firstString]; cases firstString k pre <;> rfl
        · simp only [addAllSpec_snoc, h.blocks, addSpec, hf]
      | some p =>
        obtain ⟨hk, _⟩ := firstEntry_key hf
        have hd : (Live.entry e).key? = some e.key := rfl
        simp only [castToDuplicate, hd, hk, ↓reduceIte, bind, Except.bind, pure, Except.pure]
        refine ⟨_, rfl, ?_, ?_, ?_⟩
        · intro k
          simp only [h.eidx k, firstEntry_append, firstEntry]
          cases hk' : firstEntry k pre with
          | some q => rfl
          | none =>
            by_cases hke : e.key = k
            · subst hke; rw [hf] at hk'; cases hk'
            · simp [hke]
        · intro k; simp [h.sidx k, firstString_append, firstString]; cases firstString k pre <;> rfl
        · simp only [addAllSpec_snoc, h.blocks, addSpec, hf]
    | string k0 v li r m =>
      simp only [addOne]
      rw [h.sidx k0]
      cases hf : firstString k0 pre with
      | none =>
        refine ⟨_, rfl, ?_, ?_, ?_⟩
        · intro k; simp [h.eidx k, firstEntry_append, firstEntry]; cases firstEntry k pre <;> rfl
        · intro k
          simp only [lookup_append_single, h.sidx k, firstString_append, firstString]
          cases firstString k pre with
          | some p => rfl
          | none =>
            by_cases hk : k = k0
            · simp [hk]
            · have : ¬ k0 = k := fun hh => hk hh.symm
              simp [hk, this]
        · simp only [addAllSpec_snoc, h.blocks, addSpec, hf]
      | some p =>
        obtain ⟨hk, _⟩ := firstString_key hf
        have hd : (Live.string k0 v li r m).key? = some k0 := rfl
        simp only [castToDuplicate, hd, hk, ↓reduceIte, bind, Except.bind, pure, Except.pure]
        refine ⟨_, rfl, ?_, ?_, ?_⟩
        · intro k; simp [h.eidx k, firstEntry_append, firstEntry]; cases firstEntry k pre <;> rfl
        · intro k
          simp only [h.sidx k, firstString_append, firstString]
          cases hk' : firstString k pre with
          | some q => rfl
          | none =>
            by_cases hke : k0 = k
            · subst hke; rw [hf] at hk'; cases hk'
            · simp [hke]
        · simp only [addAllSpec_snoc, h.blocks, addSpec, hf]
    | preamble v li r m =>
      refine ⟨_, rfl, ?_, ?_, ?_⟩
      · intro k; simp [h.eidx k, firstEntry_append, firstEntry]; cases firstEntry k pre <;> rfl
      · intro k; simp [h.sidx k, firstString_append, firstString]; cases firstString k pre <;> rfl
      · simp only [addAllSpec_snoc, h.blocks, addSpec]
    | expl v li r m =>
      refine ⟨_, rfl, ?_, ?_, ?_⟩
      · intro k; simp [h.eidx k, firstEntry_append, firstEntry]; cases firstEntry k pre <;> rfl
      · intro k; simp [h.sidx k, firstString_append, firstString]; cases firstString k pre <;> rfl
      · simp only [addAllSpec_snoc, h.blocks, addSpec]
    | impl v li r m =>
      refine ⟨_, rfl, ?_, ?_, ?_⟩
      · intro k; simp [h.eidx k, firstEntry_append, firstEntry]; cases firstEntry k pre <;> rfl
      · intro k; simp [h.sidx k, firstString_append, firstString]; cases firstString k pre <;> rfl
      · simp only [addAllSpec_snoc, h.blocks, addSpec]
  | failed w li r =>
    refine ⟨_, rfl, ?_, ?_, ?_⟩
    · intro k; simp [h.eidx k, firstEntry_append, firstEntry]; cases firstEntry k pre <;> rfl
    · intro k; simp [h.sidx k, firstString_append, firstString]; cases firstString k pre <;> rfl
    · simp only [addAllSpec_snoc, h.blocks, addSpec]
  | dupField d e =>
    refine ⟨_, rfl, ?_, ?_, ?_⟩
    · intro k; simp [h.eidx k, firstEntry_append, firstEntry]; cases firstEntry k pre <;> rfl
    · intro k; simp [h.sidx k, firstString_append, firstString]; cases firstString k pre <;> rfl
    · simp only [addAllSpec_snoc, h.blocks, addSpec]
  | dupKey k0 p d =>
    refine ⟨_, rfl, ?_, ?_, ?_⟩
    · intro k; simp [h.eidx k, firstEntry_append, firstEntry]; cases firstEntry k pre <;> rfl
    · intro k; simp [h.sidx k, firstString_append, firstString]; cases firstString k pre <;> rfl
    · simp only [addAllSpec_snoc, h.blocks, addSpec]
  | mwError w i =>
    refine ⟨_, rfl, ?_, ?_, ?_⟩
    · intro k; simp [h.eidx k, firstEntry_append, firstEntry]; cases firstEntry k pre <;> rfl
    · intro k; simp [h.sidx k, firstString_append, firstString]; cases firstString k pre <;> rfl
    · simp only [addAllSpec_snoc, h.blocks, addSpec]

theorem addMany_inv (bs : List Block) : ∀ (L : KLib) (pre : List Block), LibInv L pre →
    ∃ L', addMany L bs = .ok L' ∧ LibInv L' (pre ++ bs) := by
  induction bs with
  | nil => intro L pre h; exact ⟨L, rfl, by simpa using h⟩
  | cons b bs ih =>
    intro L pre h
    obtain ⟨L1, h1, i1⟩ := addOne_inv L pre b h
    obtain ⟨L2, h2, i2⟩ := ih L1 (pre ++ [b]) i1
    refine ⟨L2, ?_, by simpa using i2⟩
    simp only [addMany, h1, bind, Except.bind]
    exact h2

theorem libInv_empty : LibInv {} [] := ⟨fun _ => rfl, fun _ => rfl, rfl⟩

end Bib

namespace Bib

theorem firstEntry_single_addSpec (k : Str) (q : List Block) (b : Block) (hq : firstEntry k q = none) :
    firstEntry k [addSpec q b] = firstEntry k [b] := by
  cases b with
  | live l =>
    cases l with
    | entry e =>
      simp only [addSpec]
      cases hf : firstEntry e.key q with
      | none => rfl
      | some p =>
        have : ¬ e.key = k := fun h => by rw [h, hq] at hf; cases hf
        simp [firstEntry, this]
    | string k0 v li r m =>
      simp only [addSpec]
      cases firstString k0 q <;> simp [firstEntry]
    | _ => rfl
  | _ => rfl

theorem firstString_single_addSpec (k : Str) (q : List Block) (b : Block) (hq : firstString k q = none) :
    firstString k [addSpec q b] = firstString k [b] := by
  cases b with
  | live l =>
    cases l with
    | string k0 v li r m =>
      simp only [addSpec]
      cases hf : firstString k0 q with
      | none => rfl
      | some p =>
        have : ¬ k0 = k := fun h => by rw [h, hq] at hf; cases hf
        simp [firstString, this]
    | entry e =>
      simp only [addSpec]
      cases firstEntry e.key q <;> simp [firstString]
    | _ => rfl
  | _ => rfl

/-- induction from the right end of a list -/
theorem list_rev_ind {α} {motive : List α → Prop} (nil : motive [])
    (snoc : ∀ q b, motive q → motive (q ++ [b])) : ∀ q, motive q := by
  intro q
  have : ∀ n (q : List α), q.length = n → motive q := by
    intro n
    induction n with
    | zero => intro q hq; rw [List.length_eq_zero_iff.mp hq]; exact nil
    | succ n ih =>
      intro q hq
      rcases List.eq_nil_or_concat q with h | ⟨q', b, h⟩
      · subst h; simp at hq
      · rw [List.concat_eq_append] at h; subst h
        exact snoc q' b (ih q' (by simpa using hq))
  exact this q.length q rfl

/-- wrapping later duplicates does not change which entry is the first live one with a key -/
theorem firstEntry_addAllSpec (k : Str) (q : List Block) :
    firstEntry k (addAllSpec [] q) = firstEntry k q := by
  refine list_rev_ind (motive := fun q => firstEntry k (addAllSpec [] q) = firstEntry k q) rfl ?_ q
  intro q b ih
  rw [addAllSpec_snoc, firstEntry_append, firstEntry_append, ih]
  cases hq : firstEntry k q with
  | some p => rfl
  | none => exact firstEntry_single_addSpec k q b hq

theorem firstString_addAllSpec (k : Str) (q : List Block) :
    firstString k (addAllSpec [] q) = firstString k q := by
  refine list_rev_ind (motive := fun q => firstString k (addAllSpec [] q) = firstString k q) rfl ?_ q
  intro q b ih
  rw [addAllSpec_snoc, firstString_append, firstString_append, ih]
  cases hq : firstString k q with
  | some p => rfl
  | none => exact firstString_single_addSpec k q b hq

theorem addSpec_readd (q : List Block) (b : Block) :
    addSpec (addAllSpec [] q) (addSpec q b) = addSpec q b := by
  cases b with
  | live l =>
    cases l with
    | entry e =>
      simp only [addSpec]
      cases hf : firstEntry e.key q with
      | none => simp only [addSpec, firstEntry_addAllSpec, hf]
      | some p => rfl
    | string k0 v li r m =>
      simp only [addSpec]
      cases hf : firstString k0 q with
      | none => simp only [addSpec, firstString_addAllSpec, hf]
      | some p => rfl
    | _ => rfl
  | _ => rfl

theorem addAllSpec_readd (pre : List Block) : ∀ q : List Block,
    addAllSpec (addAllSpec [] q) (addAllSpec q pre) = addAllSpec q pre := by
  induction pre with
  | nil => intro q; rfl
  | cons b pre ih =>
    intro q
    simp only [addAllSpec, addSpec_readd]
    rw [← addAllSpec_snoc, ih]

theorem addAllSpec_length (pre bs : List Block) : (addAllSpec pre bs).length = bs.length := by
  induction bs generalizing pre with
  | nil => rfl
  | cons b bs ih => simp [addAllSpec, ih]

/-- `firstEntry` really is the first: nothing before it is a live entry with that key -/
theorem firstEntry_iff (k : Str) (bs : List Block) (p : Live) :
    firstEntry k bs = some p ↔
      ∃ a c e, bs = a ++ .live (.entry e) :: c ∧ p = .entry e ∧ e.key = k ∧
        ∀ e', Block.live (.entry e') ∈ a → e'.key ≠ k := by
  induction bs with
  | nil => simp [firstEntry]
  | cons x bs ih =>
    have skip : (∀ e, x ≠ .live (.entry e)) → firstEntry k (x :: bs) = firstEntry k bs := by
      intro hx
      cases x with
      | live l => cases l with
        | entry e => exact absurd rfl (hx e)
        | _ => rfl
      | _ => rfl
    by_cases hx : ∃ e, x = .live (.entry e)
    · obtain ⟨e, rfl⟩ := hx
      simp only [firstEntry]
      by_cases hk : e.key = k
      · simp only [hk, ↓reduceIte]
        constructor
        · intro h; injection h with h; subst h
          exact ⟨[], bs, e, rfl, rfl, hk, by simp⟩
        · rintro ⟨a, c, e', hbs, hp, hk', hno⟩
          cases a with
          | nil => simp only [List.nil_append, List.cons.injEq, Block.live.injEq, Live.entry.injEq] at hbs
                   rw [hp, hbs.1]
          | cons y a =>
            simp only [List.cons_append, List.cons.injEq] at hbs
            exact absurd hk (hno e (by rw [← hbs.1]; exact List.mem_cons_self))
      · simp only [hk, ↓reduceIte, ih]
        constructor
        · rintro ⟨a, c, e', hbs, hp, hk', hno⟩
          refine ⟨.live (.entry e) :: a, c, e', by simp [hbs], hp, hk', ?_⟩
          intro e'' hm
          rcases List.mem_cons.mp hm with h | h
          · injection h with h; injection h with h; subst h; exact hk
          · exact hno e'' h
        · rintro ⟨a, c, e', hbs, hp, hk', hno⟩
          cases a with
          | nil =>
            simp only [List.nil_append, List.cons.injEq, Block.live.injEq, Live.entry.injEq] at hbs
            exact absurd (hbs.1 ▸ hk') hk
          | cons y a =>
            simp only [List.cons_append, List.cons.injEq] at hbs
            exact ⟨a, c, e', hbs.2, hp, hk', fun e'' hm => hno e'' (List.mem_cons_of_mem _ hm)⟩
    · have hx' : ∀ e, x ≠ .live (.entry e) := fun e h => hx ⟨e, h⟩
      rw [skip hx', ih]
      constructor
      · rintro ⟨a, c, e', hbs, hp, hk', hno⟩
        refine ⟨x :: a, c, e', by simp [hbs], hp, hk', ?_⟩
        intro e'' hm
        rcases List.mem_cons.mp hm with h | h
        · exact absurd h.symm (hx' e'')
        · exact hno e'' h
      · rintro ⟨a, c, e', hbs, hp, hk', hno⟩
        cases a with
        | nil =>
          simp only [List.nil_append, List.cons.injEq] at hbs
          exact absurd hbs.1 (hx' e')
        | cons y a =>
          simp only [List.cons_append, List.cons.injEq] at hbs
          exact ⟨a, c, e', hbs.2, hp, hk', fun e'' hm => hno e'' (List.mem_cons_of_mem _ hm)⟩

end Bib
