/-
  C13/C14 helper lemmas about the name middlewares (`Names/Merge.lean`).
-/
import BibVerif.Names.Merge
namespace Bib.Names
open Bib.NameP

variable (P : PyChars)

theorem parseAll_error_of_bad (l : List Str) (h : ∃ n ∈ l, ∃ err, parse P n = .error err) :
    ∃ err, parseAll P l = .error (.invalid err) := by
  induction l with
  | nil => obtain ⟨n, hn, _⟩ := h; simp at hn
  | cons a r ih =>
    unfold parseAll
    cases ha : parse P a with
    | error e => exact ⟨e, rfl⟩
    | ok p =>
      simp only
      obtain ⟨n, hn, err, he⟩ := h
      rcases List.mem_cons.mp hn with hn | hn
      · subst hn; rw [ha] at he; cases he
      · obtain ⟨err', hr⟩ := ih ⟨n, hn, err, he⟩
        rw [hr]; exact ⟨err', rfl⟩

theorem parseAll_ok_of_good (l : List Str) (h : ∀ n ∈ l, ∃ p, parse P n = .ok p) :
    ∃ ps, parseAll P l = .ok ps ∧ ps.length = l.length := by
  induction l with
  | nil => exact ⟨[], rfl, rfl⟩
  | cons a r ih =>
    obtain ⟨p, hp⟩ := h a (by simp)
    obtain ⟨ps, hps, hl⟩ := ih (fun n hn => h n (by simp [hn]))
    exact ⟨p :: ps, by unfold parseAll; rw [hp]; simp only; rw [hps], by simp [hl]⟩

/-- `[parse(n) for n in name]` raises nothing but `InvalidNameError` -/
theorem parseAll_invalid_only (l : List Str) (e : FErr) (h : parseAll P l = .error e) :
    ∃ err, e = .invalid err := by
  induction l with
  | nil => simp [parseAll] at h
  | cons a r ih =>
    unfold parseAll at h
    cases ha : parse P a with
    | error e' => rw [ha] at h; simp only at h; injection h with h; exact ⟨e', h.symm⟩
    | ok p =>
      rw [ha] at h
      simp only at h
      cases hr : parseAll P r with
      | error e' => rw [hr] at h; simp only at h; injection h with h; subst h; exact ih hr
      | ok ps => rw [hr] at h; cases h

theorem mapFields_append (f : Val → Except FErr Val) (pre rest : List Field) :
    mapFields f (pre ++ rest) =
      match mapFields f pre with
      | (pre', none) => (pre' ++ (mapFields f rest).1, (mapFields f rest).2)
      | (pre', some e) => (pre' ++ rest, some e) := by
  induction pre with
  | nil => simp [mapFields]
  | cons fld r ih =>
    simp only [List.cons_append, mapFields]
    by_cases hk : nameFields.contains fld.key = true
    · simp only [hk, if_true]
      cases hv : f fld.value with
      | error e => simp
      | ok v =>
        simp only
        rw [ih]
        rcases hm : mapFields f r with ⟨pre', _ | e⟩ <;> simp
    · simp only [hk]
      rw [ih]
      rcases hm : mapFields f r with ⟨pre', _ | e⟩ <;> simp

/-- the loop keeps the keys and order of the fields, whatever happens -/
theorem mapFields_keys (f : Val → Except FErr Val) (fields : List Field) :
    (mapFields f fields).1.map (·.key) = fields.map (·.key) := by
  induction fields with
  | nil => simp [mapFields]
  | cons fld r ih =>
    simp only [mapFields]
    by_cases hk : nameFields.contains fld.key = true
    · simp only [hk, if_true]
      cases hv : f fld.value with
      | error e => simp
      | ok v => simp [ih]
    · rw [if_neg hk]; simp [ih]

/-- on an entry whose name fields hold lists of strings `SplitNameParts` can only fail with
`InvalidNameError` -/
theorem mapFields_split_err (fields : List Field)
    (h : ∀ fld ∈ fields, fld.key ∈ nameFields → ∃ l, fld.value = .names l) :
    (mapFields (transformValue P .splitParts) fields).2 = none ∨
    ∃ err, (mapFields (transformValue P .splitParts) fields).2 = some (.invalid err) := by
  induction fields with
  | nil => simp [mapFields]
  | cons fld r ih =>
    have ihr := ih (fun x hx => h x (by simp [hx]))
    simp only [mapFields]
    by_cases hk : nameFields.contains fld.key = true
    · simp only [hk, if_true]
      obtain ⟨l, hl⟩ := h fld (by simp) (by simpa using hk)
      rw [hl]
      simp only [transformValue]
      cases hp : parseAll P l with
      | error e =>
        obtain ⟨err, he⟩ := parseAll_invalid_only P l e hp
        subst he
        exact Or.inr ⟨err, rfl⟩
      | ok ps => simpa using ihr
    · rw [if_neg hk]; simpa using ihr

end Bib.Names
