/-
  C05 (print → parse), pipeline level: what the default write stack produces for a writable library
  (`writeDefault_render`), and what the default parse stack makes of blocks whose values are all
  brace-enclosed (`parse_enclosed`).
-/
import BibVerif.Lemmas.PrintParseDoc
namespace Bib.PrintParse
open Bib Bib.Writer Bib.Enclosing Bib.Pipeline Bib.Interpolate

variable {P : PyChars}

/-! ### `Library.add` on blocks with pairwise distinct keys -/

theorem entryKeys_cons (b : Block) (bs : List Block) :
    entryKeys (b :: bs) = (match b with | .live (.entry e) => [e.key] | _ => []) ++ entryKeys bs := by
  unfold entryKeys
  rw [List.filterMap_cons]
  split <;> rename_i h
  · split at h <;> simp_all
  · split at h <;> simp_all

theorem stringKeys_cons (b : Block) (bs : List Block) :
    stringKeys (b :: bs) = (match b with | .live (.string k _ _ _ _) => [k] | _ => []) ++ stringKeys bs := by
  unfold stringKeys
  rw [List.filterMap_cons]
  split <;> rename_i h
  · split at h <;> simp_all
  · split at h <;> simp_all

theorem lookup_append_none (d : List (Str × Live)) (k' : Str) (b : Live) (k : Str)
    (h : Interpolate.lookup d k = none) (hk : k' ≠ k) : Interpolate.lookup (d ++ [(k', b)]) k = none := by
  rw [Interpolate.lookup_append, h]; simp [hk]

theorem foldl_addOne_id (bs : List Block) : ∀ (L0 : Lib), (∀ b ∈ bs, b.isFailed = false) →
    (entryKeys bs).Nodup → (stringKeys bs).Nodup →
    (∀ k ∈ entryKeys bs, Interpolate.lookup L0.entries k = none) →
    (∀ k ∈ stringKeys bs, Interpolate.lookup L0.strings k = none) →
    (bs.foldl addOne L0).blocks = L0.blocks ++ bs := by
  induction bs with
  | nil => intro L0 _ _ _ _ _; simp
  | cons b rest ih =>
    intro L0 hl he hs hle hls
    have hlr : ∀ x ∈ rest, x.isFailed = false := fun x hx => hl x (List.mem_cons_of_mem _ hx)
    rw [entryKeys_cons] at he hle
    rw [stringKeys_cons] at hs hls
    rw [List.foldl_cons]
    match b, hl b List.mem_cons_self with
    | .live (.entry e), _ =>
      simp only [List.singleton_append, List.nodup_cons, List.mem_cons, forall_eq_or_imp] at he hle
      have hnone := hle.1
      simp only [List.nil_append] at hs hls
      have hadd : addOne L0 (.live (.entry e)) =
          { L0 with blocks := L0.blocks ++ [.live (.entry e)], entries := L0.entries ++ [(e.key, .entry e)] } := by
        simp [addOne, hnone]
      have := ih { L0 with blocks := L0.blocks ++ [.live (.entry e)], entries := L0.entries ++ [(e.key, .entry e)] }
        hlr he.2 hs (fun k hk => lookup_append_none _ _ _ _ (hle.2 k hk) (fun h => he.1 (h ▸ hk))) hls
      rw [hadd, this]; simp
    | .live (.string k v l r m), _ =>
      simp only [List.singleton_append, List.nodup_cons, List.mem_cons, forall_eq_or_imp] at hs hls
      have hnone := hls.1
      simp only [List.nil_append] at he hle
      have hadd : addOne L0 (.live (.string k v l r m)) =
          { L0 with blocks := L0.blocks ++ [.live (.string k v l r m)],
                    strings := L0.strings ++ [(k, .string k v l r m)] } := by
        simp [addOne, hnone]
      have := ih { L0 with blocks := L0.blocks ++ [.live (.string k v l r m)],
                           strings := L0.strings ++ [(k, .string k v l r m)] }
        hlr he hs.2 hle (fun k' hk' => lookup_append_none _ _ _ _ (hls.2 k' hk') (fun h => hs.1 (h ▸ hk')))
      rw [hadd, this]; simp
    | .live (.preamble v l r m), _ =>
      simp only [List.nil_append] at he hle hs hls
      have := ih { L0 with blocks := L0.blocks ++ [.live (.preamble v l r m)] } hlr he hs hle hls
      rw [show addOne L0 (.live (.preamble v l r m)) = { L0 with blocks := L0.blocks ++ [.live (.preamble v l r m)] } from rfl,
        this]; simp
    | .live (.expl v l r m), _ =>
      simp only [List.nil_append] at he hle hs hls
      have := ih { L0 with blocks := L0.blocks ++ [.live (.expl v l r m)] } hlr he hs hle hls
      rw [show addOne L0 (.live (.expl v l r m)) = { L0 with blocks := L0.blocks ++ [.live (.expl v l r m)] } from rfl,
        this]; simp
    | .live (.impl v l r m), _ =>
      simp only [List.nil_append] at he hle hs hls
      have := ih { L0 with blocks := L0.blocks ++ [.live (.impl v l r m)] } hlr he hs hle hls
      rw [show addOne L0 (.live (.impl v l r m)) = { L0 with blocks := L0.blocks ++ [.live (.impl v l r m)] } from rfl,
        this]; simp

/-- **`Library.add` is the identity on live blocks with pairwise distinct entry keys and pairwise
distinct @string keys.** -/
theorem addAll_id (bs : List Block) (hl : ∀ b ∈ bs, b.isFailed = false) (he : (entryKeys bs).Nodup)
    (hs : (stringKeys bs).Nodup) : (addAll bs).blocks = bs := by
  have := foldl_addOne_id bs Lib.empty hl he hs (fun _ _ => rfl) (fun _ _ => rfl)
  simpa [addAll, Lib.empty] using this

/-! ### contents determine class and keys -/

def cEntryKey : Content → Option Str
  | .entry _ k _ => some k
  | _ => none

def cStringKey : Content → Option Str
  | .string k _ => some k
  | _ => none

def cFailed : Content → Bool
  | .failed _ => true
  | _ => false

def cImpl : Content → Bool
  | .impl _ => true
  | _ => false

theorem entryKeys_content (bs : List Block) : entryKeys bs = (bs.map contentOf).filterMap cEntryKey := by
  induction bs with
  | nil => rfl
  | cons b r ih =>
    rw [entryKeys_cons, ih, List.map_cons, List.filterMap_cons]
    match b with
    | .live (.entry e) => simp [contentOf, cEntryKey]
    | .live (.string _ _ _ _ _) => simp [contentOf, cEntryKey]
    | .live (.preamble _ _ _ _) => simp [contentOf, cEntryKey]
    | .live (.expl _ _ _ _) => simp [contentOf, cEntryKey]
    | .live (.impl _ _ _ _) => simp [contentOf, cEntryKey]
    | .failed _ _ _ => simp [contentOf, cEntryKey]
    | .dupField _ _ => simp [contentOf, cEntryKey]
    | .dupKey _ _ _ => simp [contentOf, cEntryKey]
    | .mwError _ _ => simp [contentOf, cEntryKey]

theorem stringKeys_content (bs : List Block) : stringKeys bs = (bs.map contentOf).filterMap cStringKey := by
  induction bs with
  | nil => rfl
  | cons b r ih =>
    rw [stringKeys_cons, ih, List.map_cons, List.filterMap_cons]
    match b with
    | .live (.entry e) => simp [contentOf, cStringKey]
    | .live (.string _ _ _ _ _) => simp [contentOf, cStringKey]
    | .live (.preamble _ _ _ _) => simp [contentOf, cStringKey]
    | .live (.expl _ _ _ _) => simp [contentOf, cStringKey]
    | .live (.impl _ _ _ _) => simp [contentOf, cStringKey]
    | .failed _ _ _ => simp [contentOf, cStringKey]
    | .dupField _ _ => simp [contentOf, cStringKey]
    | .dupKey _ _ _ => simp [contentOf, cStringKey]
    | .mwError _ _ => simp [contentOf, cStringKey]

theorem isFailed_content (b : Block) : b.isFailed = cFailed (contentOf b) := by
  match b with
  | .live (.entry e) => rfl
  | .live (.string _ _ _ _ _) => rfl
  | .live (.preamble _ _ _ _) => rfl
  | .live (.expl _ _ _ _) => rfl
  | .live (.impl _ _ _ _) => rfl
  | .failed _ _ _ => rfl
  | .dupField _ _ => rfl
  | .dupKey _ _ _ => rfl
  | .mwError _ _ => rfl

theorem isImpl_content (b : Block) : isImpl b = cImpl (contentOf b) := by
  match b with
  | .live (.entry e) => rfl
  | .live (.string _ _ _ _ _) => rfl
  | .live (.preamble _ _ _ _) => rfl
  | .live (.expl _ _ _ _) => rfl
  | .live (.impl _ _ _ _) => rfl
  | .failed _ _ _ => rfl
  | .dupField _ _ => rfl
  | .dupKey _ _ _ => rfl
  | .mwError _ _ => rfl

/-! ### the write side -/

theorem encBlock_keys (L : List Block) :
    entryKeys (L.map encBlock) = entryKeys L ∧ stringKeys (L.map encBlock) = stringKeys L := by
  induction L with
  | nil => exact ⟨rfl, rfl⟩
  | cons b r ih =>
    rw [List.map_cons, entryKeys_cons, entryKeys_cons, stringKeys_cons, stringKeys_cons, ih.1, ih.2]
    match b with
    | .live (.entry e) => exact ⟨rfl, rfl⟩
    | .live (.string _ _ _ _ _) => exact ⟨rfl, rfl⟩
    | .live (.preamble _ _ _ _) => exact ⟨rfl, rfl⟩
    | .live (.expl _ _ _ _) => exact ⟨rfl, rfl⟩
    | .live (.impl _ _ _ _) => exact ⟨rfl, rfl⟩
    | .failed _ _ _ => exact ⟨rfl, rfl⟩
    | .dupField _ _ => exact ⟨rfl, rfl⟩
    | .dupKey _ _ _ => exact ⟨rfl, rfl⟩
    | .mwError _ _ => exact ⟨rfl, rfl⟩

theorem blockOK_live {b : Block} (h : BlockOK P b) : b.isFailed = false := by
  match b, h with
  | .live _, _ => rfl

theorem encBlock_live {b : Block} (h : b.isFailed = false) : (encBlock b).isFailed = false := by
  match b, h with
  | .live (.entry e), _ => rfl
  | .live (.string _ _ _ _ _), _ => rfl
  | .live (.preamble _ _ _ _), _ => rfl
  | .live (.expl _ _ _ _), _ => rfl
  | .live (.impl _ _ _ _), _ => rfl

/-- the field loop of `AddEnclosingMiddleware('{', reuse=False)` -/
theorem addFields_enc (mdEnc : Option Meta) (hmd : mdEnc = none ∨ ∃ d, mdEnc = some (.dict d))
    (fs : List Field) (h : AllStr fs) :
    addFields P defaultAddCfg mdEnc fs = .ok (encFields fs) := by
  induction fs with
  | nil => rfl
  | cons f r ih =>
    have hr := ih (fun g hg => h g (List.mem_cons_of_mem _ hg))
    obtain ⟨s, hs⟩ := h f List.mem_cons_self
    have hprev : ∃ pv, prevEnclosing mdEnc f.key = .ok pv := by
      rcases hmd with rfl | ⟨d, rfl⟩ <;> exact ⟨_, rfl⟩
    obtain ⟨pv, hpv⟩ := hprev
    have henc : enclose P defaultAddCfg (.str s) pv (isIntField f.key) = .ok (.str ('{' :: s ++ ['}'])) := by
      simp [enclose, pyStr, defaultAddCfg, wrapWith]
    have hcons : encFields (f :: r) = { f with value := .str ('{' :: s ++ ['}']) } :: encFields r := by
      simp [encFields, hs, strOf]
    rw [hcons]
    simp only [addFields, hpv, hs, henc, hr]

theorem allStr_of_fieldOK {fs : List Field} (h : ∀ f ∈ fs, FieldOK P f) : AllStr fs := by
  intro f hf
  obtain ⟨v, hv, _⟩ := (h f hf).value
  exact ⟨v, hv⟩

theorem mapBlock_add_enc (b : Block) (hb : BlockOK P b) :
    mapBlock false (addLive P defaultAddCfg) b = .ok (encBlock b) := by
  match b, hb with
  | .live (.entry e), hb =>
    have := addFields_enc (P := P) (assocGet e.md REMOVED_ENCLOSING_KEY) hb.md e.fields (allStr_of_fieldOK hb.fields)
    simp [mapBlock, addLive, addEntry, this, encBlock]
  | .live (.string k v l r m), hb =>
    obtain ⟨_, _, s, rfl, _⟩ := hb
    simp [mapBlock, addLive, enclose, pyStr, defaultAddCfg, wrapWith, encBlock, strOf]
  | .live (.preamble v l r m), _ => rfl
  | .live (.expl v l r m), _ => rfl
  | .live (.impl v l r m), _ => rfl

theorem addLib_enc (L : List Block) (h : ∀ b ∈ L, BlockOK P b) :
    addLib P defaultAddCfg false L = .ok (L.map encBlock) := by
  induction L with
  | nil => rfl
  | cons b r ih =>
    have hr := ih (fun x hx => h x (List.mem_cons_of_mem _ hx))
    simp only [addLib] at hr ⊢
    simp [mapBlocks, mapBlock_add_enc b (h b List.mem_cons_self), hr]

/-- the field lines the writer emits for enclosed fields are `linesText` -/
theorem fieldLines_enc (F F' : BibtexFormat) (hi : F'.indent = F.indent) (ht : F'.trailingComma = F.trailingComma)
    (col n : Nat) (fs : List Field) : ∀ i, i + fs.length = n →
    fieldLines F' col n i (encFields fs) = linesText F col fs := by
  induction fs with
  | nil => intro i _; rfl
  | cons f r ih =>
    intro i hn
    simp only [List.length_cons] at hn
    have hc : hasComma F' n i = (F.trailingComma || !r.isEmpty) := by
      unfold hasComma
      rw [ht]
      congr 1
      cases r with
      | nil => simp at hn ⊢; omega
      | cons g r' => simp at hn ⊢; omega
    have hcons : encFields (f :: r) = { f with value := .str ('{' :: strOf f.value ++ ['}']) } :: encFields r := rfl
    rw [hcons, fieldLines, ih (i + 1) (by omega)]
    simp [fieldLine, linesText, lineHead, hi, hc, valText, VAL_SEP]

theorem kw_string_lit : "@string{".toList = '@' :: ("string".toList ++ ['{']) := by decide
theorem kw_preamble_lit : "@preamble{".toList = '@' :: ("preamble".toList ++ ['{']) := by decide
theorem kw_comment_lit : "@comment{".toList = '@' :: ("comment".toList ++ ['{']) := by decide

/-- the text `writer.write` produces for one block of the enclosed library -/
theorem blockText_enc (F F' : BibtexFormat) (hi : F'.indent = F.indent) (ht : F'.trailingComma = F.trailingComma)
    (col : Nat) (hc : F'.valueColumn = .num col) (b : Block) (hb : BlockOK P b) :
    blockText P F' (.block (encBlock b)) = .ok (textOf F col b) := by
  match b, hb with
  | .live (.entry e), hb =>
    have hv : ∀ f ∈ encFields e.fields, IsStr f.value := by
      intro f hf
      simp only [encFields, List.mem_map] at hf
      obtain ⟨g, _, rfl⟩ := hf
      exact ⟨_, rfl⟩
    obtain ⟨p, hp, hj⟩ := treatEntry_join F' col hc
      { e with fields := encFields e.fields, md := assocErase e.md REMOVED_ENCLOSING_KEY } hv
    have hfl := fieldLines_enc F F' hi ht col (encFields e.fields).length e.fields 0 (by simp [encFields])
    simp only [blockText, encBlock, treatBlock, hp, hj, entryText, hfl, textOf, coreOf]
    simp
  | .live (.string k v l r m), hb =>
    obtain ⟨_, _, s, rfl, _⟩ := hb
    simp only [blockText, encBlock, treatBlock, pieceOfVal, joinPieces, textOf, coreOf, strOf, VAL_SEP, kw_string_lit]
    simp
  | .live (.preamble v l r m), _ =>
    simp only [blockText, encBlock, treatBlock, joinPieces, textOf, coreOf, kw_preamble_lit]
    simp
  | .live (.expl c l r m), _ =>
    simp only [blockText, encBlock, treatBlock, joinPieces, textOf, coreOf, kw_comment_lit]
    simp
  | .live (.impl c l r m), _ =>
    simp [blockText, encBlock, treatBlock, joinPieces, textOf, coreOf]

theorem joinWith_render (F : BibtexFormat) (col : Nat) (L : List Block) :
    joinWith F.blockSeparator (L.map (textOf F col)) = render F col L := by
  induction L with
  | nil => rfl
  | cons b r ih =>
    cases r with
    | nil => rfl
    | cons b2 r2 =>
      simp only [List.map_cons, joinWith, render] at ih ⊢
      rw [ih]

/-- the column the field values are aligned to: `value_column`, or for `"auto"` the longest field key
of the entries plus 3 -/
def wcol (F : BibtexFormat) (L : List Block) : Nat :=
  match (resolveFormat F ((L.map encBlock).map Item.block)).valueColumn with
  | .num c => c
  | .auto => 0

/-- **the written text**: `write_string(L, bibtex_format=F)` is `render F (wcol F L) L` -/
theorem writeDefault_render (F : BibtexFormat) (L : List Block) (hw : Writable P L) :
    writeDefault P F L = .ok (render F (wcol F L) L) := by
  have hlive : ∀ b ∈ L.map encBlock, b.isFailed = false := by
    intro b hb
    obtain ⟨b0, hb0, rfl⟩ := List.mem_map.mp hb
    exact encBlock_live (blockOK_live (hw.blocks b0 hb0))
  have hid : (addAll (L.map encBlock)).blocks = L.map encBlock :=
    addAll_id _ hlive (by rw [(encBlock_keys L).1]; exact hw.entryKeys)
      (by rw [(encBlock_keys L).2]; exact hw.stringKeys)
  unfold writeDefault
  rw [addLib_enc L hw.blocks]
  simp only [hid]
  let items := (L.map encBlock).map Item.block
  obtain ⟨c, hc⟩ := resolveFormat_isNum F items
  have hcol : wcol F L = c := by simp only [wcol]; rw [show (L.map encBlock).map Item.block = items from rfl, hc]
  have htexts : Forall2 (fun it t => blockText P (resolveFormat F items) it = .ok t) items
      (L.map (textOf F c)) := by
    have : ∀ (M : List Block), (∀ b ∈ M, BlockOK P b) →
        Forall2 (fun it t => blockText P (resolveFormat F items) it = .ok t) ((M.map encBlock).map Item.block)
          (M.map (textOf F c)) := by
      intro M
      induction M with
      | nil => intro _; exact .nil
      | cons b r ih =>
        intro hM
        exact .cons (blockText_enc F _ (resolveFormat_indent F items) (resolveFormat_comma F items) c hc b
          (hM b List.mem_cons_self)) (ih (fun x hx => hM x (List.mem_cons_of_mem _ hx)))
    exact this L hw.blocks
  obtain ⟨pieces, hp, hj⟩ := writeLoop_join P (resolveFormat F items) items.length items _ htexts 0 (by simp)
  have : Writer.write P F items = .ok (joinWith F.blockSeparator (L.map (textOf F c))) := by
    simp [Writer.write, writeSt, hp, hj, resolveFormat_sep]
  rw [show (L.map encBlock).map Item.block = items from rfl, this, joinWith_render, hcol]

end Bib.PrintParse
