/-
  C09 at pipeline level.

  1. The two models of sequential `Library.add` agree: `AddAll.lean` (`KLib`, `addOne`, `addMany`,
     with the two asserts of `_cast_to_duplicate` explicit) and `Interpolate.lean` (`Lib`, `addOne`,
     `addAll`, assert-free).  Both keep first-occurrence association lists; the invariant is that
     the three components are equal.
  2. The *skeleton* of a block (`skel`): everything C09 speaks about and that a value-level
     middleware must not change - class, entry type, keys, field keys (with their lines) in order,
     start line, raw text, comment / preamble text, failure reason, and for the wrappers the
     duplicated keys / the key and the skeletons of the wrapped blocks.  Field values, @string
     values and `parser_metadata` are erased.
  3. `ResolveStringReferences` (`Interpolate.transform`) and `RemoveEnclosing` in place
     (`Enclosing.removeLib P true`) preserve skeletons; re-adding (`Library(blocks)`) a block list
     whose skeletons are those of a library is the identity.  Hence `parseDefault_skel`.
-/
import BibVerif.Lemmas.AddAll
import BibVerif.Lemmas.Interpolate
import BibVerif.Pipeline
namespace Bib
open Bib.Enclosing

/-! ### 1. the two models of `Library.add` -/

/-- `Interpolate.lookup` is `List.lookup` -/
theorem ilookup_eq (d : List (Str × Live)) (k : Str) : Interpolate.lookup d k = d.lookup k := by
  induction d with
  | nil => rfl
  | cons p r ih =>
    obtain ⟨k', b⟩ := p
    by_cases h : k = k'
    · subst h; simp [Interpolate.lookup, List.lookup]
    · have h1 : (k == k') = false := by simpa using h
      have h2 : ¬ k' = k := fun hh => h hh.symm
      simp [Interpolate.lookup, List.lookup, h1, h2, ih]

/-- the assert-free library and the library with asserts hold the same data -/
structure Agree (L : Interpolate.Lib) (K : KLib) : Prop where
  blocks : L.blocks = K.blocks
  entries : L.entries = K.eidx
  strings : L.strings = K.sidx

theorem agree_empty : Agree Interpolate.Lib.empty {} := ⟨rfl, rfl, rfl⟩

theorem castToDuplicate_ok {prev dup : Live} {w : Block} (h : castToDuplicate prev dup = .ok w) :
    ∃ k, dup.key? = some k ∧ w = .dupKey k prev dup := by
  unfold castToDuplicate at h
  split at h
  · rename_i k hk
    split at h
    · injection h with h; exact ⟨k, hk, h.symm⟩
    · cases h
  · cases h

theorem addOne_agree (L : Interpolate.Lib) (K K' : KLib) (b : Block) (h : Agree L K)
    (hk : addOne K b = .ok K') : Agree (Interpolate.addOne L b) K' := by
  obtain ⟨hb, he, hs⟩ := h
  cases b with
  | live l =>
    cases l with
    | entry e =>
      simp only [addOne] at hk
      simp only [Interpolate.addOne, ilookup_eq, he]
      cases hl : K.eidx.lookup e.key with
      | none =>
        rw [hl] at hk
        injection hk with hk; subst hk
        exact ⟨by simp [hb], rfl, hs⟩
      | some prev =>
        rw [hl] at hk
        cases hc : castToDuplicate prev (.entry e) with
        | error err => simp [hc, bind, Except.bind] at hk
        | ok w =>
          simp only [hc, bind, Except.bind, pure, Except.pure, Except.ok.injEq] at hk
          obtain ⟨k, hkey, hw⟩ := castToDuplicate_ok hc
          injection hkey with hkey
          subst hk; subst hw; subst hkey
          exact ⟨by simp [hb], rfl, hs⟩
    | string k0 v li r m =>
      simp only [addOne] at hk
      simp only [Interpolate.addOne, ilookup_eq, hs]
      cases hl : K.sidx.lookup k0 with
      | none =>
        rw [hl] at hk
        injection hk with hk; subst hk
        exact ⟨by simp [hb], he, rfl⟩
      | some prev =>
        rw [hl] at hk
        cases hc : castToDuplicate prev (.string k0 v li r m) with
        | error err => simp [hc, bind, Except.bind] at hk
        | ok w =>
          simp only [hc, bind, Except.bind, pure, Except.pure, Except.ok.injEq] at hk
          obtain ⟨k, hkey, hw⟩ := castToDuplicate_ok hc
          injection hkey with hkey
          subst hk; subst hw; subst hkey
          exact ⟨by simp [hb], he, rfl⟩
    | preamble v li r m => injection hk with hk; subst hk; exact ⟨by simp [Interpolate.addOne, hb], he, hs⟩
    | expl v li r m => injection hk with hk; subst hk; exact ⟨by simp [Interpolate.addOne, hb], he, hs⟩
    | impl v li r m => injection hk with hk; subst hk; exact ⟨by simp [Interpolate.addOne, hb], he, hs⟩
  | failed w li r => injection hk with hk; subst hk; exact ⟨by simp [Interpolate.addOne, hb], he, hs⟩
  | dupField d e => injection hk with hk; subst hk; exact ⟨by simp [Interpolate.addOne, hb], he, hs⟩
  | dupKey k0 p d => injection hk with hk; subst hk; exact ⟨by simp [Interpolate.addOne, hb], he, hs⟩
  | mwError w i => injection hk with hk; subst hk; exact ⟨by simp [Interpolate.addOne, hb], he, hs⟩

theorem addMany_agree (bs : List Block) : ∀ (L : Interpolate.Lib) (K K' : KLib), Agree L K →
    addMany K bs = .ok K' → Agree (bs.foldl Interpolate.addOne L) K' := by
  induction bs with
  | nil => intro L K K' h hk; injection hk with hk; subst hk; exact h
  | cons b bs ih =>
    intro L K K' h hk
    simp only [addMany, bind, Except.bind] at hk
    cases h1 : addOne K b with
    | error e => rw [h1] at hk; cases hk
    | ok K1 =>
      rw [h1] at hk
      exact ih _ K1 K' (addOne_agree L K K1 b h h1) hk

/-- **The two models of `Library(blocks)` agree** (blocks and both indexes). -/
theorem libraryOfE_agree (bs : List Block) (K : KLib) (h : libraryOfE bs = .ok K) :
    Agree (Interpolate.addAll bs) K :=
  addMany_agree bs _ _ _ agree_empty h

/-- the assert-free model yields the specified blocks -/
theorem addAll_blocks_spec (bs : List Block) : (Interpolate.addAll bs).blocks = addAllSpec [] bs := by
  obtain ⟨K, h, inv⟩ := addMany_inv bs {} [] libInv_empty
  rw [(libraryOfE_agree bs K h).blocks]
  simpa using inv.blocks

/-! ### 2. skeletons -/

/-- what remains of an entry: type, key, the field keys in order (with the line of each), start
line, raw text -/
structure ESkel where
  ty : Str
  key : Str
  fields : List (Str × Int)
  line : Int
  raw : Str
deriving DecidableEq, Repr

inductive LSkel
  | entry (e : ESkel)
  | string (key : Str) (line : Int) (raw : Str)
  | preamble (value : Str) (line : Int) (raw : Str)
  | expl (comment : Str) (line : Int) (raw : Str)
  | impl (comment : Str) (line : Int) (raw : Str)
deriving DecidableEq, Repr

/-- the skeleton of a block: class, keys, field keys, positions, raw text, wrapper structure;
no field / @string value and no parser metadata -/
inductive Skel
  | live (l : LSkel)
  | failed (why : Fail) (line : Int) (raw : Str)
  | dupField (dups : List Str) (e : ESkel)
  | dupKey (key : Str) (prev dup : LSkel)
  | mwError (why : MwErr) (inner : LSkel)
deriving DecidableEq, Repr

def skelFields (fs : List Field) : List (Str × Int) := fs.map fun f => (f.key, f.line)

def skelEntry (e : Entry) : ESkel :=
  { ty := e.ty, key := e.key, fields := skelFields e.fields, line := e.line, raw := e.raw }

def skelLive : Live → LSkel
  | .entry e => .entry (skelEntry e)
  | .string k _ l r _ => .string k l r
  | .preamble v l r _ => .preamble v l r
  | .expl c l r _ => .expl c l r
  | .impl c l r _ => .impl c l r

def skel : Block → Skel
  | .live l => .live (skelLive l)
  | .failed w l r => .failed w l r
  | .dupField d e => .dupField d (skelEntry e)
  | .dupKey k p d => .dupKey k (skelLive p) (skelLive d)
  | .mwError w i => .mwError w (skelLive i)

/-- the key a block registers in `_entries_by_key`, read off its skeleton -/
def Skel.entryKey? : Skel → Option Str
  | .live (.entry e) => some e.key
  | _ => none

/-- the key a block registers in `_strings_by_key` -/
def Skel.stringKey? : Skel → Option Str
  | .live (.string k _ _) => some k
  | _ => none

/-- the class of a block as a number: 0 entry, 1 @string, 2 @preamble, 3 @comment, 4 free text,
5 failed, 6 duplicate field keys, 7 duplicate block key, 8 middleware error -/
def Skel.cls : Skel → Nat
  | .live (.entry _) => 0
  | .live (.string ..) => 1
  | .live (.preamble ..) => 2
  | .live (.expl ..) => 3
  | .live (.impl ..) => 4
  | .failed .. => 5
  | .dupField .. => 6
  | .dupKey .. => 7
  | .mwError .. => 8

def eKeys (bs : List Block) : List Str := bs.filterMap fun b => (skel b).entryKey?
def sKeys (bs : List Block) : List Str := bs.filterMap fun b => (skel b).stringKey?

theorem eKeys_skel (bs : List Block) : eKeys bs = (bs.map skel).filterMap Skel.entryKey? := by
  simp [eKeys, List.filterMap_map, Function.comp_def]

theorem sKeys_skel (bs : List Block) : sKeys bs = (bs.map skel).filterMap Skel.stringKey? := by
  simp [sKeys, List.filterMap_map, Function.comp_def]

theorem eKeys_append (a b : List Block) : eKeys (a ++ b) = eKeys a ++ eKeys b := by
  simp [eKeys, List.filterMap_append]

theorem sKeys_append (a b : List Block) : sKeys (a ++ b) = sKeys a ++ sKeys b := by
  simp [sKeys, List.filterMap_append]

theorem firstEntry_none_iff (k : Str) (bs : List Block) : firstEntry k bs = none ↔ k ∉ eKeys bs := by
  induction bs with
  | nil => simp [firstEntry, eKeys]
  | cons b bs ih =>
    cases b with
    | live l =>
      cases l with
      | entry e =>
        by_cases hk : e.key = k
        · simp [firstEntry, eKeys, skel, skelLive, skelEntry, Skel.entryKey?, hk]
        · have hk' : ¬ k = e.key := fun h => hk h.symm
          simpa [firstEntry, eKeys, skel, skelLive, skelEntry, Skel.entryKey?, hk, hk'] using ih
      | _ => simpa [firstEntry, eKeys, skel, skelLive, Skel.entryKey?] using ih
    | _ => simpa [firstEntry, eKeys, skel, Skel.entryKey?] using ih

theorem firstString_none_iff (k : Str) (bs : List Block) : firstString k bs = none ↔ k ∉ sKeys bs := by
  induction bs with
  | nil => simp [firstString, sKeys]
  | cons b bs ih =>
    cases b with
    | live l =>
      cases l with
      | string k0 v li r m =>
        by_cases hk : k0 = k
        · simp [firstString, sKeys, skel, skelLive, Skel.stringKey?, hk]
        · have hk' : ¬ k = k0 := fun h => hk h.symm
          simpa [firstString, sKeys, skel, skelLive, Skel.stringKey?, hk, hk'] using ih
      | _ => simpa [firstString, sKeys, skel, skelLive, Skel.stringKey?] using ih
    | _ => simpa [firstString, sKeys, skel, Skel.stringKey?] using ih

/-- after `Library.add` decided about it a block registers no entry key, or one that no earlier
live entry has -/
theorem eKeys_addSpec (q : List Block) (b : Block) :
    eKeys [addSpec q b] = [] ∨ ∃ k, eKeys [addSpec q b] = [k] ∧ firstEntry k q = none := by
  cases b with
  | live l =>
    cases l with
    | entry e =>
      simp only [addSpec]
      cases hf : firstEntry e.key q with
      | none => exact .inr ⟨e.key, rfl, hf⟩
      | some p => exact .inl rfl
    | string k0 v li r m =>
      simp only [addSpec]
      cases firstString k0 q <;> exact .inl rfl
    | _ => exact .inl rfl
  | _ => exact .inl rfl

theorem sKeys_addSpec (q : List Block) (b : Block) :
    sKeys [addSpec q b] = [] ∨ ∃ k, sKeys [addSpec q b] = [k] ∧ firstString k q = none := by
  cases b with
  | live l =>
    cases l with
    | string k0 v li r m =>
      simp only [addSpec]
      cases hf : firstString k0 q with
      | none => exact .inr ⟨k0, rfl, hf⟩
      | some p => exact .inl rfl
    | entry e =>
      simp only [addSpec]
      cases firstEntry e.key q <;> exact .inl rfl
    | _ => exact .inl rfl
  | _ => exact .inl rfl

/-- in a library no two live entries have the same key … -/
theorem eKeys_addAllSpec_nodup (bs : List Block) : (eKeys (addAllSpec [] bs)).Nodup := by
  refine list_rev_ind (motive := fun q => (eKeys (addAllSpec [] q)).Nodup) List.nodup_nil ?_ bs
  intro q b ih
  rw [addAllSpec_snoc, eKeys_append]
  rcases eKeys_addSpec q b with h | ⟨k, h, hk⟩
  · rw [h]; simpa using ih
  · rw [h]
    have : k ∉ eKeys (addAllSpec [] q) := by
      rw [← firstEntry_none_iff, firstEntry_addAllSpec]; exact hk
    rw [List.nodup_append]
    refine ⟨ih, by simp, ?_⟩
    intro a ha c hc
    simp only [List.mem_singleton] at hc
    subst hc; intro hac; subst hac; exact this ha

/-- … and no two live @strings -/
theorem sKeys_addAllSpec_nodup (bs : List Block) : (sKeys (addAllSpec [] bs)).Nodup := by
  refine list_rev_ind (motive := fun q => (sKeys (addAllSpec [] q)).Nodup) List.nodup_nil ?_ bs
  intro q b ih
  rw [addAllSpec_snoc, sKeys_append]
  rcases sKeys_addSpec q b with h | ⟨k, h, hk⟩
  · rw [h]; simpa using ih
  · rw [h]
    have : k ∉ sKeys (addAllSpec [] q) := by
      rw [← firstString_none_iff, firstString_addAllSpec]; exact hk
    rw [List.nodup_append]
    refine ⟨ih, by simp, ?_⟩
    intro a ha c hc
    simp only [List.mem_singleton] at hc
    subst hc; intro hac; subst hac; exact this ha

/-- **Re-adding is the identity** on every block list in which the live entries have pairwise
distinct keys and the live @strings have pairwise distinct keys (failed blocks, in particular
duplicate-key wrappers, are neither re-wrapped nor registered). -/
theorem addAllSpec_id (bs : List Block) : ∀ pre : List Block, (eKeys (pre ++ bs)).Nodup →
    (sKeys (pre ++ bs)).Nodup → addAllSpec pre bs = bs := by
  induction bs with
  | nil => intro _ _ _; rfl
  | cons b bs ih =>
    intro pre he hs
    have hrest : addAllSpec (pre ++ [b]) bs = bs :=
      ih (pre ++ [b]) (by simpa using he) (by simpa using hs)
    simp only [addAllSpec, hrest, List.cons.injEq, and_true]
    cases b with
    | live l =>
      cases l with
      | entry e =>
        have hnot : e.key ∉ eKeys pre := by
          rw [eKeys_append] at he
          have := (List.nodup_append.mp he).2.2
          intro hm
          exact this _ hm e.key (by simp [eKeys, skel, skelLive, skelEntry, Skel.entryKey?]) rfl
        simp [addSpec, (firstEntry_none_iff e.key pre).mpr hnot]
      | string k0 v li r m =>
        have hnot : k0 ∉ sKeys pre := by
          rw [sKeys_append] at hs
          have := (List.nodup_append.mp hs).2.2
          intro hm
          exact this _ hm k0 (by simp [sKeys, skel, skelLive, Skel.stringKey?]) rfl
        simp [addSpec, (firstString_none_iff k0 pre).mpr hnot]
      | _ => rfl
    | _ => rfl

/-- the generalised re-add lemma: a block list with the skeletons of a library is a fixed point
of `Library(blocks)` -/
theorem addAllSpec_of_skel (bs' bs : List Block) (h : bs'.map skel = (addAllSpec [] bs).map skel) :
    addAllSpec [] bs' = bs' := by
  apply addAllSpec_id bs' []
  · rw [List.nil_append, eKeys_skel, h, ← eKeys_skel]; exact eKeys_addAllSpec_nodup bs
  · rw [List.nil_append, sKeys_skel, h, ← sKeys_skel]; exact sKeys_addAllSpec_nodup bs

/-! ### 3. the value-level middlewares keep skeletons -/

theorem skelFields_resolve (strings : List (Str × Live)) (fs : List Field) :
    skelFields (Interpolate.resolveFields strings fs).1 = skelFields fs := by
  rw [Interpolate.resolveFields_fst]
  simp only [skelFields, List.map_map]
  apply List.map_congr_left
  intro f _
  simp only [Function.comp, Interpolate.resolveField]
  split <;> rfl

theorem skelEntry_resolve (strings : List (Str × Live)) (e : Entry) :
    skelEntry (Interpolate.resolveEntry strings e) = skelEntry e := by
  simp [skelEntry, Interpolate.resolveEntry, skelFields_resolve]

/-- `ResolveStringReferences` changes values and metadata only -/
theorem skel_resolveBlock (strings : List (Str × Live)) (b : Block) :
    skel (Interpolate.resolveBlock strings b) = skel b := by
  cases b with
  | live l =>
    cases l with
    | entry e => simp [Interpolate.resolveBlock, skel, skelLive, skelEntry_resolve]
    | _ => rfl
  | dupKey k p d =>
    cases p with
    | entry e => simp [Interpolate.resolveBlock, skel, skelLive, skelEntry_resolve]
    | _ => rfl
  | _ => rfl

theorem skel_transform (L : Interpolate.Lib) :
    (Interpolate.transform L).blocks.map skel = L.blocks.map skel := by
  simp [Interpolate.transform, List.map_map, Function.comp_def, skel_resolveBlock]

theorem skelFields_remove (P : PyChars) (fs : List Field) : ∀ (md : List (Str × Str)) fs' md',
    removeFields P fs md = .ok (fs', md') → skelFields fs' = skelFields fs := by
  induction fs with
  | nil => intro md fs' md' h; simp only [removeFields] at h; injection h with h; injection h with h1 _; subst h1; rfl
  | cons f r ih =>
    intro md fs' md' h
    simp only [removeFields] at h
    split at h
    · rename_i s hv
      split at h
      · rename_i fs1 md1 hr
        injection h with h; injection h with h1 _; subst h1
        simp [skelFields] at ih ⊢
        exact ih _ _ _ hr
      · cases h
    · cases h

theorem skelLive_remove (P : PyChars) (l l' : Live) (h : removeLive P l = .ok l') : skelLive l' = skelLive l := by
  cases l with
  | entry e =>
    simp only [removeLive, removeEntry] at h
    split at h
    · rename_i e' he
      split at he
      · cases he
      · rename_i fs md hr
        injection he with he; subst he
        injection h with h; subst h
        simp [skelLive, skelEntry, skelFields_remove P _ _ _ _ hr]
    · cases h
  | string k v li r m =>
    simp only [removeLive] at h
    split at h
    · injection h with h; subst h; rfl
    · cases h
  | preamble v li r m => injection h with h; subst h; rfl
  | expl v li r m => injection h with h; subst h; rfl
  | impl v li r m => injection h with h; subst h; rfl

/-- `BlockMiddleware.transform` of `RemoveEnclosing`, in place or on copies: values and metadata only -/
theorem skel_mapBlock_remove (P : PyChars) (inplace : Bool) (b b' : Block)
    (h : mapBlock inplace (removeLive P) b = .ok b') : skel b' = skel b := by
  cases b with
  | live l =>
    simp only [mapBlock] at h
    split at h
    · rename_i l' hl; injection h with h; subst h
      simp [skel, skelLive_remove P l l' hl]
    · cases h
  | dupKey k p d =>
    simp only [mapBlock] at h
    split at h
    · split at h
      · rename_i p' hp; injection h with h; subst h
        simp [skel, skelLive_remove P p p' hp]
      · cases h
    · injection h with h; subst h; rfl
  | failed w li r => injection h with h; subst h; rfl
  | dupField d e => injection h with h; subst h; rfl
  | mwError w i => injection h with h; subst h; rfl

theorem skel_removeLib (P : PyChars) (inplace : Bool) (bs : List Block) : ∀ bs',
    removeLib P inplace bs = .ok bs' → bs'.map skel = bs.map skel := by
  unfold removeLib
  induction bs with
  | nil => intro bs' h; simp only [mapBlocks] at h; injection h with h; subst h; rfl
  | cons b r ih =>
    intro bs' h
    simp only [mapBlocks] at h
    split at h
    · cases h
    · rename_i b1 hb
      split at h
      · cases h
      · rename_i r1 hr
        injection h with h; subst h
        simp [skel_mapBlock_remove P inplace b b1 hb, ih r1 hr]

/-! ### the default parse stack -/

/-- **The default parse stack keeps the block structure** of `parse_string(text, parse_stack=[])`:
same number of blocks, each at its position with the same skeleton. -/
theorem parseDefault_skel (P : PyChars) (s : Str) (L : List Block)
    (h : Pipeline.parseDefault P s = .ok L) :
    ∃ bs, split P s = .ok bs ∧ L.map skel = (addAllSpec [] bs).map skel := by
  simp only [Pipeline.parseDefault, Interpolate.defaultParse] at h
  cases hs : split P s with
  | error e => rw [hs] at h; cases h
  | ok bs =>
    rw [hs] at h
    refine ⟨bs, rfl, ?_⟩
    simp only at h
    cases hr : removeLib P true (Interpolate.transform (Interpolate.addAll bs)).blocks with
    | error e => rw [hr] at h; cases h
    | ok bs' =>
      rw [hr] at h
      simp only [Except.map] at h
      injection h with h
      have h1 : bs'.map skel = (addAllSpec [] bs).map skel := by
        rw [skel_removeLib P true _ bs' hr, skel_transform, addAll_blocks_spec]
      rw [← h, addAll_blocks_spec, addAllSpec_of_skel bs' bs h1]
      exact h1

/-! ### reading a block off its skeleton -/

theorem skel_eq_entry {b : Block} {e : Entry} (h : skel b = skel (.live (.entry e))) :
    ∃ e', b = .live (.entry e') ∧ skelEntry e' = skelEntry e := by
  match b, h with
  | .live (.entry e'), h => exact ⟨e', rfl, by simpa [skel, skelLive] using h⟩

theorem skel_eq_string {b : Block} {k : Str} {v : Val} {l : Int} {r : Str} {m : MetaD}
    (h : skel b = skel (.live (.string k v l r m))) : ∃ v' m', b = .live (.string k v' l r m') := by
  match b, h with
  | .live (.string k' v' l' r' m'), h =>
    simp only [skel, skelLive, Skel.live.injEq, LSkel.string.injEq] at h
    obtain ⟨rfl, rfl, rfl⟩ := h
    exact ⟨v', m', rfl⟩

theorem skel_eq_dupKey {b : Block} {k : Str} {p d : Live} (h : skel b = skel (.dupKey k p d)) :
    ∃ p' d', b = .dupKey k p' d' ∧ skelLive p' = skelLive p ∧ skelLive d' = skelLive d := by
  match b, h with
  | .dupKey k' p' d', h =>
    simp only [skel, Skel.dupKey.injEq] at h
    obtain ⟨rfl, hp, hd⟩ := h
    exact ⟨p', d', rfl, hp, hd⟩

theorem skel_eq_dupField {b : Block} {ds : List Str} {e : Entry} (h : skel b = skel (.dupField ds e)) :
    ∃ e', b = .dupField ds e' ∧ skelEntry e' = skelEntry e := by
  match b, h with
  | .dupField ds' e', h =>
    simp only [skel, Skel.dupField.injEq] at h
    obtain ⟨rfl, he⟩ := h
    exact ⟨e', rfl, he⟩

/-- position by position: the block at `pre.length` of a list with the skeletons of
`Library(pre ++ b :: post)` has the skeleton of what `Library.add` makes of `b` after `pre` -/
theorem skel_at (L pre post : List Block) (b : Block)
    (h : L.map skel = (addAllSpec [] (pre ++ b :: post)).map skel) :
    ∃ b', L[pre.length]? = some b' ∧ skel b' = skel (addSpec pre b) := by
  have h1 := congrArg (fun l => l[pre.length]?) h
  simp only [List.getElem?_map] at h1
  have h2 : (addAllSpec [] (pre ++ b :: post))[pre.length]? = some (addSpec pre b) := by
    rw [addAllSpec_append, List.nil_append]
    rw [List.getElem?_append_right (by simp [addAllSpec_length])]
    simp [addAllSpec_length, addAllSpec]
  rw [h2] at h1
  cases hL : L[pre.length]? with
  | none => rw [hL] at h1; cases h1
  | some b' => rw [hL] at h1; exact ⟨b', rfl, by simpa using h1⟩

/-! ### counting blocks that are not free-text comments -/

/-- not an implicit (free-text) comment - the blocks that stand for a `@…` source block -/
def notImplicit (b : Block) : Bool :=
  match b with | .live (.impl ..) => false | _ => true

def Skel.notImplicit : Skel → Bool
  | .live (.impl ..) => false
  | _ => true

theorem notImplicit_skel (b : Block) : notImplicit b = (skel b).notImplicit := by
  match b with
  | .live (.entry _) => rfl
  | .live (.string ..) => rfl
  | .live (.preamble ..) => rfl
  | .live (.expl ..) => rfl
  | .live (.impl ..) => rfl
  | .failed .. => rfl
  | .dupField .. => rfl
  | .dupKey .. => rfl
  | .mwError .. => rfl

theorem notImplicit_addSpec (pre : List Block) (b : Block) : notImplicit (addSpec pre b) = notImplicit b := by
  cases b with
  | live l =>
    cases l with
    | entry e => simp only [addSpec]; cases firstEntry e.key pre <;> rfl
    | string k v li r m => simp only [addSpec]; cases firstString k pre <;> rfl
    | _ => rfl
  | _ => rfl

theorem filter_notImplicit_addAllSpec (bs : List Block) : ∀ pre,
    ((addAllSpec pre bs).filter notImplicit).length = (bs.filter notImplicit).length := by
  induction bs with
  | nil => intro _; rfl
  | cons b bs ih =>
    intro pre
    simp only [addAllSpec, List.filter_cons, notImplicit_addSpec]
    split <;> simp [ih]

theorem filter_notImplicit_of_skel (A B : List Block) (h : A.map skel = B.map skel) :
    (A.filter notImplicit).length = (B.filter notImplicit).length := by
  have e : ∀ X : List Block, (X.filter notImplicit).length = ((X.map skel).filter Skel.notImplicit).length := by
    intro X
    rw [List.filter_map, List.length_map]
    congr 1
    apply List.filter_congr
    intro b _; exact notImplicit_skel b
  rw [e A, e B, h]

end Bib
