/-
  C14 helper lemmas for `merge_parse`: scanning the text written from sections of replayable
  words gives those sections back.
-/
import BibVerif.Lemmas.NamesReplay
namespace Bib.NameP
open Bib.Names (joinSp)

variable (P : PyChars)

/-- sections written as `merge_last_name_first` writes them -/
def secText (S : List (List Word)) : Str :=
  joinWith ", ".toList (S.map fun sec => joinSp (words sec))

theorem pushWord_nonempty (t : S) (hw : t.word ≠ []) :
    pushWord t = { t with cur := t.cur ++ [(t.word, t.case)], word := [], case := none,
                          controlseq := false, specialchar := false } := by
  unfold pushWord
  have : t.word.isEmpty = false := by
    cases h : t.word with
    | nil => exact absurd h hw
    | cons _ _ => rfl
  rw [this]; rfl

theorem pushWord_empty (t : S) (hw : t.word = []) : pushWord t = t := by
  unfold pushWord
  simp [hw]

theorem sep_space {t : S} (hl : t.level = 0) (he : t.esc = false) (hw : t.word ≠ []) :
    ∃ t2, stepc P t ' ' = .ok t2 ∧ fresh t2 ∧ t2.cur = t.cur ++ [(t.word, t.case)] ∧ t2.done = t.done := by
  unfold stepc
  rw [he]
  simp only [Bool.false_eq_true, if_false]
  have h1 : (' ' : Char) ≠ '\\' := by decide
  rw [if_neg h1, plain_sep P t ' ' (by decide) (by decide) hl (by decide)]
  have h2 : (' ' : Char) ≠ ',' := by decide
  rw [if_neg h2, pushWord_nonempty { t with bracestart := false } hw]
  exact ⟨_, rfl, ⟨rfl, rfl, hl, he, rfl⟩, rfl, rfl⟩

theorem sep_comma {t : S} (hl : t.level = 0) (he : t.esc = false) (hw : t.word ≠ [])
    (hd : t.done.length + 1 < 3) :
    ∃ t2, stepc P t ',' = .ok t2 ∧ fresh t2 ∧ t2.cur = [] ∧
      t2.done = t.done ++ [t.cur ++ [(t.word, t.case)]] := by
  unfold stepc
  rw [he]
  simp only [Bool.false_eq_true, if_false]
  have h1 : (',' : Char) ≠ '\\' := by decide
  rw [if_neg h1, plain_sep P t ',' (by decide) (by decide) hl (by decide)]
  rw [if_pos rfl, pushWord_nonempty { t with bracestart := false } hw]
  simp only
  rw [if_pos hd]
  exact ⟨_, rfl, ⟨rfl, rfl, hl, he, rfl⟩, rfl, rfl⟩

theorem space_fresh {f : S} (hf : fresh f) :
    ∃ f2, stepc P f ' ' = .ok f2 ∧ fresh f2 ∧ f2.cur = f.cur ∧ f2.done = f.done := by
  obtain ⟨f1, f2, f3, f4, f5⟩ := hf
  unfold stepc
  rw [f4]
  simp only [Bool.false_eq_true, if_false]
  have h1 : (' ' : Char) ≠ '\\' := by decide
  rw [if_neg h1, plain_sep P f ' ' (by decide) (by decide) f3 (by decide)]
  have h2 : (' ' : Char) ≠ ',' := by decide
  rw [if_neg h2, pushWord_empty { f with bracestart := false } f1]
  exact ⟨_, rfl, ⟨f1, f2, f3, f4, rfl⟩, rfl, rfl⟩

theorem run_snoc_ok {s t t2 : S} {u : Str} {c : Char} (h1 : run P s u = .ok t) (h2 : stepc P t c = .ok t2) :
    run P s (u ++ [c]) = .ok t2 := by
  rw [run_append', h1]
  simp only [run, h2]

theorem joinSp_cons2 (a b : Str) (r : List Str) : joinSp (a :: b :: r) = a ++ [' '] ++ joinSp (b :: r) := by
  simp [joinSp, joinWith]

/-- the words of one section -/
theorem scan_words (sec : List Word) : ∀ (f : S) (x : Word), fresh f →
    (∀ w ∈ x :: sec, Replay P w.1 w.2 ∧ w.1 ≠ []) →
    ∃ t, run P f (joinSp (words (x :: sec))) = .ok t ∧ t.level = 0 ∧ t.esc = false ∧ t.done = f.done ∧
      t.cur ++ [(t.word, t.case)] = f.cur ++ (x :: sec) ∧ t.word ≠ [] := by
  induction sec with
  | nil =>
    intro f x hf hall
    obtain ⟨hr, hne⟩ := hall x (by simp)
    obtain ⟨t, h1, h2, h3, h4, h5, h6, h7⟩ := hr f hf
    refine ⟨t, by simpa [words, joinSp, joinWith] using h1, h4, h5, h7, ?_, by rw [h2]; exact hne⟩
    rw [h6, h2, h3]
  | cons y r ih =>
    intro f x hf hall
    obtain ⟨hr, hne⟩ := hall x (by simp)
    obtain ⟨t, h1, h2, h3, h4, h5, h6, h7⟩ := hr f hf
    obtain ⟨t2, s1, s2, s3, s4⟩ := sep_space P h4 h5 (by rw [h2]; exact hne)
    obtain ⟨t3, i1, i2, i3, i4, i5, i6⟩ := ih t2 y s2 (fun w hw => hall w (by simp at hw ⊢; exact Or.inr hw))
    refine ⟨t3, ?_, i2, i3, by rw [i4, s4, h7], ?_, i6⟩
    · have : joinSp (words (x :: y :: r)) = (x.1 ++ [' ']) ++ joinSp (words (y :: r)) := by
        simp [words, joinSp_cons2]
      rw [this, run_append', run_snoc_ok P h1 s1]
      exact i1
    · rw [i5, s3, h6, h2, h3]; simp

theorem secText_cons2 (a b : List Word) (r : List (List Word)) :
    secText (a :: b :: r) = joinSp (words a) ++ [',', ' '] ++ secText (b :: r) := by
  simp [secText, joinWith]

/-- several sections -/
theorem scan_secs (R : List (List Word)) : ∀ (f : S) (x : Word) (sec : List Word), fresh f → f.cur = [] →
    f.done.length + R.length + 1 ≤ 3 →
    (∀ s ∈ (x :: sec) :: R, s ≠ [] ∧ ∀ w ∈ s, Replay P w.1 w.2 ∧ w.1 ≠ []) →
    ∃ t, run P f (secText ((x :: sec) :: R)) = .ok t ∧ t.level = 0 ∧ t.esc = false ∧ t.word ≠ [] ∧
      t.done ++ [t.cur ++ [(t.word, t.case)]] = f.done ++ ((x :: sec) :: R) := by
  induction R with
  | nil =>
    intro f x sec hf hc _ hall
    obtain ⟨t, h1, h2, h3, h4, h5, h6⟩ := scan_words P sec f x hf (hall (x :: sec) (by simp)).2
    refine ⟨t, by simpa [secText, joinWith] using h1, h2, h3, h6, ?_⟩
    rw [h4, h5, hc]; simp
  | cons s2 R ih =>
    intro f x sec hf hc hlen hall
    obtain ⟨t, h1, h2, h3, h4, h5, h6⟩ := scan_words P sec f x hf (hall (x :: sec) (by simp)).2
    have hd : t.done.length + 1 < 3 := by rw [h4]; simp at hlen; omega
    obtain ⟨t2, c1, c2, c3, c4⟩ := sep_comma P h2 h3 h6 hd
    obtain ⟨t3, p1, p2, p3, p4⟩ := space_fresh P c2
    obtain ⟨hs2ne, hs2⟩ := hall s2 (by simp)
    obtain ⟨y, sec2, hy⟩ : ∃ y sec2, s2 = y :: sec2 := by
      cases s2 with
      | nil => exact absurd rfl hs2ne
      | cons y r => exact ⟨y, r, rfl⟩
    subst hy
    have hlen' : t3.done.length + R.length + 1 ≤ 3 := by
      rw [p4, c4, h4]; simp at hlen ⊢; omega
    obtain ⟨t4, i1, i2, i3, i4, i5⟩ := ih t3 y sec2 p2 (by rw [p3, c3]) hlen'
      (fun s hs => hall s (by simp at hs ⊢; exact Or.inr hs))
    refine ⟨t4, ?_, i2, i3, i4, ?_⟩
    · rw [secText_cons2]
      have : joinSp (words (x :: sec)) ++ [',', ' '] ++ secText ((y :: sec2) :: R) =
          ((joinSp (words (x :: sec)) ++ [',']) ++ [' ']) ++ secText ((y :: sec2) :: R) := by simp
      rw [this, run_append', run_snoc_ok P (run_snoc_ok P h1 c1) p1]
      exact i1
    · rw [i5, p4, c4, h4, h5, hc]; simp

/-- **scanning the written sections gives the sections** -/
theorem rescan (S : List (List Word)) (hne : S ≠ []) (hlen : S.length ≤ 3)
    (hall : ∀ s ∈ S, s ≠ [] ∧ ∀ w ∈ s, Replay P w.1 w.2 ∧ w.1 ≠ []) :
    scan P (secText S) = .ok S := by
  obtain ⟨s0, R, hS⟩ : ∃ s0 R, S = s0 :: R := by
    cases S with
    | nil => exact absurd rfl hne
    | cons a r => exact ⟨a, r, rfl⟩
  subst hS
  obtain ⟨x, sec, hx⟩ : ∃ x sec, s0 = x :: sec := by
    cases s0 with
    | nil => exact absurd rfl (hall [] (by simp)).1
    | cons a r => exact ⟨a, r, rfl⟩
  subst hx
  obtain ⟨t, h1, h2, h3, h4, h5⟩ := scan_secs P R init x sec fresh_init rfl
    (by simp [init] at hlen ⊢; omega) hall
  unfold scan
  rw [h1]
  simp only
  unfold finish
  simp only [h3, Bool.false_eq_true, if_false]
  have hl : ¬ t.level > 0 := by omega
  rw [if_neg hl]
  have hwe : t.word.isEmpty = false := by
    cases hw : t.word with
    | nil => exact absurd hw h4
    | cons _ _ => rfl
  simp only [hwe, Bool.false_eq_true, if_false, isEmpty_snoc]
  rw [h5]; simp [init]

end Bib.NameP
