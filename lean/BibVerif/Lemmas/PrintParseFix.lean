/-
  C05, fixpoint: writability and the written text depend only on the content of the blocks (plus the
  `removed_enclosing` metadata shape), so the re-parsed library is writable again and is written
  as the same text.
-/
import BibVerif.Lemmas.PrintParseMain
namespace Bib.PrintParse
open Bib Bib.Writer Bib.Enclosing Bib.Pipeline Bib.Interpolate

variable {P : PyChars}

/-! ### writability is a property of the content -/

def FieldOKC (P : PyChars) (kv : Str × Val) : Prop :=
  KeyOK P kv.1 ∧ strip P kv.1 = kv.1 ∧ ∃ v, kv.2 = .str v ∧ EncVal P v

def BlockOKC (P : PyChars) : Content → Prop
  | .entry ty k fs =>
    (∀ c ∈ ty, P.isWord c = true) ∧ lower P ty = ty ∧ strip P ty = ty ∧
    startsWith "comment".toList ty = false ∧ startsWith "preamble".toList ty = false ∧
    startsWith "string".toList ty = false ∧ KeyOK P k ∧ strip P k = k ∧
    (∀ kv ∈ fs, FieldOKC P kv) ∧ (fs.map (·.1)).Nodup
  | .string k v => KeyOK P k ∧ strip P k = k ∧ ∃ s, v = .str s ∧ EncBal P s
  | .preamble v => CleanVal P v
  | .expl c => CleanVal P c ∧ strip P c = c
  | .impl c => c ≠ [] ∧ strip P c = c ∧ noStart P c = true
  | .failed _ => False

theorem blockOK_iff (b : Block) :
    BlockOK P b ↔ BlockOKC P (contentOf b) ∧ (∀ e, b = .live (.entry e) → MdOK (.entry e)) := by
  match b with
  | .live (.entry e) =>
    simp only [BlockOK, contentOf, BlockOKC]
    have hkeys : (e.fields.map fun f => (f.key, f.value)).map (·.1) = e.fields.map (·.key) := by
      rw [List.map_map]; rfl
    constructor
    · intro h
      refine ⟨⟨h.tyWord, h.tyLower, h.tyStrip, h.tyNotComment, h.tyNotPreamble, h.tyNotString, h.keyOK,
        h.keyStrip, ?_, ?_⟩, ?_⟩
      · intro kv hkv
        obtain ⟨f, hf, rfl⟩ := List.mem_map.mp hkv
        exact ⟨(h.fields f hf).keyOK, (h.fields f hf).keyStrip, (h.fields f hf).value⟩
      · rw [hkeys]; exact h.fieldKeys
      · intro e' he'; injection he' with he'; injection he' with he'; subst he'; exact h.md
    · rintro ⟨⟨h1, h2, h3, h4, h5, h6, h7, h8, h9, h10⟩, hm⟩
      refine ⟨h1, h2, h3, h4, h5, h6, h7, h8, ?_, ?_, hm e rfl⟩
      · intro f hf
        have := h9 (f.key, f.value) (List.mem_map.mpr ⟨f, hf, rfl⟩)
        exact ⟨this.1, this.2.1, this.2.2⟩
      · rw [← hkeys]; exact h10
  | .live (.string k v l r m) =>
    simp only [BlockOK, contentOf, BlockOKC]
    exact ⟨fun h => ⟨h, by intro e he; cases he⟩, fun h => h.1⟩
  | .live (.preamble v l r m) =>
    simp only [BlockOK, contentOf, BlockOKC]
    exact ⟨fun h => ⟨h, by intro e he; cases he⟩, fun h => h.1⟩
  | .live (.expl v l r m) =>
    simp only [BlockOK, contentOf, BlockOKC]
    exact ⟨fun h => ⟨h, by intro e he; cases he⟩, fun h => h.1⟩
  | .live (.impl v l r m) =>
    simp only [BlockOK, contentOf, BlockOKC]
    exact ⟨fun h => ⟨h, by intro e he; cases he⟩, fun h => h.1⟩
  | .failed _ _ _ => simp [BlockOK, contentOf, BlockOKC]
  | .dupField _ _ => simp [BlockOK, contentOf, BlockOKC]
  | .dupKey _ _ _ => simp [BlockOK, contentOf, BlockOKC]
  | .mwError _ _ => simp [BlockOK, contentOf, BlockOKC]

def NoAdjImplC : List Content → Prop
  | [] => True
  | [_] => True
  | a :: b :: r => ¬ (cImpl a = true ∧ cImpl b = true) ∧ NoAdjImplC (b :: r)

theorem noAdjImpl_content (L : List Block) : NoAdjImpl L ↔ NoAdjImplC (L.map contentOf) := by
  induction L with
  | nil => exact Iff.rfl
  | cons a r ih =>
    cases r with
    | nil => exact Iff.rfl
    | cons b r2 =>
      simp only [NoAdjImpl, List.map_cons, NoAdjImplC, isImpl_content] at ih ⊢
      rw [ih]

/-- **writability transfers along equal contents** -/
theorem writable_congr (L L' : List Block) (hc : L'.map contentOf = L.map contentOf) (hw : Writable P L)
    (hm : ∀ e, Block.live (.entry e) ∈ L' → MdOK (.entry e)) : Writable P L' := by
  refine ⟨?_, ?_, ?_, ?_⟩
  · intro x hx
    have hmem : contentOf x ∈ L.map contentOf := by rw [← hc]; exact List.mem_map_of_mem hx
    obtain ⟨b, hb, hbx⟩ := List.mem_map.mp hmem
    rw [blockOK_iff]
    refine ⟨?_, fun e he => hm e (he ▸ hx)⟩
    rw [← hbx]; exact ((blockOK_iff b).mp (hw.blocks b hb)).1
  · rw [entryKeys_content, hc, ← entryKeys_content]; exact hw.entryKeys
  · rw [stringKeys_content, hc, ← stringKeys_content]; exact hw.stringKeys
  · rw [noAdjImpl_content, hc, ← noAdjImpl_content]; exact hw.noAdj

/-! ### the written text is a function of the content -/

def linesC (F : BibtexFormat) (col : Nat) : List (Str × Val) → Str
  | [] => []
  | kv :: fs =>
    lineHead F col kv.1 ++ '=' :: ' ' :: '{' :: (strOf kv.2 ++ '}' ::
      ((if F.trailingComma || !fs.isEmpty then [','] else []) ++ '\n' :: linesC F col fs))

def coreC (F : BibtexFormat) (col : Nat) : Content → Str
  | .entry ty k fs => '@' :: (ty ++ '{' :: (k ++ ',' :: '\n' :: (linesC F col fs ++ ['}'])))
  | .string k v => '@' :: ("string".toList ++ '{' :: ((k ++ [' ']) ++ '=' :: ' ' :: '{' :: (strOf v ++ ['}', '}'])))
  | .preamble v => '@' :: ("preamble".toList ++ '{' :: (v ++ ['}']))
  | .expl c => '@' :: ("comment".toList ++ '{' :: (c ++ ['}']))
  | .impl c => c
  | .failed _ => []

theorem linesText_eq (F : BibtexFormat) (col : Nat) (fs : List Field) :
    linesText F col fs = linesC F col (fs.map fun f => (f.key, f.value)) := by
  induction fs with
  | nil => rfl
  | cons f r ih => simp [linesText, linesC, ih]

theorem coreOf_eq (F : BibtexFormat) (col : Nat) (b : Block) : coreOf F col b = coreC F col (contentOf b) := by
  match b with
  | .live (.entry e) => simp [coreOf, coreC, contentOf, linesText_eq]
  | .live (.string _ _ _ _ _) => rfl
  | .live (.preamble _ _ _ _) => rfl
  | .live (.expl _ _ _ _) => rfl
  | .live (.impl _ _ _ _) => rfl
  | .failed _ _ _ => rfl
  | .dupField _ _ => rfl
  | .dupKey _ _ _ => rfl
  | .mwError _ _ => rfl

def renderC (F : BibtexFormat) (col : Nat) : List Content → Str
  | [] => []
  | [c] => coreC F col c ++ ['\n']
  | c :: c2 :: r => (coreC F col c ++ ['\n']) ++ F.blockSeparator ++ renderC F col (c2 :: r)

theorem render_eq (F : BibtexFormat) (col : Nat) (L : List Block) :
    render F col L = renderC F col (L.map contentOf) := by
  induction L with
  | nil => rfl
  | cons b r ih =>
    cases r with
    | nil => simp [render, renderC, textOf, coreOf_eq]
    | cons b2 r2 =>
      simp only [render, List.map_cons, renderC, textOf, coreOf_eq] at ih ⊢
      rw [ih]

/-! ### ... and so is the `auto` column -/

def dictKeysS (ks : List Str) : List Str :=
  ks.foldl (fun acc k => if acc.contains k then acc else acc ++ [k]) []

def maxKL (kls : List (List Str)) (m0 : Nat) : Nat :=
  kls.foldl (fun m ks => (dictKeysS ks).foldl (fun m k => max m k.length) m) m0

def keysC : Content → Option (List Str)
  | .entry _ _ fs => some (fs.map (·.1))
  | _ => none

theorem dictKeys_eq (fs : List Field) : dictKeys fs = dictKeysS (fs.map (·.key)) := by
  simp [dictKeys, dictKeysS, List.foldl_map]

theorem foldl_liveEntries (bs : List Block) (m0 : Nat) :
    (liveEntries (bs.map Item.block)).foldl (fun m e => (dictKeys e.fields).foldl (fun m k => max m k.length) m) m0
      = maxKL ((bs.map contentOf).filterMap keysC) m0 := by
  induction bs generalizing m0 with
  | nil => rfl
  | cons b r ih =>
    match b with
    | .live (.entry e) =>
      simp only [List.map_cons, liveEntries, List.foldl_cons, contentOf, List.filterMap_cons, keysC, maxKL,
        List.map_map]
      rw [ih, dictKeys_eq]; rfl
    | .live (.string _ _ _ _ _) =>
      simp only [List.map_cons, liveEntries, contentOf, List.filterMap_cons, keysC]; exact ih m0
    | .live (.preamble _ _ _ _) =>
      simp only [List.map_cons, liveEntries, contentOf, List.filterMap_cons, keysC]; exact ih m0
    | .live (.expl _ _ _ _) =>
      simp only [List.map_cons, liveEntries, contentOf, List.filterMap_cons, keysC]; exact ih m0
    | .live (.impl _ _ _ _) =>
      simp only [List.map_cons, liveEntries, contentOf, List.filterMap_cons, keysC]; exact ih m0
    | .failed _ _ _ =>
      simp only [List.map_cons, liveEntries, contentOf, List.filterMap_cons, keysC]; exact ih m0
    | .dupField _ _ =>
      simp only [List.map_cons, liveEntries, contentOf, List.filterMap_cons, keysC]; exact ih m0
    | .dupKey _ _ _ =>
      simp only [List.map_cons, liveEntries, contentOf, List.filterMap_cons, keysC]; exact ih m0
    | .mwError _ _ =>
      simp only [List.map_cons, liveEntries, contentOf, List.filterMap_cons, keysC]; exact ih m0

theorem keysC_enc (L : List Block) :
    ((L.map encBlock).map contentOf).filterMap keysC = (L.map contentOf).filterMap keysC := by
  induction L with
  | nil => rfl
  | cons b r ih =>
    simp only [List.map_cons, List.filterMap_cons, ih]
    match b with
    | .live (.entry e) => simp [encBlock, contentOf, keysC, encFields, List.map_map, Function.comp]
    | .live (.string _ _ _ _ _) => rfl
    | .live (.preamble _ _ _ _) => rfl
    | .live (.expl _ _ _ _) => rfl
    | .live (.impl _ _ _ _) => rfl
    | .failed _ _ _ => rfl
    | .dupField _ _ => rfl
    | .dupKey _ _ _ => rfl
    | .mwError _ _ => rfl

theorem wcol_congr (F : BibtexFormat) (L L' : List Block) (hc : L'.map contentOf = L.map contentOf) :
    wcol F L' = wcol F L := by
  have key : ∀ M : List Block, maxKeyLen ((M.map encBlock).map Item.block) =
      maxKL ((M.map contentOf).filterMap keysC) 0 := by
    intro M
    unfold maxKeyLen
    rw [foldl_liveEntries, keysC_enc]
  unfold wcol resolveFormat autoValueAlign
  cases F.valueColumn with
  | num c => rfl
  | auto => simp only [key, hc]

/-- **the written text depends on the content only** -/
theorem render_congr (F : BibtexFormat) (L L' : List Block) (hc : L'.map contentOf = L.map contentOf) :
    render F (wcol F L') L' = render F (wcol F L) L := by
  rw [wcol_congr F L L' hc, render_eq, render_eq, hc]

end Bib.PrintParse
