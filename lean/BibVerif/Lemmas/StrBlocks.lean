/-
  C01 (whole pipeline): every value produced by the splitter is a `str`, the default parse stack
  keeps it that way and therefore never raises; the default write stack and the writer never
  raise on such libraries.
-/
import BibVerif.Pipeline
import BibVerif.Lemmas.NoRaise
import BibVerif.Lemmas.Enclosing
import BibVerif.Lemmas.Interpolate
import BibVerif.Lemmas.Writer
namespace Bib.Pipeline
open Bib Bib.Enclosing Bib.Interpolate

def StrLive : Live → Prop
  | .entry e => AllStr e.fields
  | .string _ v _ _ _ => ∃ s, v = .str s
  | _ => True

/-- every value a middleware may look at is a `str` -/
def StrBlock : Block → Prop
  | .live l => StrLive l
  | .dupKey _ p d => StrLive p ∧ StrLive d
  | _ => True

def StrBlocks (bs : List Block) : Prop := ∀ b ∈ bs, StrBlock b

theorem allStr_nil : AllStr [] := by intro f hf; cases hf

theorem allStr_snoc {fs : List Field} (h : AllStr fs) (k s : Str) (l : Int) : AllStr (fs ++ [⟨k, .str s, l⟩]) := by
  intro f hf
  rcases List.mem_append.mp hf with hf | hf
  · exact h f hf
  · simp only [List.mem_singleton] at hf; subst hf; exact ⟨s, rfl⟩

theorem strBlock_mkEntry (ty key : Str) (fs : List Field) (l : Int) (r : Str) (h : AllStr fs) :
    StrBlock (mkEntry ty key fs l r) := by
  unfold mkEntry
  simp only
  split
  · exact h
  · trivial

/-! ### the splitter only produces `str` values -/

def ModeStr : Mode → Prop
  | .fldKey _ _ fs _ => AllStr fs
  | .fldVal _ _ fs _ _ _ _ _ _ => AllStr fs
  | _ => True

def SInv (s : St) : Prop := StrBlocks s.out ∧ ModeStr s.mode

theorem strBlocks_endImplicit (P : PyChars) (impl : List Tok) (il : Int) (out : List Block) (h : StrBlocks out) :
    StrBlocks ((endImplicit P impl il).reverse ++ out) := by
  intro b hb
  rcases List.mem_append.mp hb with hb | hb
  · simp only [endImplicit] at hb
    split at hb
    · simp at hb
    · simp only [List.reverse_cons, List.reverse_nil, List.nil_append, List.mem_singleton] at hb
      subst hb; trivial
  · exact h b hb

theorem strBlocks_cons {b : Block} {out : List Block} (hb : StrBlock b) (h : StrBlocks out) :
    StrBlocks (b :: out) := by
  intro x hx
  rcases List.mem_cons.mp hx with rfl | hx
  · exact hb
  · exact h x hx

theorem stepTop_sinv (P : PyChars) (s : St) (impl : List Tok) (il : Int) (t : Tok) (h : StrBlocks s.out) :
    SInv (stepTop P s impl il t) := by
  unfold stepTop
  split
  · exact ⟨strBlocks_endImplicit P impl il s.out h, trivial⟩
  · exact ⟨h, trivial⟩
  · exact ⟨h, trivial⟩

theorem absorb_sinv (s' : St) (m : Mode) (t : Tok) (hout : StrBlocks s'.out) (hm : ModeStr m)
    (hs : ModeStr s'.mode) : SInv (absorb s' m t) := by
  cases m <;> first | exact ⟨hout, hm⟩ | exact ⟨hout, hs⟩

theorem step_sinv (P : PyChars) (s : St) (t : Tok) (h : SInv s) : SInv (step P s t) := by
  obtain ⟨hout, hmode⟩ := h
  unfold step
  split
  · exact ⟨hout, hmode⟩
  · have hredo : ∀ why : Fail,
        SInv (match (abort s why).mode with
          | .top impl il => stepTop P (abort s why) impl il t
          | _ => abort s why) := by
      intro why
      have hmode' : (abort s why).mode = .top [] s.line := by simp [abort, toTop]
      rw [hmode']
      exact stepTop_sinv P _ _ _ t (by
        simp only [abort, toTop]
        exact strBlocks_cons (by trivial) hout)
    cases hmd : s.mode with
    | top impl il => exact stepTop_sinv P s _ _ t hout
    | afterAt bk ty =>
      rw [hmd] at hmode
      split
      · rename_i heq; cases heq
      split
      · exact absorb_sinv _ _ _ hout hmode (by first | exact hmode | (show ModeStr s.mode; rw [hmd]; exact hmode))
      · exact absorb_sinv _ _ _ hout hmode (by first | exact hmode | (show ModeStr s.mode; rw [hmd]; exact hmode))
      · simp only []
        repeat' first
          | exact ⟨hout, trivial⟩
          | split
    | bracket bk d b =>
      rw [hmd] at hmode
      split
      · rename_i heq; cases heq
      split
      · exact absorb_sinv _ _ _ hout hmode (by first | exact hmode | (show ModeStr s.mode; rw [hmd]; exact hmode))
      · exact absorb_sinv _ _ _ hout hmode (by first | exact hmode | (show ModeStr s.mode; rw [hmd]; exact hmode))
      · simp only []
        repeat' first
          | exact hredo _
          | exact ⟨hout, trivial⟩
          | exact ⟨strBlocks_cons (by trivial) hout, trivial⟩
          | (refine ⟨strBlocks_cons ?_ hout, trivial⟩; split <;> trivial)
          | split
    | strKey key =>
      rw [hmd] at hmode
      split
      · rename_i heq; cases heq
      split
      · exact absorb_sinv _ _ _ hout hmode (by first | exact hmode | (show ModeStr s.mode; rw [hmd]; exact hmode))
      · exact absorb_sinv _ _ _ hout hmode (by first | exact hmode | (show ModeStr s.mode; rw [hmd]; exact hmode))
      · simp only []
        repeat' first
          | exact hredo _
          | exact ⟨hout, trivial⟩
          | split
    | strVal key d v =>
      rw [hmd] at hmode
      split
      · rename_i heq; cases heq
      split
      · exact absorb_sinv _ _ _ hout hmode (by first | exact hmode | (show ModeStr s.mode; rw [hmd]; exact hmode))
      · exact absorb_sinv _ _ _ hout hmode (by first | exact hmode | (show ModeStr s.mode; rw [hmd]; exact hmode))
      · simp only []
        repeat' first
          | exact hredo _
          | exact ⟨hout, trivial⟩
          | exact ⟨strBlocks_cons ⟨_, rfl⟩ hout, trivial⟩
          | split
    | entKey ty key =>
      rw [hmd] at hmode
      split
      · rename_i heq; cases heq
      split
      · exact absorb_sinv _ _ _ hout hmode (by first | exact hmode | (show ModeStr s.mode; rw [hmd]; exact hmode))
      · exact absorb_sinv _ _ _ hout hmode (by first | exact hmode | (show ModeStr s.mode; rw [hmd]; exact hmode))
      · simp only []
        repeat' first
          | exact hredo _
          | exact ⟨hout, allStr_nil⟩
          | exact ⟨strBlocks_cons (strBlock_mkEntry _ _ _ _ _ allStr_nil) hout, trivial⟩
          | split
    | fldKey ty key fs fk =>
      rw [hmd] at hmode
      split
      · rename_i heq; cases heq
      split
      · exact absorb_sinv _ _ _ hout hmode (by first | exact hmode | (show ModeStr s.mode; rw [hmd]; exact hmode))
      · exact absorb_sinv _ _ _ hout hmode (by first | exact hmode | (show ModeStr s.mode; rw [hmd]; exact hmode))
      · simp only []
        repeat' first
          | exact hredo _
          | exact ⟨hout, hmode⟩
          | exact ⟨strBlocks_cons (strBlock_mkEntry _ _ _ _ _ hmode) hout, trivial⟩
          | split
    | fldVal ty key fs fk el q c qc v =>
      rw [hmd] at hmode
      split
      · rename_i heq; cases heq
      split
      · exact absorb_sinv _ _ _ hout hmode (by first | exact hmode | (show ModeStr s.mode; rw [hmd]; exact hmode))
      · exact absorb_sinv _ _ _ hout hmode (by first | exact hmode | (show ModeStr s.mode; rw [hmd]; exact hmode))
      · simp only []
        repeat' first
          | exact hredo _
          | exact ⟨hout, hmode⟩
          | exact ⟨hout, allStr_snoc hmode _ _ _⟩
          | exact ⟨strBlocks_cons (strBlock_mkEntry _ _ _ _ _ (allStr_snoc hmode _ _ _)) hout, trivial⟩
          | split

theorem run_sinv (P : PyChars) (ts : List Tok) : ∀ s, SInv s → SInv (run P s ts) := by
  induction ts with
  | nil => intro s h; exact h
  | cons t ts ih => intro s h; exact ih _ (step_sinv P s t h)

/-- every block the splitter returns is string-valued -/
theorem split_strBlocks (P : PyChars) (s : Str) (bs : List Block) (h : split P s = .ok bs) : StrBlocks bs := by
  unfold split splitToks at h
  have hinv := run_sinv P (lex P s) init ⟨(by intro b hb; cases hb), trivial⟩
  generalize run P init (lex P s) = st at h hinv
  unfold finish at h
  split at h
  · cases h
  · split at h
    · injection h with h; subst h
      intro b hb
      have := strBlocks_endImplicit P _ _ st.out hinv.1 b (List.mem_reverse.mp hb)
      exact this
    · injection h with h; subst h
      intro b hb
      have hb' := List.mem_reverse.mp hb
      rcases List.mem_cons.mp hb' with rfl | hb'
      · trivial
      · exact hinv.1 b hb'

end Bib.Pipeline

namespace Bib.Pipeline
open Bib Bib.Enclosing Bib.Interpolate

variable (P : PyChars)

/-! ### `Library.add`, string resolution and enclosing removal keep values `str` -/

/-- entries carry, if anything, a dict under `removed_enclosing` (what `RemoveEnclosing` records):
`AddEnclosing` calls `.get` on it -/
def MdOK : Live → Prop
  | .entry e => assocGet e.md REMOVED_ENCLOSING_KEY = none ∨ ∃ d, assocGet e.md REMOVED_ENCLOSING_KEY = some (.dict d)
  | _ => True

def BlockOK (b : Block) : Prop :=
  StrBlock b ∧ match b with | .live l => MdOK l | _ => True

structure LibStr (L : Interpolate.Lib) : Prop where
  blocks : StrBlocks L.blocks
  entries : ∀ kb ∈ L.entries, StrLive kb.2
  strings : ∀ kb ∈ L.strings, ∃ k s l r m, kb.2 = .string k (.str s) l r m

theorem lookup_mem' {d : List (Str × Live)} {k : Str} {b : Live} (h : Interpolate.lookup d k = some b) :
    ∃ k', (k', b) ∈ d := by
  induction d with
  | nil => simp [Interpolate.lookup] at h
  | cons kb r ih =>
    obtain ⟨k', b'⟩ := kb
    simp only [Interpolate.lookup] at h
    split at h
    · injection h with h; subst h; exact ⟨k', List.mem_cons_self⟩
    · obtain ⟨k'', hm⟩ := ih h; exact ⟨k'', List.mem_cons_of_mem _ hm⟩

theorem strBlocks_snoc {bs : List Block} {b : Block} (h : StrBlocks bs) (hb : StrBlock b) :
    StrBlocks (bs ++ [b]) := by
  intro x hx
  rcases List.mem_append.mp hx with hx | hx
  · exact h x hx
  · simp only [List.mem_singleton] at hx; subst hx; exact hb

theorem addOne_libStr (L : Interpolate.Lib) (b : Block) (h : LibStr L) (hb : StrBlock b) :
    LibStr (Interpolate.addOne L b) := by
  cases b with
  | live l =>
    cases l with
    | entry e =>
      simp only [Interpolate.addOne]
      cases hl : Interpolate.lookup L.entries e.key with
      | some prev =>
        obtain ⟨k', hm⟩ := lookup_mem' hl
        exact ⟨strBlocks_snoc h.blocks ⟨h.entries _ hm, hb⟩, h.entries, h.strings⟩
      | none =>
        refine ⟨strBlocks_snoc h.blocks hb, ?_, h.strings⟩
        intro kb hkb
        rcases List.mem_append.mp hkb with hkb | hkb
        · exact h.entries kb hkb
        · simp only [List.mem_singleton] at hkb; subst hkb; exact hb
    | string k v li r m =>
      simp only [Interpolate.addOne]
      obtain ⟨s, hs⟩ := hb
      cases hl : Interpolate.lookup L.strings k with
      | some prev =>
        obtain ⟨k', hm⟩ := lookup_mem' hl
        obtain ⟨k2, s2, l2, r2, m2, hp⟩ := h.strings _ hm
        refine ⟨strBlocks_snoc h.blocks ⟨?_, ⟨s, hs⟩⟩, h.entries, h.strings⟩
        simp only at hp; rw [hp]; exact ⟨s2, rfl⟩
      | none =>
        refine ⟨strBlocks_snoc h.blocks ⟨s, hs⟩, h.entries, ?_⟩
        intro kb hkb
        rcases List.mem_append.mp hkb with hkb | hkb
        · exact h.strings kb hkb
        · simp only [List.mem_singleton] at hkb; subst hkb; exact ⟨k, s, li, r, m, by rw [hs]⟩
    | preamble v li r m => exact ⟨strBlocks_snoc h.blocks hb, h.entries, h.strings⟩
    | expl v li r m => exact ⟨strBlocks_snoc h.blocks hb, h.entries, h.strings⟩
    | impl v li r m => exact ⟨strBlocks_snoc h.blocks hb, h.entries, h.strings⟩
  | failed w li r => exact ⟨strBlocks_snoc h.blocks hb, h.entries, h.strings⟩
  | dupField d e => exact ⟨strBlocks_snoc h.blocks hb, h.entries, h.strings⟩
  | dupKey k p d => exact ⟨strBlocks_snoc h.blocks hb, h.entries, h.strings⟩
  | mwError w i => exact ⟨strBlocks_snoc h.blocks hb, h.entries, h.strings⟩

theorem foldl_addOne_libStr (bs : List Block) : ∀ L, LibStr L → StrBlocks bs →
    LibStr (bs.foldl Interpolate.addOne L) := by
  induction bs with
  | nil => intro L h _; exact h
  | cons b bs ih =>
    intro L h hbs
    exact ih _ (addOne_libStr L b h (hbs b List.mem_cons_self)) (fun x hx => hbs x (List.mem_cons_of_mem _ hx))

theorem addAll_libStr (bs : List Block) (h : StrBlocks bs) : LibStr (Interpolate.addAll bs) :=
  foldl_addOne_libStr bs _ ⟨(by intro b hb; cases hb), (by intro b hb; cases hb), (by intro b hb; cases hb)⟩ h

theorem resolveFields_allStr (strings : List (Str × Live))
    (hs : ∀ kb ∈ strings, ∃ k s l r m, kb.2 = .string k (.str s) l r m) (fs : List Field) (h : AllStr fs) :
    AllStr (resolveFields strings fs).1 := by
  induction fs with
  | nil => exact h
  | cons f r ih =>
    have ihr := ih (fun g hg => h g (List.mem_cons_of_mem _ hg))
    simp only [resolveFields]
    cases hres : resolution strings f.value with
    | none =>
      simp only
      intro g hg
      rcases List.mem_cons.mp hg with rfl | hg
      · exact h _ List.mem_cons_self
      · exact ihr g hg
    | some w =>
      simp only
      intro g hg
      rcases List.mem_cons.mp hg with rfl | hg
      · -- the substituted value is the value of a string of the index
        obtain ⟨s, _, _, k, l, r', m, hl⟩ := (resolution_some_iff strings f.value w).mp hres
        obtain ⟨k', hm⟩ := lookup_mem' hl
        obtain ⟨k2, s2, l2, r2, m2, hp⟩ := hs _ hm
        simp only at hp
        injection hp with _ hv
        exact ⟨s2, by simpa using hv⟩
      · exact ihr g hg

theorem resolveBlock_str (strings : List (Str × Live))
    (hs : ∀ kb ∈ strings, ∃ k s l r m, kb.2 = .string k (.str s) l r m) (b : Block) (hb : StrBlock b) :
    StrBlock (resolveBlock strings b) := by
  cases b with
  | live l =>
    cases l with
    | entry e => exact resolveFields_allStr strings hs e.fields hb
    | _ => exact hb
  | dupKey k p d =>
    cases p with
    | entry e => exact ⟨resolveFields_allStr strings hs e.fields hb.1, hb.2⟩
    | _ => exact hb
  | _ => exact hb

theorem transform_strBlocks (L : Interpolate.Lib) (h : LibStr L) : StrBlocks (Interpolate.transform L).blocks := by
  intro b hb
  simp only [Interpolate.transform, List.mem_map] at hb
  obtain ⟨b0, hb0, rfl⟩ := hb
  exact resolveBlock_str L.strings h.strings b0 (h.blocks b0 hb0)

/-- `RemoveEnclosing` on a string-valued block: no exception; values stay `str`; entries record a dict -/
theorem removeLive_ok (l : Live) (h : StrLive l) :
    ∃ l', removeLive P l = .ok l' ∧ StrLive l' ∧ MdOK l' := by
  cases l with
  | entry e =>
    obtain ⟨md', hmd⟩ := Interpolate.removeFields_allStr P e.fields h []
    refine ⟨.entry (Entry.mk e.ty e.key
        (e.fields.map fun f => Field.mk f.key (.str (stripEnclosing P (strOf f.value)).1) f.line)
        e.line e.raw (assocSet e.md REMOVED_ENCLOSING_KEY (.dict md'))),
      by simp [removeLive, removeEntry, hmd], ?_, ?_⟩
    · intro f hf
      simp only [List.mem_map] at hf
      obtain ⟨g, _, rfl⟩ := hf
      exact ⟨_, rfl⟩
    · exact Or.inr ⟨md', by simp [assocGet_set_same]⟩
  | string k v li r m =>
    obtain ⟨s, rfl⟩ := h
    exact ⟨_, rfl, ⟨_, rfl⟩, trivial⟩
  | preamble v li r m => exact ⟨_, rfl, trivial, trivial⟩
  | expl v li r m => exact ⟨_, rfl, trivial, trivial⟩
  | impl v li r m => exact ⟨_, rfl, trivial, trivial⟩

theorem removeLib_ok (bs : List Block) (h : StrBlocks bs) :
    ∃ bs', removeLib P true bs = .ok bs' ∧ ∀ b ∈ bs', BlockOK b := by
  induction bs with
  | nil => exact ⟨[], rfl, by intro b hb; cases hb⟩
  | cons b r ih =>
    obtain ⟨r', hr, hok⟩ := ih (fun x hx => h x (List.mem_cons_of_mem _ hx))
    have hb := h b List.mem_cons_self
    have hone : ∃ b', mapBlock true (removeLive P) b = .ok b' ∧ BlockOK b' := by
      cases b with
      | live l =>
        obtain ⟨l', hl, hs, hm⟩ := removeLive_ok P l hb
        exact ⟨.live l', by simp [mapBlock, hl], hs, hm⟩
      | dupKey k p d =>
        obtain ⟨p', hl, hs, _⟩ := removeLive_ok P p hb.1
        exact ⟨.dupKey k p' d, by simp [mapBlock, hl], ⟨hs, hb.2⟩, trivial⟩
      | failed w li rr => exact ⟨_, rfl, trivial, trivial⟩
      | dupField d e => exact ⟨_, rfl, trivial, trivial⟩
      | mwError w i => exact ⟨_, rfl, trivial, trivial⟩
    obtain ⟨b', hb', hbok⟩ := hone
    refine ⟨b' :: r', ?_, ?_⟩
    · simp only [removeLib, mapBlocks, hb']
      have : mapBlocks true (removeLive P) r = .ok r' := hr
      rw [this]
    · intro x hx
      rcases List.mem_cons.mp hx with rfl | hx
      · exact hbok
      · exact hok x hx

/-- **`parse_string` never raises** (whole default pipeline, every text), and every value of the
returned library is a `str`. -/
theorem parseDefault_total (s : Str) : ∃ bs, parseDefault P s = .ok bs ∧ StrBlocks bs := by
  obtain ⟨b0, h0⟩ := split_ok P s
  have hs0 := split_strBlocks P s b0 h0
  have hl := addAll_libStr b0 hs0
  have ht := transform_strBlocks _ hl
  obtain ⟨b1, h1, hok1⟩ := removeLib_ok P _ ht
  have hs1 : StrBlocks b1 := fun b hb => (hok1 b hb).1
  refine ⟨(Interpolate.addAll b1).blocks, ?_, (addAll_libStr b1 hs1).blocks⟩
  simp [parseDefault, Interpolate.defaultParse, h0, h1, Except.map]

end Bib.Pipeline

namespace Bib.Pipeline
open Bib Bib.Enclosing Bib.Interpolate

variable (P : PyChars)

/-! ### the default write stack -/

def MdBlocks (bs : List Block) : Prop := ∀ l, Block.live l ∈ bs → MdOK l

theorem addOne_blocks (L : Interpolate.Lib) (b : Block) :
    ∃ b', (Interpolate.addOne L b).blocks = L.blocks ++ [b'] ∧ (b' = b ∨ ∃ k p d, b' = .dupKey k p d) := by
  cases b with
  | live l0 =>
    cases l0 with
    | entry e =>
      simp only [Interpolate.addOne]
      split
      · exact ⟨_, rfl, Or.inr ⟨_, _, _, rfl⟩⟩
      · exact ⟨_, rfl, Or.inl rfl⟩
    | string k v li r m =>
      simp only [Interpolate.addOne]
      split
      · exact ⟨_, rfl, Or.inr ⟨_, _, _, rfl⟩⟩
      · exact ⟨_, rfl, Or.inl rfl⟩
    | preamble v li r m => exact ⟨_, rfl, Or.inl rfl⟩
    | expl v li r m => exact ⟨_, rfl, Or.inl rfl⟩
    | impl v li r m => exact ⟨_, rfl, Or.inl rfl⟩
  | failed w li r => exact ⟨_, rfl, Or.inl rfl⟩
  | dupField d e => exact ⟨_, rfl, Or.inl rfl⟩
  | dupKey k p d => exact ⟨_, rfl, Or.inl rfl⟩
  | mwError w i => exact ⟨_, rfl, Or.inl rfl⟩

theorem live_mem_foldl_addOne (bs : List Block) : ∀ (L : Interpolate.Lib) (l : Live),
    Block.live l ∈ (bs.foldl Interpolate.addOne L).blocks → Block.live l ∈ L.blocks ∨ Block.live l ∈ bs := by
  induction bs with
  | nil => intro L l h; exact Or.inl h
  | cons b bs ih =>
    intro L l h
    rcases ih (Interpolate.addOne L b) l h with h1 | h1
    · obtain ⟨b', hb', hcase⟩ := addOne_blocks L b
      rw [hb'] at h1
      rcases List.mem_append.mp h1 with h2 | h2
      · exact Or.inl h2
      · simp only [List.mem_singleton] at h2
        rcases hcase with rfl | ⟨k, p, d, rfl⟩
        · exact Or.inr (h2 ▸ List.mem_cons_self)
        · cases h2
    · exact Or.inr (List.mem_cons_of_mem _ h1)

theorem addAll_mdBlocks (bs : List Block) (h : MdBlocks bs) : MdBlocks (Interpolate.addAll bs).blocks := by
  intro l hl
  rcases live_mem_foldl_addOne bs Interpolate.Lib.empty l hl with h1 | h1
  · cases h1
  · exact h l h1

theorem addFields_default_ok (mdEnc : Option Meta) (hmd : mdEnc = none ∨ ∃ d, mdEnc = some (.dict d))
    (fs : List Field) (h : AllStr fs) :
    ∃ fs', addFields P defaultAddCfg mdEnc fs = .ok fs' ∧ AllStr fs' := by
  induction fs with
  | nil => exact ⟨[], rfl, h⟩
  | cons f r ih =>
    obtain ⟨r', hr, hsr⟩ := ih (fun g hg => h g (List.mem_cons_of_mem _ hg))
    obtain ⟨s, hs⟩ := h f List.mem_cons_self
    have hprev : ∃ pv, prevEnclosing mdEnc f.key = .ok pv := by
      rcases hmd with rfl | ⟨d, rfl⟩ <;> exact ⟨_, rfl⟩
    obtain ⟨pv, hpv⟩ := hprev
    have henc : enclose P defaultAddCfg f.value pv (isIntField f.key) = .ok (.str ('{' :: s ++ ['}'])) := by
      simp [enclose, hs, pyStr, defaultAddCfg, wrapWith]
    refine ⟨{ f with value := .str ('{' :: s ++ ['}']) } :: r', by simp [addFields, hpv, henc, hr], ?_⟩
    intro g hg
    rcases List.mem_cons.mp hg with rfl | hg
    · exact ⟨_, rfl⟩
    · exact hsr g hg

theorem addLive_default_ok (l : Live) (h : StrLive l) (hm : MdOK l) :
    ∃ l', addLive P defaultAddCfg l = .ok l' ∧ StrLive l' := by
  cases l with
  | entry e =>
    obtain ⟨fs', hfs, hs⟩ := addFields_default_ok P (assocGet e.md REMOVED_ENCLOSING_KEY) hm e.fields h
    exact ⟨.entry (Entry.mk e.ty e.key fs' e.line e.raw (assocErase e.md REMOVED_ENCLOSING_KEY)),
      by simp [addLive, addEntry, hfs], hs⟩
  | string k v li r m =>
    obtain ⟨s, rfl⟩ := h
    exact ⟨.string k (.str ('{' :: s ++ ['}'])) li r m,
      by simp [addLive, enclose, pyStr, defaultAddCfg, wrapWith], ⟨_, rfl⟩⟩
  | preamble v li r m => exact ⟨_, rfl, trivial⟩
  | expl v li r m => exact ⟨_, rfl, trivial⟩
  | impl v li r m => exact ⟨_, rfl, trivial⟩

theorem addLib_default_ok (bs : List Block) (h : StrBlocks bs) (hm : MdBlocks bs) :
    ∃ bs', addLib P defaultAddCfg false bs = .ok bs' ∧ StrBlocks bs' := by
  induction bs with
  | nil => exact ⟨[], rfl, by intro b hb; cases hb⟩
  | cons b r ih =>
    obtain ⟨r', hr, hsr⟩ := ih (fun x hx => h x (List.mem_cons_of_mem _ hx))
      (fun l hl => hm l (List.mem_cons_of_mem _ hl))
    have hb := h b List.mem_cons_self
    have hone : ∃ b', mapBlock false (addLive P defaultAddCfg) b = .ok b' ∧ StrBlock b' := by
      cases b with
      | live l =>
        obtain ⟨l', hl, hs⟩ := addLive_default_ok P l hb (hm l List.mem_cons_self)
        exact ⟨.live l', by simp [mapBlock, hl], hs⟩
      | dupKey k p d => exact ⟨_, rfl, hb⟩
      | failed w li rr => exact ⟨_, rfl, trivial⟩
      | dupField d e => exact ⟨_, rfl, trivial⟩
      | mwError w i => exact ⟨_, rfl, trivial⟩
    obtain ⟨b', hb', hbs⟩ := hone
    refine ⟨b' :: r', ?_, ?_⟩
    · simp only [addLib, mapBlocks, hb']
      have : mapBlocks false (addLive P defaultAddCfg) r = .ok r' := hr
      rw [this]
    · intro x hx
      rcases List.mem_cons.mp hx with rfl | hx
      · exact hbs
      · exact hsr x hx

theorem writable_of_strBlock (b : Block) (h : StrBlock b) : Writer.Writable (.block b) := by
  cases b with
  | live l =>
    cases l with
    | entry e => exact fun f hf => h f hf
    | string k v li r m => exact h
    | _ => trivial
  | _ => trivial

/-- the library `parse_string` returns satisfies what `write_string` needs -/
theorem parseDefault_writable (s : Str) (bs : List Block) (h : parseDefault P s = .ok bs) :
    StrBlocks bs ∧ MdBlocks bs := by
  obtain ⟨b0, h0⟩ := split_ok P s
  have hs0 := split_strBlocks P s b0 h0
  have hl := addAll_libStr b0 hs0
  have ht := transform_strBlocks _ hl
  obtain ⟨b1, h1, hok1⟩ := removeLib_ok P _ ht
  have hs1 : StrBlocks b1 := fun b hb => (hok1 b hb).1
  have hm1 : MdBlocks b1 := fun l hl => (hok1 _ hl).2
  have : bs = (Interpolate.addAll b1).blocks := by
    simp [parseDefault, Interpolate.defaultParse, h0, h1, Except.map] at h
    exact h.symm
  subst this
  exact ⟨(addAll_libStr b1 hs1).blocks, addAll_mdBlocks b1 hm1⟩

end Bib.Pipeline
