/-
  C14 helper lemmas for `merge_parse`: every word the scanner stores can be scanned again on its
  own and comes back with the same case (`Replay`), unless it ends in an odd number of backslashes.
-/
import BibVerif.Lemmas.NamesScan
import BibVerif.Lemmas.NamesMerge
namespace Bib.NameP

variable (P : PyChars)

/-- the fields of the scanner state that influence how the current word continues; `controlseq`
and `specialchar` are dead at brace level 0 (every `{` resets them) -/
def live (s : S) : Str × Case × Nat × Bool × Bool × Bool × Bool :=
  (s.word, s.case, s.level, s.bracestart, decide (s.level > 0) && s.controlseq,
    decide (s.level > 0) && s.specialchar, s.esc)

/-- does this character end the current word (and possibly the section)? -/
def pushes (s : S) (c : Char) : Bool :=
  decide (s.level = 0) && ((!s.esc && (c = ',' || isWs c)) || (s.esc && isWs c))

/-- a backslash read but not yet stored -/
def pend (s : S) : Str := if s.esc then ['\\'] else []

theorem isWs_ne' {c : Char} (h : isWs c = true) : c ≠ '{' ∧ c ≠ '}' ∧ c ≠ ',' ∧ c ≠ '\\' := isWs_ne h

/-- a step that does not end the word depends only on the live fields and touches no section -/
theorem step_live {s t s' : S} {c : Char} (hl : live t = live s) (hp : pushes s c = false)
    (hs : stepc P s c = .ok s') :
    ∃ t', stepc P t c = .ok t' ∧ live t' = live s' ∧ t'.cur = t.cur ∧ t'.done = t.done ∧
      s'.cur = s.cur ∧ s'.done = s.done ∧ s'.word ++ pend s' = s.word ++ pend s ++ [c] ∧
      ((s.word = [] → s.case = none) → (s'.word = [] → s'.case = none)) := by
  simp only [live, Prod.mk.injEq] at hl
  obtain ⟨l1, l2, l3, l4, l5, l6, l7⟩ := hl
  rw [l3] at l5 l6
  unfold stepc at hs ⊢
  rw [l7]
  by_cases he : s.esc = true
  · simp only [he, if_true] at hs ⊢
    by_cases hw : isWs c = true
    · simp only [hw, if_true] at hs ⊢
      obtain ⟨n1, n2, n3, n4⟩ := isWs_ne hw
      have hlev : s.level ≠ 0 := by
        intro h0
        simp [pushes, h0, he, hw] at hp
      have hlev' : s.level > 0 := by omega
      unfold plain at hs ⊢
      simp only [n1, n2, if_false, hlev', if_true, l3] at hs ⊢
      have h5 : t.controlseq = s.controlseq := by simpa [hlev'] using l5
      have h6 : t.specialchar = s.specialchar := by simpa [hlev'] using l6
      rw [h5, h6, l1, l2]
      by_cases hc : s.controlseq = true
      · simp only [hc, if_true] at hs ⊢
        injection hs with hs; subst hs
        refine ⟨_, rfl, ?_, ?_, ?_, ?_, ?_, ?_, ?_⟩ <;> simp_all [live, pend]
      · simp only [hc, if_false] at hs ⊢
        by_cases hsp : s.specialchar = true
        · simp only [hsp, if_true] at hs ⊢
          injection hs with hs; subst hs
          refine ⟨_, rfl, ?_, ?_, ?_, ?_, ?_, ?_, ?_⟩ <;> simp_all [live, pend]
        · simp only [hsp, if_false] at hs ⊢
          injection hs with hs; subst hs
          refine ⟨_, rfl, ?_, ?_, ?_, ?_, ?_, ?_, ?_⟩ <;> simp_all [live, pend]
    · simp only [hw, if_false] at hs ⊢
      injection hs with hs; subst hs
      rw [l4]
      by_cases hb : s.bracestart = true
      · simp only [hb, if_true]
        refine ⟨_, rfl, ?_, ?_, ?_, ?_, ?_, ?_, ?_⟩ <;> simp_all [live, pend]
      · simp only [hb, if_false]
        refine ⟨_, rfl, ?_, ?_, ?_, ?_, ?_, ?_, ?_⟩ <;> simp_all [live, pend]
  · have he' : s.esc = false := by simpa using he
    simp only [he', Bool.false_eq_true, if_false] at hs ⊢
    by_cases hc : c = '\\'
    · simp only [hc, if_true] at hs ⊢
      injection hs with hs; subst hs
      refine ⟨_, rfl, ?_, ?_, ?_, ?_, ?_, ?_, ?_⟩ <;> simp_all [live, pend]
    · simp only [hc, if_false] at hs ⊢
      unfold plain at hs ⊢
      by_cases h1 : c = '{'
      · simp only [h1, if_true] at hs ⊢
        injection hs with hs; subst hs
        refine ⟨_, rfl, ?_, ?_, ?_, ?_, ?_, ?_, ?_⟩ <;> simp_all [live, pend]
      · simp only [h1, if_false] at hs ⊢
        by_cases h2 : c = '}'
        · simp only [h2, if_true, l3] at hs ⊢
          by_cases h3 : s.level = 0
          · simp [h3] at hs
          · simp only [h3, if_false] at hs ⊢
            injection hs with hs; subst hs
            refine ⟨_, rfl, ?_, ?_, ?_, ?_, ?_, ?_, ?_⟩ <;> simp_all [live, pend]
        · simp only [h2, if_false, l3] at hs ⊢
          by_cases h3 : s.level > 0
          · simp only [h3, if_true] at hs ⊢
            have h5 : t.controlseq = s.controlseq := by simpa [h3] using l5
            have h6 : t.specialchar = s.specialchar := by simpa [h3] using l6
            rw [h5, h6, l1, l2]
            by_cases hcs : s.controlseq = true
            · simp only [hcs, if_true] at hs ⊢
              injection hs with hs; subst hs
              refine ⟨_, rfl, ?_, ?_, ?_, ?_, ?_, ?_, ?_⟩ <;> simp_all [live, pend]
            · simp only [hcs, if_false] at hs ⊢
              by_cases hsp : s.specialchar = true
              · simp only [hsp, if_true] at hs ⊢
                injection hs with hs; subst hs
                refine ⟨_, rfl, ?_, ?_, ?_, ?_, ?_, ?_, ?_⟩ <;> simp_all [live, pend]
              · simp only [hsp, if_false] at hs ⊢
                injection hs with hs; subst hs
                refine ⟨_, rfl, ?_, ?_, ?_, ?_, ?_, ?_, ?_⟩ <;> simp_all [live, pend]
          · have h3' : s.level = 0 := by omega
            simp only [h3, if_false] at hs ⊢
            have hsep : (c = ',' || isWs c) = false := by
              simpa [pushes, h3', he'] using hp
            simp only [hsep, Bool.false_eq_true, if_false] at hs ⊢
            injection hs with hs; subst hs
            refine ⟨_, rfl, ?_, ?_, ?_, ?_, ?_, ?_, ?_⟩ <;> simp_all [live, pend]

/-- a state in which a new word starts at brace level 0 -/
def fresh (f : S) : Prop :=
  f.word = [] ∧ f.case = none ∧ f.level = 0 ∧ f.esc = false ∧ f.bracestart = false

/-- scanning the word on its own from any fresh state stores exactly this word with this case -/
def Replay (w : Str) (c : Case) : Prop :=
  ∀ f, fresh f → ∃ t, run P f w = .ok t ∧ t.word = w ∧ t.case = c ∧ t.level = 0 ∧ t.esc = false ∧
    t.cur = f.cur ∧ t.done = f.done

/-- the word in progress can be replayed from any fresh state -/
def RI (s : S) : Prop :=
  ∀ f, fresh f → ∃ t, run P f (s.word ++ pend s) = .ok t ∧ live t = live s ∧ t.cur = f.cur ∧ t.done = f.done

def trailBS (w : Str) : Nat := (w.reverse.takeWhile (· = '\\')).length

theorem trailBS_snoc (w : Str) (c : Char) : trailBS (w ++ [c]) = if c = '\\' then trailBS w + 1 else 0 := by
  unfold trailBS
  simp only [List.reverse_append, List.reverse_cons, List.reverse_nil, List.nil_append, List.cons_append,
    List.takeWhile_cons]
  by_cases h : c = '\\' <;> simp [h]

theorem trailBS_nil : trailBS [] = 0 := rfl

/-- a stored word is fine if it replays or ends in an odd number of backslashes -/
def GoodW (w : Word) : Prop := Replay P w.1 w.2 ∨ Names.OddBS w.1

def AllGood (s : S) : Prop := (∀ sec ∈ s.done, ∀ w ∈ sec, GoodW P w) ∧ (∀ w ∈ s.cur, GoodW P w)

theorem run_append' (a b : Str) : ∀ s : S, run P s (a ++ b) =
    match run P s a with
    | .error e => .error e
    | .ok s' => run P s' b := by
  induction a with
  | nil => intro s; rfl
  | cons c r ih =>
    intro s
    simp only [List.cons_append, run]
    cases hs : stepc P s c with
    | error e => rfl
    | ok s1 => exact ih s1

theorem fresh_live {f s : S} (hf : fresh f) (hw : s.word = []) (hc : s.case = none) (hl : s.level = 0)
    (he : s.esc = false) (hb : s.bracestart = false) : live f = live s := by
  obtain ⟨f1, f2, f3, f4, f5⟩ := hf
  simp [live, f1, f2, f3, f4, f5, hw, hc, hl, he, hb]

/-- `plain` on a separator at brace level 0 -/
theorem plain_sep (x : S) (c : Char) (c1 : c ≠ '{') (c2 : c ≠ '}') (hl : x.level = 0)
    (hsep : (c = ',' || isWs c) = true) :
    plain P x c =
      if c = ',' then
        if (pushWord { x with bracestart := false }).done.length + 1 < 3 then
          .ok { pushWord { x with bracestart := false } with
                done := (pushWord { x with bracestart := false }).done ++ [(pushWord { x with bracestart := false }).cur],
                cur := [] }
        else .error .tooManyCommas
      else .ok (pushWord { x with bracestart := false }) := by
  unfold plain
  rw [if_neg c1]
  simp only
  rw [if_neg c2]
  have : ¬ (x.level > 0) := by omega
  rw [if_neg this, if_pos hsep]

/-- what `pushWord` does -/
theorem pushWord_spec (x : S) (x0 : x.word = [] → x.case = none) (x5 : x.level = 0) (x6 : x.esc = false)
    (x7 : x.bracestart = false) :
    fresh (pushWord x) ∧ (pushWord x).done = x.done ∧
      (∀ w ∈ (pushWord x).cur, w ∈ x.cur ∨ w = (x.word, x.case)) := by
  unfold pushWord
  by_cases hwe : x.word.isEmpty = true
  · have hw0 : x.word = [] := by simpa using hwe
    rw [if_pos hwe]
    exact ⟨⟨hw0, x0 hw0, x5, x6, x7⟩, rfl, fun w hw => Or.inl hw⟩
  · rw [if_neg hwe]
    refine ⟨⟨rfl, rfl, x5, x6, x7⟩, rfl, ?_⟩
    intro w hw
    have hw' : w ∈ x.cur ++ [(x.word, x.case)] := hw
    simp only [List.mem_append, List.mem_singleton] at hw'
    exact hw'

/-- a separator handled by `plain` leaves a fresh state; the word stored is `(x.word, x.case)` -/
theorem plain_push {x s' : S} {c : Char} (x0 : x.word = [] → x.case = none) (x5 : x.level = 0)
    (x6 : x.esc = false) (c1 : c ≠ '{') (c2 : c ≠ '}') (hsep : (c = ',' || isWs c) = true)
    (hpl : plain P x c = .ok s') :
    fresh s' ∧ (∀ sec ∈ s'.done, sec ∈ x.done ∨ ∀ w ∈ sec, w ∈ x.cur ∨ w = (x.word, x.case)) ∧
      (∀ w ∈ s'.cur, w ∈ x.cur ∨ w = (x.word, x.case)) := by
  rw [plain_sep P x c c1 c2 x5 hsep] at hpl
  obtain ⟨p1, p2, p3⟩ := pushWord_spec { x with bracestart := false } x0 x5 x6 rfl
  have p2' : (pushWord { x with bracestart := false }).done = x.done := p2
  have p3' : ∀ w ∈ (pushWord { x with bracestart := false }).cur, w ∈ x.cur ∨ w = (x.word, x.case) := p3
  by_cases hcm : c = ','
  · rw [if_pos hcm] at hpl
    by_cases hlen : (pushWord { x with bracestart := false }).done.length + 1 < 3
    · rw [if_pos hlen] at hpl
      injection hpl with hpl
      subst hpl
      obtain ⟨q1, q2, q3, q4, q5⟩ := p1
      refine ⟨⟨q1, q2, q3, q4, q5⟩, ?_, ?_⟩
      · intro sec hsec
        have hsec' : sec ∈ (pushWord { x with bracestart := false }).done ++
            [(pushWord { x with bracestart := false }).cur] := hsec
        simp only [List.mem_append, List.mem_singleton] at hsec'
        rcases hsec' with h | h
        · left; rw [p2'] at h; exact h
        · right; intro w hw; rw [h] at hw; exact p3' w hw
      · intro w hw
        have : w ∈ ([] : List Word) := hw
        simp at this
    · rw [if_neg hlen] at hpl; cases hpl
  · rw [if_neg hcm] at hpl
    injection hpl with hpl
    subst hpl
    exact ⟨p1, fun sec hsec => Or.inl (by rw [p2'] at hsec; exact hsec), p3'⟩

/-- a character that ends the word leaves a fresh state; the word stored is the word in progress
(with the backslash of a pending escape) -/
theorem step_push {s s' : S} {c : Char} (hp : pushes s c = true) (hwc : s.word = [] → s.case = none)
    (hs : stepc P s c = .ok s') :
    fresh s' ∧ (∀ sec ∈ s'.done, sec ∈ s.done ∨ ∀ w ∈ sec, w ∈ s.cur ∨ w = (s.word ++ pend s, s.case)) ∧
      (∀ w ∈ s'.cur, w ∈ s.cur ∨ w = (s.word ++ pend s, s.case)) := by
  have hlev : s.level = 0 := by
    by_cases h : s.level = 0
    · exact h
    · simp [pushes, h] at hp
  unfold stepc at hs
  by_cases he : s.esc = true
  · have hw : isWs c = true := by simpa [pushes, hlev, he] using hp
    obtain ⟨n1, n2, n3, n4⟩ := isWs_ne hw
    rw [if_pos he] at hs
    simp only at hs
    rw [if_pos hw] at hs
    have := plain_push P (x := { s with esc := false, word := s.word ++ ['\\'] }) (by simp) hlev rfl n1 n2
      (by simp [hw]) hs
    simpa [pend, he] using this
  · have he' : s.esc = false := by simpa using he
    have hsep : (c = ',' || isWs c) = true := by simpa [pushes, hlev, he'] using hp
    have hc1 : c ≠ '\\' ∧ c ≠ '{' ∧ c ≠ '}' := by
      by_cases hcm : c = ','
      · subst hcm; decide
      · have hw : isWs c = true := by simpa [hcm] using hsep
        obtain ⟨n1, n2, _, n4⟩ := isWs_ne hw
        exact ⟨n4, n1, n2⟩
    rw [if_neg he, if_neg hc1.1] at hs
    have := plain_push P hwc hlev he' hc1.2.1 hc1.2.2 hsep hs
    simpa [pend, he'] using this

theorem kpush_esc (k : K) : (kpush k).esc = k.esc := by unfold kpush; split <;> rfl

theorem kplain_esc {k k' : K} {c : Char} (h : kplain k c = .ok k') : k'.esc = k.esc := by
  unfold kplain at h
  split at h
  · injection h with h; subst h; rfl
  · split at h
    · split at h
      · cases h
      · injection h with h; subst h; rfl
    · split at h
      · injection h with h; subst h; rfl
      · split at h
        · simp only at h
          split at h
          · split at h
            · injection h with h; subst h; exact kpush_esc k
            · cases h
          · injection h with h; subst h; exact kpush_esc k
        · injection h with h; subst h; rfl

theorem esc_step {s s' : S} {c : Char} (h : stepc P s c = .ok s') :
    s'.esc = (!s.esc && decide (c = '\\')) := by
  have hp := proj_stepc P s c
  rw [h] at hp
  simp only [Except.map] at hp
  have he : (proj s').esc = s'.esc := rfl
  have he0 : (proj s).esc = s.esc := rfl
  rw [← he, ← he0]
  generalize proj s = k at hp
  generalize proj s' = k' at hp
  have hk := hp.symm
  clear hp he he0 h
  unfold kstep at hk
  by_cases hesc : k.esc = true
  · rw [if_pos hesc] at hk
    by_cases hw : isWs c = true
    · rw [if_pos hw] at hk
      have := kplain_esc hk
      rw [this, hesc]; rfl
    · rw [if_neg hw] at hk
      injection hk with hk; subst hk
      simp [hesc]
  · have hesc' : k.esc = false := by simpa using hesc
    rw [if_neg hesc] at hk
    by_cases hc : c = '\\'
    · rw [if_pos hc] at hk
      injection hk with hk; subst hk
      simp [hesc', hc]
    · rw [if_neg hc] at hk
      rw [kplain_esc hk, hesc']
      simp [hc]

/-- the invariant of the scan: stored words are fine, the word in progress replays, its trailing
backslashes come in pairs, an empty word in progress has no case yet -/
def WG (s : S) : Prop :=
  AllGood P s ∧ RI P s ∧ trailBS s.word % 2 = 0 ∧ (s.word = [] → s.case = none)

theorem fresh_init : fresh init := ⟨rfl, rfl, rfl, rfl, rfl⟩

theorem ri_fresh {s : S} (h : fresh s) : RI P s := by
  intro f hf
  obtain ⟨h1, h2, h3, h4, h5⟩ := h
  refine ⟨f, ?_, fresh_live hf h1 h2 h3 h4 h5, rfl, rfl⟩
  simp [h1, pend, h4, run]

theorem wg_init : WG P init :=
  ⟨⟨by simp [init], by simp [init]⟩, ri_fresh P fresh_init, rfl, fun _ => rfl⟩

theorem live_fields {t s : S} (h : live t = live s) :
    t.word = s.word ∧ t.case = s.case ∧ t.level = s.level ∧ t.esc = s.esc := by
  simp only [live, Prod.mk.injEq] at h
  exact ⟨h.1, h.2.1, h.2.2.1, h.2.2.2.2.2.2⟩

/-- the word in progress, if the scan were to store it now at brace level 0 -/
theorem goodW_current {s : S} (hri : RI P s) (hev : trailBS s.word % 2 = 0) (hl : s.level = 0) :
    GoodW P (s.word ++ pend s, s.case) := by
  by_cases he : s.esc = true
  · right
    show trailBS (s.word ++ pend s) % 2 = 1
    simp only [pend, he, if_true]
    rw [trailBS_snoc]; simp; omega
  · have he' : s.esc = false := by simpa using he
    left
    intro f hf
    obtain ⟨t, ht, hlive, hc, hd⟩ := hri f hf
    obtain ⟨l1, l2, l3, l4⟩ := live_fields hlive
    simp only [pend, he', Bool.false_eq_true, if_false, List.append_nil] at ht ⊢
    exact ⟨t, ht, l1, l2, by rw [l3, hl], by rw [l4, he'], hc, hd⟩

theorem wg_step {s s' : S} {c : Char} (h : WG P s) (hs : stepc P s c = .ok s') : WG P s' := by
  obtain ⟨⟨hg1, hg2⟩, hri, hev, hwc⟩ := h
  by_cases hp : pushes s c = true
  · obtain ⟨hf, hd, hc⟩ := step_push P hp hwc hs
    have hlev : s.level = 0 := by
      by_cases h : s.level = 0
      · exact h
      · simp [pushes, h] at hp
    have hnew := goodW_current P hri hev hlev
    refine ⟨⟨?_, ?_⟩, ri_fresh P hf, by rw [hf.1]; rfl, fun _ => hf.2.1⟩
    · intro sec hsec w hw
      rcases hd sec hsec with h | h
      · exact hg1 sec h w hw
      · rcases h w hw with h' | h'
        · exact hg2 w h'
        · rw [h']; exact hnew
    · intro w hw
      rcases hc w hw with h' | h'
      · exact hg2 w h'
      · rw [h']; exact hnew
  · have hp' : pushes s c = false := by simpa using hp
    have hesc := esc_step P hs
    -- sections are untouched
    obtain ⟨_, _, _, _, _, sc, sd, sw, swc⟩ := step_live P (t := s) rfl hp' hs
    refine ⟨⟨by rw [sd]; exact hg1, by rw [sc]; exact hg2⟩, ?_, ?_, swc hwc⟩
    · intro f hf
      obtain ⟨t, ht, hlive, hc, hd⟩ := hri f hf
      obtain ⟨t', ht', hl', tc, td, _, _, _, _⟩ := step_live P hlive hp' hs
      refine ⟨t', ?_, hl', by rw [tc, hc], by rw [td, hd]⟩
      rw [sw, run_append', ht]
      simp only [run, ht']
    · -- parity of the trailing backslashes
      by_cases he : s.esc = true
      · have he2 : s'.esc = false := by rw [hesc, he]; rfl
        simp only [pend, he, he2, if_true, Bool.false_eq_true, if_false, List.append_nil] at sw
        rw [sw, List.append_assoc, ← List.append_assoc, trailBS_snoc]
        by_cases hc : c = '\\'
        · rw [if_pos hc, trailBS_snoc]; simp; omega
        · rw [if_neg hc]
      · have he' : s.esc = false := by simpa using he
        by_cases hc : c = '\\'
        · have he2 : s'.esc = true := by rw [hesc, he', hc]; rfl
          simp only [pend, he', he2, if_true, Bool.false_eq_true, if_false, List.append_nil, hc] at sw
          have : s'.word = s.word := List.append_cancel_right sw
          rw [this]; exact hev
        · have he2 : s'.esc = false := by rw [hesc, he']; simp [hc]
          simp only [pend, he', he2, Bool.false_eq_true, if_false, List.append_nil] at sw
          rw [sw, trailBS_snoc, if_neg hc]

theorem wg_run (u : Str) : ∀ {s s' : S}, WG P s → run P s u = .ok s' → WG P s' := by
  induction u with
  | nil => intro s s' h hr; simp only [run] at hr; injection hr with hr; subst hr; exact h
  | cons c r ih =>
    intro s s' h hr
    simp only [run] at hr
    cases hs : stepc P s c with
    | error e => rw [hs] at hr; cases hr
    | ok s1 => rw [hs] at hr; exact ih (wg_step P h hs) hr

/-- **every word the scanner returns replays, or ends in an odd number of backslashes** -/
theorem scan_good {n : Str} {secs : List (List Word)} (h : scan P n = .ok secs) :
    ∀ sec ∈ secs, ∀ w ∈ sec, GoodW P w := by
  unfold scan at h
  cases hr : run P init n with
  | error e => rw [hr] at h; cases h
  | ok s =>
    rw [hr] at h
    obtain ⟨⟨hg1, hg2⟩, hri, hev, _⟩ := wg_run P n (wg_init P) hr
    unfold finish at h
    simp only at h
    by_cases hl : s.level > 0
    · rw [if_pos hl] at h; cases h
    · rw [if_neg hl] at h
      have hl0 : s.level = 0 := by omega
      have hnew := goodW_current P hri hev hl0
      have hword : (if s.esc = true then s.word ++ ['\\'] else s.word) = s.word ++ pend s := by
        unfold pend; split <;> simp
      rw [hword] at h
      by_cases hwe : (s.word ++ pend s).isEmpty = true
      · rw [if_pos hwe] at h
        by_cases hce : s.cur.isEmpty = true
        · rw [if_pos hce] at h
          by_cases hd : s.done.length + 1 > 1
          · rw [if_pos hd] at h; cases h
          · rw [if_neg hd] at h
            injection h with h; subst h
            intro sec hsec; simp at hsec
        · rw [if_neg hce] at h
          injection h with h; subst h
          intro sec hsec w hw
          rcases List.mem_append.mp hsec with hsec | hsec
          · exact hg1 sec hsec w hw
          · simp only [List.mem_singleton] at hsec
            subst hsec
            exact hg2 w hw
      · rw [if_neg hwe] at h
        have hne : (s.cur ++ [(s.word ++ pend s, s.case)]).isEmpty = false := isEmpty_snoc _ _
        rw [hne] at h
        simp only [Bool.false_eq_true, if_false] at h
        injection h with h; subst h
        intro sec hsec w hw
        rcases List.mem_append.mp hsec with hsec | hsec
        · exact hg1 sec hsec w hw
        · simp only [List.mem_singleton] at hsec
          subst hsec
          rcases List.mem_append.mp hw with hw | hw
          · exact hg2 w hw
          · simp only [List.mem_singleton] at hw
            rw [hw]; exact hnew

end Bib.NameP
