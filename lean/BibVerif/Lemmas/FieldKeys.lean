/-
  Helper lemmas for C17, key normalisation (fieldkeys.py).
-/
import BibVerif.FieldKeys
namespace Bib.FieldKeys
open Bib

/-- lower-casing a lower-cased character changes nothing (checked over all code points each run) -/
structure LowerIdem (P : PyChars) : Prop where
  idem : ∀ c d : Char, d ∈ P.lowerC c → P.lowerC d = [d]

theorem flatMap_self {α} (f : α → List α) : ∀ l : List α, (∀ d ∈ l, f d = [d]) → l.flatMap f = l
  | [], _ => rfl
  | a :: t, h => by
    rw [List.flatMap_cons, h a (by simp), flatMap_self f t (fun d hd => h d (by simp [hd]))]
    rfl

theorem lower_lower {P : PyChars} (hP : LowerIdem P) (s : Str) : lower P (lower P s) = lower P s := by
  unfold lower
  rw [List.flatMap_assoc]
  induction s with
  | nil => rfl
  | cons c r ih =>
    simp only [List.flatMap_cons]
    rw [ih, flatMap_self _ _ (fun d hd => hP.idem c d hd)]

/-- first occurrences: the distinct elements in the order in which they first appear -/
def firsts : List Str → List Str
  | [] => []
  | k :: r => k :: (firsts r).filter (fun x => !(x == k))

theorem mem_firsts : ∀ (ks : List Str) (k : Str), k ∈ firsts ks ↔ k ∈ ks
  | [], k => by simp [firsts]
  | a :: r, k => by
    have ih := mem_firsts r k
    simp only [firsts, List.mem_cons, List.mem_filter, ih, Bool.not_eq_true', beq_eq_false_iff_ne]
    by_cases h : k = a <;> simp [h]

theorem firsts_sublist : ∀ ks : List Str, (firsts ks).Sublist ks
  | [] => .slnil
  | a :: r => by
    simp only [firsts]
    exact List.Sublist.cons_cons _ (List.filter_sublist.trans (firsts_sublist r))

theorem firsts_nodup : ∀ ks : List Str, (firsts ks).Nodup
  | [] => by simp [firsts]
  | a :: r => by
    simp only [firsts, List.nodup_cons, List.mem_filter]
    exact ⟨by simp, List.Nodup.sublist List.filter_sublist (firsts_nodup r)⟩

theorem firsts_filter (p : Str → Bool) : ∀ ks : List Str, firsts (ks.filter p) = (firsts ks).filter p
  | [] => rfl
  | a :: r => by
    have ih := firsts_filter p r
    by_cases hp : p a = true
    · simp only [List.filter_cons, hp, if_true, firsts, ih, List.filter_filter]
      congr 1
      apply List.filter_congr
      intro x _
      exact Bool.and_comm _ _
    · have hp' : p a = false := by simpa using hp
      simp only [List.filter_cons, hp', firsts, ih, List.filter_filter, Bool.false_eq_true, if_false]
      apply List.filter_congr
      intro x _
      by_cases hx : x = a
      · subst hx; simp [hp']
      · simp [hx]

/-- `firsts` is core's `List.eraseDups` -/
theorem firsts_eq_eraseDups (ks : List Str) : firsts ks = ks.eraseDups := by
  generalize hn : ks.length = n
  induction n using Nat.strongRecOn generalizing ks with
  | _ n ih =>
    cases ks with
    | nil => simp [firsts]
    | cons a r =>
      rw [List.eraseDups_cons, firsts, ← firsts_filter]
      congr 1
      have hlen : (r.filter fun b => !(b == a)).length < n := by
        have := List.length_filter_le (fun b => !(b == a)) r
        simp only [List.length_cons] at hn
        omega
      exact ih _ hlen _ rfl

def keys (l : List Field) : List Str := l.map (·.key)

/-- the key-level shadow of the loop: insert a key at the end unless it is already present -/
def addKey (acc : List Str) (k : Str) : List Str := if k ∈ acc then acc else acc ++ [k]

theorem keys_dictSet : ∀ (d : List Field) (f : Field), keys (dictSet d f) = addKey (keys d) f.key
  | [], f => by simp [dictSet, keys, addKey]
  | g :: r, f => by
    have ih := keys_dictSet r f
    unfold dictSet
    by_cases h : g.key = f.key
    · simp [h, keys, addKey]
    · have h' : ¬ f.key = g.key := fun e => h e.symm
      have h2 : keys (g :: dictSet r f) = g.key :: addKey (keys r) f.key := by
        rw [← ih]; rfl
      simp only [h, if_false]
      rw [h2]
      unfold addKey
      simp only [keys, List.map_cons, List.mem_cons, h', false_or]
      split
      · rename_i hm; simp [hm]
      · rename_i hm; simp [hm]

theorem foldl_addKey : ∀ (ks acc : List Str),
    ks.foldl addKey acc = acc ++ (firsts ks).filter (fun k => !decide (k ∈ acc))
  | [], acc => by simp [firsts]
  | k :: r, acc => by
    rw [List.foldl_cons, foldl_addKey r]
    unfold addKey
    by_cases hk : k ∈ acc
    · simp only [hk, if_true, firsts, List.filter_cons, decide_true, Bool.not_true, Bool.false_eq_true, if_false,
        List.filter_filter]
      congr 1
      apply List.filter_congr
      intro x _
      by_cases hx : x = k
      · subst hx; simp [hk]
      · simp [hx]
    · simp only [hk, if_false, firsts, List.filter_cons, decide_false, Bool.not_false, if_true, List.filter_filter,
        List.append_assoc, List.singleton_append]
      congr 2
      apply List.filter_congr
      intro x _
      by_cases hx : x = k
      · subst hx; simp
      · simp [hx, List.mem_append]

theorem foldl_addKey_nil (ks : List Str) : ks.foldl addKey [] = firsts ks := by
  rw [foldl_addKey]
  simp

theorem firsts_concat (ks : List Str) (k : Str) : firsts (ks ++ [k]) = addKey (firsts ks) k := by
  rw [← foldl_addKey_nil, List.foldl_append, foldl_addKey_nil]
  rfl

variable (P : PyChars)

/-- the lower-cased key of a field -/
def lk (f : Field) : Str := lower P f.key

theorem keys_foldl : ∀ (fs : List Field) (d : List Field),
    keys (fs.foldl (fun d f => dictSet d (lowerKey P f)) d) = (fs.map (lk P)).foldl addKey (keys d)
  | [], d => rfl
  | f :: r, d => by
    rw [List.foldl_cons, keys_foldl r, List.map_cons, List.foldl_cons, keys_dictSet]
    rfl

theorem keys_normalize (fs : List Field) : keys (normalize P fs) = firsts (fs.map (lk P)) := by
  unfold normalize
  rw [keys_foldl, foldl_addKey]
  simp [keys]

theorem mem_dictSet : ∀ (d : List Field) (x g : Field), (keys d).Nodup → g ∈ dictSet d x →
    g = x ∨ (g ∈ d ∧ g.key ≠ x.key)
  | [], x, g, _, h => by simp [dictSet] at h; exact Or.inl h
  | a :: r, x, g, hn, h => by
    simp only [keys, List.map_cons, List.nodup_cons, List.mem_map, not_exists, not_and] at hn
    unfold dictSet at h
    by_cases ha : a.key = x.key
    · simp only [ha, if_true, List.mem_cons] at h
      rcases h with h | h
      · exact Or.inl h
      · right
        refine ⟨by simp [h], ?_⟩
        intro hk
        exact hn.1 g h (by rw [hk, ha])
    · simp only [ha, if_false, List.mem_cons] at h
      rcases h with h | h
      · right; subst h; exact ⟨by simp, ha⟩
      · rcases mem_dictSet r x g hn.2 h with h' | ⟨h1, h2⟩
        · exact Or.inl h'
        · exact Or.inr ⟨by simp [h1], h2⟩

/-- what the loop maintains: every field in the dict is the lower-keyed LAST field seen with that key -/
def LastInv (d seen : List Field) : Prop :=
  ∀ g ∈ d, ∃ f, (seen.filter (fun h => lk P h == g.key)).getLast? = some f ∧ g = lowerKey P f

theorem lastInv_foldl : ∀ (fs seen d : List Field), keys d = firsts (seen.map (lk P)) → LastInv P d seen →
    LastInv P (fs.foldl (fun d f => dictSet d (lowerKey P f)) d) (seen ++ fs)
  | [], seen, d, _, h => by simpa using h
  | f :: r, seen, d, hk, h => by
    rw [List.foldl_cons]
    have hk' : keys (dictSet d (lowerKey P f)) = firsts ((seen ++ [f]).map (lk P)) := by
      rw [keys_dictSet, hk, List.map_append, List.map_cons, List.map_nil, firsts_concat]
      rfl
    have hinv : LastInv P (dictSet d (lowerKey P f)) (seen ++ [f]) := by
      intro g hg
      have hnd : (keys d).Nodup := by rw [hk]; exact firsts_nodup _
      rcases mem_dictSet d (lowerKey P f) g hnd hg with rfl | ⟨hgd, hne⟩
      · refine ⟨f, ?_, rfl⟩
        rw [List.filter_append]
        have : ([f].filter fun h => lk P h == (lowerKey P f).key) = [f] := by simp [lowerKey, lk]
        rw [this, List.getLast?_concat]
      · obtain ⟨f0, hf0, hg0⟩ := h g hgd
        refine ⟨f0, ?_, hg0⟩
        rw [List.filter_append]
        have : ([f].filter fun h => lk P h == g.key) = [] := by
          have hne' : ¬ lk P f = g.key := fun e => hne (by simp [lowerKey, lk] at e ⊢; exact e.symm)
          simp [hne']
        rw [this, List.append_nil]
        exact hf0
    have := lastInv_foldl r (seen ++ [f]) _ hk' hinv
    simpa [List.append_assoc] using this

theorem lastInv_normalize (fs : List Field) : LastInv P (normalize P fs) fs := by
  have := lastInv_foldl P fs [] [] (by simp [keys, firsts]) (by intro g hg; cases hg)
  simpa [normalize] using this

theorem dictSet_new : ∀ (d : List Field) (f : Field), f.key ∉ keys d → dictSet d f = d ++ [f]
  | [], f, _ => rfl
  | g :: r, f, h => by
    simp only [keys, List.map_cons, List.mem_cons, not_or] at h
    unfold dictSet
    have hg : ¬ g.key = f.key := fun e => h.1 e.symm
    simp only [hg, if_false]
    rw [dictSet_new r f h.2]
    rfl

/-- on fields whose keys are already lower-case and pairwise distinct the loop just copies -/
theorem foldl_copy : ∀ (l acc : List Field), (keys (acc ++ l)).Nodup → (∀ g ∈ l, lowerKey P g = g) →
    l.foldl (fun d f => dictSet d (lowerKey P f)) acc = acc ++ l
  | [], acc, _, _ => by simp
  | g :: r, acc, hn, hl => by
    rw [List.foldl_cons, hl g (by simp)]
    have hnot : g.key ∉ keys acc := by
      simp only [keys, List.map_append, List.map_cons] at hn
      have := (List.nodup_append.mp hn).2.2
      intro hm
      exact this g.key hm g.key (by simp) rfl
    rw [dictSet_new acc g hnot]
    have := foldl_copy r (acc ++ [g]) (by simpa [List.append_assoc] using hn) (fun x hx => hl x (by simp [hx]))
    simpa [List.append_assoc] using this

end Bib.FieldKeys
