/-
  C05 (grammar level): lexing and white-space trimming.

  * a contiguous piece of a canonical token list that contains no block start is canonical by itself,
    hence the lexing of its own flattening (`canon_prefix`, `canon_after_mark`, `relex_piece`);
  * lexing `lead ++ m ++ trail` with white-space `lead` / `trail` differs from lexing `m` only by plain
    tokens at both ends, so every token predicate that is insensitive to that (`TrimClosed`) transfers
    from the tokens of a source piece to the tokens of its stripped text (`trim_lex`).
-/
import BibVerif.Lemmas.PrintParseKey
import BibVerif.Lemmas.ReparseLex
import BibVerif.Lemmas.Scan
import BibVerif.Grammar
namespace Bib.PrintParse
open Bib

variable {P : PyChars}

/-! ### the `@type` look-ahead on shorter / longer texts -/

theorem atMatch_none_of_append (x y : Str) (h : atMatch P (x ++ y) = none) : atMatch P x = none := by
  cases hx : atMatch P x with
  | none => rfl
  | some p =>
    obtain ⟨lit, r2⟩ := p
    rw [Reparse.atMatch_append_some P x lit r2 y hx] at h; cases h

/-- one more character at the very end that is a blank, or neither `\w` nor `{` -/
theorem atMatch_none_snoc (hP : WordOK2 P) (v : Str) (c : Char) (hv : atMatch P v = none)
    (hw : P.isWord c = false) (hc : c ≠ '{') : atMatch P (v ++ [c]) = none := by
  rw [atMatch_eq] at hv ⊢
  have hd1 : (v ++ [c]).dropWhile P.isWord = v.dropWhile P.isWord ++ [c] :=
    dropWhile_append_stop P.isWord v c [] hw
  rw [hd1]
  by_cases hb : isBlank c = true
  · have hd3 := dropWhile_append_all isBlank (v.dropWhile P.isWord) [c]
      (by intro x hx; simp at hx; subst hx; exact hb)
    rw [hd3]
    by_cases hnil : (v.dropWhile P.isWord).dropWhile isBlank = []
    · simp [hnil]
    · simp only [hnil, ↓reduceIte]
      cases hr : (v.dropWhile P.isWord).dropWhile isBlank with
      | nil => exact absurd hr hnil
      | cons y ys =>
        rw [hr] at hv
        by_cases hy : y = '{'
        · subst hy; simp at hv
        · simp [hy]
  · have hb' : isBlank c = false := by simpa using hb
    rw [dropWhile_append_stop isBlank _ c [] hb']
    cases hr : (v.dropWhile P.isWord).dropWhile isBlank with
    | nil => simp [hc]
    | cons y ys =>
      rw [hr] at hv
      by_cases hy : y = '{'
      · subst hy; simp at hv
      · simp [hy]

/-! ### appending one harmless character -/

/-- the tokens with `c` appended to the last token if it is text, as a new text token otherwise -/
def snocText : List Tok → Char → List Tok
  | [], c => [.text [c]]
  | [.text cs], c => [.text (cs ++ [c])]
  | [.mark k l], c => [.mark k l, .text [c]]
  | t :: t2 :: r, c => t :: snocText (t2 :: r) c

theorem snocText_cons_mark (k : Kind) (l : Str) (T : List Tok) (c : Char) :
    snocText (.mark k l :: T) c = .mark k l :: snocText T c := by
  cases T <;> rfl

theorem snocText_pushText (x : Char) (T : List Tok) (c : Char) :
    snocText (pushText x T) c = pushText x (snocText T c) := by
  match T with
  | [] => rfl
  | [.text cs] => rfl
  | [.mark k l] => rfl
  | .text cs :: t2 :: r => simp [pushText, snocText]
  | .mark k l :: t2 :: r => simp [pushText, snocText]

/-- a character that may be appended without changing how the text before it is lexed -/
structure Harmless (P : PyChars) (c : Char) : Prop where
  simple : simpleChar c = true
  word : P.isWord c = false

theorem lex_snoc_harmless (hP : WordOK2 P) (c : Char) (hc : Harmless P c) (b : Bool) (y : Str) :
    lexFrom P b (y ++ [c]) = snocText (lexFrom P b y) c := by
  obtain ⟨hd, hat, hbs⟩ := simpleChar_spec hc.simple
  have hbrace : c ≠ '{' := by intro e; subst e; simp [delimKind] at hd
  fun_induction lexFrom P b y with
  | case1 b =>
    have hk : (if (b && decide (c ≠ '\n')) = true then none else delimKind c) = none := by
      rw [hd]; simp
    rw [List.nil_append, lexFrom_text_step P b c [] hk (fun e => absurd e hat)]
    simp [lexFrom, pushText, snocText]
  | case2 b d rest k hk ih =>
    rw [List.cons_append, lexFrom_mark_step P b d k _ hk, ih, snocText_cons_mark]
  | case3 b rest lit r2 h hk ih =>
    have := Reparse.atMatch_append_some P rest lit r2 [c] h
    rw [List.cons_append, lexFrom_at_step P b _ _ _ this, ih, snocText_cons_mark]
  | case4 b rest h hk ih =>
    have : atMatch P (rest ++ [c]) = none := atMatch_none_snoc hP rest c h hc.word hbrace
    rw [List.cons_append, lexFrom_text_step P b '@' _ hk (fun _ => this)]
    simp only [show decide ('@' = '\\') = false from by decide]
    rw [ih, snocText_pushText]
  | case5 b d rest hk hd' ih =>
    rw [List.cons_append, lexFrom_text_step P b d _ hk (fun e => absurd e hd'), ih, snocText_pushText]

/-- a newline after anything is a mark of its own -/
theorem lex_append_nl (hw : P.isWord '\n' = false) (r : Str) (b : Bool) (x : Str) :
    lexFrom P b (x ++ '\n' :: r) = lexFrom P b x ++ .mark .nl ['\n'] :: lexFrom P false r := by
  have hnl : ∀ b', lexFrom P b' ('\n' :: r) = .mark .nl ['\n'] :: lexFrom P false r := by
    intro b'
    exact lexFrom_mark_step P b' '\n' .nl r (by cases b' <;> simp [delimKind])
  have hys : ∀ b', startsWithMark (lexFrom P b' ('\n' :: r)) := by intro b'; rw [hnl]; trivial
  fun_induction lexFrom P b x with
  | case1 b => simp [hnl, lexFrom]
  | case2 b c rest k hk ih =>
    rw [List.cons_append, lexFrom_mark_step P b c k _ hk, ih]; rfl
  | case3 b rest lit r2 h hk ih =>
    have := Reparse.atMatch_append_some P rest lit r2 ('\n' :: r) h
    rw [List.cons_append, lexFrom_at_step P b _ _ _ this, ih]; rfl
  | case4 b rest h hk ih =>
    have : atMatch P (rest ++ '\n' :: r) = none :=
      Reparse.atMatch_append_none P rest '\n' r h hw (by decide) (by decide)
    rw [List.cons_append, lexFrom_text_step P b '@' _ hk (fun _ => this)]
    simp only [show decide ('@' = '\\') = false from by decide]
    rw [ih, ← hnl false, pushText_append _ _ _ (hys false)]
  | case5 b c rest hk hc ih =>
    rw [List.cons_append, lexFrom_text_step P b c _ hk (fun h => absurd h hc), ih, ← hnl false,
      pushText_append _ _ _ (hys false)]

/-! ### token predicates that do not see white space at the ends -/

structure TrimClosed (Q : List Tok → Prop) : Prop where
  consPlain : ∀ t ts, isPlainTok t = true → Q (t :: ts) → Q ts
  snocPlain : ∀ ts t, isPlainTok t = true → Q (ts ++ [t]) → Q ts
  /-- the content of a text token does not matter -/
  textAny : ∀ A a a' B, Q (A ++ .text a :: B) → Q (A ++ .text a' :: B)

theorem TrimClosed.unpush {Q : List Tok → Prop} (hQ : TrimClosed Q) (c : Char) (T : List Tok)
    (h : Q (pushText c T)) : Q T := by
  match T, h with
  | [], h => exact hQ.consPlain _ _ rfl h
  | .text cs :: r, h =>
    have := hQ.textAny [] (c :: cs) cs r (by simpa [pushText] using h)
    simpa using this
  | .mark k l :: r, h => exact hQ.consPlain _ _ rfl (by simpa [pushText] using h)

theorem snocText_shape (T : List Tok) (c : Char) :
    (∃ A cs, T = A ++ [.text cs] ∧ snocText T c = A ++ [.text (cs ++ [c])]) ∨ snocText T c = T ++ [.text [c]] := by
  match T with
  | [] => exact Or.inr rfl
  | [.text cs] => exact Or.inl ⟨[], cs, rfl, rfl⟩
  | [.mark k l] => exact Or.inr rfl
  | t :: t2 :: r =>
    rcases snocText_shape (t2 :: r) c with ⟨A, cs, h1, h2⟩ | h
    · exact Or.inl ⟨t :: A, cs, by rw [h1]; rfl, by simp [snocText, h2]⟩
    · exact Or.inr (by simp [snocText, h])

theorem TrimClosed.unsnoc {Q : List Tok → Prop} (hQ : TrimClosed Q) (c : Char) (T : List Tok)
    (h : Q (snocText T c)) : Q T := by
  rcases snocText_shape T c with ⟨A, cs, h1, h2⟩ | h2
  · rw [h2] at h; rw [h1]; exact hQ.textAny A _ cs [] h
  · rw [h2] at h; exact hQ.snocPlain T _ rfl h

/-- what the trimming needs to know about white space: a white-space character is a newline or a
harmless text character -/
def SpaceHarmless (P : PyChars) : Prop :=
  ∀ c, P.isSpace c = true → c = '\n' ∨ Harmless P c

theorem trim_trail {Q : List Tok → Prop} (hQ : TrimClosed Q) (hP : WordOK2 P) (hs : SpaceHarmless P)
    (hnl : P.isWord '\n' = false) (trail : Str) (htr : allSpace P trail) :
    ∀ (b : Bool) (y : Str), Q (lexFrom P b (y ++ trail)) → Q (lexFrom P b y) := by
  induction trail with
  | nil => intro b y h; simpa using h
  | cons c r ih =>
    intro b y h
    have h1 := ih (fun x hx => htr x (List.mem_cons_of_mem _ hx)) b (y ++ [c]) (by simpa using h)
    rcases hs c (htr c List.mem_cons_self) with rfl | hc
    · rw [lex_append_nl hnl [] b y] at h1
      have : lexFrom P b y ++ .mark .nl ['\n'] :: lexFrom P false [] = lexFrom P b y ++ [.mark .nl ['\n']] := by
        simp [lexFrom]
      rw [this] at h1
      exact hQ.snocPlain _ _ rfl h1
    · rw [lex_snoc_harmless hP c hc] at h1
      exact hQ.unsnoc c _ h1

theorem trim_lead {Q : List Tok → Prop} (hQ : TrimClosed Q) (hs : SpaceHarmless P) (lead : Str)
    (hl : allSpace P lead) (y : Str) : Q (lexFrom P false (lead ++ y)) → Q (lexFrom P false y) := by
  induction lead with
  | nil => intro h; simpa using h
  | cons c r ih =>
    intro h
    apply ih (fun x hx => hl x (List.mem_cons_of_mem _ hx))
    rcases hs c (hl c List.mem_cons_self) with rfl | hc
    · rw [List.cons_append, lex_delim P '\n' .nl _ (by decide)] at h
      exact hQ.consPlain _ _ rfl h
    · obtain ⟨hd, hat, hbs⟩ := simpleChar_spec hc.simple
      have hk : (if (false && decide (c ≠ '\n')) = true then none else delimKind c) = none := by simpa using hd
      rw [List.cons_append, lexFrom_text_step P false c _ hk (fun e => absurd e hat)] at h
      have hb : decide (c = '\\') = false := by simpa using hbs
      rw [hb] at h
      exact hQ.unpush c _ h

/-- **trimming**: a `TrimClosed` property of the tokens of a text holds of the tokens of its `strip` -/
theorem trim_lex {Q : List Tok → Prop} (hQ : TrimClosed Q) (hP : WordOK2 P) (hs : SpaceHarmless P)
    (hnl : P.isWord '\n' = false) (s : Str) (h : Q (lexFrom P false s)) : Q (lexFrom P false (strip P s)) := by
  obtain ⟨lead, trail, hl, ht, hdec⟩ := strip_decomp P s
  rw [hdec, List.append_assoc] at h
  exact trim_trail hQ hP hs hnl trail ht false _ (trim_lead hQ hs lead hl _ h)

/-! ### pieces of a canonical token list -/

def NoAtTok (ts : List Tok) : Prop := ∀ t ∈ ts, isAtTok t = false

theorem cleanText_shorten (b : Bool) (cs x y : Str) (h : CleanText P b cs (x ++ y)) : CleanText P b cs x := by
  intro u c v huv
  have := h u c v huv
  refine ⟨this.1, fun hc => ?_⟩
  have h2 := this.2 hc
  rw [← List.append_assoc] at h2
  exact atMatch_none_of_append _ _ h2

theorem startsWithMark_prefix (a c : List Tok) (h : startsWithMark (a ++ c)) : startsWithMark a := by
  cases a with
  | nil => trivial
  | cons t r => cases t <;> simpa [startsWithMark] using h

/-- inversion of `Canon` on a non-empty list -/
theorem canon_cons_inv {b : Bool} {t : Tok} {rest : List Tok} (h : Canon P b (t :: rest)) :
    (∃ k l, t = .mark k l ∧ Canon P false rest ∧
      (isAtTok t = false → ∃ ch, l = [ch] ∧ delimKind ch = some k ∧ (b = false ∨ ch = '\n'))) ∨
    (∃ cs, t = .text cs ∧ cs ≠ [] ∧ CleanText P b cs (flatten rest) ∧ startsWithMark rest ∧
      Canon P (lastIsBS b cs) rest) := by
  cases h with
  | delim _ ch k ts hk hb hc => exact Or.inl ⟨k, [ch], rfl, hc, fun _ => ⟨ch, rfl, hk, hb⟩⟩
  | atm _ w bl ts hw hbl hc => exact Or.inl ⟨_, _, rfl, hc, fun h => by simp [isAtTok] at h⟩
  | text _ cs ts hcs hclean hm hc => exact Or.inr ⟨cs, rfl, hcs, hclean, hm, hc⟩

/-- a prefix without block start of a canonical list is canonical -/
theorem canon_prefix (a : List Tok) : ∀ (b : Bool) (c : List Tok), NoAtTok a → Canon P b (a ++ c) → Canon P b a := by
  induction a with
  | nil => intro b c _ _; exact Canon.nil b
  | cons t a ih =>
    intro b c hna h
    have hna' : NoAtTok a := fun x hx => hna x (List.mem_cons_of_mem _ hx)
    rcases canon_cons_inv (rest := a ++ c) h with ⟨k, l, rfl, hc, hd⟩ | ⟨cs, rfl, hcs, hclean, hm, hc⟩
    · obtain ⟨ch, rfl, hk, hb⟩ := hd (hna _ List.mem_cons_self)
      exact Canon.delim b ch k a hk hb (ih false c hna' hc)
    · refine Canon.text b cs a hcs ?_ (startsWithMark_prefix a c hm) (ih _ c hna' hc)
      rw [flatten_append] at hclean
      exact cleanText_shorten b cs _ _ hclean

/-- what follows a mark in a canonical list is canonical with the look-behind flag off -/
theorem canon_after_mark (a : List Tok) : ∀ (b : Bool) (k : Kind) (l : Str) (c : List Tok),
    Canon P b (a ++ .mark k l :: c) → Canon P false c := by
  induction a with
  | nil =>
    intro b k l c h
    rcases canon_cons_inv (rest := c) h with ⟨k', l', _, hc, _⟩ | ⟨cs, h0, _⟩
    · exact hc
    · cases h0
  | cons t a ih =>
    intro b k l c h
    rcases canon_cons_inv (rest := a ++ .mark k l :: c) h with ⟨k', l', _, hc, _⟩ | ⟨cs, _, _, _, _, hc⟩
    · exact ih false k l c hc
    · exact ih _ k l c hc

/-- **a piece of a canonical list between a mark and anything, without block start, is the lexing of
its own flattening** -/
theorem relex_piece (hP : WordOK2 P) (b : Bool) (pre : List Tok) (k : Kind) (l : Str) (ts post : List Tok)
    (hna : NoAtTok ts) (h : Canon P b (pre ++ .mark k l :: (ts ++ post))) :
    lexFrom P false (flatten ts) = ts :=
  relex P hP (canon_prefix ts false post hna (canon_after_mark pre b k l _ h))

end Bib.PrintParse
